Require Import ExtrOcamlBasic.
Require Import Coq.Strings.String.
Require Import Base.Bytes Gen.TextTab Text.Escape Text.Codepage.
Extraction Language OCaml.
Definition x_len (l : list N) : nat := length l.
Definition x_res (b : bool) : res N := if b then Ok 0%N else if b then Err else Panic.
Extraction "model.ml" x_len x_res escape unescape strip to_lossy_bytes to_lossy_string gen_codepage_letters lead gen_propagate_letter gen_default_codepage.
