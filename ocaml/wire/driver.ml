(* wire group: packet layouts, customs, whole-frame codec *)
let mode_of s = if s = "C" then Compressed else Uncompressed
let show_code (c, b) = match int_of_n c with 0 -> "ok:" ^ hex_of_bytes b | 1 -> "dec:E" | 2 -> "dec:P" | 3 -> "enc:E" | _ -> "enc:P"
let handle (toks : Stdlib.String.t list) : Stdlib.String.t =
  match toks with
  | ["rt"; m; h] ->
      let (c, b) = x_rt (mode_of m) (bytes_of_hex h) in
      (match int_of_n c with 0 -> "ok:" ^ hex_of_bytes b | 1 -> "dec:E" | 2 -> "dec:P" | 3 -> "enc:E" | _ -> "enc:P")
  | ["cls"; m; h] ->
      let (c, n) = x_cls (mode_of m) (bytes_of_hex h) in
      (match int_of_n c with 0 -> "need 0" | 1 -> Printf.sprintf "got %d" (int_of_nat n) | 2 -> Printf.sprintf "bad %d" (int_of_nat n) | 3 -> "frameerr 0" | _ -> "panic 0")
  | ["vecrep"; m; h; k] -> show_code (x_vecrep (mode_of m) (bytes_of_hex h) (nat_of_int (int_of_string k)))
  | ["settext"; m; h; i; t] -> show_code (x_settext (mode_of m) (bytes_of_hex h) (nat_of_int (int_of_string i)) (bytes_of_hex t))
  | ["tread"; h] -> (match x_tread (bytes_of_hex h) with Some c -> Printf.sprintf "T %s %d" (hex_of_bytes c) (int_of_n (x_tflags (bytes_of_hex h))) | None -> "E")
  | ["rldec"; b] -> let (t, n) = x_rldec (n_of_int (int_of_string b)) in Printf.sprintf "%d %d" (int_of_n t) (int_of_n n)
  | ["rlenc"; t; n] -> string_of_int (int_of_n (x_rlenc (n_of_int (int_of_string t)) (n_of_int (int_of_string n))))
  | _ -> "?bad-op"
let () = main handle
