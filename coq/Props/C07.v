(* Props/C07.v — keep-alive requests are answered exactly once, and only they are. *)
Require Import Base.Bytes Net.Frame Net.FrameProofs Net.Framed Net.FramedProofs Net.Concrete Net.ConvProofs Net.Async Net.AsyncProofs Net.AsyncConvProofs.
Local Open Scope N_scope.

(* per decoded packet: the outgoing trace is either [pong; packet], [packet] or a version
   rejection - never two writes, never a write after the return *)
Theorem c07_at_most_one_reply_written_first :
  forall packet ver_of is_keepalive version verify pong (p : packet),
  deliver packet ver_of is_keepalive version verify pong p = [Wrote pong; Ret (RPacket p)] \/
  deliver packet ver_of is_keepalive version verify pong p = [Ret (RPacket p)] \/
  exists v, deliver packet ver_of is_keepalive version verify pong p = [Ret (RBadVersion v)].
Proof. exact deliver_writes_at_most_one_pong_first. Qed.

(* a reply is written iff the packet is a keep-alive (and was not rejected by the gate) *)
Theorem c07_reply_iff_keepalive :
  forall packet ver_of is_keepalive version verify pong (p : packet),
  In (Wrote pong) (deliver packet ver_of is_keepalive version verify pong p) <->
  is_keepalive p = true /\ (verify = false \/ ver_of p = None \/ ver_of p = Some version).
Proof. exact deliver_pong_iff. Qed.

(* whole histories: the interleaved trace of writes and returned results of a session is the
   concatenation of the per-frame traces, for every segmentation (same theorem as C05, whose
   statement carries the Wrote events) *)
Theorem c07_history_trace :
  forall (packet : Type) (parse : bytes -> res packet) (ver_of : packet -> option N)
         (is_keepalive : packet -> bool) (version : N) (m : mode) (verify : bool) (pong : bytes),
  (forall b, parse b <> Panic) ->
  forall fuel fs tr buf,
    Forall (wf_frame m) fs -> Forall ev_ok tr -> buf ++ data_of tr = concat fs ->
    (length fs + length tr < fuel)%nat ->
    filter (keep packet) (session packet parse ver_of is_keepalive version m verify pong fuel buf (tr ++ [Eof]))
      = concat (map (expected_frame packet parse ver_of is_keepalive version verify pong) fs) ++ [Ret RDisconnected].
Proof. intros. eapply proj1. apply session_frames; eassumption. Qed.

(* the reply is the TINY_NONE frame of the connection's mode *)
Theorem c07_pong_frames : pong_frame Compressed = [1; 3; 0; 0] /\ pong_frame Uncompressed = [4; 3; 0; 0].
Proof. vm_compute. auto. Qed.

(* conversations: the caller's write() calls (handshake() included: it is a write of the ISI) between its
   read() calls do not change the keep-alive replies: what the reads of a conversation do is
   the session of that many reads on the same transport — the connection has no state a write touches *)
Theorem c07_caller_writes_do_not_matter :
  forall (packet : Type) (parse : bytes -> res packet) (ver_of : packet -> option N)
         (is_keepalive : packet -> bool) (version : N) (m : mode) (verify : bool) (pong : bytes),
  forall ops buf tr,
    map snd (filter (from_read packet) (conv packet parse ver_of is_keepalive version m verify pong ops buf tr))
    = session packet parse ver_of is_keepalive version m verify pong (reads ops) buf tr.
Proof. exact conv_reads. Qed.

(* and on the tokio connection under dropped read() futures and caller writes in between (any schedule):
   a keep-alive is returned only after its whole reply is on the wire, reply bytes are never written for
   anything else, and a write() that finds a reply outstanding completes it before sending its own frame
   (conv_ok: Net/AsyncConvProofs.v) *)
Theorem c07_replies_whole_under_cancellation_and_writes :
  forall (packet : Type) (parse : bytes -> res packet) (ver_of : packet -> option N)
         (is_keepalive : packet -> bool) (version : N) (m : mode) (verify : bool) (pong : bytes),
  forall fuel c s rs ws cancels wsched acc done,
    forallb no_fail ws = true ->
    Inv packet parse ver_of is_keepalive version m verify pong c s ->
    WInv packet is_keepalive pong s (done ++ acc) ->
    conv_ok packet is_keepalive pong done (aconv packet parse ver_of is_keepalive version m verify pong fuel c s rs ws cancels wsched acc).
Proof. exact aconv_ok. Qed.

(* the connection structs of the source have exactly the fields the models carry as state (regenerated field
   names): receive buffer + verification flag; the tokio one also the outstanding reply and its packet *)
Theorem c07_model_state_is_the_struct : state_tied = true.
Proof. vm_compute. reflexivity. Qed.

(* blocking connection, write half FAILING inside the keep-alive reply (after any number of its bytes, with any error): the
   keep-alive is handed over (WOk) only when the whole reply has reached the transport; after a failure what reached it is a
   strict prefix of the reply and the failure is what the caller gets instead of the packet *)
Theorem c07_reply_whole_or_the_error_is_returned : forall pong ws d r ws',
  reply_then_return pong ws = (d, r, ws') ->
  (r = WOk -> d = pong) /\ (forall e, r = WErr e -> exists rest, pong = d ++ rest /\ rest <> []).
Proof. exact reply_whole_or_error. Qed.

(* the parked keep-alive reply is CONNECTION state: whichever future does the flushing - a read() or the caller's write(), run to the
   end or dropped at a not-ready poll - what it wrote followed by what is still parked is the reply, and nothing is left parked
   exactly when the flush completed *)
Theorem c07_parked_reply_is_conserved : forall ws pw r pw' ws' w,
  flush pw ws = (r, pw', ws', w) -> pw = w ++ pw' /\ (r = FDone -> pw' = []).
Proof. exact flush_conserve. Qed.
