(* Spec/Defs.v — the vocabulary in which the InSim v9 / InSim-Relay specification is transcribed
   (Spec/InSimV9.v), and the decidable conformance check of a generated wire layout against a
   transcribed struct.  The check returns the list of problems found (for diagnosis); a layout
   conforms when the list is empty.  No proofs here. *)
Require Import Coq.Strings.String Coq.Strings.Ascii.
Require Import Base.Bytes Wire.Layout.
Local Open Scope string_scope.
Local Open Scope N_scope.

(* Asserted = the transcriber is sure of the entry and it creates an obligation;
   Unasserted = recorded for the reader only (widths still count, so that later offsets are right) *)
Inductive tag := Asserted | Unasserted.

Inductive sk :=
| SNum (w : nat)                   (* byte / word / unsigned / int / short / float / char: w bytes, little-endian *)
| SSpare (n : nat)                 (* Zero / Sp0..Sp3 / Spare: n bytes that must be zero *)
| SText (n : nat)                  (* char Name[n] *)
| SEnum (tbl : string)             (* byte holding a value of the named enumeration *)
| SFlags (w : nat) (tbl : string)  (* w-byte little-endian set of the named bit flags *)
| STime (w : nat) (unit_ms : N)    (* w-byte little-endian time in units of unit_ms milliseconds *)
| SCount                           (* byte: number of elements of the trailing array *)
| SBool                            (* byte holding 0 or 1 *)
| SOpaque (w : nat).               (* w bytes whose content is the subject of another property *)

(* sf_code: the leaf name used by the implementation when it is not the specification's name (normalised) *)
Record sfield := mkSF { sf_name : string; sf_code : string; sf_kind : sk; sf_tag : tag }.
Inductive sitem :=
| SF (f : sfield)
| SRep (name code : string) (n : nat) (elt : list sfield)   (* Name[n] of a struct (or of a scalar: one field named "") *)
| SSub (name code : string) (elt : list sfield).            (* an embedded struct *)
Inductive stail :=
| STNone
| STArray (elt : list sfield) (maxn padm padk : nat)   (* Info[NumX]; (n mod padm) * padk bytes of padding follow *)
| STText (maxlen align : nat)                          (* text of variable length, a multiple of align, up to maxlen *)
| STWords (maxn : nat).                                (* unsigned X[NumX] *)
Record sstruct := mkSS {
  ss_name : string;       (* IS_xxx *)
  ss_code : string;       (* Packet variant in the implementation *)
  ss_type : N;            (* ISP_xxx / IRP_xxx *)
  ss_base : nat;          (* documented Size of the part before the variable tail, in bytes *)
  ss_items : list sitem;  (* the fields after Size and Type, starting with ReqI *)
  ss_tail : stail }.

(* named tables: (name, value, reserved?)  reserved = listed by the specification as spare / unused *)
(* se_named: the specification gives this identifier (so the name is an obligation), not just a number and a comment *)
Record sentry := mkSE { se_name : string; se_code : string; se_val : N; se_reserved : bool; se_tag : tag; se_named : bool }.
Record stable := mkST { st_name : string; st_prefix : string; st_entries : list sentry }.

(* ---------------- names ---------------- *)
Definition lower (c : ascii) : ascii :=
  let n := nat_of_ascii c in if (Nat.leb 65 n && Nat.leb n 90)%bool then ascii_of_nat (n + 32) else c.
Definition alnum (c : ascii) : bool :=
  let n := nat_of_ascii c in
  ((Nat.leb 48 n && Nat.leb n 57) || (Nat.leb 65 n && Nat.leb n 90) || (Nat.leb 97 n && Nat.leb n 122))%bool.
Fixpoint norm (s : string) : string :=
  match s with
  | EmptyString => EmptyString
  | String c t => if alnum c then String (lower c) (norm t) else norm t
  end.
Definition digit (n : nat) : string := String (ascii_of_nat (48 + n)) EmptyString.
Definition dec2 (n : nat) : string :=
  if Nat.ltb n 10 then digit n else append (digit (Nat.div n 10)) (digit (Nat.modulo n 10)).
Definition seqn (n : nat) : list nat := seq 0 n.
Definition code_of (f : sfield) : string := if String.eqb (sf_code f) "" then sf_name f else sf_code f.
Definition pick (a b : string) : string := if String.eqb b "" then a else b.

(* flat list of (normalised implementation path, kind, tag, specification path) *)
Definition flat := (string * sk * tag * string)%type.
Definition flat_field (prefix sprefix : string) (f : sfield) : flat :=
  (norm (append prefix (code_of f)), sf_kind f, sf_tag f, append sprefix (sf_name f)).
Definition flatten_item (i : sitem) : list flat :=
  match i with
  | SF f => [flat_field "" "" f]
  | SRep name code n elt =>
      flat_map (fun k => map (flat_field (append (pick name code) (dec2 k)) (append name (append "[" (append (dec2 k) "].")))) elt) (seqn n)
  | SSub name code elt => map (flat_field (pick name code) (append name ".")) elt
  end.
Definition flatten (items : list sitem) : list flat := flat_map flatten_item items.

Definition kwidth (k : sk) : nat :=
  match k with
  | SNum w => w | SSpare n => n | SText n => n | SEnum _ => 1 | SFlags w _ => w | STime w _ => w | SCount => 1 | SBool => 1 | SOpaque w => w
  end.

(* adjacent spare bytes are one run on both sides *)
Fixpoint merge_spec (l : list flat) : list flat :=
  match l with
  | (_, SSpare a, t, s) :: rest =>
      match merge_spec rest with
      | (_, SSpare b, _, _) :: rest' => (EmptyString, SSpare (a + b), t, s) :: rest'
      | r => (EmptyString, SSpare a, t, s) :: r
      end
  | x :: rest => x :: merge_spec rest
  | [] => []
  end.
Fixpoint merge_lay (l : list (string * atom)) : list (string * atom) :=
  match l with
  | (_, APad a) :: rest =>
      match merge_lay rest with
      | (_, APad b) :: rest' => (EmptyString, APad (a + b)) :: rest'
      | r => (EmptyString, APad a) :: r
      end
  | x :: rest => x :: merge_lay rest
  | [] => []
  end.

(* ---------------- tables ---------------- *)
Fixpoint find_table (name : string) (ts : list stable) : option stable :=
  match ts with [] => None | t :: r => if String.eqb (st_name t) name then Some t else find_table name r end.
Definition required (e : sentry) : bool := negb (se_reserved e) && match se_tag e with Asserted => true | Unasserted => false end.
Definition table_values (t : stable) : list N := map se_val (filter required (st_entries t)).
Definition table_bits (t : stable) : N := fold_right N.lor 0 (table_values t).

(* a code name matches a specification entry: equal after normalisation (with or without the prefix), or the stated alias *)
Definition name_matches (prefix : string) (e : sentry) (code : string) : bool :=
  let c := norm code in
  (String.eqb c (norm (se_name e)) || String.eqb c (norm (append prefix (se_name e))) ||
   (negb (String.eqb (se_code e) "") && String.eqb c (norm (se_code e))))%bool.

(* problems of a code table (name, value) against a specification table *)
Definition table_problems (t : stable) (code : list (string * N)) : list string :=
  (* every required entry exists in the code with its value and (when present under a matching name) that name *)
  flat_map (fun e =>
    if negb (required e) then []
    else let same_val := filter (fun cv => snd cv =? se_val e) code in
         match same_val with
         | [] => [append (st_name t) (append ": no constant with the value of " (se_name e))]
         | _ => if negb (se_named e) || existsb (fun cv => name_matches (st_prefix t) e (fst cv)) same_val then []
                else [append (st_name t) (append ": the value of " (append (se_name e) " carries another name"))]
         end) (st_entries t) ++
  (* a code constant that bears a specification name has the specification's value *)
  flat_map (fun cv =>
    flat_map (fun e => if se_named e && name_matches (st_prefix t) e (fst cv) && negb (snd cv =? se_val e) &&
                          match se_tag e with Asserted => true | _ => false end
                       then [append (st_name t) (append ": wrong value for " (se_name e))] else []) (st_entries t)) code.

(* ---------------- kinds ---------------- *)
Section Conform.
  Variable cwidth : custom -> nat.
  Variable tables : list stable.

  Definition kind_problem (k : sk) (a : atom) : option string :=
    match k, a with
    | SNum w, ANum w' _ => if Nat.eqb w w' then None else Some "integer width"
    | SNum 1, AChar8 => None
    | SSpare n, APad n' => if Nat.eqb n n' then None else Some "number of spare bytes"
    | SText n, AText n' _ => if Nat.eqb n n' then None else Some "text width"
    | SEnum tbl, AEnum vals =>
        match find_table tbl tables with
        | None => Some "unknown specification table"
        | Some t => if forallb (fun v => existsb (N.eqb v) vals) (table_values t) then None else Some "enumerant missing"
        end
    | SFlags w tbl, AFlags w' mask =>
        if negb (Nat.eqb w w') then Some "flags width"
        else match find_table tbl tables with
             | None => Some "unknown specification table"
             | Some t => if N.land (table_bits t) mask =? table_bits t then None else Some "flag bit missing"
             end
    | STime w u, ADur w' u' => if Nat.eqb w w' && (u =? u') then None else Some "time width or unit"
    | SCount, ACount 1 _ => None
    | SBool, ABool => None
    | SOpaque w, a => if Nat.eqb w (awidth cwidth a) then None else Some "width"
    | _, _ => Some "kind of field"
    end.

  Fixpoint zip_problems (ctx : string) (sp : list flat) (la : list (string * atom)) : list string :=
    match sp, la with
    | [], [] => []
    | (cname, k, t, sname) :: sp', (lname, a) :: la' =>
        (if Nat.eqb (kwidth k) (awidth cwidth a) then
           match t with
           | Unasserted => []
           | Asserted =>
               match kind_problem k a with
               | Some p => [append ctx (append sname (append ": " p))]
               | None =>
                   match k with
                   | SSpare _ => []
                   | _ => if String.eqb cname (norm lname) then []
                          else [append ctx (append sname (append ": the field at this position is named " lname))]
                   end
               end
           end
         else [append ctx (append sname ": width differs (all later offsets are shifted)")]) ++ zip_problems ctx sp' la'
    | (_, _, _, sname) :: _, [] => [append ctx (append sname ": missing at the end")]
    | [], (lname, _) :: _ => [append ctx (append "extra field " lname)]
    end.

  Definition spec_width (l : list flat) : nat := fold_right (fun f acc => kwidth (snd (fst (fst f))) + acc)%nat 0%nat l.

  Definition tail_problems (ctx : string) (st : stail) (lt : tail) : list string :=
    match st, lt with
    | STNone, TNone => []
    | STArray elt _ padm padk, TVec lelt padm' padk' =>
        zip_problems (append ctx "element ") (merge_spec (map (flat_field "" "") elt)) (merge_lay lelt) ++
        (if (Nat.eqb (Nat.modulo 1 padm * padk) (Nat.modulo 1 padm' * padk') && Nat.eqb (Nat.modulo 2 padm * padk) (Nat.modulo 2 padm' * padk') &&
             Nat.eqb (Nat.modulo 3 padm * padk) (Nat.modulo 3 padm' * padk'))%bool then [] else [append ctx "padding after the array"])
    | STText maxlen align, TTextEof max' align' _ =>
        if (Nat.eqb maxlen max' && Nat.eqb align align')%bool then [] else [append ctx "variable text: maximum or alignment"]
    | STWords _, TWords => []
    | _, _ => [append ctx "kind of variable tail"]
    end.

  Definition struct_problems (s : sstruct) (l : layout) : list string :=
    let ctx := append (ss_name s) " " in
    let sp := merge_spec (flatten (ss_items s)) in
    (if Nat.eqb (2 + spec_width sp) (ss_base s) then [] else [append ctx "transcription: documented size differs from the sum of the fields"]) ++
    zip_problems ctx sp (merge_lay (fixed l)) ++ tail_problems ctx (ss_tail s) (ltail l).
End Conform.
