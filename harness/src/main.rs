//! vharness — runs the real insim.rs code on generated cases, evaluates each property's executable
//! oracle directly on the implementation, and writes cases.txt / impl.txt / stats.json for the
//! correspondence with the extracted Coq model.  Usage: vharness <prop> --tier T --seed N --out DIR
mod common;
mod gen;
mod layout;
mod net;
mod wire;
mod text;
mod netprops;
mod conv;
mod c02;
mod c08;
mod c13;
mod c14;
mod c16;
mod c17;
mod c18;
mod c19;
mod c20;

use common::Args;

#[global_allocator]
static ALLOC: c17::Counting = c17::Counting;

fn main() {
    // panics of the code under test are caught and counted (catch_unwind); their messages are noise unless asked for
    if std::env::var("VHARNESS_PANICS").is_err() { std::panic::set_hook(Box::new(|_| {})); }
    let argv: Vec<String> = std::env::args().collect();
    if argv.len() < 2 { eprintln!("usage: vharness <prop> [--tier quick|thorough] [--seed N] [--out DIR] [--replay S]"); std::process::exit(2); }
    let mut a = Args { tier: "quick".into(), seed: 1, out: "work/tmp".into(), replay: None, extra: vec![] };
    let mut i = 2;
    while i < argv.len() {
        match argv[i].as_str() {
            "--tier" => { a.tier = argv[i + 1].clone(); i += 2; },
            "--seed" => { a.seed = argv[i + 1].parse().unwrap_or(1); i += 2; },
            "--out" => { a.out = argv[i + 1].clone(); i += 2; },
            "--replay" => { a.replay = Some(argv[i + 1].clone()); i += 2; },
            x => { a.extra.push(x.to_string()); i += 1; },
        }
    }
    common::start_watchdog(&argv[1].to_uppercase(), &a.out, a.replay.is_some());
    // replays of conversation cases are shared by several properties
    if let Some(r) = &a.replay {
        let prop = argv[1].to_uppercase();
        if r.starts_with("backpressure ") && argv[1] == "c06" { let t: Vec<&str> = r.split_whitespace().collect(); let rt = tokio::runtime::Builder::new_multi_thread().worker_threads(2).enable_all().build().unwrap();
            let (got, want, waited) = c20::backpressure_case(&rt, t[1] == "C", t[2].parse().unwrap()); let m = got.len().min(want.len());
            match (0..m).find(|i| got[*i] != want[*i]) { Some(pos) => { println!("FAIL [C06] {waited} writes waited; message #{pos} differs from the frame of write #{pos}"); std::process::exit(1) }, None => { println!("PASS ({waited} waited, {m} compared)"); std::process::exit(if got.len() > want.len() { 1 } else { 0 }) } } }
        if r.starts_with("ver ") || r.starts_with("sethist ") || r.starts_with("mso ") {
            let mut st = common::Stats::default(); wire::typed_api_checks(&prop, &a, &mut st);
            match st.failures.iter().find(|f| f.2 == *r) { Some(f) => { println!("FAIL {}", f.1); std::process::exit(1) }, None => { println!("PASS (typed-API case `{r}` holds)"); std::process::exit(0) } }
        }
        if r.starts_with("bounce ") && argv[1] == "c06" { let t: Vec<&str> = r.split_whitespace().collect(); let rt = c08::io_runtime(); let mut bad = None; for _ in 0..3 { if let Some(w) = c08::bounce_case(t[1], &rt, t[2] == "C") { bad = Some(w); } }
            match bad { Some(w) => { println!("FAIL [C06] {w}"); std::process::exit(1) }, None => { println!("PASS"); std::process::exit(0) } } }
        if r.starts_with("wslock ") || r.starts_with("wslockc ") { let t: Vec<&str> = r.split_whitespace().collect(); let rt = tokio::runtime::Builder::new_multi_thread().worker_threads(2).enable_all().build().unwrap();
            let rounds: usize = t[2].parse().unwrap(); let (sent, handed, replies, done) = c20::ws_lockstep_case(&rt, t[1] == "C", rounds, if t[0] == "wslockc" { Some(400) } else { None });
            if done == rounds && handed == sent && replies == sent { println!("PASS {rounds} lock-step rounds, {sent} keep-alives, {replies} replies"); std::process::exit(0) } else { println!("FAIL [{prop}] lock-step WebSocket peer: round {done} of {rounds} never completed: {sent} keep-alives sent, {handed} handed to the caller, {replies} replies received"); std::process::exit(1) } }
        if r.starts_with("wsidle ") { let t: Vec<&str> = r.split_whitespace().collect(); let rt = tokio::runtime::Builder::new_multi_thread().worker_threads(2).enable_all().build().unwrap();
            let n: usize = t[2].parse().unwrap(); let replies = c20::ws_idle_after_reads_case(&rt, t[1] == "C", n);
            if replies == n { println!("PASS {n} replies"); std::process::exit(0) } else { println!("FAIL [{prop}] idle after reads: {replies} of {n} replies reached the peer"); std::process::exit(1) } }
        if r.starts_with("wska ") { let t: Vec<&str> = r.split_whitespace().collect(); let rt = tokio::runtime::Builder::new_multi_thread().worker_threads(2).enable_all().build().unwrap();
            let (sent, handed, replies, others) = c20::ws_keepalive_case(&rt, t[1] == "C", t[2].parse().unwrap());
            if handed == sent && replies == sent && others == 0 { println!("PASS {sent} keep-alives, {replies} replies"); std::process::exit(0) } else { println!("FAIL [C07] {sent} keep-alives sent, {handed} handed over, {replies} replies and {others} other messages seen by the peer"); std::process::exit(1) } }
        if r.starts_with("unconsumed ") { let t: Vec<&str> = r.split_whitespace().collect(); let f = common::unhex(t[2]);
            match net::classify(t[1] == "C", &f) { Some((c, _)) => { println!("PASS the frame is consumed ({:?})", c); std::process::exit(0) }, None => { println!("FAIL [{prop}] the complete frame {} is neither decoded nor removed as a decode error", t[2]); std::process::exit(1) } } }
        if r.starts_with("aconv ") { std::process::exit(conv::replay_aconv(&prop, r)); }
        if r.len() > 7 && &r[1..7] == " conv " { std::process::exit(conv::replay_conv(&prop, r)); }
    }
    match argv[1].as_str() {
        "c02" => c02::run(&a),
        "c08" => c08::run(&a),
        "c13" => c13::run(&a),
        "c14" => c14::run_c14(&a),
        "c15" => c14::run_c15(&a),
        "c16" => c16::run(&a),
        "c17" => c17::run(&a),
        "c18" => c18::run(&a),
        "c19" => c19::run(&a),
        "c20" => c20::run(&a),
        "c01" => wire::run_c01(&a),
        "c03" => wire::run_c03(&a),
        "c04" => wire::run_c04(&a),
        "c11" => wire::run_c11(&a),
        "c10" => text::run_c10(&a),
        "c12" => text::run_c12(&a),
        "c05" => netprops::run_c05(&a),
        "c06" => netprops::run_c06(&a),
        "c07" => netprops::run_c07(&a),
        "c09" => netprops::run_c09(&a),
        p => { eprintln!("unknown property {p}"); std::process::exit(2); },
    }
}
