#!/usr/bin/env python3
"""mkseedtable.py — regenerates the table of seeded changes in DESIGN.md (between the SEED-TABLE markers) from
seeded/*/meta.json."""
import json, glob, os, re
ROOT = os.path.dirname(os.path.dirname(os.path.abspath(__file__)))
rows = ['| seeded change | breaks | base | what it is / what it needs | caught by (quick tier) | concrete failing input |', '|---|---|---|---|---|---|']
for f in sorted(glob.glob(os.path.join(ROOT, 'seeded', '*', 'meta.json'))):
    m = json.load(open(f))
    sid = m['id']; short = sid if len(sid) <= 34 else sid[:34] + '…'
    what = (m.get('summary') or '').replace('|', '/').replace('\n', ' ')
    need = (m.get('needs_to_manifest') or '').replace('|', '/').replace('\n', ' ')
    what = what[:170] + ('…' if len(what) > 170 else '')
    need = need[:150] + ('…' if len(need) > 150 else '')
    runs = m.get('checks_run', {})
    caught = ', '.join(c for c, r in runs.items() if r.get('rc'))
    inp = []
    for c, r in runs.items():
        v = ' '.join(r.get('violation') or [])
        if r.get('rc') and v: inp.append('%s: %s' % (c, 'no (proof/translator only)' if 'no-failing-input-found' in v else 'yes'))
    base = (m.get('base_commit') or '1dad7af')[:7]
    rows.append('| `%s` | %s | %s | %s *Needs:* %s | %s | %s |' % (short, m.get('breaks_property'), base, what, need, caught or '**none**', '; '.join(inp) or '-'))
p = os.path.join(ROOT, 'DESIGN.md'); s = open(p).read()
a = s.index('<!-- SEED-TABLE-BEGIN -->'); b = s.index('<!-- SEED-TABLE-END -->')
s = s[:a] + '<!-- SEED-TABLE-BEGIN -->\n' + '\n'.join(rows) + '\n' + s[b:]
open(p, 'w').write(s)
print(len(rows) - 2, 'rows')
