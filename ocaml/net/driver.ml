(* net group: framing, Framed read loop / session, write_all *)
let mode_of s = if s = "C" then Compressed else Uncompressed
let cls_of s =
  if s = "K" then CKeep else if s = "O" then COther else if s = "E" then CErr
  else if Stdlib.String.length s > 1 && s.[0] = 'V' then CVer (n_of_int (int_of_string (Stdlib.String.sub s 1 (Stdlib.String.length s - 1))))
  else failwith ("class " ^ s)
(* f:<bodyhex>:<class>:<rep> *)
let frame_of s = match Stdlib.String.split_on_char ':' s with
  | ["f"; h; c; r] -> (bytes_of_hex h, (n_of_int (int_of_string r), cls_of c))
  | _ -> failwith ("frame " ^ s)
let ev_of s =
  if s = "Z" then Eof else if s = "T" then Elapsed
  else if s.[0] = 'D' then Data (bytes_of_hex (Stdlib.String.sub s 1 (Stdlib.String.length s - 1)))
  else if s.[0] = 'E' then RdErr (n_of_int (int_of_string (Stdlib.String.sub s 1 (Stdlib.String.length s - 1))))
  else failwith ("event " ^ s)
let show_out o = match o with
  | Wrote bs -> "W" ^ hex_of_bytes bs
  | Ret r -> (match r with
      | RPacket (rep, _) -> Printf.sprintf "P%d" (int_of_n rep)
      | RDecodeErr -> "DE" | RFrameErr -> "FE" | RBadVersion v -> Printf.sprintf "BV%d" (int_of_n v)
      | RIo e -> Printf.sprintf "IO%d" (int_of_n e) | RTimeout -> "TO" | RDisconnected -> "DC"
      | RPanic -> "PANIC" | RBlocked -> "BLOCKED")
let wev_of s =
  if s = "p" then WPending else if s.[0] = 'a' then WAccept (nat_of_int (int_of_string (Stdlib.String.sub s 1 (Stdlib.String.length s - 1))))
  else if s.[0] = 'f' then WFail (n_of_int (int_of_string (Stdlib.String.sub s 1 (Stdlib.String.length s - 1)))) else failwith ("wev " ^ s)
let show_wres r = match r with WOk -> "ok" | WErr e -> Printf.sprintf "err%d" (int_of_n e) | WBlocked -> "blocked"
let item_of s =
  if s = "s" then ISkip else if s = "e" then IEnd
  else if s.[0] = 'b' then IBytes (bytes_of_hex (Stdlib.String.sub s 1 (Stdlib.String.length s - 1))) else failwith ("item " ^ s)
let show_item i = match i with IBytes d -> "b" ^ hex_of_bytes d | ISkip -> "s" | IEnd -> "e"
let show_ev e = match e with Data d -> "D" ^ hex_of_bytes d | RdErr e -> Printf.sprintf "E%d" (int_of_n e) | Elapsed -> "T" | Eof -> "Z"
let rec split_bar acc l = match l with [] -> (Stdlib.List.rev acc, []) | "|" :: t -> (Stdlib.List.rev acc, t) | x :: t -> split_bar (x :: acc) t

let handle (toks : Stdlib.String.t list) : Stdlib.String.t =
  match toks with
  | "session" :: m :: v :: rest ->
      let (fs, evs) = split_bar [] rest in
      let tab = Stdlib.List.map frame_of fs in
      let tr = Stdlib.List.map ev_of evs in
      Stdlib.String.concat " " (Stdlib.List.map show_out (run_session (mode_of m) (v = "1") tab tr))
  | "writeall" :: h :: ws ->
      let ((d, r), _) = write_all (Stdlib.List.map wev_of ws) (bytes_of_hex h) in
      hex_of_bytes d ^ " " ^ show_wres r
  | "decode" :: m :: h :: fs ->
      (* outcome class + number of bytes removed from the buffer *)
      let buf = bytes_of_hex h in
      let tab = Stdlib.List.map frame_of fs in
      (match x_decode (mode_of m) tab buf with
       | NeedMore -> "need 0"
       | Got ((rep, _), rest) -> Printf.sprintf "got %d" (Stdlib.List.length buf - Stdlib.List.length rest)
       | Bad rest -> Printf.sprintf "bad %d" (Stdlib.List.length buf - Stdlib.List.length rest)
       | FrameErr -> "frameerr 0"
       | DPanic -> "panic 0")
  | "adaptor" :: k :: sc :: rest ->
      let (its, sizes) = split_bar [] rest in
      let ((es, buf), rem) = run_adaptor (k = "U") (nat_of_int (int_of_string sc)) (Stdlib.List.map item_of its) (Stdlib.List.map (fun s -> nat_of_int (int_of_string s)) sizes) in
      Stdlib.String.concat " " (Stdlib.List.map show_ev es) ^ " | " ^ hex_of_bytes buf ^ " " ^ string_of_int (Stdlib.List.length rem)
  | "asession" :: m :: v :: k :: sc :: rest ->
      let (fs, rest2) = split_bar [] rest in
      let (its, sizes) = split_bar [] rest2 in
      let tab = Stdlib.List.map frame_of fs in
      Stdlib.String.concat " " (Stdlib.List.map show_out
        (run_adaptor_session (mode_of m) (v = "1") tab (k = "U") (nat_of_int (int_of_string sc)) (Stdlib.List.map item_of its)
           (Stdlib.List.map (fun s -> nat_of_int (int_of_string s)) sizes)))
  | "async" :: m :: v :: rest ->
      let (fs, rest2) = split_bar [] rest in
      let (evs, rest3) = split_bar [] rest2 in
      let (wevs, cs) = split_bar [] rest3 in
      let tab = Stdlib.List.map frame_of fs in
      let rs = Stdlib.List.map (fun s -> if s = "N" then APend else AEv (ev_of s)) evs in
      let cancels = match cs with [c] -> Stdlib.List.init (Stdlib.String.length c) (fun i -> c.[i] = '1') | _ -> [] in
      Stdlib.String.concat " " (Stdlib.List.map show_out (run_async (mode_of m) (v = "1") tab rs (Stdlib.List.map wev_of wevs) cancels))
  | "conv" :: m :: v :: rest ->
      let (fs, rest2) = split_bar [] rest in
      let (evs, ops) = split_bar [] rest2 in
      let tab = Stdlib.List.map frame_of fs in
      let tr = Stdlib.List.map ev_of evs in
      let uops = Stdlib.List.map (fun s -> if s = "r" then URead else UWrite (bytes_of_hex (Stdlib.String.sub s 1 (Stdlib.String.length s - 1)))) ops in
      Stdlib.String.concat " " (Stdlib.List.map (fun (u, o) -> match (u, o) with
          | (true, Wrote bs) -> "U" ^ hex_of_bytes bs
          | (_, o) -> show_out o) (run_conv (mode_of m) (v = "1") tab tr uops))
  | "aconv" :: m :: v :: rest ->
      let (fs, rest2) = split_bar [] rest in
      let (evs, rest3) = split_bar [] rest2 in
      let (wevs, rest4) = split_bar [] rest3 in
      let (cs, sched) = split_bar [] rest4 in
      let tab = Stdlib.List.map frame_of fs in
      let rs = Stdlib.List.map (fun s -> if s = "N" then APend else AEv (ev_of s)) evs in
      let cancels = match cs with [c] -> Stdlib.List.init (Stdlib.String.length c) (fun i -> c.[i] = '1') | _ -> [] in
      let wsched = Stdlib.List.map (fun e -> if e = "-" then [] else Stdlib.List.map bytes_of_hex (Stdlib.String.split_on_char '+' e)) sched in
      Stdlib.String.concat " " (Stdlib.List.map (fun t -> match t with
          | TW b -> "W" ^ hex_of_bytes b
          | TR r -> show_out (Ret r)
          | TU (pre, fr) -> "U" ^ hex_of_bytes (Stdlib.List.append pre fr))
        (run_aconv (mode_of m) (v = "1") tab rs (Stdlib.List.map wev_of wevs) cancels wsched))
  | "kareply" :: m :: ws ->
      let ((d, r), _) = reply_then_return (pong_frame (mode_of m)) (Stdlib.List.map wev_of ws) in
      hex_of_bytes d ^ " " ^ show_wres r
  | ["awrite"; h] ->
      let (its, n) = awrite (bytes_of_hex h) in
      Stdlib.String.concat " " (Stdlib.List.map show_item its) ^ " " ^ string_of_int (int_of_nat n)
  | ["enclen"; m; l] -> show_res (fun n -> string_of_int (int_of_n n)) (encode_length (mode_of m) (nat_of_int (int_of_string l)))
  | ["pong"; m] -> hex_of_bytes (pong_frame (mode_of m))
  | _ -> "?bad-op"

let () = main handle
