(* Net/AsyncProofs.v — cancellation safety of the async read future (model Net/Async.v). Axiom-free. *)
Require Import Base.Bytes Net.Frame Net.Framed Net.FramedProofs Net.Async.
Require Import Lia.
Local Open Scope N_scope.

(* ---- the reply writer ---- *)
Lemma flush_conserve ws : forall pw r pw' ws' w,
  flush pw ws = (r, pw', ws', w) -> pw = w ++ pw' /\ (r = FDone -> pw' = []).
Proof.
  induction ws as [|e ws IH]; intros pw r pw' ws' w H; destruct pw as [|b t].
  - cbn in H. inversion H; subst. split; auto.
  - cbn in H. inversion H; subst. split; [rewrite app_nil_r; reflexivity|auto].
  - cbn in H. inversion H; subst. split; auto.
  - cbn [flush] in H. destruct e as [k| |c].
    + remember (Nat.min (S k) (length (b :: t))) as n eqn:En. remember (b :: t) as l eqn:El.
      destruct (flush (skipn n l) ws) as [[[r0 pw0] ws0] w0] eqn:E.
      inversion H as [[Hr Hpw Hws Hw]]. rewrite <- Hpw, <- Hr in *. destruct (IH _ _ _ _ _ E) as [H1 H2]. split; [|exact H2].
      rewrite <- app_assoc, <- H1, firstn_skipn. reflexivity.
    + inversion H; subst. split; [reflexivity|discriminate].
    + inversion H; subst. split; [reflexivity|discriminate].
Qed.

Lemma flush_nil ws : flush [] ws = (FDone, [], ws, []).
Proof. destruct ws; reflexivity. Qed.

Lemma flush_no_fail ws : forall pw r pw' ws' w,
  forallb no_fail ws = true -> flush pw ws = (r, pw', ws', w) ->
  forallb no_fail ws' = true /\ (forall e, r <> FFail e).
Proof.
  induction ws as [|e ws IH]; intros pw r pw' ws' w Hn H; destruct pw as [|b t].
  - cbn in H. inversion H; subst. split; [reflexivity|discriminate].
  - cbn in H. inversion H; subst. split; [reflexivity|discriminate].
  - cbn in H. inversion H; subst. split; [exact Hn|discriminate].
  - cbn [flush] in H. cbn [forallb] in Hn. apply andb_prop in Hn as [He Hn]. destruct e as [k| |c].
    + remember (Nat.min (S k) (length (b :: t))) as n eqn:En. remember (b :: t) as l eqn:El.
      destruct (flush (skipn n l) ws) as [[[r0 pw0] ws0] w0] eqn:E.
      inversion H as [[Hr Hpw Hws Hw]]. rewrite <- Hr, <- Hws. eapply IH; [exact Hn|exact E].
    + inversion H; subst. split; [exact Hn|discriminate].
    + discriminate.
Qed.

Section Proofs.
  Variable packet : Type.
  Variable parse : bytes -> res packet.
  Variable ver_of : packet -> option N.
  Variable is_keepalive : packet -> bool.
  Variable version : N.
  Variable m : mode.
  Variable verify : bool.
  Variable pong : bytes.

  Notation fstate := (fstate packet).
  Notation after_decode := (after_decode packet parse ver_of is_keepalive version m verify pong).
  Notation read_loop := (read_loop packet parse ver_of is_keepalive version m verify pong).
  Notation poll_from := (poll_from packet parse ver_of is_keepalive version m verify pong).
  Notation asession := (asession packet parse ver_of is_keepalive version m verify pong).
  Notation deliverK := (deliverK packet is_keepalive pong).

  (* whether the decode step asks for more data does not depend on the write half *)
  Lemma after_decode_none_indep buf ws wr ws2 wr2 :
    after_decode buf ws wr = None -> after_decode buf ws2 wr2 = None.
  Proof.
    unfold Async.after_decode. destruct buf as [|b t]; [reflexivity|].
    destruct (decode packet parse m (b :: t)) as [|p rest|rest| |]; try discriminate; [reflexivity|].
    destruct (if verify then ver_of p else None) as [v|]; [destruct (v =? version)|]; discriminate.
  Qed.

  (* what must hold of the connection state for a future suspended at c *)
  Definition Inv (c : pc) (s : fstate) : Prop :=
    match c with
    | Top => True
    | InRead => pend_w s = [] /\ pend_p s = None /\ forall ws wr, after_decode (fbuf s) ws wr = None
    end.

  Lemma deliverK_pending p rest ws wr c s ws' wr' :
    deliverK p rest ws wr = (PPending c, s, ws', wr') -> c = Top.
  Proof.
    unfold Async.deliverK. destruct (is_keepalive p); [|discriminate].
    destruct (flush pong ws) as [[[r pw] ws0] w2]. destruct r; intros H; inversion H; reflexivity.
  Qed.

  Lemma after_decode_pending buf ws wr c s ws' wr' :
    after_decode buf ws wr = Some (PPending c, s, ws', wr') -> c = Top.
  Proof.
    unfold Async.after_decode. destruct buf as [|b t]; [discriminate|].
    destruct (decode packet parse m (b :: t)) as [|p rest|rest| |]; try discriminate.
    destruct (if verify then ver_of p else None) as [v|]; [destruct (v =? version)|]; try discriminate;
      intros H; inversion H as [H1]; eapply deliverK_pending; exact H1.
  Qed.

  Lemma read_loop_pending_inv rs : forall skip buf ws wr c s rs' ws' wr',
    (skip = true -> forall ws wr, after_decode buf ws wr = None) ->
    read_loop skip buf rs ws wr = (PPending c, s, rs', ws', wr') -> Inv c s.
  Proof.
    induction rs as [|e rs IH]; intros skip buf ws wr c s rs' ws' wr' Hskip H; cbn [Async.read_loop] in H.
    - destruct (if skip then None else after_decode buf ws wr) as [[[[o s0] ws0] wr0]|] eqn:E; [|discriminate].
      inversion H; subst. destruct skip; [discriminate|]. apply after_decode_pending in E. subst c. exact I.
    - destruct (if skip then None else after_decode buf ws wr) as [[[[o s0] ws0] wr0]|] eqn:E.
      + inversion H; subst. destruct skip; [discriminate|]. apply after_decode_pending in E. subst c. exact I.
      + assert (Hnone : forall ws wr, after_decode buf ws wr = None).
        { destruct skip; [apply Hskip; reflexivity|]. intros ws2 wr2. eapply after_decode_none_indep; exact E. }
        destruct e as [[[|b bs]|e0| |]|].
        * discriminate.
        * eapply (IH false); [discriminate|exact H].
        * discriminate.
        * discriminate.
        * discriminate.
        * inversion H; subst. cbn. auto.
  Qed.

  (* resuming a suspended future is indistinguishable from polling a fresh one: dropping the future
     (forgetting pc) changes nothing *)
  Theorem poll_resume_eq_fresh c s rs ws : Inv c s -> poll_from c s rs ws = poll_from Top s rs ws.
  Proof.
    destruct c; [reflexivity|]. intros [Hw [Hp Hd]]. unfold Async.poll_from. rewrite Hw, Hp, flush_nil.
    destruct rs as [|e rs]; cbn [Async.read_loop]; rewrite Hd; reflexivity.
  Qed.

  Lemma poll_pending_inv c s rs ws c' s' rs' ws' w :
    Inv c s -> poll_from c s rs ws = (PPending c', s', rs', ws', w) -> Inv c' s'.
  Proof.
    intros HI H. rewrite (poll_resume_eq_fresh c s rs ws HI) in H. unfold Async.poll_from in H.
    destruct (flush (pend_w s) ws) as [[[r pw] ws0] w0]. destruct r.
    - destruct (pend_p s); [discriminate|]. eapply (read_loop_pending_inv rs false); [discriminate|exact H].
    - inversion H; subst. exact I.
    - discriminate.
  Qed.

  Lemma asession_pc_irrelevant fuel c s rs ws cancels acc :
    Inv c s -> asession fuel c s rs ws cancels acc = asession fuel Top s rs ws cancels acc.
  Proof. intros HI. destruct fuel; [reflexivity|]. cbn [Async.asession]. rewrite (poll_resume_eq_fresh c s rs ws HI). reflexivity. Qed.

  (* C19: whatever futures are dropped, at whatever pending polls, any number of times, the session is the
     uninterrupted one: same results, same order, same outgoing bytes between results *)
  Theorem cancel_safe : forall fuel c s rs ws cancels acc,
    Inv c s -> asession fuel c s rs ws cancels acc = asession fuel c s rs ws [] acc.
  Proof.
    induction fuel as [|f IH]; intros c s rs ws cancels acc HI; [reflexivity|].
    cbn [Async.asession].
    destruct (poll_from c s rs ws) as [[[[o s'] rs'] ws'] w] eqn:E.
    destruct o as [c'|r].
    - pose proof (poll_pending_inv c s rs ws c' s' rs' ws' w HI E) as HI'.
      destruct cancels as [|[|] cs].
      + reflexivity.
      + rewrite (IH Top s' rs' ws' cs (acc ++ w) I).
        rewrite <- (asession_pc_irrelevant f c' s' rs' ws' [] (acc ++ w) HI'). reflexivity.
      + apply IH. exact HI'.
    - destruct (is_final packet (Ret r)); [reflexivity|]. f_equal. f_equal. apply IH. exact I.
  Qed.

  (* ---- the outgoing side: what is written between two results is exactly one whole reply, written
          before the keep-alive it answers is returned; nothing else is ever written ---- *)
  Notation out := (out packet).
  Fixpoint trace_ok (l : list out) : Prop :=
    match l with
    | [] => True
    | Wrote b :: t =>
        b = pong /\ match t with Ret (RPacket p) :: t' => is_keepalive p = true /\ trace_ok t' | _ => False end
    | Ret (RPacket p) :: t => is_keepalive p = false /\ trace_ok t
    | Ret _ :: t => trace_ok t
    end.

  (* acc = reply bytes already on the wire since the last result *)
  Definition WInv (s : fstate) (acc : bytes) : Prop :=
    match pend_p s with
    | Some p => is_keepalive p = true /\ acc ++ pend_w s = pong
    | None => pend_w s = [] /\ acc = []
    end.

  Definition poll_post (o : pout packet) (s' : fstate) (total : bytes) : Prop :=
    match o with
    | PPending _ => WInv s' total
    | PReady (RPacket p) => WInv s' [] /\ ((is_keepalive p = true /\ total = pong) \/ (is_keepalive p = false /\ total = []))
    | PReady _ => WInv s' [] /\ total = []
    end.

  Lemma deliverK_post p rest ws o s' ws' w' :
    forallb no_fail ws = true -> deliverK p rest ws [] = (o, s', ws', w') ->
    forallb no_fail ws' = true /\ poll_post o s' w'.
  Proof.
    intros Hn. unfold Async.deliverK. destruct (is_keepalive p) eqn:Ek.
    - destruct (flush pong ws) as [[[r pw] ws0] w2] eqn:Ef. destruct (flush_no_fail _ _ _ _ _ _ Hn Ef) as [Hn' Hnf].
      destruct (flush_conserve _ _ _ _ _ _ Ef) as [Hc Hd]. destruct r.
      + intros H; inversion H; subst. specialize (Hd eq_refl). subst pw. rewrite app_nil_r in Hc.
        split; [exact Hn'|]. unfold poll_post, WInv. cbn [pend_p pend_w app]. split; [auto|]. left. split; [exact Ek|]. symmetry; exact Hc.
      + intros H; inversion H; subst. split; [exact Hn'|]. unfold poll_post, WInv. cbn [pend_p pend_w app]. split; [exact Ek|]. symmetry; exact Hc.
      + exfalso. eapply Hnf. reflexivity.
    - intros H; inversion H; subst. split; [exact Hn|]. unfold poll_post, WInv. cbn [pend_p pend_w]. split; [auto|]. right. auto.
  Qed.

  Lemma after_decode_post buf ws o s' ws' w' :
    forallb no_fail ws = true -> after_decode buf ws [] = Some (o, s', ws', w') ->
    forallb no_fail ws' = true /\ poll_post o s' w'.
  Proof.
    intros Hn. unfold Async.after_decode. destruct buf as [|b t]; [discriminate|].
    destruct (decode packet parse m (b :: t)) as [|p rest|rest| |]; try discriminate;
      try (intros H; inversion H; subst; split; [exact Hn|cbn; auto]).
    destruct (if verify then ver_of p else None) as [v|]; [destruct (v =? version)|];
      try (intros H; inversion H; subst; split; [exact Hn|cbn; auto]);
      intros H; inversion H as [H1]; destruct (deliverK_post _ _ _ _ _ _ _ Hn H1) as [A B]; auto.
  Qed.

  Lemma read_loop_post rs : forall skip buf ws o s' rs' ws' w',
    forallb no_fail ws = true -> read_loop skip buf rs ws [] = (o, s', rs', ws', w') ->
    forallb no_fail ws' = true /\ poll_post o s' w'.
  Proof.
    induction rs as [|e rs IH]; intros skip buf ws o s' rs' ws' w' Hn H; cbn [Async.read_loop] in H.
    - destruct (if skip then None else after_decode buf ws []) as [[[[o0 s0] ws0] wr0]|] eqn:E.
      + inversion H; subst. destruct skip; [discriminate|]. eapply after_decode_post; eassumption.
      + inversion H; subst. split; [exact Hn|cbn; auto].
    - destruct (if skip then None else after_decode buf ws []) as [[[[o0 s0] ws0] wr0]|] eqn:E.
      + inversion H; subst. destruct skip; [discriminate|]. eapply after_decode_post; eassumption.
      + destruct e as [[[|b bs]|e0| |]|]; try (inversion H; subst; split; [exact Hn|cbn; auto]).
        eapply (IH false); eassumption.
  Qed.

  Lemma poll_post_top s rs ws acc o s' rs' ws' w :
    forallb no_fail ws = true -> WInv s acc -> poll_from Top s rs ws = (o, s', rs', ws', w) ->
    forallb no_fail ws' = true /\ poll_post o s' (acc ++ w).
  Proof.
    intros Hn HW. unfold Async.poll_from, WInv in *.
    destruct (flush (pend_w s) ws) as [[[r pw] ws0] w0] eqn:Ef.
    destruct (flush_no_fail _ _ _ _ _ _ Hn Ef) as [Hn' Hnf]. destruct (flush_conserve _ _ _ _ _ _ Ef) as [Hc Hd].
    destruct r.
    - specialize (Hd eq_refl). subst pw. rewrite app_nil_r in Hc. destruct (pend_p s) as [p|].
      + destruct HW as [Hk Hp]. intros H; inversion H; subst. split; [exact Hn'|]. cbn. split; [auto|].
        left. split; [exact Hk|]. exact Hp.
      + destruct HW as [Hw Ha]. rewrite Hw in Ef. rewrite flush_nil in Ef. inversion Ef; subst.
        intros H. cbn [app]. eapply read_loop_post; eassumption.
    - intros H; inversion H; subst. split; [exact Hn'|]. cbn. destruct (pend_p s) as [p|].
      + destruct HW as [Hk Hp]. split; [exact Hk|]. cbn [pend_w]. rewrite <- app_assoc, <- Hc. exact Hp.
      + destruct HW as [Hw Ha]. rewrite Hw in Hc. symmetry in Hc. apply app_eq_nil in Hc as [Hc1 Hc2]. subst. cbn [pend_w app]. unfold WInv. cbn. auto.
    - exfalso. eapply Hnf. reflexivity.
  Qed.

  Theorem outgoing_whole_replies : pong <> [] -> forall fuel c s rs ws cancels acc,
    forallb no_fail ws = true -> Inv c s -> WInv s acc ->
    trace_ok (asession fuel c s rs ws cancels acc).
  Proof.
    intros Hpong. induction fuel as [|f IH]; intros c s rs ws cancels acc Hn HI HW; [exact I|].
    cbn [Async.asession].
    destruct (poll_from c s rs ws) as [[[[o s'] rs'] ws'] w] eqn:E.
    pose proof E as E'. rewrite (poll_resume_eq_fresh c s rs ws HI) in E'.
    destruct (poll_post_top s rs ws acc o s' rs' ws' w Hn HW E') as [Hn' Hpost].
    destruct o as [c'|r].
    - pose proof (poll_pending_inv c s rs ws c' s' rs' ws' w HI E) as HI'. cbn in Hpost.
      destruct cancels as [|[|] cs]; apply IH; auto; exact I.
    - assert (Hrest : trace_ok (if is_final packet (Ret r) then [] else asession f Top s' rs' ws' cancels [])).
      { destruct (is_final packet (Ret r)); [exact I|]. apply IH; auto; [exact I|]. destruct r; cbn in Hpost; tauto. }
      destruct r as [p| | |v|e| | | |]; cbn in Hpost;
        try (destruct Hpost as [_ Ht]; rewrite Ht; cbn [app trace_ok]; exact Hrest).
      destruct Hpost as [_ [[Hk Ht]|[Hk Ht]]]; rewrite Ht.
      + destruct pong as [|b0 t0] eqn:Ep; [congruence|]. cbn [app trace_ok]. auto.
      + cbn [app trace_ok]. auto.
  Qed.
End Proofs.
