Require Import Base.Bytes Net.Frame Net.FrameProofs Net.Framed Net.FramedProofs Net.ConvProofs Net.Async Net.AsyncProofs Net.AsyncConvProofs Net.Concrete.
Require Import Props.C06.
Local Open Scope N_scope.
Check c06_delivered_is_prefix : forall ws buf d r ws',
  write_all ws buf = (d, r, ws') -> exists rest, buf = d ++ rest /\ (r = WOk -> rest = []).
Check c06_success_means_whole_frame : forall ws buf d ws',
  write_all ws buf = (d, WOk, ws') -> d = buf.
Check c06_completes_under_fair_transport : forall ws buf,
  forallb no_fail ws = true -> (length buf <= length (filter accepts ws))%nat ->
  exists ws', write_all ws buf = (buf, WOk, ws').
Check c06_sequence_contiguous_in_order : forall frames ws d,
  write_seq ws frames = (d, true) -> d = concat frames.
Check c06_written_unit_is_one_frame : forall packet unparse m (p : packet) fr,
  encode packet unparse m p = Ok fr -> wf_frame m fr /\ (Nat.modulo (length fr) (mul m) = 0)%nat.
Check c06_conversation_writes :
  forall (packet : Type) (parse : bytes -> res packet) (ver_of : packet -> option N)
         (is_keepalive : packet -> bool) (version : N) (m : mode) (verify : bool) (pong : bytes),
  forall ops buf tr,
    exists rest, map snd (filter (from_write packet) (conv packet parse ver_of is_keepalive version m verify pong ops buf tr)) ++ rest
                 = map Wrote (frames_of ops).
Check c06_writes_never_split_a_reply :
  forall (packet : Type) (parse : bytes -> res packet) (ver_of : packet -> option N)
         (is_keepalive : packet -> bool) (version : N) (m : mode) (verify : bool) (pong : bytes),
  forall fuel c s rs ws cancels wsched acc done,
    forallb no_fail ws = true ->
    Inv packet parse ver_of is_keepalive version m verify pong c s ->
    WInv packet is_keepalive pong s (done ++ acc) ->
    conv_ok packet is_keepalive pong done (aconv packet parse ver_of is_keepalive version m verify pong fuel c s rs ws cancels wsched acc).
Check c06_caller_frames_in_call_order :
  forall (packet : Type) (parse : bytes -> res packet) (ver_of : packet -> option N)
         (is_keepalive : packet -> bool) (version : N) (m : mode) (verify : bool) (pong : bytes),
  forall fuel c s rs ws cancels wsched acc,
    is_prefix (flat_map (user_frame packet) (aconv packet parse ver_of is_keepalive version m verify pong fuel c s rs ws cancels wsched acc)) (concat wsched).
Check c06_model_state_is_the_struct : state_tied = true.
Check c06_reply_whole_or_the_error_is_returned : forall pong ws d r ws',
  reply_then_return pong ws = (d, r, ws') ->
  (r = WOk -> d = pong) /\ (forall e, r = WErr e -> exists rest, pong = d ++ rest /\ rest <> []).
Print Assumptions c06_delivered_is_prefix.
Print Assumptions c06_success_means_whole_frame.
Print Assumptions c06_completes_under_fair_transport.
Print Assumptions c06_sequence_contiguous_in_order.
Print Assumptions c06_written_unit_is_one_frame.
Print Assumptions c06_conversation_writes.
Print Assumptions c06_writes_never_split_a_reply.
Print Assumptions c06_caller_frames_in_call_order.
Print Assumptions c06_model_state_is_the_struct.
Print Assumptions c06_reply_whole_or_the_error_is_returned.
