//! C19 — cancelling a pending async read: the real `Framed::read()` future is polled by hand on a scripted
//! transport (read half: data / not-ready / error; write half: accepts k bytes / not-ready) under a paused-clock
//! runtime, and dropped at chosen Pending polls. Oracle (independent of the model): the results are those of
//! the uncancelled run of the same script and equal the per-frame expectation; every burst of outgoing bytes
//! seen before a result is exactly one whole keep-alive reply.
use std::{collections::HashSet, task::Poll};

use insim::net::{tokio_impl::Framed as AFramed, Codec};

use crate::{common::*, net::*};

fn wtag(w: &WEv) -> String { match w { WEv::Accept(k) => format!("a{k}"), WEv::Pending => "p".into(), WEv::Fail(k) => format!("f{k}") } }

/// returns (trace with outgoing bytes coalesced per result, pending polls seen, futures dropped)
pub fn run_async(rt: &tokio::runtime::Runtime, fr: &Frames, idx: &RepIndex, verify: bool, evs: &[REv], ws: &[WEv], cancels: &[bool]) -> (Vec<String>, usize, usize) {
    let r = guard(|| rt.block_on(async {
        let t = Transport::new(evs.to_vec(), ws.to_vec()); t.0.lock().unwrap().slow_flush = true;
        let mut f = AFramed::new(Box::new(t.clone()), Codec::new(mode_of(fr.compressed)));
        f.verify_version(verify);
        let mut trace = vec![]; let mut ci = 0usize; let mut dropped = 0usize;
        let max_reads = fr.frames.len() + evs.len() + ws.len() + 8;
        'outer: for _ in 0..max_reads {
            let mut fut = Box::pin(f.read());
            loop {
                match futures_util::poll!(fut.as_mut()) {
                    Poll::Ready(r) => {
                        let w = t.take_written();
                        if !w.is_empty() { trace.push(format!("W{}", hex(&w))); }
                        match r {
                            Ok(p) => trace.push(idx.token(&p)),
                            Err(e) => { let (tok, fin) = err_token(&e); trace.push(tok); if fin { break 'outer; } },
                        }
                        break;
                    },
                    Poll::Pending => {
                        let c = cancels.get(ci).copied().unwrap_or(false); ci += 1;
                        if c { dropped += 1; break; }   // fut dropped here: a new read() starts
                        if ci > 100_000 { trace.push("LIVELOCK".into()); break 'outer; }
                    },
                }
            }
        }
        (trace, ci, dropped)
    }));
    r.unwrap_or((vec!["PANIC".into()], 0, 0))
}

fn case_line(fr: &Frames, verify: bool, evs: &[REv], ws: &[WEv], cancels: &[bool]) -> String {
    format!("async {} {} {} | {} | {} | {}", mode_tag(fr.compressed), verify as u8, fr.table(),
            evs.iter().map(ev_tag).collect::<Vec<_>>().join(" "), ws.iter().map(wtag).collect::<Vec<_>>().join(" "),
            if cancels.is_empty() { "0".to_string() } else { cancels.iter().map(|c| if *c { '1' } else { '0' }).collect::<String>() })
}

fn parse_case(r: &str) -> (Frames, bool, Vec<REv>, Vec<WEv>, Vec<bool>) {
    let toks: Vec<&str> = r.split_whitespace().collect();
    let compressed = toks[1] == "C"; let verify = toks[2] == "1";
    let bars: Vec<usize> = toks.iter().enumerate().filter(|(_, t)| **t == "|").map(|(i, _)| i).collect();
    let frames: Vec<Vec<u8>> = toks[3..bars[0]].iter().map(|t| { let p: Vec<&str> = t.split(':').collect(); let body = unhex(p[1]); let mut f = vec![size_byte(compressed, body.len() + 1)]; f.extend(body); f }).collect();
    let evs: Vec<REv> = toks[bars[0] + 1..bars[1]].iter().map(|t| parse_ev(t)).collect();
    let ws: Vec<WEv> = toks[bars[1] + 1..bars[2]].iter().map(|t| match &t[..1] { "a" => WEv::Accept(t[1..].parse().unwrap()), "p" => WEv::Pending, _ => WEv::Fail(t[1..].parse().unwrap()) }).collect();
    let cancels: Vec<bool> = toks.get(bars[2] + 1).map(|c| c.chars().map(|x| x == '1').collect()).unwrap_or_default();
    (Frames::new(compressed, frames), verify, evs, ws, cancels)
}

/// the property on one (script, cancellation schedule): None = holds
fn oracle(fr: &Frames, verify: bool, evs: &[REv], base: &[String], got: &[String]) -> Option<String> {
    if base != got {
        let pos = base.iter().zip(got.iter()).position(|(a, b)| a != b).unwrap_or(base.len().min(got.len()));
        return Some(format!("with cancellation the session differs from the uninterrupted one at #{pos}: {:?} instead of {:?} (uninterrupted: {} results, cancelled: {})", got.get(pos), base.get(pos), base.len(), got.len()));
    }
    // and the uninterrupted one is the per-frame expectation, replies whole
    session_oracle(fr, verify, evs, got).map(|w| format!("uninterrupted async session: {w}"))
}

struct Ctx { rt: tokio::runtime::Runtime, distinct: HashSet<u64>, max_dropped: usize, total_dropped: u64, total_pending: u64 }

fn one(cx: &mut Ctx, fr: &Frames, idx: &RepIndex, verify: bool, evs: &[REv], ws: &[WEv], cancels: &[bool], base: &[String], st: &mut Stats, out: Option<&mut Out>) {
    let (trace, pend, dropped) = run_async(&cx.rt, fr, idx, verify, evs, ws, cancels);
    st.evaluations += 1;
    cx.max_dropped = cx.max_dropped.max(dropped); cx.total_dropped += dropped as u64; cx.total_pending += pend as u64;
    let line = case_line(fr, verify, evs, ws, cancels);
    if let Some(w) = oracle(fr, verify, evs, base, &trace) { st.fail(format!("[C19] {w}"), line.clone()); }
    if let Some(out) = out { out.case(&line, &trace.join(" ")); }
    let ka = fr.class.iter().any(|c| *c == Class::Keep);
    if dropped > 0 && ka && ws.iter().any(|w| matches!(w, WEv::Pending)) && cx.distinct.insert(fnv(&line)) { st.distinct_nontrivial += 1; }
    st.bump(&format!("futures dropped per session:{}", match dropped { 0 => "0", 1 => "1", 2..=5 => "2-5", 6..=20 => "6-20", _ => ">20" }));
}

pub fn run(a: &Args) {
    let mut cx = Ctx { rt: runtime(), distinct: HashSet::new(), max_dropped: 0, total_dropped: 0, total_pending: 0 };
    if let Some(r) = &a.replay {
        let (fr, verify, evs, ws, cancels) = parse_case(r); let idx = RepIndex::new(&fr);
        let (base, _, _) = run_async(&cx.rt, &fr, &idx, verify, &evs, &ws, &[]);
        let (got, pend, dropped) = run_async(&cx.rt, &fr, &idx, verify, &evs, &ws, &cancels);
        match oracle(&fr, verify, &evs, &base, &got) {
            Some(w) => { println!("FAIL [C19] {w}\n uninterrupted: {}\n cancelled ({dropped} of {pend} pending polls dropped): {}", base.join(" "), got.join(" ")); std::process::exit(1) },
            None => { println!("PASS {}", got.join(" ")); std::process::exit(0) },
        }
    }
    let mut rng = Rng::new(a.seed);
    let mut st = Stats::default(); let mut out = Out::new(&a.out);
    for compressed in [true, false] {
        let ka = raw_frame(compressed, 3, 0, &[0]);
        // 1. exhaustive: every cancellation schedule of short scripts in which every read and every write turn pends once
        let shorts: Vec<Vec<Vec<u8>>> = vec![
            vec![ka.clone(), raw_frame(compressed, 3, 7, &[3])],
            vec![raw_frame(compressed, 3, 1, &[1]), ka.clone(), ka.clone()],
            vec![ka.clone(), raw_frame(compressed, 200, 1, &[9]), raw_frame(compressed, 2, 0, &[0])],
        ];
        for (si, frames) in shorts.iter().enumerate() {
            let fr = Frames::new(compressed, frames.clone()); let idx = RepIndex::new(&fr);
            let stream = fr.stream();
            let cuts: Vec<usize> = match si { 0 => vec![2, 4, 6], 1 => vec![3, 4, 9], _ => vec![1, 5, 8, 11] };
            let mut evs = vec![]; let mut prev = 0;
            for c in cuts.iter().chain([stream.len()].iter()) { if *c > prev && *c <= stream.len() { evs.push(REv::Pend); evs.push(REv::Data(stream[prev..*c].to_vec())); prev = *c; } }
            evs.push(REv::Pend); evs.push(REv::Eof);
            let ws = vec![WEv::Pending, WEv::Accept(0), WEv::Pending, WEv::Accept(1), WEv::Pending, WEv::Pending, WEv::Accept(0), WEv::Pending, WEv::Accept(0), WEv::Pending, WEv::Accept(5)];
            let (base, npend, _) = run_async(&cx.rt, &fr, &idx, false, &evs, &ws, &[]);
            let bits = npend.min(if a.thorough() { 14 } else { 10 });
            for mask in 0..(1u32 << bits) {
                let cancels: Vec<bool> = (0..npend).map(|i| i < bits && (mask >> i) & 1 == 1).collect();
                let corr = mask % (if a.thorough() { 16 } else { 4 }) == 1 || mask == 0;
                one(&mut cx, &fr, &idx, false, &evs, &ws, &cancels, &base, &mut st, if corr { Some(&mut out) } else { None });
            }
            st.exhaustive.push(format!("all 2^{bits} choices of which pending polls drop the future, script #{si} with {npend} pending polls ({} mode)", mode_tag(compressed)));
        }
        // 2. random sessions: frames of every kind with many keep-alives, random segmentation, not-ready turns on both halves
        let pool = frame_pool(&mut rng, compressed);
        let nrand = if a.thorough() { 3000 } else { 300 };
        for i in 0..nrand {
            let k = match i % 4 { 0 => rng.range(1, 4), 1 | 2 => rng.range(4, 20), _ => rng.range(20, 60) } as usize;
            let frames: Vec<Vec<u8>> = (0..k).map(|_| if rng.chance(2, 5) { ka.clone() } else { rng.pick(&pool).clone() }).collect();
            let fr = Frames::new(compressed, frames); let idx = RepIndex::new(&fr);
            let stream = fr.stream();
            let mut evs = vec![]; let mut p = 0; let style = rng.below(4);
            while p < stream.len() {
                while rng.chance(35, 100) { evs.push(REv::Pend); }
                if rng.chance(3, 100) { evs.push(REv::Err(rng.below(5) as u8)); }
                let n = (match style { 0 => 1, 1 => rng.range(1, 4), 2 => rng.range(1, 60), _ => rng.range(1, 3000) } as usize).min(stream.len() - p);
                evs.push(REv::Data(stream[p..p + n].to_vec())); p += n;
            }
            while rng.chance(1, 2) { evs.push(REv::Pend); }
            evs.push(REv::Eof);
            let nka = fr.class.iter().filter(|c| **c == Class::Keep).count();
            let mut ws = vec![];
            for _ in 0..nka * 5 + 4 { if rng.chance(45, 100) { ws.push(WEv::Pending) } else { ws.push(WEv::Accept(*rng.pick(&[0usize, 0, 1, 2, 3, 9]))) } }
            let verify = rng.chance(1, 2);
            let (base, npend, _) = run_async(&cx.rt, &fr, &idx, verify, &evs, &ws, &[]);
            for density in [10u64, 50, 100] {
                let cancels: Vec<bool> = (0..npend).map(|_| rng.chance(density, 100)).collect();
                one(&mut cx, &fr, &idx, verify, &evs, &ws, &cancels, &base, &mut st, if k < 30 { Some(&mut out) } else { None });
            }
        }
    }
    // 3. long bursts: hundreds of small frames delivered by ONE transport read (so that hundreds of packets are handed out without the
    //    transport being touched), and the future dropped at every pending poll it ever reports, wherever that is
    for compressed in [true, false] { for (k, ka_every) in [(130usize, 0usize), (300, 0), (260, 7), (700, 50)] {
        let frames: Vec<Vec<u8>> = (0..k).map(|i| if ka_every > 0 && i % ka_every == ka_every - 1 { raw_frame(compressed, 3, 0, &[0]) } else { raw_frame(compressed, 3, (i % 255) as u8 + 1, &[(3 + i % 5) as u8]) }).collect();
        let fr = Frames::new(compressed, frames); let idx = RepIndex::new(&fr);
        let stream = fr.stream();
        for layout in 0..3 {
            let mut evs = vec![];
            match layout { 0 => { evs.push(REv::Data(stream.clone())); }, 1 => { evs.push(REv::Pend); evs.push(REv::Data(stream[..6].to_vec())); evs.push(REv::Pend); evs.push(REv::Data(stream[6..].to_vec())); }, _ => { let h = stream.len() / 2 + 1; evs.push(REv::Data(stream[..h].to_vec())); evs.push(REv::Pend); evs.push(REv::Data(stream[h..].to_vec())); } }
            evs.push(REv::Pend); evs.push(REv::Eof);
            let ws: Vec<WEv> = (0..k / 3).map(|i| if i % 3 == 0 { WEv::Pending } else { WEv::Accept(1) }).collect();
            let (base, _, _) = run_async(&cx.rt, &fr, &idx, false, &evs, &ws, &[]);
            for cancels in [vec![true; 4 * k + 64], (0..4 * k + 64).map(|i| i % 2 == 0).collect::<Vec<bool>>()] {
                one(&mut cx, &fr, &idx, false, &evs, &ws, &cancels, &base, &mut st, if k <= 300 { Some(&mut out) } else { None });
                st.bump("long bursts (>= 130 frames per transport read)");
            }
        }
    } }
    st.rule = "the real tokio Framed::read() future polled by hand on a scripted transport under a paused clock and dropped at chosen Pending polls: every cancellation schedule of three short scripts whose read and write halves pend at every turn, and random sessions of 1..60 frames (40% keep-alives; all kinds; transient errors) with random not-ready turns on both halves and 10/50/100% of the pending polls dropping the future; oracle = same results as the uninterrupted run, which equal the per-frame expectation with whole replies; non-trivial = a future was dropped in a session with keep-alives whose write half pends".into();
    st.notes.push(format!("futures dropped: {} in total, up to {} in one session; pending polls seen: {}", cx.total_dropped, cx.max_dropped, cx.total_pending));
    st.sample("async C 0 f:030000:K:0 f:030703:O:1 | N D0103 N D0000 N D0103 N D0703 N Z | p a0 p a1 p p a0 | 0110100".into());
    { let c2 = crate::conv::async_conversations("C19", a, &mut rng, &mut st, &mut out); st.distinct_nontrivial += c2.distinct.len() as u64; }
    // the same promise on the WebSocket transport with a peer that is slow to read and a caller whose own short timeout drops read() again and
    // again: every keep-alive handed over once, answered by exactly one message
    { let iort = tokio::runtime::Builder::new_multi_thread().worker_threads(2).enable_all().build().unwrap();
      for (compressed, us) in [(true, 150u64), (false, 900)] {
        let n = if a.thorough() { 12_000 } else { 4_000 };
        let (sent, handed, replies, others) = crate::c20::ws_keepalive_case_with(&iort, compressed, n, Some(us));
        st.evaluations += sent as u64;
        if handed != sent || replies != sent || others != 0 { st.fail(format!("[C19 websocket] read() dropped by a {us} us timeout again and again: {sent} keep-alives sent (among packets that are not keep-alives), {handed} handed to the caller, the peer received {replies} reply messages and {others} other messages"), format!("wskac {} {n} {us}", mode_tag(compressed))); }
        st.notes.push(format!("websocket keep-alive burst with dropped reads ({} mode, {us} us): {sent} sent, {handed} handed over, {replies} replies seen by the peer", mode_tag(compressed)));
      } }
    crate::netprops::abandoned_write_cases("C19", &cx.rt, &mut st);
    // ... and against a lock-step WebSocket peer (nothing more is sent until every reply has arrived) with read() dropped by a 400 us timeout
    { let iort = tokio::runtime::Builder::new_multi_thread().worker_threads(2).enable_all().build().unwrap();
      for compressed in [true, false] { let rounds = if a.thorough() { 1500 } else { 300 };
        let (sent, handed, replies, done) = crate::c20::ws_lockstep_case(&iort, compressed, rounds, Some(400)); st.evaluations += sent as u64;
        if done != rounds || handed != sent || replies != sent { st.fail(format!("[C19 websocket] lock-step peer, read() dropped by a 400 us timeout again and again: round {done} of {rounds} never completed: {sent} keep-alives sent, {handed} handed to the caller, {replies} replies received"), format!("wslockc {} {rounds}", mode_tag(compressed))); }
        st.bump("lock-step websocket sessions with dropped reads"); } }
    // ... and over real UDP sockets (tokio adaptor), long sessions of large datagrams with keep-alives, every read() under a 300 us timeout
    crate::c08::keepalive_sessions_with("C19", a, &mut st, Some(300));
    crate::net::report_unconsumed("C19", &mut st);
    out.finish(&st);
}

fn fnv(s: &str) -> u64 { let mut h = 0xcbf29ce484222325u64; for b in s.bytes() { h ^= b as u64; h = h.wrapping_mul(0x100000001b3); } h }
