//! Conversations: the caller's write() / handshake() calls interleaved with its read() calls, on the real
//! blocking and tokio `Framed` over the scripted transport (sync form: model `conv`), and on the tokio
//! `Framed` with read() futures polled by hand and dropped at chosen Pending polls (model `aconv`).
//! Used by C06, C07, C09, C18, C19, C20: the connection must have no state through which a write could
//! change what a read does (or the reverse), and a write() must never split a frame.
use std::{collections::HashSet, task::Poll, time::Duration};

use insim::{insim::{Isi, Tiny, TinyType}, identifiers::RequestId, net::{blocking_impl::Framed as BFramed, tokio_impl::Framed as AFramed, Codec}, Packet};

use crate::{common::*, net::*};

#[derive(Clone, Debug)]
pub enum UOp { Read, Write(Packet), Handshake(Isi), Refused(usize, Packet) }   // Refused: a packet the encoder refuses - write() must fail and leave nothing behind

fn wtag(w: &WEv) -> String { match w { WEv::Accept(k) => format!("a{k}"), WEv::Pending => "p".into(), WEv::Fail(k) => format!("f{k}") } }
fn parse_w(t: &str) -> WEv { match &t[..1] { "a" => WEv::Accept(t[1..].parse().unwrap()), "p" => WEv::Pending, _ => WEv::Fail(t[1..].parse().unwrap()) } }
fn fnv(s: &str) -> u64 { let mut h = 0xcbf29ce484222325u64; for b in s.bytes() { h ^= b as u64; h = h.wrapping_mul(0x100000001b3); } h }

fn op_frame(compressed: bool, op: &UOp) -> Option<Vec<u8>> {
    match op { UOp::Read | UOp::Refused(..) => None, UOp::Write(p) => encode(compressed, p), UOp::Handshake(i) => encode(compressed, &Packet::Isi(i.clone())) }
}
/// "r" | "w<frame hex>" | "h<frame hex>" (the model treats w and h alike; the replay needs the difference)
fn op_tag(compressed: bool, op: &UOp) -> String {
    match op { UOp::Read => "r".into(), UOp::Refused(i, _) => format!("x{i}"), UOp::Write(_) => format!("w{}", hex(&op_frame(compressed, op).unwrap_or_default())), UOp::Handshake(_) => format!("h{}", hex(&op_frame(compressed, op).unwrap_or_default())) }
}
fn op_of_tag(compressed: bool, t: &str) -> UOp {
    if t == "r" { return UOp::Read; }
    if let Some(i) = t.strip_prefix('x') { let i: usize = i.parse().unwrap(); return UOp::Refused(i, refused_pool(compressed)[i].clone()); }
    let f = unhex(&t[1..]);
    let codec = Codec::new(mode_of(compressed));
    let mut b = bytes::BytesMut::from(&f[..]);
    let p = codec.decode(&mut b).ok().flatten().expect("replay: user frame decodes");
    match (&t[..1], p) { ("h", Packet::Isi(i)) => UOp::Handshake(i), (_, p) => UOp::Write(p) }
}

/// packets the encoder refuses after it has already produced part of the frame (a duration that does not fit, too many elements), in a fixed order
pub fn refused_pool(compressed: bool) -> Vec<Packet> {
    let mut refused = vec![];
    for d in crate::gen::kinds::default_packets().iter() {
        for idx in 0..crate::gen::glue::dur_fields(d) { let mut p = d.clone(); let _ = crate::gen::glue::set_dur(&mut p, idx, Duration::from_secs(1 << 40)); if encode(compressed, &p).is_none() { refused.push(p); } }
        let mut p = d.clone(); if crate::gen::glue::vec_resize(&mut p, 255) && encode(compressed, &p).is_none() { refused.push(p); }
    }
    refused
}

/// the caller's packets: a TINY that is not a keep-alive, ISIs asking for InSim versions 8 / 9 / 10 with and
/// without a request id, a keep-alive-shaped TINY written by the caller, and some other kinds
pub fn user_pool(rng: &mut Rng, compressed: bool) -> Vec<UOp> {
    let mut v = vec![];
    v.push(UOp::Write(Packet::Tiny(Tiny { reqi: RequestId(7), subt: TinyType::Ping })));
    v.push(UOp::Write(Packet::Tiny(Tiny { reqi: RequestId(0), subt: TinyType::None })));
    v.push(UOp::Write(Packet::Tiny(Tiny { reqi: RequestId(1), subt: TinyType::Ver })));
    for (ver, reqi) in [(9u8, 0u8), (9, 1), (8, 1), (10, 200), (0, 3), (8, 0)] {
        let isi = Isi { version: ver, reqi: RequestId(reqi), iname: "verif".into(), ..Default::default() };
        v.push(UOp::Handshake(isi.clone()));
        if ver != 9 { v.push(UOp::Write(Packet::Isi(isi))); }
    }
    let defaults = crate::gen::kinds::default_packets();
    for _ in 0..4 { let p = rng.pick(&defaults).clone(); if encode(compressed, &p).is_some() { v.push(UOp::Write(p)); } }
    v.retain(|o| op_frame(compressed, o).is_some());
    // packets the encoder refuses after it has already produced part of the frame (a duration that does not fit, too many elements)
    let refused = refused_pool(compressed);
    for _ in 0..3 { if !refused.is_empty() { let i = rng.below(refused.len() as u64) as usize; v.push(UOp::Refused(i, refused[i].clone())); } }
    v
}

// ---------------------------------------------------------------- sync conversations (both connections)
fn conv_tokens(res: Option<Result<Packet, insim::Error>>, idx: &RepIndex, trace: &mut Vec<String>) -> bool {
    match res {
        None => { trace.push("PANIC".into()); true },
        Some(Ok(p)) => { trace.push(idx.token(&p)); false },
        Some(Err(e)) => { let (tok, fin) = err_token(&e); trace.push(tok); fin },
    }
}

pub fn conv_run(imp: &str, rt: &tokio::runtime::Runtime, fr: &Frames, idx: &RepIndex, verify: bool, evs: &[REv], ws: &[WEv], ops: &[UOp]) -> Vec<String> {
    let t = Transport::new(evs.to_vec(), ws.to_vec());
    let mut trace = vec![];
    let codec = Codec::new(mode_of(fr.compressed));
    if imp == "B" {
        let mut f = BFramed::new(Box::new(t.clone()), codec);
        f.verify_version(verify);
        for op in ops {
            match op {
                UOp::Read => { let r = guard(|| f.read()); let w = t.take_written(); if !w.is_empty() { trace.push(format!("W{}", hex(&w))); } if conv_tokens(r, idx, &mut trace) { break; } },
                UOp::Write(p) => { let r = guard(|| f.write(p.clone())); let w = t.take_written(); trace.push(match r { Some(Ok(())) => format!("U{}", hex(&w)), Some(Err(e)) => format!("UERR:{:?}:{}", e, hex(&w)), None => "UPANIC".into() }); },
                UOp::Handshake(i) => { let r = guard(|| f.handshake(i.clone())); let w = t.take_written(); trace.push(match r { Some(Ok(())) => format!("U{}", hex(&w)), Some(Err(e)) => format!("UERR:{:?}:{}", e, hex(&w)), None => "UPANIC".into() }); },
                UOp::Refused(_, p) => { let r = guard(|| f.write(p.clone())); let w = t.take_written(); match r { Some(Err(_)) if w.is_empty() => {}, Some(Err(_)) => trace.push(format!("XBYTES{}", hex(&w))), Some(Ok(())) => trace.push(format!("XOK{}", hex(&w))), None => if !w.is_empty() { trace.push(format!("XBYTES{}", hex(&w))) } } },   // a panic is a loud refusal too (C03: packets too large for the mode)
            }
        }
    } else {
        let mut f = AFramed::new(Box::new(t.clone()), codec);
        f.verify_version(verify);
        for op in ops {
            match op {
                UOp::Read => { let r = guard(|| rt.block_on(async { f.read().await })); let w = t.take_written(); if !w.is_empty() { trace.push(format!("W{}", hex(&w))); } if conv_tokens(r, idx, &mut trace) { break; } },
                UOp::Write(p) => { t.0.lock().unwrap().slow = true; let r = guard(|| rt.block_on(async { f.write(p.clone()).await })); t.0.lock().unwrap().slow = false; let w = t.take_written(); trace.push(match r { Some(Ok(())) => format!("U{}", hex(&w)), Some(Err(e)) => format!("UERR:{:?}:{}", e, hex(&w)), None => "UPANIC".into() }); },
                UOp::Handshake(i) => { let r = guard(|| rt.block_on(async { f.handshake(i.clone(), Duration::from_secs(5)).await })); let w = t.take_written(); trace.push(match r { Some(Ok(())) => format!("U{}", hex(&w)), Some(Err(e)) => format!("UERR:{:?}:{}", e, hex(&w)), None => "UPANIC".into() }); },
                UOp::Refused(_, p) => { let r = guard(|| rt.block_on(async { f.write(p.clone()).await })); let w = t.take_written(); match r { Some(Err(_)) if w.is_empty() => {}, Some(Err(_)) => trace.push(format!("XBYTES{}", hex(&w))), Some(Ok(())) => trace.push(format!("XOK{}", hex(&w))), None => if !w.is_empty() { trace.push(format!("XBYTES{}", hex(&w))) } } },   // a panic is a loud refusal too (C03: packets too large for the mode)
            }
        }
    }
    trace
}

fn conv_line(fr: &Frames, verify: bool, evs: &[REv], ops: &[UOp]) -> String {
    format!("conv {} {} {} | {} | {}", mode_tag(fr.compressed), verify as u8, fr.table(), evs.iter().map(ev_tag).collect::<Vec<_>>().join(" "),
            ops.iter().filter(|o| !matches!(o, UOp::Refused(..))).map(|o| op_tag(fr.compressed, o)).collect::<Vec<_>>().join(" "))
}

/// the properties on one conversation trace, independent of the model: None = holds
fn conv_oracle(fr: &Frames, verify: bool, ops: &[UOp], trace: &[String]) -> Option<String> {
    if let Some(x) = trace.iter().find(|t| t.starts_with('X')) { return Some(format!("[C06] a write() of a packet the encoder refuses did not simply fail: {x} (XOK = reported success, XBYTES = bytes reached the transport)")); }
    // (1) every write()/handshake() put exactly its frame on the wire
    let want_u: Vec<String> = ops.iter().filter_map(|o| op_frame(fr.compressed, o)).map(|f| format!("U{}", hex(&f))).collect();
    let got_u: Vec<&String> = trace.iter().filter(|t| t.starts_with('U')).collect();
    for (i, g) in got_u.iter().enumerate() { if want_u.get(i) != Some(*g) { return Some(format!("[C06/C18] write #{i} put {:?} on the wire, its frame is {:?}", g, want_u.get(i))); } }
    // (2) what the reads do is what they do without any write: the per-frame expectation (replies, gate)
    let got: Vec<&String> = trace.iter().filter(|t| !t.starts_with('U') && !is_transient_tok(t)).collect();
    let want = fr.expected(verify);
    for (i, g) in got.iter().enumerate() { if want.get(i) != Some(*g) { return Some(format!("[C07/C09] read-side result #{i}: got {:?}, the per-frame expectation is {:?}", g, want.get(i))); } }
    let nreads = ops.iter().filter(|o| matches!(o, UOp::Read)).count();
    let results = got.iter().filter(|t| !t.starts_with('W')).count();
    let finished = got.last().map(|t| *t == "DC").unwrap_or(false);
    if !finished && results < nreads.min(want.iter().filter(|t| !t.starts_with('W')).count()) { return Some(format!("only {results} results for {nreads} reads")); }
    None
}

pub struct ConvRunner { pub rt: tokio::runtime::Runtime, pub distinct: HashSet<u64>, pub convs: u64, pub writes: u64, pub handshakes: u64, pub dropped: u64 }
impl ConvRunner {
    pub fn new() -> Self { ConvRunner { rt: runtime(), distinct: HashSet::new(), convs: 0, writes: 0, handshakes: 0, dropped: 0 } }
    pub fn conv(&mut self, prop: &str, fr: &Frames, idx: &RepIndex, verify: bool, evs: &[REv], ws: &[WEv], ops: &[UOp], st: &mut Stats, out: &mut Out) {
        let line = conv_line(fr, verify, evs, ops);
        for imp in ["B", "A"] {
            let trace = conv_run(imp, &self.rt, fr, idx, verify, evs, ws, ops);
            st.evaluations += 1; self.convs += 1;
            let full = format!("conv {} {} {} | {} | {}", mode_tag(fr.compressed), verify as u8, fr.table(), evs.iter().map(ev_tag).collect::<Vec<_>>().join(" "), ops.iter().map(|o| op_tag(fr.compressed, o)).collect::<Vec<_>>().join(" "));
            let id = format!("{imp} {full} || {}", ws.iter().map(wtag).collect::<Vec<_>>().join(" "));
            if let Some(w) = conv_oracle(fr, verify, ops, &trace) { st.fail(format!("[{prop} {}] conversation: {w}", if imp == "B" { "blocking" } else { "tokio" }), id); }
            out.case(&line, &trace.join(" "));
        }
        self.writes += ops.iter().filter(|o| matches!(o, UOp::Write(_))).count() as u64;
        self.handshakes += ops.iter().filter(|o| matches!(o, UOp::Handshake(_))).count() as u64;
        if ops.iter().any(|o| !matches!(o, UOp::Read)) && fr.frames.len() >= 2 { let _ = self.distinct.insert(fnv(&line)); }
        st.bump("conversations (reads interleaved with caller writes / handshakes)");
    }
}

/// random conversations for one property run; `focus`: "ka" = many keep-alives, "ver" = many version packets
pub fn sync_conversations(prop: &str, a: &Args, rng: &mut Rng, focus: &str, st: &mut Stats, out: &mut Out) -> ConvRunner {
    let mut run = ConvRunner::new();
    for compressed in [true, false] {
        let pool = frame_pool(rng, compressed);
        let users = user_pool(rng, compressed);
        let ka = raw_frame(compressed, 3, 0, &[0]);
        let vers: Vec<Vec<u8>> = pool.iter().filter(|f| f[1] == 2 && f.len() == 20).cloned().collect();
        // 1. systematic: every user op before / between / after [special, other, special] with verify on and off
        for (ui, u) in users.iter().enumerate() {
            for verify in [true, false] {
                let special: Vec<Vec<u8>> = if focus == "ver" && !vers.is_empty() { vec![vers[ui % vers.len()].clone(), vers[(ui + 3) % vers.len()].clone()] } else { vec![ka.clone(), ka.clone()] };
                let frames = vec![special[0].clone(), raw_frame(compressed, 3, 7, &[4]), special[1].clone(), ka.clone()];
                let fr = Frames::new(compressed, frames); let idx = RepIndex::new(&fr);
                let evs = vec![REv::Data(fr.stream()), REv::Eof];
                for pos in 0..4usize {
                    let mut ops = vec![UOp::Read; 6]; ops.insert(pos, u.clone());
                    run.conv(prop, &fr, &idx, verify, &evs, &[], &ops, st, out);
                }
            }
        }
        // 2. random conversations
        let n = if a.thorough() { 1500 } else { 150 };
        for _ in 0..n {
            let k = rng.range(1, 12) as usize;
            let frames: Vec<Vec<u8>> = (0..k).map(|_| match (focus, rng.below(10)) { ("ver", 0..=3) if !vers.is_empty() => rng.pick(&vers).clone(), (_, 0..=2) => ka.clone(), _ => rng.pick(&pool).clone() }).collect();
            let fr = Frames::new(compressed, frames); let idx = RepIndex::new(&fr);
            let stream = fr.stream();
            let mut evs = vec![]; let mut p = 0; let style = rng.below(3);
            while p < stream.len() { let nb = (match style { 0 => rng.range(1, 4), 1 => rng.range(1, 60), _ => rng.range(1, 3000) } as usize).min(stream.len() - p); evs.push(REv::Data(stream[p..p + nb].to_vec())); p += nb; }
            evs.push(REv::Eof);
            let mut ops = vec![];
            for _ in 0..fr.frames.len() + 2 { while rng.chance(1, 3) { ops.push(rng.pick(&users).clone()); } ops.push(UOp::Read); }
            let ws: Vec<WEv> = if rng.chance(1, 2) { vec![] } else { (0..40).map(|_| if rng.chance(1, 3) { WEv::Pending } else { WEv::Accept(*rng.pick(&[0usize, 1, 2, 3, 50])) }).collect() };
            let verify = rng.chance(1, 2);
            run.conv(prop, &fr, &idx, verify, &evs, &ws, &ops, st, out);
        }
    }
    st.notes.push(format!("conversations: {} runs (both connections), {} caller writes, {} handshakes (ISI versions 0/8/9/10, request ids 0/1/3/200)", run.convs, run.writes, run.handshakes));
    run
}

pub fn replay_conv(prop: &str, r: &str) -> i32 {
    // "<B|A> conv <M> <V> <frames..> | <events..> | <ops..> || <wevs..>"
    let toks: Vec<&str> = r.split_whitespace().collect();
    let imp = toks[0]; let compressed = toks[2] == "C"; let verify = toks[3] == "1";
    let bars: Vec<usize> = toks.iter().enumerate().filter(|(_, t)| **t == "|").map(|(i, _)| i).collect();
    let bar2 = toks.iter().position(|t| *t == "||").unwrap_or(toks.len());
    let frames: Vec<Vec<u8>> = toks[4..bars[0]].iter().map(|t| { let p: Vec<&str> = t.split(':').collect(); let body = unhex(p[1]); let mut f = vec![size_byte(compressed, body.len() + 1)]; f.extend(body); f }).collect();
    let evs: Vec<REv> = toks[bars[0] + 1..bars[1]].iter().map(|t| parse_ev(t)).collect();
    let ops: Vec<UOp> = toks[bars[1] + 1..bar2].iter().map(|t| op_of_tag(compressed, t)).collect();
    let ws: Vec<WEv> = toks.get(bar2 + 1..).unwrap_or(&[]).iter().map(|t| parse_w(t)).collect();
    let fr = Frames::new(compressed, frames); let idx = RepIndex::new(&fr);
    let trace = conv_run(imp, &runtime(), &fr, &idx, verify, &evs, &ws, &ops);
    match conv_oracle(&fr, verify, &ops, &trace) {
        Some(w) => { println!("FAIL [{prop}] {w}\n trace: {}", trace.join(" ")); 1 },
        None => { println!("PASS trace: {}", trace.join(" ")); 0 },
    }
}

// ---------------------------------------------------------------- async conversations with dropped futures (tokio)
pub struct ARun { pub trace: Vec<String>, pub pending: usize, pub dropped: usize, pub calls: Vec<Vec<u8>> }

/// wsched[i] = the packets the caller writes before the (i+1)-th new read() (after a result or a dropped future)
pub fn aconv_run(rt: &tokio::runtime::Runtime, fr: &Frames, idx: &RepIndex, verify: bool, evs: &[REv], ws: &[WEv], cancels: &[bool], wsched: &[Vec<UOp>]) -> ARun {
    let r = guard(|| rt.block_on(async {
        let t = Transport::new(evs.to_vec(), ws.to_vec()); t.0.lock().unwrap().slow_flush = true;
        let mut f = AFramed::new(Box::new(t.clone()), Codec::new(mode_of(fr.compressed)));
        f.verify_version(verify);
        let mut trace = vec![]; let mut ci = 0usize; let mut dropped = 0usize; let mut si = 0usize;
        let max_reads = fr.frames.len() + evs.len() + ws.len() + cancels.len() + 8;
        'outer: for _ in 0..max_reads {
            let mut after: Option<bool> = None; // Some(flush_acc_first)
            {
                let mut fut = Box::pin(f.read());
                loop {
                    match futures_util::poll!(fut.as_mut()) {
                        Poll::Ready(r) => {
                            let w = t.take_written();
                            if !w.is_empty() { trace.push(format!("W{}", hex(&w))); }
                            match r {
                                Ok(p) => trace.push(idx.token(&p)),
                                Err(e) => { let (tok, fin) = err_token(&e); trace.push(tok); if fin { break 'outer; } },
                            }
                            after = Some(false);
                            break;
                        },
                        Poll::Pending => {
                            let c = cancels.get(ci).copied().unwrap_or(false); ci += 1;
                            if c { dropped += 1; after = Some(true); break; }
                            if ci > 100_000 { trace.push("LIVELOCK".into()); break 'outer; }
                        },
                    }
                }
            }
            // a new read() is about to start: the caller's writes first
            let entry: &[UOp] = wsched.get(si).map(|v| &v[..]).unwrap_or(&[]); si += 1;
            if !entry.is_empty() {
                if after == Some(true) { let w = t.take_written(); if !w.is_empty() { trace.push(format!("W{}", hex(&w))); } }
                for op in entry {
                    // the caller's own write() waits as long as it takes: its not-ready turns last an hour each (paused clock)
                    t.0.lock().unwrap().slow = matches!(op, UOp::Write(_));
                    let r = match op { UOp::Write(p) => f.write(p.clone()).await, UOp::Handshake(i) => f.handshake(i.clone(), Duration::from_secs(5)).await, UOp::Read | UOp::Refused(..) => Ok(()) };
                    t.0.lock().unwrap().slow = false;
                    let w = t.take_written();
                    match r { Ok(()) => trace.push(format!("U{}", hex(&w))), Err(e) => { trace.push(format!("UERR:{:?}:{}", e, hex(&w))); break 'outer; } }
                }
            }
        }
        let sh = t.0.lock().unwrap();
        // the accepted write calls, as byte chunks
        let mut calls = vec![]; let mut p = 0; let all = &sh.all_written;
        for n in &sh.wcalls { calls.push(all[p..p + n].to_vec()); p += n; }
        ARun { trace, pending: ci, dropped, calls }
    }));
    r.unwrap_or(ARun { trace: vec!["PANIC".into()], pending: 0, dropped: 0, calls: vec![] })
}

fn sched_tag(compressed: bool, wsched: &[Vec<UOp>]) -> String {
    if wsched.is_empty() { return "-".into(); }
    wsched.iter().map(|e| if e.is_empty() { "-".to_string() } else { e.iter().map(|o| hex(&op_frame(compressed, o).unwrap_or_default())).collect::<Vec<_>>().join("+") }).collect::<Vec<_>>().join(" ")
}
fn aconv_line(fr: &Frames, verify: bool, evs: &[REv], ws: &[WEv], cancels: &[bool], wsched: &[Vec<UOp>]) -> String {
    format!("aconv {} {} {} | {} | {} | {} | {}", mode_tag(fr.compressed), verify as u8, fr.table(),
            evs.iter().map(ev_tag).collect::<Vec<_>>().join(" "), ws.iter().map(wtag).collect::<Vec<_>>().join(" "),
            if cancels.is_empty() { "0".to_string() } else { cancels.iter().map(|c| if *c { '1' } else { '0' }).collect::<String>() },
            sched_tag(fr.compressed, wsched))
}

/// the properties on one cancelled conversation, independent of the model
fn aconv_oracle(fr: &Frames, verify: bool, wsched: &[Vec<UOp>], all_or_nothing: bool, run: &ARun) -> Option<String> {
    let pong: Vec<u8> = if fr.compressed { vec![1, 3, 0, 0] } else { vec![4, 3, 0, 0] };
    // (1) C19: results = the per-frame expectation of the uninterrupted, write-free session
    let got: Vec<&String> = run.trace.iter().filter(|t| !t.starts_with('U') && !t.starts_with('W') && !is_transient_tok(t)).collect();
    let want: Vec<String> = fr.expected(verify).into_iter().filter(|t| !t.starts_with('W')).collect();
    for (i, g) in got.iter().enumerate() { if want.get(i) != Some(*g) { return Some(format!("[C19] result #{i} is {:?}; the uninterrupted session gives {:?}", g, want.get(i))); } }
    if got.last().map(|t| *t == "DC").unwrap_or(false) && got.len() != want.len() { return Some(format!("[C19] {} results, the uninterrupted session has {}", got.len(), want.len())); }
    // (2) C06/C19: the wire is whole frames: replies and the caller's frames, never interleaved; a reply is complete before its keep-alive is returned
    let user: Vec<Vec<u8>> = wsched.iter().flatten().filter_map(|o| op_frame(fr.compressed, o)).collect();
    let mut done: Vec<u8> = vec![]; let mut ui = 0usize;
    for t in &run.trace {
        if let Some(h) = t.strip_prefix('W') { done.extend(unhex(h)); if !pong.starts_with(&done) { return Some(format!("[C19] reply bytes on the wire {} are not a prefix of the reply {}", hex(&done), hex(&pong))); } }
        else if let Some(h) = t.strip_prefix('U') {
            if h.starts_with("ERR") { return Some(format!("write failed: {t}")); }
            let b = unhex(h); let f = user.get(ui).cloned().unwrap_or_default(); ui += 1;
            let rest: Vec<u8> = if done.is_empty() && b == f { vec![] } else { pong[done.len().min(pong.len())..].to_vec() };
            let mut w = rest.clone(); w.extend(&f);
            if b != w { return Some(format!("[C06] a write() put {} on the wire; outstanding reply bytes {} then its frame {} were due", hex(&b), hex(&rest), hex(&f))); }
            if !rest.is_empty() { done = pong.clone(); }
        }
        else if is_transient_tok(t) { }
        else {
            // a result: a keep-alive needs its whole reply before it, anything else needs nothing outstanding
            let is_ka = t.starts_with('P') && t[1..].parse::<usize>().ok().map(|i| fr.class.get(i) == Some(&Class::Keep)).unwrap_or(false);
            if is_ka && done != pong { return Some(format!("[C07/C19] keep-alive returned with reply bytes {} on the wire", hex(&done))); }
            if !is_ka && !done.is_empty() { return Some(format!("[C19] result {t} returned while reply bytes {} are on the wire and their keep-alive was not", hex(&done))); }
            done.clear();
        }
    }
    // (3) C20: on a transport that takes a whole buffer or nothing (a message transport), every accepted call is exactly one frame
    if all_or_nothing {
        let mut ui = 0usize;
        for (i, c) in run.calls.iter().enumerate() {
            if *c == pong { continue; }
            if user.get(ui) == Some(c) { ui += 1; continue; }
            return Some(format!("[C20] accepted write call #{i} carries {} which is neither the reply frame nor the caller's next frame {:?}", hex(c), user.get(ui).map(|f| hex(f))));
        }
    }
    None
}

pub fn async_conversations(prop: &str, a: &Args, rng: &mut Rng, st: &mut Stats, out: &mut Out) -> ConvRunner {
    let mut run = ConvRunner::new();
    for compressed in [true, false] {
        let ka = raw_frame(compressed, 3, 0, &[0]);
        let pool = frame_pool(rng, compressed);
        let users: Vec<UOp> = user_pool(rng, compressed).into_iter().filter(|o| !matches!(o, UOp::Refused(..)) && op_frame(compressed, o).map(|f| f != ka).unwrap_or(false)).collect();
        let mut one = |fr: &Frames, idx: &RepIndex, verify: bool, evs: &[REv], ws: &[WEv], cancels: &[bool], wsched: &[Vec<UOp>], aon: bool, run: &mut ConvRunner, st: &mut Stats, out: &mut Out| {
            let r = aconv_run(&run.rt, fr, idx, verify, evs, ws, cancels, wsched);
            st.evaluations += 1; run.convs += 1; run.dropped += r.dropped as u64; run.writes += wsched.iter().map(|e| e.len() as u64).sum::<u64>();
            let line = aconv_line(fr, verify, evs, ws, cancels, wsched);
            if let Some(w) = aconv_oracle(fr, verify, wsched, aon, &r) { st.fail(format!("[{prop} tokio] cancelled conversation: {w}"), format!("{line} ## {}", wsched.iter().flatten().map(|o| if matches!(o, UOp::Handshake(_)) { 'h' } else { 'w' }).collect::<String>())); }
            out.case(&line, &r.trace.join(" "));
            if r.dropped > 0 && wsched.iter().any(|e| !e.is_empty()) { let _ = run.distinct.insert(fnv(&line)); }
            st.bump(if aon { "cancelled conversations:message transport (whole buffer or not ready)" } else { "cancelled conversations:byte transport (partial accepts)" });
        };
        // 1. systematic: a keep-alive whose reply is accepted k bytes at a time with not-ready turns, the future dropped at the j-th
        //    pending poll, then the caller writes while the transport takes i bytes per call; every (k-pattern, j, i)
        let other = raw_frame(compressed, 3, 7, &[4]);
        let fr = Frames::new(compressed, vec![ka.clone(), other.clone(), ka.clone()]); let idx = RepIndex::new(&fr);
        let evs = vec![REv::Data(fr.stream()), REv::Pend, REv::Eof];
        for first in 0..4usize { for second in 0..4usize { for drop_at in 0..3usize { for u in users.iter().take(4) {
            let mut ws = vec![];
            if first > 0 { ws.push(WEv::Accept(first - 1)); }
            ws.push(WEv::Pending);
            if second > 0 { ws.push(WEv::Accept(second - 1)); ws.push(WEv::Pending); }
            ws.extend([WEv::Accept(0), WEv::Pending, WEv::Accept(1), WEv::Accept(50)]);
            let cancels: Vec<bool> = (0..6).map(|i| i == drop_at).collect();
            let mut wsched: Vec<Vec<UOp>> = vec![vec![]; drop_at.min(1)];
            wsched.push(vec![u.clone()]);
            one(&fr, &idx, false, &evs, &ws, &cancels, &wsched, false, &mut run, st, out);
        } } } }
        st.exhaustive.push(format!("keep-alive reply accepted 0..3 bytes, not ready, 0..3 bytes more, future dropped at pending poll 0..2, then a caller write() over 1-2-byte accepts ({} mode)", mode_tag(compressed)));
        // 2. the same on a message transport: whole buffer or not ready
        for npend in 0..4usize { for drop_at in 0..3usize { for u in users.iter().take(4) {
            let mut ws: Vec<WEv> = vec![WEv::Pending; npend]; ws.push(WEv::Accept(2000)); ws.push(WEv::Pending); ws.push(WEv::Accept(2000));
            let cancels: Vec<bool> = (0..6).map(|i| i == drop_at).collect();
            let wsched = vec![vec![u.clone()], vec![], vec![u.clone(), u.clone()]];
            one(&fr, &idx, false, &evs, &ws, &cancels, &wsched, true, &mut run, st, out);
        } } }
        // 3. random
        let n = if a.thorough() { 3000 } else { 300 };
        for i in 0..n {
            let k = rng.range(1, 10) as usize;
            let frames: Vec<Vec<u8>> = (0..k).map(|_| if rng.chance(1, 2) { ka.clone() } else { rng.pick(&pool).clone() }).collect();
            let fr = Frames::new(compressed, frames); let idx = RepIndex::new(&fr);
            let stream = fr.stream();
            let mut evs = vec![]; let mut p = 0; let style = rng.below(3);
            while p < stream.len() {
                while rng.chance(30, 100) { evs.push(REv::Pend); }
                let nb = (match style { 0 => rng.range(1, 4), 1 => rng.range(1, 60), _ => rng.range(1, 3000) } as usize).min(stream.len() - p);
                evs.push(REv::Data(stream[p..p + nb].to_vec())); p += nb;
            }
            while rng.chance(1, 2) { evs.push(REv::Pend); }
            evs.push(REv::Eof);
            let aon = i % 3 == 0;
            let nka = fr.class.iter().filter(|c| **c == Class::Keep).count();
            let mut ws = vec![];
            for _ in 0..nka * 5 + 12 { if rng.chance(45, 100) { ws.push(WEv::Pending) } else { ws.push(WEv::Accept(if aon { 2000 } else { *rng.pick(&[0usize, 0, 1, 2, 3, 9]) })) } }
            let cancels: Vec<bool> = (0..evs.len() + ws.len()).map(|_| rng.chance(1, 2)).collect();
            let wsched: Vec<Vec<UOp>> = (0..k + 6).map(|_| if rng.chance(1, 2) { vec![] } else { (0..rng.range(1, 2)).map(|_| rng.pick(&users).clone()).collect() }).collect();
            let verify = rng.chance(1, 2);
            one(&fr, &idx, verify, &evs, &ws, &cancels, &wsched, aon, &mut run, st, out);
        }
    }
    st.notes.push(format!("cancelled conversations (tokio): {} runs, {} futures dropped, {} caller writes between reads", run.convs, run.dropped, run.writes));
    run
}

pub fn replay_aconv(prop: &str, r: &str) -> i32 {
    // "aconv <M> <V> <frames..> | <events..> | <wevs..> | <cancels> | <sched..>"
    let toks: Vec<&str> = r.split_whitespace().collect();
    let compressed = toks[1] == "C"; let verify = toks[2] == "1";
    let bars: Vec<usize> = toks.iter().enumerate().filter(|(_, t)| **t == "|").map(|(i, _)| i).collect();
    let frames: Vec<Vec<u8>> = toks[3..bars[0]].iter().map(|t| { let p: Vec<&str> = t.split(':').collect(); let body = unhex(p[1]); let mut f = vec![size_byte(compressed, body.len() + 1)]; f.extend(body); f }).collect();
    let evs: Vec<REv> = toks[bars[0] + 1..bars[1]].iter().map(|t| parse_ev(t)).collect();
    let ws: Vec<WEv> = toks[bars[1] + 1..bars[2]].iter().map(|t| parse_w(t)).collect();
    let cancels: Vec<bool> = toks.get(bars[2] + 1).map(|c| c.chars().map(|x| x == '1').collect()).unwrap_or_default();
    let hh = toks.iter().position(|t| *t == "##").unwrap_or(toks.len());
    let kinds: Vec<char> = toks.get(hh + 1).map(|k| k.chars().collect()).unwrap_or_default(); let mut ki = 0usize;
    let wsched: Vec<Vec<UOp>> = toks[bars[3] + 1..hh].iter().map(|e| if *e == "-" { vec![] } else { e.split('+').map(|h| { let k = kinds.get(ki).copied().unwrap_or('w'); ki += 1; op_of_tag(compressed, &format!("{k}{h}")) }).collect() }).collect();
    let aon = ws.iter().all(|w| matches!(w, WEv::Pending) || matches!(w, WEv::Accept(k) if *k >= 1020));
    let fr = Frames::new(compressed, frames); let idx = RepIndex::new(&fr);
    let run = aconv_run(&runtime(), &fr, &idx, verify, &evs, &ws, &cancels, &wsched);
    match aconv_oracle(&fr, verify, &wsched, aon, &run) {
        Some(w) => { println!("FAIL [{prop}] {w}\n trace: {}\n accepted calls: {}", run.trace.join(" "), run.calls.iter().map(|c| hex(c)).collect::<Vec<_>>().join(" ")); 1 },
        None => { println!("PASS trace: {}", run.trace.join(" ")); 0 },
    }
}
