(* Text/Escape.v — executable models of insim_core::string::{escaping, colours}: escape,
   unescape, strip, over lists of Unicode scalar values, with the tables regenerated from the
   source (Gen/TextTab.v).  No proofs here. *)
Require Import Coq.Strings.String.
Require Import Base.Bytes Gen.TextTab.
Local Open Scope N_scope.

Notation caret := gen_marker.
Fixpoint lookup (k : N) (tab : list (N * N)) : option N :=
  match tab with [] => None | (a, b) :: t => if k =? a then Some b else lookup k t end.
Definition is_caret (c : N) : bool := c =? caret.
Definition is_colour (c : N) : bool := existsb (N.eqb c) gen_colours.
(* char::try_lfs_escape / try_lfs_unescape: the caret maps to itself *)
Definition try_escape (c : N) : option N := if is_caret c then Some caret else lookup c gen_escape_tab.
Definition try_unescape (c : N) : option N := if is_caret c then Some caret else lookup c gen_unescape_tab.

(* the loops (peekable iterator, one char of look-ahead) *)
Fixpoint esc (s : list N) : list N :=
  match s with
  | [] => []
  | c :: t =>
      let plain := match try_escape c with
                   | Some d => caret :: d :: esc t
                   | None => c :: esc t
                   end in
      if is_caret c then
        match t with
        | d :: t' => if is_colour d then c :: d :: esc t'   (* a colour: copied through *)
                     else plain
        | [] => plain
        end
      else plain
  end.

Fixpoint unesc (s : list N) : list N :=
  match s with
  | [] => []
  | i :: t =>
      if is_caret i then
        match t with
        | j :: t' => match try_unescape j with
                     | Some k => k :: unesc t'
                     | None => i :: unesc t
                     end
        | [] => i :: unesc t
        end
      else i :: unesc t
  end.

Fixpoint strp (s : list N) : list N :=
  match s with
  | [] => []
  | i :: t =>
      if is_caret i then
        match t with
        | j :: t' => if is_caret j then i :: j :: strp t'     (* escaped caret: kept *)
                     else if is_colour j then strp t'          (* colour: removed *)
                     else i :: strp t
        | [] => [i]
        end
      else i :: strp t
  end.

(* the public functions, with their fast paths *)
Definition escape (s : list N) : list N :=
  if existsb (fun c => match try_escape c with Some _ => true | None => false end) s then esc s else s.
Definition unescape (s : list N) : list N := if existsb is_caret s then unesc s else s.
Definition strip (s : list N) : list N := if existsb is_caret s then strp s else s.

Definition reserved (c : N) : bool := match lookup c gen_escape_tab with Some _ => true | None => false end.
