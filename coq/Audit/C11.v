Require Import Coq.Strings.String.
Require Import Props.C11.
Require Import Base.Bytes Wire.Layout Wire.LayoutProofs.
Local Open Scope N_scope.
Require Import Gen.Packets Wire.Packet.
Check c11_fixed_exact_width : forall n bs,
  length (write_fixed n bs) = n /\
  write_fixed n bs = firstn n bs ++ repeat 0 (n - length (firstn n bs)).
Check c11_aligned_width : forall mx al bs, (0 < al)%nat -> Nat.modulo mx al = 0%nat ->
  length (write_aligned mx al bs) = Nat.min mx (round_up (length bs) al) /\
  Nat.modulo (length (write_aligned mx al bs)) al = 0%nat /\
  (length (write_aligned mx al bs) <= mx)%nat /\
  write_aligned mx al bs = firstn mx (bs ++ repeat 0 (round_up (length bs) al - length bs)).
Check c11_decode_stops_at_first_nul : forall a b, nonul a = true -> strip_nul (a ++ 0 :: b) = a.
Check c11_strip_idempotent : forall bs, strip_nul (strip_nul bs) = strip_nul bs.
Check c11_fixed_read_back : forall n bs, (length bs <= n)%nat -> nonul bs = true ->
  strip_nul (write_fixed n bs) = bs.
Check c11_terminated_fixed : forall n bs, (0 < n)%nat ->
  length (write_text n true bs) = n /\ last (write_text n true bs) 1 = 0 /\
  write_text n true bs = firstn (Nat.pred n) bs ++ repeat 0 (n - length (firstn (Nat.pred n) bs)).
Check c11_terminated_aligned : forall mx al bs, (0 < al)%nat -> (0 < mx)%nat -> Nat.modulo mx al = 0%nat ->
  last (write_aligned_z mx al bs) 1 = 0 /\
  Nat.modulo (length (write_aligned_z mx al bs)) al = 0%nat /\ (length (write_aligned_z mx al bs) <= mx)%nat.
Check c11_terminated_read_back : forall n bs, (0 < n)%nat -> (length bs <= Nat.pred n)%nat -> nonul bs = true ->
  strip_nul (write_text n true bs) = bs.
Check c11_the_four_packets_use_the_terminated_writer :
  forallb (fun e => let '(_, nm, k) := e in
                    if must_terminate nm then negb (match text_flags k with [] => true | _ => false end) && forallb (fun z => z) (text_flags k)
                    else forallb negb (text_flags k)) packet_table = true.
Check c11_plain_fixed_terminated_iff_room : forall n bs,
  ~ known_class_full_width n bs -> last (write_fixed n bs) 1 = 0.
Check c11_plain_writer_refuted :
  (exists bs, known_class_full_width 64 bs /\ nonul bs = true /\ last (write_fixed 64 bs) 1 <> 0) /\
  (exists bs, nonul bs = true /\ last (write_aligned 128 4 bs) 1 <> 0).
Print Assumptions c11_fixed_exact_width.
Print Assumptions c11_aligned_width.
Print Assumptions c11_decode_stops_at_first_nul.
Print Assumptions c11_strip_idempotent.
Print Assumptions c11_fixed_read_back.
Print Assumptions c11_terminated_fixed.
Print Assumptions c11_terminated_aligned.
Print Assumptions c11_terminated_read_back.
Print Assumptions c11_the_four_packets_use_the_terminated_writer.
Print Assumptions c11_plain_fixed_terminated_iff_room.
Print Assumptions c11_plain_writer_refuted.
