#!/usr/bin/env python3
"""seedtest.py <id> <worktree> "<demo command>" [--checks C01,C03] [--keep]
Confirms a seeded change delivered by a sub-agent in <worktree>/OUT (patch.diff + demo) and runs the
registered checks against it:
  1. in the scratch worktree: clean tree + patch -> the unedited suite must pass, the demo must FAIL;
     patch reverted -> the demo must PASS;
  2. patch applied to /repo -> ./check <prop> for each listed property -> patch reverted (always);
  3. on success the artefacts are stored as /verif/seeded/<id>/ (patch.diff, demo files, meta.json).
Nothing is ever committed to /repo."""
import os, sys, json, subprocess, shutil, glob, time, re
ROOT = os.path.dirname(os.path.dirname(os.path.abspath(__file__)))

def sh(cmd, cwd=None, timeout=3600):
    p = subprocess.run(cmd, cwd=cwd, shell=True, stdout=subprocess.PIPE, stderr=subprocess.STDOUT, text=True, errors='replace', timeout=timeout,
                       env=dict(os.environ, CARGO_NET_OFFLINE='true'))
    return p.returncode, p.stdout

def main():
    sid, wt, demo = sys.argv[1], sys.argv[2], sys.argv[3]
    checks = None; keep = '--keep' in sys.argv
    if '--checks' in sys.argv: checks = sys.argv[sys.argv.index('--checks') + 1].split(',')
    out = os.path.join(wt, 'OUT'); patch = os.path.join(out, 'patch.diff')
    meta = json.load(open(os.path.join(out, 'meta.json'))) if os.path.exists(os.path.join(out, 'meta.json')) else {}
    prop = meta.get('property', sid[:3])
    checks = checks or [prop]
    res = {'id': sid, 'property': prop}
    # 1. confirm in the scratch worktree
    sh('git apply -R %s' % patch, cwd=wt)   # a previous attempt may have left the patch (and files it adds) applied
    sh('git checkout -- . ', cwd=wt)
    rc, o = sh('git apply --check %s && git apply %s' % (patch, patch), cwd=wt)
    if rc != 0: print('patch does not apply:', o[-500:]); return 2
    # the unedited suite: the demo (untracked files outside OUT/) is moved aside while it runs
    rcu, ou = sh("git status --porcelain --untracked-files=all | grep '^??' | cut -c4- | grep -v '^OUT/' | grep -v '^target/'", cwd=wt)
    aside = os.path.join(wt, 'OUT', '.aside'); moved = []
    in_patch = set(re.findall(r'^\+\+\+ b/(\S+)', open(patch).read(), re.M))   # files the patch itself adds stay where they are
    for f in [x for x in ou.splitlines() if x.strip() and x.strip() not in in_patch]:
        d = os.path.join(aside, f); os.makedirs(os.path.dirname(d), exist_ok=True); shutil.move(os.path.join(wt, f), d); moved.append(f)
    rc, o = sh('cargo test --workspace --no-fail-fast --offline 2>&1', cwd=wt)
    for f in moved:
        os.makedirs(os.path.dirname(os.path.join(wt, f)), exist_ok=True); shutil.move(os.path.join(aside, f), os.path.join(wt, f))
    passed = sum(int(x) for x in re.findall(r'test result: \w+\. (\d+) passed', o)); failed = sum(int(x) for x in re.findall(r'(\d+) failed', o))
    # the demo (an extra test file) may be counted: subtract nothing, just require no failure outside the demo
    res['suite_with_change'] = {'rc': rc, 'passed': passed, 'failed': failed}
    rc_d1, o1 = sh(demo, cwd=wt)
    res['demo_with_change_rc'] = rc_d1
    sh('git apply -R %s' % patch, cwd=wt)
    rc_d0, o0 = sh(demo, cwd=wt)
    res['demo_without_change_rc'] = rc_d0
    res['confirmed'] = (rc_d1 != 0 and rc_d0 == 0 and res['suite_with_change']['rc'] == 0 and failed == 0 and passed >= 58)
    print(json.dumps(res))
    if not res['confirmed']:
        print('NOT CONFIRMED\n--- with change:\n', o1[-1500:], '\n--- without:\n', o0[-1500:]); return 1
    # 2. run the checks against /repo with the patch
    rcs, o = sh('git status --porcelain', cwd='/repo')
    if o.strip(): print('/repo is not clean:', o); return 2
    rc, o = sh('git apply %s' % patch, cwd='/repo')
    if rc != 0: print('patch does not apply to /repo', o); return 2
    caught = {}
    try:
        for c in checks:
            t0 = time.time()
            rc, o = sh('./check %s --tier quick' % c, cwd=ROOT)
            v = [l for l in o.splitlines() if l.startswith('VIOLATION')]
            detail = [l.strip()[:300] for l in o.splitlines() if l.strip().startswith(('fails:', 'broken['))][:4]
            caught[c] = {'rc': rc, 'violation': v[:1], 'detail': detail, 'wall_s': round(time.time() - t0, 1)}
            print(c, 'rc', rc, v[:1], detail[:2])
    finally:
        sh('git apply -R %s' % patch, cwd='/repo')   # also removes files the patch added
        sh('git checkout -- .', cwd='/repo')
        for f in glob.glob(os.path.join(ROOT, 'replays', '*.json')):
            if os.path.getmtime(f) > time.time() - 3600 and not keep: os.remove(f)
    res['checks'] = caught
    # 3. store
    dst = os.path.join(ROOT, 'seeded', sid); os.makedirs(dst, exist_ok=True)
    shutil.copy(patch, os.path.join(dst, 'patch.diff'))
    for f in os.listdir(out):
        if f not in ('patch.diff', 'meta.json') and os.path.isfile(os.path.join(out, f)): shutil.copy(os.path.join(out, f), os.path.join(dst, f))
    m = {'id': sid, 'breaks_property': prop, 'summary': meta.get('summary'), 'needs_to_manifest': meta.get('needs_to_manifest'),
         'files_changed': meta.get('files_changed'), 'author': 'independent sub-agent given only the property text',
         'confirmed_by': {'suite_with_change': res['suite_with_change'], 'demo_command': demo, 'demo_with_change_rc': rc_d1, 'demo_without_change_rc': rc_d0},
         'checks_run': caught, 'caught_by': [c for c, r in caught.items() if r['rc'] != 0]}
    json.dump(m, open(os.path.join(dst, 'meta.json'), 'w'), indent=1)
    print('stored', dst, 'caught_by', m['caught_by'])
    return 0

if __name__ == '__main__':
    sys.exit(main())
