Require Import Base.Bytes Core.VehicleDefs Gen.VehicleTab Core.Vehicle Core.VehicleProofs.
Require Import Props.C13.
Local Open Scope N_scope.
Check c13_read_is_v9_rule : forall bs, vehicle_read bs = spec_read bs.
Check c13_reencode_identical : forall bs v,
  allbytes bs -> vehicle_read bs = Ok v -> vehicle_write v = Ok bs.
Check c13_error_iff_unrecognised_builtin_name : forall bs, length bs = 4%nat ->
  (vehicle_read bs = Err <->
   bs <> zeros4 /\ builtin_shape bs = true /\
   forall i nm, In (i, nm) vehicle_display_tab -> nm ++ [0] <> bs).
Check c13_unknown_iff_zeros : forall bs, vehicle_read bs = Ok Unknown <-> bs = zeros4.
Check c13_mod_iff_not_builtin_shape : forall bs id, length bs = 4%nat ->
  (vehicle_read bs = Ok (Mod id) <-> bs <> zeros4 /\ builtin_shape bs = false /\ id = le_dec bs).
Check c13_builtin_iff_named : forall bs i, length bs = 4%nat ->
  (vehicle_read bs = Ok (Builtin i) <-> exists nm, In (i, nm) vehicle_display_tab /\ nm ++ [0] = bs).
Check c13_classification_follows_the_bytes : forall bs v, length bs = 4%nat -> vehicle_read bs = Ok v ->
  (is_mod v = true <-> bs <> zeros4 /\ builtin_shape bs = false) /\
  is_builtin v = negb (is_mod v) /\
  (is_mod v = true -> v = Mod (le_dec bs)).
Check c13_printed_name_is_wire_name : forall i nm,
  vehicle_display i = Some nm -> vehicle_write (Builtin i) = Ok (nm ++ [0]).
Check c13_roundtrip_on_reachable : forall bs v,
  allbytes bs -> vehicle_read bs = Ok v -> exists w, vehicle_write v = Ok w /\ vehicle_read w = Ok v.
Check c13_decode_injective : forall bs1 bs2 v,
  allbytes bs1 -> allbytes bs2 -> vehicle_read bs1 = Ok v -> vehicle_read bs2 = Ok v -> bs1 = bs2.
Check c13_encode_injective_on_reachable : forall bs1 bs2 v1 v2,
  allbytes bs1 -> allbytes bs2 -> vehicle_read bs1 = Ok v1 -> vehicle_read bs2 = Ok v2 ->
  vehicle_write v1 = vehicle_write v2 -> v1 = v2.
Check c13_encode_collides_only_off_reachable : forall i nm,
  vehicle_display i = Some nm ->
  vehicle_write (Mod (le_dec (nm ++ [0]))) = vehicle_write (Builtin i) /\
  forall bs, allbytes bs -> vehicle_read bs <> Ok (Mod (le_dec (nm ++ [0]))).
Check c13_builtin_set_is_lfs : same_car_set = true /\ forallb tab_entry_ok vehicle_display_tab = true
                                  /\ nodup_keys vehicle_display_tab = true.
Print Assumptions c13_read_is_v9_rule.
Print Assumptions c13_reencode_identical.
Print Assumptions c13_error_iff_unrecognised_builtin_name.
Print Assumptions c13_unknown_iff_zeros.
Print Assumptions c13_mod_iff_not_builtin_shape.
Print Assumptions c13_builtin_iff_named.
Print Assumptions c13_classification_follows_the_bytes.
Print Assumptions c13_printed_name_is_wire_name.
Print Assumptions c13_roundtrip_on_reachable.
Print Assumptions c13_decode_injective.
Print Assumptions c13_encode_injective_on_reachable.
Print Assumptions c13_encode_collides_only_off_reachable.
Print Assumptions c13_builtin_set_is_lfs.
