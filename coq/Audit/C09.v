Require Import Base.Bytes Net.Frame Net.FrameProofs Net.Framed Net.FramedProofs Net.Concrete Gen.NetConsts Props.C09.
Local Open Scope N_scope.
Check c09_rejects_iff :
  forall packet ver_of is_keepalive version verify pong (p : packet) v,
  deliver packet ver_of is_keepalive version verify pong p = [Ret (RBadVersion v)] <->
  verify = true /\ ver_of p = Some v /\ v <> version.
Check c09_delivers_otherwise :
  forall packet ver_of is_keepalive version verify pong (p : packet),
  (verify = false \/ ver_of p = None \/ ver_of p = Some version) ->
  In (Ret (RPacket p)) (deliver packet ver_of is_keepalive version verify pong p).
Check c09_version_is_9 : gen_version = 9.
Check c09_expected_frame_is_gate :
  forall packet parse ver_of is_keepalive version verify pong f (p : packet),
  parse (tl f) = Ok p ->
  expected_frame packet parse ver_of is_keepalive version verify pong f
  = deliver packet ver_of is_keepalive version verify pong p.
Print Assumptions c09_rejects_iff.
Print Assumptions c09_delivers_otherwise.
Print Assumptions c09_version_is_9.
Print Assumptions c09_expected_frame_is_gate.
