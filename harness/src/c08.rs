//! C08 — UDP: real loopback socket pairs, the blocking and the tokio `UdpStream`, both size modes.
//!  (a) adaptor level: the adaptor's own `Read` / `AsyncRead` is called with scripted slice sizes and the
//!      chunk sequence is compared with the model's `serve` (incl. datagrams larger than the scratch array);
//!  (b) session level: `Framed` over the adaptor, datagrams of 1..n frames, 4..1020 bytes, cumulative traffic
//!      far beyond the 6120-byte receive buffer; oracle = one result per frame in order;
//!  (c) writes: every written packet must arrive at the peer as exactly one datagram = its frame.
use std::{collections::HashSet, net::UdpSocket, time::Duration};

use insim::{
    net::{blocking_impl::{Framed as BFramed, UdpStream as BUdp}, tokio_impl::{Framed as AFramed, UdpStream as AUdp}, Codec},
    Packet,
};
use tokio::io::AsyncReadExt;

use crate::{common::*, net::*};

const SCRATCH: usize = 1020;

fn pair() -> (UdpSocket, UdpSocket) {
    let a = UdpSocket::bind("127.0.0.1:0").unwrap();
    let b = UdpSocket::bind("127.0.0.1:0").unwrap();
    a.connect(b.local_addr().unwrap()).unwrap();
    b.connect(a.local_addr().unwrap()).unwrap();
    (a, b)
}
pub fn io_runtime() -> tokio::runtime::Runtime {
    tokio::runtime::Builder::new_current_thread().enable_all().build().unwrap()
}

/// sends datagrams so that at most ~40 KB are in flight (loopback never drops below the socket buffer)
struct Feeder<'a> { peer: &'a UdpSocket, dgs: &'a [Vec<u8>], next: usize, sent: usize, end_sent: bool, done: usize, done_bytes: usize,
    /// lock-step: the next datagram (and the closing empty one) is sent only when every packet of the earlier ones has been read
    lockstep: bool }
impl<'a> Feeder<'a> {
    fn new(peer: &'a UdpSocket, dgs: &'a [Vec<u8>]) -> Self { Feeder { peer, dgs, next: 0, sent: 0, end_sent: false, done: 0, done_bytes: 0, lockstep: false } }
    /// consumed = payload bytes the reader has obtained so far; at most 100 datagrams / 40 KB are left unread
    /// in the socket (a datagram cut by the scratch array counts as read once the reader is past its start + 1020)
    fn top_up(&mut self, consumed: usize) {
        while self.done < self.next && self.done_bytes + self.dgs[self.done].len().min(SCRATCH) <= consumed { self.done_bytes += self.dgs[self.done].len().min(SCRATCH); self.done += 1; }
        while self.next < self.dgs.len() && self.sent.saturating_sub(consumed) < (if self.lockstep { 1 } else { 40_000 }) && self.next - self.done < 100 {
            let _ = self.peer.send(&self.dgs[self.next]).unwrap();
            self.sent += self.dgs[self.next].len().min(SCRATCH); self.next += 1;
        }
        if self.next == self.dgs.len() && !self.end_sent && (!self.lockstep || consumed >= self.sent) { let _ = self.peer.send(&[]).unwrap(); self.end_sent = true; }
    }
}

/// (a) one adaptor-level script: returns the chunk trace "D.. D.. Z" and the slice sizes used
fn adaptor_run(imp: &str, rt: &tokio::runtime::Runtime, dgs: &[Vec<u8>], sizes: &mut dyn FnMut() -> usize) -> (String, Vec<usize>) {
    let (a, b) = pair();
    let mut feeder = Feeder::new(&b, dgs);
    let mut trace = vec![]; let mut used = vec![]; let mut consumed = 0usize;
    let mut buf = vec![0u8; 8192];
    let cap = dgs.iter().map(|d| d.len()).sum::<usize>() + dgs.len() + 16;
    if imp == "B" {
        a.set_read_timeout(Some(Duration::from_secs(3))).unwrap();
        let mut s = BUdp::from(a);
        for _ in 0..cap {
            feeder.top_up(consumed);
            let c = sizes(); used.push(c);
            match guard(|| std::io::Read::read(&mut s, &mut buf[..c])) {
                None => { trace.push("PANIC".into()); break; },
                Some(Ok(0)) => { trace.push("Z".into()); break; },
                Some(Ok(n)) => { consumed += n; trace.push(format!("D{}", hex(&buf[..n]))); },
                Some(Err(e)) => { trace.push(format!("ERR:{:?}", e.kind())); break; },
            }
        }
    } else {
        a.set_nonblocking(true).unwrap();
        let _g = rt.enter();
        let mut s = AUdp::from(tokio::net::UdpSocket::from_std(a).unwrap());
        for _ in 0..cap {
            feeder.top_up(consumed);
            let c = sizes(); used.push(c);
            let r = guard(|| rt.block_on(async { tokio::time::timeout(Duration::from_secs(3), AsyncReadExt::read(&mut s, &mut buf[..c])).await }));
            match r {
                None => { trace.push("PANIC".into()); break; },
                Some(Err(_)) => { trace.push("ERR:TimedOut".into()); break; },
                Some(Ok(Ok(0))) => { trace.push("Z".into()); break; },
                Some(Ok(Ok(n))) => { consumed += n; trace.push(format!("D{}", hex(&buf[..n]))); },
                Some(Ok(Err(e))) => { trace.push(format!("ERR:{:?}", e.kind())); break; },
            }
        }
    }
    (trace.join(" "), used)
}

/// the adaptor-level expectation, computed independently of the Coq model: the payload stream (each datagram
/// cut to the scratch size) re-chunked by the slice sizes, never across a datagram boundary
fn adaptor_expect(dgs: &[Vec<u8>], used: &[usize]) -> String {
    let mut out = vec![]; let mut k = 0;
    'outer: for d in dgs {
        let d = &d[..d.len().min(SCRATCH)];
        let mut i = 0;
        while i < d.len() {
            if k >= used.len() { break 'outer; }
            let n = used[k].min(d.len() - i); k += 1;
            out.push(format!("D{}", hex(&d[i..i + n]))); i += n;
        }
    }
    out.push("Z".into());
    out.join(" ")
}

fn drain_peer(b: &UdpSocket, got: &mut Vec<Vec<u8>>) { let mut rb = [0u8; 4096]; let _ = b.set_nonblocking(true); while let Ok(n) = b.recv(&mut rb) { got.push(rb[..n].to_vec()); } let _ = b.set_nonblocking(false); }

/// (b) one session: returns the canonical trace and the datagrams the peer received (keep-alive replies)
fn session_run(imp: &str, rt: &tokio::runtime::Runtime, fr: &Frames, idx: &RepIndex, verify: bool, dgs: &[Vec<u8>], lockstep: bool, cancel_us: Option<u64>) -> (Vec<String>, Vec<Vec<u8>>) {
    let (a, b) = pair();
    let mut feeder = Feeder::new(&b, dgs); feeder.lockstep = lockstep;
    let mut trace = vec![]; let mut consumed = 0usize; let mut got: Vec<Vec<u8>> = vec![];
    let max_reads = fr.frames.len() + 8;
    let mut next_frame = 0usize;
    let mut account = |trace: &Vec<String>, consumed: &mut usize| {
        // every non-transient result accounts for one frame of the stream
        if let Some(t) = trace.last() { if !is_transient_tok(t) && next_frame < fr.frames.len() { *consumed += fr.frames[next_frame].len(); next_frame += 1; } }
    };
    if imp == "B" {
        a.set_read_timeout(Some(Duration::from_secs(3))).unwrap();
        let mut f = BFramed::new(Box::new(BUdp::from(a)), Codec::new(mode_of(fr.compressed)));
        f.verify_version(verify);
        for k in 0..max_reads {
            feeder.top_up(consumed);
            if k % 64 == 63 { drain_peer(&b, &mut got); }
            match guard(|| f.read()) {
                None => { trace.push("PANIC".into()); break; },
                Some(Ok(p)) => trace.push(idx.token(&p)),
                Some(Err(e)) => { let (tok, fin) = err_token(&e); trace.push(tok.clone()); if fin || is_transient_tok(&tok) { break; } },
            }
            account(&trace, &mut consumed);
        }
    } else {
        a.set_nonblocking(true).unwrap();
        let _g = rt.enter();
        let mut f = AFramed::new(Box::new(AUdp::from(tokio::net::UdpSocket::from_std(a).unwrap())), Codec::new(mode_of(fr.compressed)));
        f.verify_version(verify);
        for k in 0..max_reads {
            feeder.top_up(consumed);
            if k % 64 == 63 { drain_peer(&b, &mut got); }
            // cancel_us: the caller's own short timeout drops read() again and again (tokio only); nothing for 3 s = stalled
            let r = match cancel_us {
                None => guard(|| rt.block_on(async { tokio::time::timeout(Duration::from_secs(3), f.read()).await })),
                Some(us) => guard(|| rt.block_on(async { let t0 = std::time::Instant::now(); loop { match tokio::time::timeout(Duration::from_micros(us), f.read()).await { Ok(r) => break Ok(r), Err(e) => if t0.elapsed() > Duration::from_secs(3) { break Err(e); } } } })),
            };
            match r {
                None => { trace.push("PANIC".into()); break; },
                Some(Err(_)) => { trace.push("STALLED".into()); break; },
                Some(Ok(Ok(p))) => trace.push(idx.token(&p)),
                Some(Ok(Err(e))) => { let (tok, fin) = err_token(&e); trace.push(tok.clone()); if fin || is_transient_tok(&tok) { break; } },
            }
            account(&trace, &mut consumed);
        }
    }
    // what the peer received (collected every 64 reads as well: the socket buffer holds only a few hundred datagrams)
    std::thread::sleep(Duration::from_millis(1));
    drain_peer(&b, &mut got);
    (trace, got)
}

/// pack frames into datagrams: style 0 = one frame each, 1 = greedy up to 1020 bytes, 2 = random 1..n per datagram
fn pack(rng: &mut Rng, frames: &[Vec<u8>], style: u64) -> Vec<Vec<Vec<u8>>> {
    let mut out: Vec<Vec<Vec<u8>>> = vec![]; let mut cur: Vec<Vec<u8>> = vec![]; let mut len = 0usize;
    let mut want = 1usize;
    for f in frames {
        let full = match style { 0 => !cur.is_empty(), 1 => len + f.len() > 1020, _ => len + f.len() > 1020 || cur.len() >= want };
        if full && !cur.is_empty() { out.push(std::mem::take(&mut cur)); len = 0; want = rng.range(1, 12) as usize; }
        len += f.len(); cur.push(f.clone());
    }
    if !cur.is_empty() { out.push(cur); }
    out
}

struct Case { imp: &'static str, compressed: bool, verify: bool, frames: Vec<Vec<u8>>, groups: Vec<usize>, lockstep: bool, cancel_us: Option<u64> }

/// regenerate a session case from its compact id: "<imp> <C|U> <seed> <nframes> <pack style> <big>"
fn session_case(imp: &str, compressed: bool, cseed: u64, nframes: usize, style: u64, big: bool) -> Case {
    let mut rng = Rng::new(cseed);
    let pool = frame_pool(&mut rng, compressed);
    let bigs: Vec<&Vec<u8>> = pool.iter().filter(|f| f.len() >= 200).collect();
    let frames: Vec<Vec<u8>> = (0..nframes).map(|_| if big && !bigs.is_empty() && rng.chance(3, 4) { (*rng.pick(&bigs)).clone() } else { rng.pick(&pool).clone() }).collect();
    let fr = Frames::new(compressed, frames);   // drops anything that is not one complete frame
    // styles 3 / 4 = styles 1 / 2 in lock-step (the peer waits for its packets to be read before it sends more)
    let packed = pack(&mut rng, &fr.frames, if style >= 3 { style - 2 } else { style });
    Case { imp: if imp == "B" { "B" } else { "A" }, compressed, verify: cseed % 2 == 0, frames: fr.frames.clone(), groups: packed.iter().map(|g| g.len()).collect(), lockstep: style >= 3, cancel_us: None }
}

fn run_session_case(id: &str, c: &Case, rt: &tokio::runtime::Runtime, st: &mut Stats, out: Option<&mut Out>, rng: &mut Rng) -> bool {
    let fr = Frames::new(c.compressed, c.frames.clone()); let idx = RepIndex::new(&fr);
    let mut dgs: Vec<Vec<u8>> = vec![]; let mut i = 0;
    for g in &c.groups { dgs.push(fr.frames[i..i + g].concat()); i += g; }
    let (trace, got) = session_run(c.imp, rt, &fr, &idx, c.verify, &dgs, c.lockstep, c.cancel_us);
    st.evaluations += 1;
    let mut ok = true;
    // Disconnected is produced by the empty terminator datagram; keep-alive replies go to the peer socket
    let want: Vec<String> = fr.expected(c.verify).into_iter().filter(|t| !t.starts_with('W')).collect();
    if trace != want {
        let pos = trace.iter().zip(want.iter()).position(|(a, b)| a != b).unwrap_or(trace.len().min(want.len()));
        st.fail(format!("[C08 {}] result #{pos} of {}: got {:?} want {:?} ({} datagrams, {} bytes in the session)", if c.imp == "B" { "blocking" } else { "tokio" }, want.len(), trace.get(pos), want.get(pos), dgs.len(), dgs.iter().map(|d| d.len()).sum::<usize>()), id.to_string());
        ok = false;
    }
    // keep-alive replies: one 4-byte datagram per delivered keep-alive
    let pong: Vec<u8> = if c.compressed { vec![1, 3, 0, 0] } else { vec![4, 3, 0, 0] };
    let nka = fr.class.iter().filter(|k| **k == Class::Keep).count();
    if ok && (got.len() != nka || got.iter().any(|d| *d != pong)) {
        st.fail(format!("[C08 {}] peer received {} datagrams {:?} for {} keep-alives", c.imp, got.len(), got.iter().take(3).map(|d| hex(d)).collect::<Vec<_>>(), nka), id.to_string());
        ok = false;
    }
    if let Some(out) = out {
        // model: the same datagrams through the adaptor with arbitrary slice sizes, then the Framed session
        let total: usize = dgs.iter().map(|d| d.len()).sum();
        let style = rng.below(3);
        let (lo, hi) = match style { 0 => (3u64, 40u64), 1 => (100, 1500), _ => (1019, 1019) };
        let sizes: Vec<String> = (0..total / (lo as usize + 1) + dgs.len() + 4).map(|_| rng.range(lo, hi).to_string()).collect();
        let line = format!("asession {} {} U {} {} | {} b- | {}", mode_tag(c.compressed), c.verify as u8, SCRATCH, fr.table(), dgs.iter().map(|d| format!("b{}", hex(d))).collect::<Vec<_>>().join(" "), sizes.join(" "));
        // implementation trace with the keep-alive replies put back where the model writes them
        let mut t2 = vec![]; for tok in &trace { if let Some(i) = tok.strip_prefix('P').and_then(|s| s.parse::<usize>().ok()) { if fr.class[i] == Class::Keep { t2.push(format!("W{}", hex(&pong))); } } t2.push(tok.clone()); }
        out.case(&line, &t2.join(" "));
    }
    st.bump(&format!("datagrams:{}", match dgs.len() { 0..=1 => "1", 2..=10 => "2-10", 11..=100 => "11-100", _ => ">100" }));
    let total: usize = dgs.iter().map(|d| d.len()).sum();
    st.bump(&format!("session_bytes:{}", match total { 0..=1020 => "<=1020", 1021..=6120 => "<=6120", 6121..=61200 => "<=61200 (10x buffer)", _ => ">61200" }));
    st.bump(&format!("max_datagram:{}", match dgs.iter().map(|d| d.len()).max().unwrap_or(0) { 0..=255 => "<=255", 256..=900 => "<=900", 901..=1019 => "<=1019", _ => "1020" }));
    ok
}

fn parse_id(id: &str) -> Option<(String, bool, u64, usize, u64, bool)> {
    let t: Vec<&str> = id.split_whitespace().collect();
    if t.len() != 7 || t[0] != "session" { return None; }
    Some((t[1].to_string(), t[2] == "C", t[3].parse().ok()?, t[4].parse().ok()?, t[5].parse().ok()?, t[6] == "1"))
}

/// quiet spells: reads that fail because nothing arrives in time (blocking: the socket read timeout; tokio: the caller's own
/// timeout around read(), which drops the future), at several points of a session; everything sent afterwards must still be
/// delivered intact and in order.  Returns (results in order without the transient ones, number of failed reads seen).
fn quiet_case(imp: &str, rt: &tokio::runtime::Runtime, fr: &Frames, idx: &RepIndex, dgs: &[Vec<u8>], quiet_before: &[usize]) -> (Vec<String>, usize) {
    let (a, b) = pair();
    let mut trace = vec![]; let mut failed = 0usize; let mut sent = 0usize;
    let nres = fr.frames.len() + 1;
    if imp == "B" {
        a.set_read_timeout(Some(Duration::from_millis(25))).unwrap();
        let mut f = BFramed::new(Box::new(BUdp::from(a)), Codec::new(mode_of(fr.compressed)));
        let mut pending = 0usize; // frames sent but not yet returned
        let mut guard_loops = 0;
        while trace.len() < nres && guard_loops < 10 * nres + 50 { guard_loops += 1;
            if pending == 0 {
                if quiet_before.contains(&sent) && failed < 3 * quiet_before.len() {
                    // nothing is sent: this read must fail with a timeout, and the connection must be usable afterwards
                    match guard(|| f.read()) { Some(Err(e)) => { let (tok, fin) = err_token(&e); if fin { trace.push(tok); break; } failed += 1; }, Some(Ok(p)) => { trace.push(format!("UNEXPECTED:{}", idx.token(&p))); break; }, None => { trace.push("PANIC".into()); break; } }
                    if failed % 2 == 1 { continue; } // two quiet reads in a row at this point
                }
                if sent < dgs.len() { b.send(&dgs[sent]).unwrap(); pending = if dgs[sent].is_empty() { 1 } else { count_frames(fr.compressed, &dgs[sent]) }; sent += 1; } else { break; }
            }
            match guard(|| f.read()) {
                None => { trace.push("PANIC".into()); break; },
                Some(Ok(p)) => { trace.push(idx.token(&p)); pending -= 1; },
                Some(Err(e)) => { let (tok, fin) = err_token(&e); if is_transient_tok(&tok) { failed += 1; if failed > 40 { trace.push("STUCK".into()); break; } } else { trace.push(tok); pending = pending.saturating_sub(1); if fin { break; } } },
            }
        }
    } else {
        a.set_nonblocking(true).unwrap();
        let _g = rt.enter();
        let mut f = AFramed::new(Box::new(AUdp::from(tokio::net::UdpSocket::from_std(a).unwrap())), Codec::new(mode_of(fr.compressed)));
        let mut pending = 0usize; let mut guard_loops = 0;
        while trace.len() < nres && guard_loops < 10 * nres + 50 { guard_loops += 1;
            if pending == 0 {
                if quiet_before.contains(&sent) && failed < 2 * quiet_before.len() {
                    let r = guard(|| rt.block_on(async { tokio::time::timeout(Duration::from_millis(20), f.read()).await }));
                    match r { Some(Err(_)) => failed += 1, Some(Ok(Ok(p))) => { trace.push(format!("UNEXPECTED:{}", idx.token(&p))); break; }, Some(Ok(Err(e))) => { let (tok, fin) = err_token(&e); trace.push(tok); if fin { break; } }, None => { trace.push("PANIC".into()); break; } }
                    if failed % 2 == 1 { continue; }
                }
                if sent < dgs.len() { b.send(&dgs[sent]).unwrap(); pending = if dgs[sent].is_empty() { 1 } else { count_frames(fr.compressed, &dgs[sent]) }; sent += 1; } else { break; }
            }
            let r = guard(|| rt.block_on(async { tokio::time::timeout(Duration::from_secs(3), f.read()).await }));
            match r {
                None => { trace.push("PANIC".into()); break; },
                Some(Err(_)) => { trace.push("STALLED".into()); break; },
                Some(Ok(Ok(p))) => { trace.push(idx.token(&p)); pending -= 1; },
                Some(Ok(Err(e))) => { let (tok, fin) = err_token(&e); trace.push(tok); pending = pending.saturating_sub(1); if fin { break; } },
            }
        }
    }
    (trace, failed)
}
fn count_frames(compressed: bool, d: &[u8]) -> usize { let mut i = 0; let mut n = 0; while i < d.len() { let l = d[i] as usize * if compressed { 4 } else { 1 }; if l == 0 { break; } i += l; n += 1; } n }

/// writes around a bounced datagram: the peer port is closed for a moment (the game restarting), one write bounces off it, the
/// peer comes back on the same port and the caller carries on writing.  Whatever a write() returns, every write that returned Ok
/// while the peer was listening must have left as exactly one datagram holding exactly its frame - a write whose datagram the
/// kernel refused must not report success, and a refused frame must not ride along with a later one.
/// Returns None = holds (or the port could not be re-bound), Some(description) otherwise.
pub fn bounce_case(imp: &str, rt: &tokio::runtime::Runtime, compressed: bool) -> Option<String> {
    use insim::{identifiers::RequestId, insim::{Tiny, TinyType}};
    let peer = UdpSocket::bind("127.0.0.1:0").ok()?; let paddr = peer.local_addr().ok()?;
    let a = UdpSocket::bind("127.0.0.1:0").ok()?; a.connect(paddr).ok()?;
    peer.set_read_timeout(Some(Duration::from_millis(300))).ok()?;
    let pk = |i: u8| Packet::Tiny(Tiny { reqi: RequestId(i), subt: TinyType::Ping });
    enum F { B(BFramed), A(AFramed) }
    let _g = rt.enter();
    let mut f = if imp == "B" { F::B(BFramed::new(Box::new(BUdp::from(a)), Codec::new(mode_of(compressed)))) } else { a.set_nonblocking(true).ok()?; F::A(AFramed::new(Box::new(AUdp::from(tokio::net::UdpSocket::from_std(a).ok()?)), Codec::new(mode_of(compressed)))) };
    let mut write = |f: &mut F, p: Packet| -> bool { match f { F::B(x) => matches!(guard(|| x.write(p)), Some(Ok(()))), F::A(x) => matches!(guard(|| rt.block_on(async { tokio::time::timeout(Duration::from_secs(2), x.write(p)).await })), Some(Ok(Ok(())))) } };
    // 0. a first packet arrives
    if !write(&mut f, pk(1)) { return Some("the first write fails".into()); }
    let mut rb = [0u8; 2048];
    match peer.recv(&mut rb) { Ok(n) if Some(rb[..n].to_vec()) == encode(compressed, &pk(1)) => {}, other => return Some(format!("the first packet did not arrive as its frame: {:?}", other.map(|n| hex(&rb[..n]))) ) }
    // 1. the peer goes away; a write bounces (UDP cannot know yet: it may well report success)
    drop(peer);
    let _ = write(&mut f, pk(2));
    std::thread::sleep(Duration::from_millis(30));
    // 2. the peer is back on the same port
    let peer = match UdpSocket::bind(paddr) { Ok(p) => p, Err(_) => return None };
    peer.set_read_timeout(Some(Duration::from_millis(150))).ok()?;
    // 3. the caller carries on: the first of these writes meets the pending "port unreachable" error
    let mut want: Vec<Vec<u8>> = vec![]; let mut results = vec![];
    for i in 3..=7u8 { let ok = write(&mut f, pk(i)); results.push(ok); if ok { want.push(encode(compressed, &pk(i)).unwrap_or_default()); } std::thread::sleep(Duration::from_millis(2)); }
    let mut got: Vec<Vec<u8>> = vec![]; while let Ok(n) = peer.recv(&mut rb) { got.push(rb[..n].to_vec()); }
    if got != want { return Some(format!("writes 3..7 returned {:?}; the peer (listening again) received {:?} but the frames of the writes that reported success are {:?}", results, got.iter().map(|d| hex(d)).collect::<Vec<_>>(), want.iter().map(|d| hex(d)).collect::<Vec<_>>())); }
    if !results.iter().skip(1).all(|r| *r) { return Some(format!("writes after the refused one keep failing: {:?}", results)); }
    None
}

/// a keep-alive whose reply is the send that meets a pending "port unreachable" error: the peer sends one datagram holding a packet and a
/// keep-alive, the caller reads the packet, the peer goes away, a caller write bounces, the peer comes back, the caller reads on.  A keep-alive
/// may be handed to the caller only after its reply has really left (a send the kernel refused is not a reply); no reply is sent twice.
/// Returns None = holds (or the port could not be re-bound), Some(description) otherwise.
pub fn bounce_keepalive_case(imp: &str, rt: &tokio::runtime::Runtime, compressed: bool) -> Option<String> {
    use insim::{identifiers::RequestId, insim::{Tiny, TinyType}};
    let peer = UdpSocket::bind("127.0.0.1:0").ok()?; let paddr = peer.local_addr().ok()?;
    let a = UdpSocket::bind("127.0.0.1:0").ok()?; a.connect(paddr).ok()?; let aaddr = a.local_addr().ok()?;
    a.set_read_timeout(Some(Duration::from_millis(200))).ok()?;
    let ping = raw_frame(compressed, 3, 1, &[3]); let ka = raw_frame(compressed, 3, 0, &[0]);
    let mut dg = ping.clone(); dg.extend_from_slice(&ka);
    peer.send_to(&dg, aaddr).ok()?;
    enum F { B(BFramed), A(AFramed) }
    let _g = rt.enter();
    let mut f = if imp == "B" { F::B(BFramed::new(Box::new(BUdp::from(a)), Codec::new(mode_of(compressed)))) } else { a.set_nonblocking(true).ok()?; F::A(AFramed::new(Box::new(AUdp::from(tokio::net::UdpSocket::from_std(a).ok()?)), Codec::new(mode_of(compressed)))) };
    // Some(true) = a keep-alive was handed over, Some(false) = another packet / an error / nothing in time
    let mut read = |f: &mut F| -> Option<bool> { let r = match f { F::B(x) => guard(|| x.read()).map(|r| r.ok()), F::A(x) => guard(|| rt.block_on(async { tokio::time::timeout(Duration::from_millis(300), x.read()).await })).map(|r| r.ok().and_then(|r| r.ok())) }; r.map(|p| matches!(p, Some(Packet::Tiny(Tiny { reqi: RequestId(0), subt: TinyType::None })))) };
    // 0. the first packet of the datagram is read
    if read(&mut f) != Some(false) { return Some("the first packet of the datagram is not delivered".into()); }
    // 1. the peer goes away; a caller write bounces
    drop(peer);
    let w = Packet::Tiny(Tiny { reqi: RequestId(2), subt: TinyType::Ping });
    let _ = match &mut f { F::B(x) => guard(|| x.write(w.clone())).map(|_| ()), F::A(x) => guard(|| rt.block_on(async { tokio::time::timeout(Duration::from_secs(2), x.write(w.clone())).await })).map(|_| ()) };
    std::thread::sleep(Duration::from_millis(30));
    // 2. the peer is back on the same port; the caller reads on (the keep-alive is already in the connection's hands)
    let peer = match UdpSocket::bind(paddr) { Ok(p) => p, Err(_) => return None };
    peer.set_read_timeout(Some(Duration::from_millis(150))).ok()?;
    let mut handed = 0; let mut panics = 0;
    for _ in 0..3 { match read(&mut f) { Some(true) => handed += 1, Some(false) => {}, None => panics += 1 } }
    let mut rb = [0u8; 2048]; let mut got: Vec<Vec<u8>> = vec![]; while let Ok(n) = peer.recv(&mut rb) { got.push(rb[..n].to_vec()); }
    let replies = got.iter().filter(|d| **d == ka).count();
    if panics > 0 { return Some("read() panics after a refused datagram".into()); }
    if handed > replies || replies > 1 || handed > 1 { return Some(format!("one keep-alive (behind a packet in the same datagram, its reply meeting a pending port-unreachable error): handed to the caller {handed} time(s), the peer (listening again) received {replies} reply datagram(s) {:?}", got.iter().map(|d| hex(d)).collect::<Vec<_>>())); }
    None
}

/// a handshake() in the middle of a session (InSim options are changed by sending IS_ISI again): the packets of a multi-packet datagram
/// that were received but not yet read must still be delivered afterwards, and the ISI leaves as one datagram.
pub fn handshake_mid_case(imp: &str, rt: &tokio::runtime::Runtime, compressed: bool) -> Option<String> {
    use insim::{identifiers::RequestId, insim::Isi};
    let (a, b) = pair();
    b.set_read_timeout(Some(Duration::from_millis(300))).ok()?;
    let frames: Vec<Vec<u8>> = (1..=5u8).map(|i| raw_frame(compressed, 3, i, &[3])).collect();
    let dg: Vec<u8> = frames.concat();
    let isi = Isi { reqi: RequestId(2), iname: "again".into(), ..Default::default() };
    let want_isi = encode(compressed, &Packet::Isi(isi.clone()))?;
    let fr = Frames::new(compressed, frames.clone()); let idx = RepIndex::new(&fr);
    let mut got: Vec<String> = vec![];
    let _g = rt.enter();
    if imp == "B" {
        a.set_read_timeout(Some(Duration::from_millis(400))).ok()?;
        let mut f = BFramed::new(Box::new(BUdp::from(a)), Codec::new(mode_of(compressed)));
        b.send(&dg).ok()?;
        for step in 0..5 { if step == 2 { if guard(|| f.handshake(isi.clone())).map(|r| r.is_ok()) != Some(true) { return Some("handshake() in mid-session fails".into()); } }
            match guard(|| f.read()) { Some(Ok(p)) => got.push(idx.token(&p)), Some(Err(e)) => { got.push(err_token(&e).0); break; }, None => { got.push("PANIC".into()); break; } } }
    } else {
        a.set_nonblocking(true).ok()?;
        let mut f = AFramed::new(Box::new(AUdp::from(tokio::net::UdpSocket::from_std(a).ok()?)), Codec::new(mode_of(compressed)));
        b.send(&dg).ok()?;
        for step in 0..5 { if step == 2 { let ok = guard(|| rt.block_on(async { f.handshake(isi.clone(), Duration::from_secs(2)).await })).map(|r| r.is_ok()); if ok != Some(true) { return Some("handshake() in mid-session fails".into()); } }
            match guard(|| rt.block_on(async { tokio::time::timeout(Duration::from_millis(600), f.read()).await })) { Some(Ok(Ok(p))) => got.push(idx.token(&p)), Some(Ok(Err(e))) => { got.push(err_token(&e).0); break; }, Some(Err(_)) => { got.push("STALLED".into()); break; }, None => { got.push("PANIC".into()); break; } } }
    }
    let want: Vec<String> = (0..5).map(|i| format!("P{i}")).collect();
    if got != want { return Some(format!("one datagram of 5 packets, handshake() after the second read: the reads returned {:?}, expected {:?}", got, want)); }
    let mut rb = [0u8; 2048];
    match b.recv(&mut rb) { Ok(n) if rb[..n] == want_isi[..] => None, other => Some(format!("the peer did not receive the ISI as one datagram: {:?}", other.map(|n| hex(&rb[..n])))) }
}

fn write_case(imp: &str, rt: &tokio::runtime::Runtime, compressed: bool, packets: &[Packet]) -> (Vec<Vec<u8>>, Vec<Vec<u8>>) {
    let (a, b) = pair();
    b.set_nonblocking(true).unwrap();
    let mut want = vec![]; let mut got = vec![]; let mut rb = [0u8; 4096];
    // the peer is drained after every few writes so that the loopback socket buffer never overflows
    let mut drain = |got: &mut Vec<Vec<u8>>, wait: bool| { if wait { std::thread::sleep(Duration::from_millis(1)); } while let Ok(n) = b.recv(&mut rb) { got.push(rb[..n].to_vec()); } };
    if imp == "B" {
        let mut f = BFramed::new(Box::new(BUdp::from(a)), Codec::new(mode_of(compressed)));
        for (i, p) in packets.iter().enumerate() { if let Some(fr) = encode(compressed, p) { if let Some(Ok(())) = guard(|| f.write(p.clone())) { want.push(fr); } } if i % 16 == 15 { drain(&mut got, false); } }
    } else {
        a.set_nonblocking(true).unwrap();
        let _g = rt.enter();
        let mut f = AFramed::new(Box::new(AUdp::from(tokio::net::UdpSocket::from_std(a).unwrap())), Codec::new(mode_of(compressed)));
        for (i, p) in packets.iter().enumerate() { if let Some(fr) = encode(compressed, p) { if let Some(Ok(())) = guard(|| rt.block_on(async { f.write(p.clone()).await })) { want.push(fr); } } if i % 16 == 15 { drain(&mut got, false); } }
    }
    drain(&mut got, true);
    (got, want)
}

/// keep-alives over real UDP sockets: long sessions of large datagrams (mostly >= 200-byte frames packed up to 1020 bytes) with a keep-alive
/// every few frames; each keep-alive handed to the caller, each answered by exactly one 4-byte datagram, nothing else written
pub fn keepalive_sessions(prop: &str, a: &Args, st: &mut Stats) { keepalive_sessions_with(prop, a, st, None) }
/// cancel_us = Some(t): tokio only, every read() wrapped in the caller's own timeout of t microseconds (the future is dropped when it fires)
pub fn keepalive_sessions_with(prop: &str, a: &Args, st: &mut Stats, cancel_us: Option<u64>) {
    let rt = io_runtime();
    let mut rng = Rng::new(a.seed ^ 0x0C07_0D9);
    for compressed in [true, false] { for imp in ["B", "A"] { if cancel_us.is_some() && imp == "B" { continue; } for (nframes, style) in [(40usize, 1u64), (160, 1), (160, 2), (160, 3), (if a.thorough() { 1500 } else { 400 }, 1)] {
        let cseed = rng.next() % 100_000;
        let mut c = session_case(imp, compressed, cseed, nframes, style, true);
        // a keep-alive after every third frame, packed again
        let ka: Vec<u8> = if compressed { vec![1, 3, 0, 0] } else { vec![4, 3, 0, 0] };
        let mut frames = vec![]; for (i, f) in c.frames.iter().enumerate() { frames.push(f.clone()); if i % 3 == 2 { frames.push(ka.clone()); } }
        let packed = pack(&mut rng, &frames, if style >= 3 { style - 2 } else { style });
        c.frames = frames; c.groups = packed.iter().map(|g| g.len()).collect(); c.cancel_us = cancel_us;
        let id = format!("udpka{} {imp} {} {cseed} {nframes} {style}", if cancel_us.is_some() { "c" } else { "" }, mode_tag(compressed));
        let before = st.failures.len();
        run_session_case(&id, &c, &rt, st, None, &mut rng);
        for f in st.failures.iter_mut().skip(before) { f.1 = f.1.replace("[C08 ", &format!("[{prop} udp ")); }
        st.bump("udp sessions with keep-alives");
    } } }
}

/// a long session on a connection MADE BY THE BUILDER (whatever options it switches on for UDP): the peer answers the ISI with 24 datagrams of
/// five 200-byte packets each (24 000 bytes, four times the receive buffer); every packet must arrive intact and in order.
pub fn builder_session(blocking: bool, compressed: bool) -> Option<String> {
    let server = UdpSocket::bind("127.0.0.1:0").ok()?; server.set_read_timeout(Some(Duration::from_millis(1500))).ok()?;
    let saddr = server.local_addr().ok()?;
    let frame = move |i: u16| -> Vec<u8> { let mut f = vec![if compressed { 50 } else { 200 }, 3, (i % 255) as u8 + 1, 3]; f.extend((0..196).map(|k| (i as usize * 7 + k) as u8)); f };
    let total: u16 = 120;
    let h = std::thread::spawn(move || { let mut buf = [0u8; 2048]; if let Ok((_, from)) = server.recv_from(&mut buf) { for d in 0..total / 5 { let mut dg = vec![]; for k in 0..5 { dg.extend(frame(d * 5 + k)); } let _ = server.send_to(&dg, from); if d % 4 == 3 { std::thread::sleep(Duration::from_millis(2)); } } } });
    let rt = tokio::runtime::Builder::new_current_thread().enable_all().build().ok()?;
    let r = guard(|| {
        let mut b = insim::builder::Builder::new().verify_version(false);
        b = if compressed { b.compressed() } else { b.uncompressed() };
        let bb = b.udp(saddr, None);
        let tok = |r: Result<Packet, insim::Error>| match r { Ok(Packet::Tiny(t)) => format!("{}", t.reqi.0), Ok(p) => format!("{:?}", p).chars().take(16).collect(), Err(e) => format!("ERR {:?}", e).chars().take(30).collect() };
        let mut got: Vec<String> = vec![];
        if blocking { if let Ok(mut c) = bb.connect_blocking() { for _ in 0..total { let t = tok(c.read()); let stop = t.starts_with("ERR"); got.push(t); if stop { break; } } } else { got.push("connect failed".into()); } }
        else { rt.block_on(async { match bb.connect_async().await { Ok(mut c) => { for _ in 0..total { let t = match tokio::time::timeout(Duration::from_secs(2), c.read()).await { Ok(r) => tok(r), Err(_) => "ERR stalled".to_string() }; let stop = t.starts_with("ERR"); got.push(t); if stop { break; } } }, Err(_) => got.push("connect failed".into()) } }); }
        got
    });
    let _ = h.join();
    let want: Vec<String> = (0..total).map(|i| format!("{}", (i % 255) as u8 + 1)).collect();
    match r { None => Some("panic".into()), Some(got) => if got == want { None } else { let pos = got.iter().zip(want.iter()).position(|(a, b)| a != b).unwrap_or(got.len().min(want.len())); Some(format!("packet #{pos} of {total} (after {} bytes): got {:?}, want request id {:?}", pos * 200, got.get(pos), want.get(pos))) } }
}

/// every kind written over UDP, variable-length kinds at every size class up to the mode's largest frame: one datagram per write, holding the frame
pub fn all_sizes_written(imp: &str, rt: &tokio::runtime::Runtime, compressed: bool) -> (usize, Option<String>) {
    let mut packets: Vec<Packet> = crate::gen::kinds::default_packets();
    let mut sizes_seen = std::collections::BTreeSet::new();
    for d in crate::gen::kinds::default_packets() { for k in (0..=255usize).rev() {
        let mut p = d.clone();
        if !crate::gen::glue::vec_resize(&mut p, k) { break; }
        if let Some(fr) = encode(compressed, &p) { if sizes_seen.insert(fr.len()) { packets.push(p); } }
    } }
    let (got, want) = write_case(imp, rt, compressed, &packets);
    if got != want {
        let pos = got.iter().zip(want.iter()).position(|(g, w)| g != w).unwrap_or(got.len().min(want.len()));
        return (want.len(), Some(format!("datagram #{pos}: peer received {:?} ({} bytes) but the frame written is {:?} ({} bytes); {} datagrams for {} writes", got.get(pos).map(|d| hex(d)), got.get(pos).map(|d| d.len()).unwrap_or(0), want.get(pos).map(|d| hex(d)), want.get(pos).map(|d| d.len()).unwrap_or(0), got.len(), want.len())));
    }
    (want.len(), None)
}

pub fn run(a: &Args) {
    let rt = io_runtime();
    if let Some(r) = &a.replay {
        let mut st = Stats::default(); let mut rng = Rng::new(1);
        if let Some((imp, c, seed, n, style, big)) = parse_id(r) {
            let case = session_case(&imp, c, seed, n, style, big);
            let ok = run_session_case(r, &case, &rt, &mut st, None, &mut rng);
            if ok { println!("PASS {r}"); std::process::exit(0) } else { println!("FAIL {}", st.failures.first().map(|f| f.1.clone()).unwrap_or_default()); std::process::exit(1) }
        }
        if let Some(rest) = r.strip_prefix("adaptor ") {
            // "adaptor <B|A> <dgram lens comma> | <sizes comma>"
            let t: Vec<&str> = rest.split_whitespace().collect();
            let dgs: Vec<Vec<u8>> = t[1].split(',').enumerate().map(|(i, l)| (0..l.parse::<usize>().unwrap()).map(|j| (i * 31 + j) as u8).collect()).collect();
            let sz: Vec<usize> = t[3].split(',').map(|s| s.parse().unwrap()).collect();
            let mut k = 0; let mut next = || { let v = sz[k % sz.len()]; k += 1; v };
            let (tr, used) = adaptor_run(t[0], &rt, &dgs, &mut next);
            let want = adaptor_expect(&dgs, &used);
            if tr == want { println!("PASS"); std::process::exit(0) } else { println!("FAIL adaptor chunks differ from the datagram payloads\n got  {}\n want {}", &tr[..tr.len().min(300)], &want[..want.len().min(300)]); std::process::exit(1) }
        }
        if let Some(rest) = r.strip_prefix("hsmid ") { let t: Vec<&str> = rest.split_whitespace().collect(); match handshake_mid_case(t[0], &rt, t[1] == "C") { Some(w) => { println!("FAIL [C08] {w}"); std::process::exit(1) }, None => { println!("PASS"); std::process::exit(0) } } }
        if let Some(rest) = r.strip_prefix("bounce ") { let t: Vec<&str> = rest.split_whitespace().collect(); let mut bad = None; for _ in 0..3 { if let Some(w) = bounce_case(t[0], &rt, t[1] == "C") { bad = Some(w); } } match bad { Some(w) => { println!("FAIL [C08] {w}"); std::process::exit(1) }, None => { println!("PASS"); std::process::exit(0) } } }
        if let Some(rest) = r.strip_prefix("quiet ") {
            let t: Vec<&str> = rest.split_whitespace().collect(); let compressed = t[1] == "C"; let seed: u64 = t[2].parse().unwrap(); let rep: u64 = t[3].parse().unwrap();
            let mut r2 = Rng::new(seed ^ (0xC08 + rep));
            let pool = frame_pool(&mut r2, compressed);
            let frames: Vec<Vec<u8>> = (0..30).map(|_| r2.pick(&pool).clone()).collect();
            let fr = Frames::new(compressed, frames); let idx = RepIndex::new(&fr);
            let packed = pack(&mut r2, &fr.frames, 2);
            let mut dgs: Vec<Vec<u8>> = packed.iter().map(|g| g.concat()).collect(); dgs.push(vec![]);
            let quiet: Vec<usize> = vec![0, 1, dgs.len() / 2, dgs.len() - 1];
            let (trace, failed) = quiet_case(t[0], &rt, &fr, &idx, &dgs, &quiet);
            let want: Vec<String> = fr.expected(false).into_iter().filter(|t| !t.starts_with('W')).collect();
            if trace == want { println!("PASS ({failed} quiet reads)"); std::process::exit(0) } else { println!("FAIL [C08] after {failed} reads that failed for lack of traffic: got {} want {}", trace.join(" "), want.join(" ")); std::process::exit(1) }
        }
        if let Some(rest) = r.strip_prefix("write ") {
            let t: Vec<&str> = rest.split_whitespace().collect();
            let (got, want) = write_case(t[0], &rt, t[1] == "C", &crate::gen::kinds::default_packets());
            if got == want { println!("PASS"); std::process::exit(0) } else { println!("FAIL datagrams received by the peer differ from the frames written ({} vs {})", got.len(), want.len()); std::process::exit(1) }
        }
        println!("bad replay input"); std::process::exit(2);
    }
    let mut rng = Rng::new(a.seed);
    let mut st = Stats::default(); let mut out = Out::new(&a.out);
    let mut distinct = HashSet::new();
    // (a) adaptor level
    let na = if a.thorough() { 600 } else { 80 };
    for i in 0..na {
        for imp in ["B", "A"] {
            let nd = match i % 4 { 0 => rng.range(1, 3), 1 => rng.range(3, 12), _ => rng.range(8, 30) } as usize;
            let lens: Vec<usize> = (0..nd).map(|_| match rng.below(8) { 0 => rng.range(1, 8), 1 => 1020, 2 => 1019, 3 => rng.range(1021, 1500), 4 => 4, _ => 4 * rng.range(1, 255) } as usize).collect();
            let dgs: Vec<Vec<u8>> = lens.iter().enumerate().map(|(k, l)| (0..*l).map(|j| (k * 31 + j) as u8).collect()).collect();
            let style = rng.below(5);
            let mut r2 = Rng::new(rng.next());
            let szs: Vec<usize> = (0..64).map(|_| match style { 0 => 1, 1 => r2.range(1, 16), 2 => r2.range(1, 1100), 3 => *r2.pick(&[1u64, 2, 3, 4, 120, 1019, 1020, 1021, 6120]), _ => 6120 } as usize).collect();
            let mut k = 0; let mut next = || { let v = szs[k % szs.len()]; k += 1; v };
            let (tr, used) = adaptor_run(imp, &rt, &dgs, &mut next);
            st.evaluations += 1;
            let want = adaptor_expect(&dgs, &used);
            let id = format!("adaptor {imp} {} | {}", lens.iter().map(|l| l.to_string()).collect::<Vec<_>>().join(","), szs.iter().map(|l| l.to_string()).collect::<Vec<_>>().join(","));
            let oversize = lens.iter().any(|l| *l > SCRATCH);
            if tr != want && !oversize { st.fail(format!("[C08 {} adaptor] chunks handed to the connection differ from the datagram payloads: got {} want {}", imp, &tr[..tr.len().min(120)], &want[..want.len().min(120)]), id.clone()); }
            let line = format!("adaptor U {} {} b- | {}", SCRATCH, dgs.iter().map(|d| format!("b{}", hex(d))).collect::<Vec<_>>().join(" "), used.iter().map(|c| (c - 1).to_string()).collect::<Vec<_>>().join(" "));
            out.case(&line, &format!("{tr} | - 0"));
            if lens.iter().any(|l| *l > 255) && szs.iter().any(|s| *s < 1020) && distinct.insert(fnv(&id)) { st.distinct_nontrivial += 1; }
            st.bump(if oversize { "adaptor:with datagram > 1020 (truncation modelled, outside the property)" } else { "adaptor:datagrams <= 1020" });
        }
    }
    // (b) sessions
    let mut cases: Vec<(String, bool, u64, usize, u64, bool)> = vec![];
    for compressed in [true, false] {
        for imp in ["B", "A"] {
            // the history that exposed the original defect: large datagrams, > 6 KB of traffic
            cases.push((imp.into(), compressed, 11, 60, 1, true));
            // lock-step peers: nothing further arrives until everything sent so far has been read (a packet held back stalls the session)
            cases.push((imp.into(), compressed, 12, 120, 3, true)); cases.push((imp.into(), compressed, 13, 200, 4, false));
            let n = if a.thorough() { 150 } else { 14 };
            for i in 0..n {
                let nframes = match i % 5 { 0 => rng.range(1, 5), 1 => rng.range(5, 40), 2 | 3 => rng.range(40, 250), _ => rng.range(250, 900) } as usize;
                cases.push((imp.into(), compressed, rng.next() % 1_000_000, nframes, rng.below(3), rng.chance(1, 2)));
            }
        }
    }
    // connections made by the builder, long sessions
    for compressed in [true, false] { for blocking in [true, false] { st.evaluations += 120; st.bump("builder-made udp sessions");
        if let Some(w) = builder_session(blocking, compressed) { st.fail(format!("[C08 builder {}] {w}", if blocking { "blocking" } else { "tokio" }), format!("buildersession {} {}", blocking as u8, mode_tag(compressed))); } } }
    // datagrams of exactly 1020 bytes from a lock-step peer: six of them fill the connection's 6120-byte receive buffer to the last byte
    for compressed in [true, false] { for imp in ["B", "A"] {
        let tiny = |len: usize, reqi: u8| -> Vec<u8> { let mut f = vec![if compressed { (len / 4) as u8 } else { len as u8 }, 3, reqi, 3]; f.resize(len, 0); f };
        let mut frames: Vec<Vec<u8>> = vec![]; let mut groups: Vec<usize> = vec![];
        for d in 0..14u8 { if compressed { frames.push(tiny(1020, d + 1)); groups.push(1); } else { for k in 0..4 { frames.push(tiny(252, 1 + d * 5 + k)); } frames.push(tiny(12, 5 + d * 5)); groups.push(5); } }
        let case = Case { imp: if imp == "B" { "B" } else { "A" }, compressed, verify: false, frames, groups, lockstep: true, cancel_us: None };
        let id = format!("exactfill {imp} {}", mode_tag(compressed));
        let _ = run_session_case(&id, &case, &rt, &mut st, None, &mut rng);
        st.bump("lock-step sessions of 1020-byte datagrams");
    } }
    for (imp, c, seed, n, style, big) in cases {
        let id = format!("session {imp} {} {seed} {n} {style} {}", mode_tag(c), big as u8);
        let case = session_case(&imp, c, seed, n, style, big);
        let total: usize = case.frames.iter().map(|f| f.len()).sum();
        let _ = run_session_case(&id, &case, &rt, &mut st, if total < 40_000 { Some(&mut out) } else { None }, &mut rng);
        if total > 6120 && case.groups.iter().any(|g| *g > 1) && distinct.insert(fnv(&id)) { st.distinct_nontrivial += 1; }
    }
    // (b') quiet spells in the middle of a session
    for compressed in [true, false] { for imp in ["B", "A"] { for rep in 0..(if a.thorough() { 12 } else { 3 }) {
        let mut r2 = Rng::new(a.seed ^ (0xC08 + rep as u64));
        let pool = frame_pool(&mut r2, compressed);
        let frames: Vec<Vec<u8>> = (0..30).map(|_| r2.pick(&pool).clone()).collect();
        let fr = Frames::new(compressed, frames); let idx = RepIndex::new(&fr);
        let packed = pack(&mut r2, &fr.frames, 2);
        let mut dgs: Vec<Vec<u8>> = packed.iter().map(|g| g.concat()).collect(); dgs.push(vec![]);
        let quiet: Vec<usize> = vec![0, 1, dgs.len() / 2, dgs.len() - 1];
        let (trace, failed) = quiet_case(imp, &rt, &fr, &idx, &dgs, &quiet);
        st.evaluations += 1; st.distinct_nontrivial += 1;
        let want: Vec<String> = fr.expected(false).into_iter().filter(|t| !t.starts_with('W')).collect();
        if trace != want {
            let pos = trace.iter().zip(want.iter()).position(|(x, y)| x != y).unwrap_or(trace.len().min(want.len()));
            st.fail(format!("[C08 {}] after {failed} reads that failed for lack of traffic, result #{pos} of {}: got {:?} want {:?}", if imp == "B" { "blocking" } else { "tokio" }, want.len(), trace.get(pos), want.get(pos)), format!("quiet {imp} {} {} {rep}", mode_tag(compressed), a.seed));
        }
        if failed == 0 { st.fail("[C08 harness] no read failed in a quiet-spell session".into(), format!("quiet {imp} {} {} {rep}", mode_tag(compressed), a.seed)); }
        st.add("reads failed for lack of traffic (quiet spells)", failed as u64);
    } } }
    // (b'') a handshake() in mid-session does not disturb what was received before it
    for compressed in [true, false] { for imp in ["B", "A"] { st.evaluations += 1; st.distinct_nontrivial += 1;
        if let Some(w) = handshake_mid_case(imp, &rt, compressed) { st.fail(format!("[C08 {}] {w}", if imp == "B" { "blocking" } else { "tokio" }), format!("hsmid {imp} {}", mode_tag(compressed))); }
        st.bump("handshake() in mid-session over UDP"); } }
    // (c0) writes around a bounced datagram
    for compressed in [true, false] { for imp in ["B", "A"] { for _ in 0..(if a.thorough() { 6 } else { 2 }) {
        st.evaluations += 1; st.distinct_nontrivial += 1;
        if let Some(w) = bounce_case(imp, &rt, compressed) { st.fail(format!("[C08 {} write] {w}", if imp == "B" { "blocking" } else { "tokio" }), format!("bounce {imp} {}", mode_tag(compressed))); }
        st.bump("writes around a bounced datagram (peer port closed and re-opened)");
    } } }
    // (c) writes
    for compressed in [true, false] {
        let mut packets: Vec<Packet> = crate::gen::kinds::default_packets();
        // variable-length kinds at every size class up to the largest frame the mode can announce (1020 / 252 bytes)
        let mut sizes_seen = std::collections::BTreeSet::new();
        for d in crate::gen::kinds::default_packets() {
            for k in (0..=255usize).rev() {
                let mut p = d.clone();
                if !crate::gen::glue::vec_resize(&mut p, k) { break; }
                if let Some(fr) = encode(compressed, &p) { if sizes_seen.insert(fr.len()) || k % 50 == 1 { packets.push(p); } }
            }
        }
        st.notes.push(format!("written frame sizes ({} mode): {} distinct, max {} bytes", mode_tag(compressed), sizes_seen.len(), sizes_seen.iter().max().copied().unwrap_or(0)));
        for imp in ["B", "A"] {
            let (got, want) = write_case(imp, &rt, compressed, &packets);
            st.evaluations += want.len() as u64;
            if got != want {
                let pos = got.iter().zip(want.iter()).position(|(g, w)| g != w).unwrap_or(got.len().min(want.len()));
                st.fail(format!("[C08 {} write] datagram #{pos}: peer received {:?} but the frame is {:?} ({} datagrams for {} writes)", imp, got.get(pos).map(|d| hex(d)), want.get(pos).map(|d| hex(d)), got.len(), want.len()), format!("write {imp} {}", mode_tag(compressed)));
            }
            for w in want.iter().take(if a.thorough() { 80 } else { 20 }) { out.case(&format!("awrite {}", hex(w)), &format!("b{} {}", hex(w), w.len())); }
            st.add("writes", want.len() as u64);
        }
    }
    st.rule = "real loopback UDP socket pairs, blocking and tokio UdpStream, both modes: (a) the adaptor's read called with scripted slice sizes 1..6120 on datagrams of 1..1500 bytes, chunks compared with the payloads and with the model; (b) Framed sessions over datagrams of 1..n frames (all kinds, keep-alives, undecodable frames), up to 900 frames per session, ended by an empty datagram; (c) every kind written, the peer must receive one datagram per packet equal to its frame; non-trivial = session > 6120 bytes with multi-frame datagrams / adaptor script with datagrams > 255 bytes and slices < 1020".into();
    st.sample("session A C 11 60 1 1  (60 frames mostly >= 200 bytes packed greedily into <= 1020-byte datagrams)".into());
    st.sample("adaptor B 984,984 | 120,...  -> D<120 bytes> ... Z".into());
    crate::net::report_unconsumed("C08", &mut st);
    out.finish(&st);
}

fn fnv(s: &str) -> u64 { let mut h = 0xcbf29ce484222325u64; for b in s.bytes() { h ^= b as u64; h = h.wrapping_mul(0x100000001b3); } h }
