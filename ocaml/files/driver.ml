(* files group: PTH / SMX parse-then-write *)
let show (c, b) = match int_of_n c with 0 -> "ok:" ^ hex_of_bytes b | 1 -> "E" | _ -> "P"
(* A count field is converted to a unary nat by the model (N.to_nat). Materialising a count above
   ~10^5 overflows the OCaml stack; the inputs of the correspondence runs are at most a few KB, so a
   parse that needs that many elements necessarily fails: Stack_overflow is reported as the error
   outcome (documented in DESIGN.md, C17). *)
let guard f = try f () with Stack_overflow -> "E"
let handle (toks : Stdlib.String.t list) : Stdlib.String.t =
  match toks with
  | ["pth"; h] -> guard (fun () -> show (x_pth (bytes_of_hex h)))
  | ["smx"; h] -> guard (fun () -> show (x_smx (bytes_of_hex h)))
  | _ -> "?bad-op"
let () = main handle
