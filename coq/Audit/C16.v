Require Import Base.Bytes Core.GameVersion Core.GameVersionProofs Props.C16.
Local Open Scope N_scope.
Check c16_print_reparses_equal :
  forall is_numeric parse_f32 print_f32 parse_usize print_usize,
  oracles_ok is_numeric parse_f32 print_f32 parse_usize print_usize ->
  forall s v, parse is_numeric parse_f32 parse_usize s = POk v -> v_major v < inf_bits ->
  exists v', parse is_numeric parse_f32 parse_usize (print print_f32 print_usize v) = POk v' /\ veq v v' = true.
Check c16_case_insensitive :
  forall is_numeric parse_f32 print_f32 parse_usize print_usize,
  oracles_ok is_numeric parse_f32 print_f32 parse_usize print_usize ->
  forall mj c rest, forallb (num_or_dot is_numeric) mj = true -> is_alpha c = true ->
  parse is_numeric parse_f32 parse_usize (mj ++ to_upper c :: rest) = parse is_numeric parse_f32 parse_usize (mj ++ c :: rest).
Check c16_parsed_letter_is_upper_ascii :
  forall is_numeric parse_f32 print_f32 parse_usize print_usize,
  oracles_ok is_numeric parse_f32 print_f32 parse_usize print_usize ->
  forall s v, parse is_numeric parse_f32 parse_usize s = POk v ->
  is_alpha (v_minor v) = true /\ to_upper (v_minor v) = v_minor v.
Check c16_order_reflexive : forall a, vcmp a a = Eq.
Check c16_order_consistent_with_eq : forall a b, vcmp a b = Eq <-> veq a b = true.
Check c16_order_antisymmetric : forall a b, vcmp a b = CompOpp (vcmp b a).
Check c16_order_transitive : forall a b c, vcmp a b = Lt -> vcmp b c = Lt -> vcmp a c = Lt.
Check c16_order_total : forall a b, vcmp a b = Lt \/ veq a b = true \/ vcmp b a = Lt.
Check c16_missing_revision_is_zero : forall m c,
  veq {| v_major := m; v_minor := c; v_patch := None |} {| v_major := m; v_minor := c; v_patch := Some 0 |} = true.
Print Assumptions c16_print_reparses_equal.
Print Assumptions c16_case_insensitive.
Print Assumptions c16_parsed_letter_is_upper_ascii.
Print Assumptions c16_order_reflexive.
Print Assumptions c16_order_consistent_with_eq.
Print Assumptions c16_order_antisymmetric.
Print Assumptions c16_order_transitive.
Print Assumptions c16_order_total.
Print Assumptions c16_missing_revision_is_zero.
