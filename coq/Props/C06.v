(* Props/C06.v — writes reach the transport complete, contiguous and in order. *)
Require Import Base.Bytes Net.Frame Net.FrameProofs Net.Framed Net.FramedProofs Net.ConvProofs Net.Async Net.AsyncProofs Net.AsyncConvProofs Net.Concrete.
Local Open Scope N_scope.

(* whatever the acceptance pattern (any k >= 1 bytes per call, any number of not-ready turns),
   what reached the transport is a prefix of the frame; success means the exact whole frame *)
Theorem c06_delivered_is_prefix : forall ws buf d r ws',
  write_all ws buf = (d, r, ws') -> exists rest, buf = d ++ rest /\ (r = WOk -> rest = []).
Proof. exact write_all_prefix. Qed.

Theorem c06_success_means_whole_frame : forall ws buf d ws',
  write_all ws buf = (d, WOk, ws') -> d = buf.
Proof. exact write_all_complete. Qed.

(* fairness: without transport failure, |frame| ready turns always suffice *)
Theorem c06_completes_under_fair_transport : forall ws buf,
  forallb no_fail ws = true -> (length buf <= length (filter accepts ws))%nat ->
  exists ws', write_all ws buf = (buf, WOk, ws').
Proof. exact write_all_fair. Qed.

(* successive writes: the transport sees the concatenation of the frames in call order *)
Theorem c06_sequence_contiguous_in_order : forall frames ws d,
  write_seq ws frames = (d, true) -> d = concat frames.
Proof. exact write_seq_contiguous. Qed.

(* what is handed to write_all is one complete frame for the mode *)
Theorem c06_written_unit_is_one_frame : forall packet unparse m (p : packet) fr,
  encode packet unparse m p = Ok fr -> wf_frame m fr /\ (Nat.modulo (length fr) (mul m) = 0)%nat.
Proof. exact encode_wf. Qed.

(* conversations: what the write() calls of a conversation put on the wire is their frames, whole and in
   call order, whatever the reads in between do *)
Theorem c06_conversation_writes :
  forall (packet : Type) (parse : bytes -> res packet) (ver_of : packet -> option N)
         (is_keepalive : packet -> bool) (version : N) (m : mode) (verify : bool) (pong : bytes),
  forall ops buf tr,
    exists rest, map snd (filter (from_write packet) (conv packet parse ver_of is_keepalive version m verify pong ops buf tr)) ++ rest
                 = map Wrote (frames_of ops).
Proof. exact conv_writes. Qed.

(* tokio, with read() futures dropped at any pending polls and writes in between: a write() first completes an
   outstanding keep-alive reply, then sends its frame; so the wire carries whole frames only (conv_ok), and the
   caller's frames leave in call order *)
Theorem c06_writes_never_split_a_reply :
  forall (packet : Type) (parse : bytes -> res packet) (ver_of : packet -> option N)
         (is_keepalive : packet -> bool) (version : N) (m : mode) (verify : bool) (pong : bytes),
  forall fuel c s rs ws cancels wsched acc done,
    forallb no_fail ws = true ->
    Inv packet parse ver_of is_keepalive version m verify pong c s ->
    WInv packet is_keepalive pong s (done ++ acc) ->
    conv_ok packet is_keepalive pong done (aconv packet parse ver_of is_keepalive version m verify pong fuel c s rs ws cancels wsched acc).
Proof. exact aconv_ok. Qed.

Theorem c06_caller_frames_in_call_order :
  forall (packet : Type) (parse : bytes -> res packet) (ver_of : packet -> option N)
         (is_keepalive : packet -> bool) (version : N) (m : mode) (verify : bool) (pong : bytes),
  forall fuel c s rs ws cancels wsched acc,
    is_prefix (flat_map (user_frame packet) (aconv packet parse ver_of is_keepalive version m verify pong fuel c s rs ws cancels wsched acc)) (concat wsched).
Proof. exact aconv_user_frames. Qed.

(* the connection structs and the codec of the source have exactly the fields the models carry as state (regenerated field
   names): nothing else can be left behind by a failed or dropped write *)
Theorem c06_model_state_is_the_struct : state_tied = true.
Proof. vm_compute. reflexivity. Qed.


Example c06_example :
  write_all [WPending; WAccept 0; WPending; WAccept 1; WAccept 9] [1;3;0;0] = ([1;3;0;0], WOk, []).
Proof. vm_compute. reflexivity. Qed.

(* blocking connection, write half FAILING inside the keep-alive reply (after any number of its bytes, with any error): the
   keep-alive is handed over (WOk) only when the whole reply has reached the transport; after a failure what reached it is a
   strict prefix of the reply and the failure is what the caller gets instead of the packet *)
Theorem c06_reply_whole_or_the_error_is_returned : forall pong ws d r ws',
  reply_then_return pong ws = (d, r, ws') ->
  (r = WOk -> d = pong) /\ (forall e, r = WErr e -> exists rest, pong = d ++ rest /\ rest <> []).
Proof. exact reply_whole_or_error. Qed.
