#!/usr/bin/env python3
"""writes MANIFEST.json from tools/props.py (kept valid at all times)"""
import json, os, sys
sys.path.insert(0, os.path.dirname(os.path.abspath(__file__)))
from props import PROPS, NOT_APPLICABLE, LEVEL_TEXT
ROOT = os.path.dirname(os.path.dirname(os.path.abspath(__file__)))
checks = []
for p, c in sorted(PROPS.items()):
    checks.append({
        'property_id': p,
        'quick_cmd': './check %s --tier quick' % p,
        'thorough_cmd': './check %s --tier thorough' % p,
        'evidence_file': 'evidence/%s.json' % p,
        'replay_cmd_template': './check %s --replay {path}' % p,
        'engine': 'coq-proof+correspondence',
        'level_claimed': {'category': 'proof', 'text': LEVEL_TEXT[p], 'design_ref': 'DESIGN.md §4 ' + p},
        'level_note': c.get('level_note', 'Coq 8.16.1 kernel; model tied to /repo by the translator (regenerated tables/layouts) and by differential correspondence (extracted model vs real code); see evidence trusted_base'),
        'technique': c.get('technique', 'machine-checked proof in Coq of a model regenerated from / differentially tied to the source'),
    })
m = {
    'version': 1,
    'setup_cmd': './setup.sh',
    'hooks': {'guard': 'theangryangel_insim_rs_verif', 'enable': 'RUSTFLAGS="--cfg theangryangel_insim_rs_verif" (set in harness/.cargo/config.toml); no hook is currently needed: every entry point used is public',
              'baseline_off_cmd': 'cd /repo && cargo test --workspace --no-fail-fast --offline', 'source_commits': [], 'add_only': True},
    'engines': [{'name': 'coq-proof+correspondence', 'path': 'check', 'serves_properties': sorted(PROPS),
                 'kind_free_text': 'Coq 8.16.1 theorems over models regenerated from the Rust source (tools/translate.py) or hand-written and tied by differential correspondence (OCaml-extracted model vs real code through harness/)'}],
    'checks': checks,
    'not_applicable': [{'property_id': k, 'reason': v} for k, v in sorted(NOT_APPLICABLE.items())],
    'notes': 'Properties not yet listed under checks are in progress; see DESIGN.md. Known findings: KNOWN_FINDINGS.txt.',
}
json.dump(m, open(os.path.join(ROOT, 'MANIFEST.json'), 'w'), indent=1)
print('MANIFEST.json: %d checks, %d not_applicable' % (len(checks), len(m['not_applicable'])))
