"""vlib.py — the shared check pipeline (see DESIGN.md §2.2).

  translate -> coq make (per-property target) -> audit (pinned statements + Print Assumptions
  allow-list + forbidden-token grep) -> extraction + OCaml driver -> cargo build of the harness
  against /repo's working tree -> harness (implementation results + direct property oracle) ->
  model driver on the same cases -> diff -> known findings -> hunt/replay -> evidence.
"""
import os, sys, json, re, time, subprocess, hashlib, fcntl, glob, shutil

ROOT = os.path.dirname(os.path.dirname(os.path.abspath(__file__)))
REPO = os.environ.get('VERIF_REPO', '/repo')
COQ = os.path.join(ROOT, 'coq')
WORK = os.path.join(ROOT, 'work')
QDIRS = ['Base', 'Core', 'Gen', 'Wire', 'Net', 'Text', 'Files', 'Builder', 'Spec', 'Props']
FORBIDDEN = r'\b(Admitted|admit|Axiom|Axioms|Parameter|Parameters|Conjecture|Conjectures|Hypothesis|Hypotheses|Variable|Variables)\b|Unset Guard|bypass_check|type-in-type|impredicative-set|Admit Obligations|Unset Universe Checking|Unset Positivity'
STD_AXIOMS = {  # axioms the standard library / Flocq declare; allowed only where a property lists them
    'Classical_Prop.classic', 'ClassicalDedekindReals.sig_forall_dec', 'ClassicalDedekindReals.sig_not_dec',
    'FunctionalExtensionality.functional_extensionality_dep',
}

def sh(cmd, cwd=None, timeout=1800, env=None):
    e = dict(os.environ)
    e.update({'CARGO_NET_OFFLINE': 'true'})
    if env: e.update(env)
    t0 = time.time()
    try:
        p = subprocess.run(cmd, cwd=cwd, shell=isinstance(cmd, str), stdout=subprocess.PIPE, stderr=subprocess.STDOUT,
                           timeout=timeout, env=e, text=True, errors='replace')
        return p.returncode, p.stdout, time.time() - t0
    except subprocess.TimeoutExpired as ex:
        return 124, (ex.stdout or '') + '\nTIMEOUT', time.time() - t0

class Lock:
    def __enter__(self):
        os.makedirs(WORK, exist_ok=True)
        self.f = open(os.path.join(WORK, '.lock'), 'w')
        fcntl.flock(self.f, fcntl.LOCK_EX)
        return self
    def __exit__(self, *a):
        fcntl.flock(self.f, fcntl.LOCK_UN); self.f.close()

# ---------------------------------------------------------------- translate
def translate(gens):
    rc, out, _ = sh([sys.executable, os.path.join(ROOT, 'tools', 'translate.py'), '--repo', REPO,
                     '--out', os.path.join(COQ, 'Gen'), '--harness-gen', os.path.join(ROOT, 'harness', 'src', 'gen'),
                     ])
    # every generator runs on every check (0.3 s): no check ever builds against tables left by an earlier run on
    # another tree; only the generators this property depends on decide its verdict
    try:
        status = json.loads(out.strip().splitlines()[-1])
    except Exception:
        status = {'_': {'ok': False, 'error': out[-2000:]}}
    status = {k: v for k, v in status.items() if k in gens or k == '_'}
    bad = {k: v.get('error') for k, v in status.items() if not v.get('ok')}
    return (not bad), bad, status

# ---------------------------------------------------------------- coq
def coq_project():
    files = []
    for d in QDIRS:
        files += sorted(glob.glob(os.path.join(COQ, d, '*.v')))
    rel = [os.path.relpath(f, COQ) for f in files]
    text = ''.join('-Q %s %s\n' % (d, d) for d in QDIRS)
    text += '-arg -w -arg -notation-overridden,-deprecated-hint-without-locality,-deprecated-instance-without-locality,-deprecated-syntactic-definition\n'
    text += '\n'.join(rel) + '\n'
    p = os.path.join(COQ, '_CoqProject')
    if not os.path.exists(p) or open(p).read() != text or not os.path.exists(os.path.join(COQ, 'Makefile')):
        open(p, 'w').write(text)
        sh('coq_makefile -f _CoqProject -o Makefile', cwd=COQ)
        for f in glob.glob(os.path.join(COQ, '.Makefile.d')): os.remove(f)
    return rel

def qflags(prefix=''):
    return ' '.join('-Q %s%s %s' % (prefix, d, d) for d in QDIRS)

def coq_make(targets, timeout=1500):
    coq_project()
    rc, out, dt = sh('timeout %d make -j16 %s' % (timeout, ' '.join(targets)), cwd=COQ, timeout=timeout + 30)
    return rc == 0, out, dt

def coq_forbidden_scan():
    hits = []
    for d in QDIRS + ['Audit']:
        for f in glob.glob(os.path.join(COQ, d, '*.v')):
            src = open(f, encoding='utf-8').read()
            src_nc = strip_coq_comments(src)
            # Section-local Variable/Hypothesis are allowed: drop Section...End blocks before scanning those words
            outside = strip_sections(src_nc)
            for m in re.finditer(FORBIDDEN, src_nc):
                w = m.group(0)
                if w in ('Variable', 'Variables', 'Hypothesis', 'Hypotheses'):
                    continue
                hits.append('%s: %s' % (os.path.relpath(f, COQ), w))
            for m in re.finditer(r'\b(Variable|Variables|Hypothesis|Hypotheses|Context)\b', outside):
                hits.append('%s: %s outside a Section' % (os.path.relpath(f, COQ), m.group(0)))
    return hits

def strip_coq_comments(s):
    out = []; depth = 0; i = 0; n = len(s); instr = False
    while i < n:
        if not instr and s.startswith('(*', i): depth += 1; i += 2; continue
        if not instr and depth > 0 and s.startswith('*)', i): depth -= 1; i += 2; continue
        if depth == 0:
            if s[i] == '"': instr = not instr
            out.append(s[i])
        i += 1
    return ''.join(out)

def strip_sections(s):
    # remove text between `Section X.` and `End X.` (non-nested names matched)
    while True:
        m = re.search(r'\bSection\s+(\w+)\s*\.', s)
        if not m: return s
        e = re.search(r'\bEnd\s+' + re.escape(m.group(1)) + r'\s*\.', s[m.end():])
        if not e: return s[:m.start()]
        s = s[:m.start()] + s[m.end() + e.end():]

def audit(prop, allowed_axioms=()):
    """compile Audit/<prop>.v: every `Check name : stmt.` pins a statement; Print Assumptions follows."""
    f = os.path.join(COQ, 'Audit', prop + '.v')
    src = strip_coq_comments(open(f).read())
    names = re.findall(r'^\s*Check\s+(\w+)\s*:', src, re.M)
    pa = re.findall(r'^\s*Print Assumptions\s+(\w+)\s*\.', src, re.M)
    missing_pa = [n for n in names if n not in pa]
    rc, out, dt = sh('timeout 600 coqc %s Audit/%s.v' % (qflags(), prop), cwd=COQ, timeout=630)
    for ext in ('.vo', '.vok', '.vos', '.glob'):
        p = os.path.join(COQ, 'Audit', prop + ext)
        if os.path.exists(p): os.remove(p)
    res = {'obligations': names, 'discharged': [], 'axioms': {}, 'problems': [], 'wall_s': dt}
    if missing_pa: res['problems'].append('no Print Assumptions for ' + ','.join(missing_pa))
    if rc != 0:
        m = re.search(r'line (\d+)', out)
        line = int(m.group(1)) if m else 0
        full = open(f).read().split('\n')
        starts = []
        for n in names:
            ln = next((i + 1 for i, l in enumerate(full) if re.match(r'\s*Check\s+' + n + r'\s*:', l)), 0)
            starts.append((ln, n))
        failing = max([ln for ln, n in starts if ln <= line] or [0])
        res['discharged'] = [n for ln, n in starts if ln < failing]
        res['problems'].append('audit does not compile: ' + out.strip()[-600:])
        return res
    # parse Print Assumptions blocks in order
    blocks = re.split(r'(?m)^(?=Closed under the global context|Axioms:)', out)
    blocks = [b for b in blocks if b.startswith('Closed under') or b.startswith('Axioms:')]
    for n, b in zip(pa, blocks):
        if b.startswith('Closed under'):
            res['axioms'][n] = []
        else:
            ax = re.findall(r'(?m)^([A-Za-z_][\w.\']*)\s*:', b)
            res['axioms'][n] = ax
            bad = [a for a in ax if a not in allowed_axioms]
            if bad: res['problems'].append('%s depends on non-allow-listed axioms: %s' % (n, ', '.join(bad)))
    if len(blocks) != len(pa):
        res['problems'].append('Print Assumptions output count %d != %d' % (len(blocks), len(pa)))
    res['discharged'] = [n for n in names if n in res['axioms'] and not any(n in p for p in res['problems'])]
    return res

def coq_diag(prop, src):
    """evaluate a small Coq file (Require + Eval vm_compute) after a proof broke; returns its output"""
    mods = set()
    for line in strip_coq_comments(src).split('.\n'):
        m = re.match(r'\s*Require Import (.*)', line.strip(), re.S)
        if m: mods.update(x for x in m.group(1).split() if x.split('.')[0] in QDIRS)
    ok, out, _ = coq_make([x.replace('.', '/') + '.vo' for x in sorted(mods)])
    if not ok: return 'the definitions needed for the diagnosis do not compile either: ' + out[-400:]
    os.makedirs(WORK, exist_ok=True)
    f = os.path.join(WORK, 'Diag_%s.v' % prop)
    open(f, 'w').write(src)
    rc, out, _ = sh('timeout 300 coqc %s %s' % (qflags(COQ + '/'), f), cwd=WORK, timeout=330)
    for ext in ('.vo', '.vok', '.vos', '.glob'):
        q = f[:-2] + ext
        if os.path.exists(q): os.remove(q)
    return re.sub(r'\s+', ' ', out).strip()[:1800]

def coqchk(modules):
    rc, out, dt = sh('timeout 1500 coqchk -silent -o %s %s' % (qflags(), ' '.join(modules)), cwd=COQ, timeout=1530)
    ax = []
    m = re.search(r'Axioms:(.*?)(?:\n\s*\n|\Z)', out, re.S)
    if m: ax = [l.strip() for l in m.group(1).strip().splitlines() if l.strip() and l.strip() != '<none>']
    return rc == 0, ax, out[-1500:], dt

# ---------------------------------------------------------------- ocaml
def build_driver(group):
    """extract the group's models and build ocaml/<group>/driver (only when the extraction changed)"""
    gdir = os.path.join(ROOT, 'ocaml', group)
    bdir = os.path.join(ROOT, 'ocaml', '_build', group)
    os.makedirs(bdir, exist_ok=True)
    shutil.copy(os.path.join(gdir, 'Extract.v'), os.path.join(bdir, 'Extract.v'))
    # the modules the extraction file requires must be up to date with the regenerated tables
    mods = set()
    for line in strip_coq_comments(open(os.path.join(gdir, 'Extract.v')).read()).split('.\n'):
        m = re.match(r'\s*Require Import (.*)', line.strip(), re.S)
        if m: mods.update(x for x in m.group(1).split() if x.split('.')[0] in QDIRS)
    if mods:
        okm, outm, _ = coq_make([x.replace('.', '/') + '.vo' for x in sorted(mods)])
        if not okm: return False, 'coq build of the extraction dependencies failed: ' + outm[-1200:], None
    rc, out, dt = sh('timeout 600 coqc %s Extract.v' % qflags(os.path.relpath(COQ, bdir) + '/'), cwd=bdir, timeout=630)
    if rc != 0: return False, 'extraction failed: ' + out[-1500:], None
    h = hashlib.sha256()
    for f in ('model.ml', 'model.mli'):
        h.update(open(os.path.join(bdir, f), 'rb').read())
    for f in (os.path.join(ROOT, 'ocaml', 'prelude.ml'), os.path.join(gdir, 'driver.ml')):
        h.update(open(f, 'rb').read())
    stamp = os.path.join(bdir, 'stamp'); exe = os.path.join(bdir, 'driver')
    if os.path.exists(stamp) and os.path.exists(exe) and open(stamp).read() == h.hexdigest():
        return True, 'cached', exe
    with open(os.path.join(bdir, 'driver.ml'), 'w') as o:
        o.write('open Model\n')
        o.write(open(os.path.join(ROOT, 'ocaml', 'prelude.ml')).read())
        o.write(open(os.path.join(gdir, 'driver.ml')).read())
    rc, out, dt = sh('timeout 900 ocamlfind ocamlopt -w -a -O2 model.mli model.ml driver.ml -o driver', cwd=bdir, timeout=930)
    if rc != 0: return False, 'ocaml build failed: ' + out[-1500:], None
    open(stamp, 'w').write(h.hexdigest())
    return True, 'built', exe

# ---------------------------------------------------------------- rust harness
def build_harness(profile='release'):
    hdir = os.path.join(ROOT, 'harness')
    lock = os.path.join(hdir, 'Cargo.lock')
    if not os.path.exists(lock):
        shutil.copy(os.path.join(REPO, 'Cargo.lock'), lock)
    os.makedirs(os.path.join(hdir, 'src', 'gen'), exist_ok=True)
    flag = '--release' if profile == 'release' else ''
    rc, out, dt = sh('timeout 1500 cargo build --offline %s 2>&1' % flag, cwd=hdir, timeout=1530)
    if rc != 0 and 'Cargo.lock' in out and 'lock' in out.lower():
        shutil.copy(os.path.join(REPO, 'Cargo.lock'), lock)
        rc, out, dt = sh('timeout 1500 cargo build --offline %s 2>&1' % flag, cwd=hdir, timeout=1530)
    exe = os.path.join(hdir, 'target', 'release' if profile == 'release' else 'debug', 'vharness')
    if rc != 0:
        errs = [l for l in out.splitlines() if l.startswith('error')]
        return False, '\n'.join(errs[:10]) + '\n' + out[-1500:], None
    return True, 'ok', exe

def run_harness(exe, sub, tier, seed, outdir, extra=(), timeout=3000):
    if os.path.isdir(outdir): shutil.rmtree(outdir)
    os.makedirs(outdir, exist_ok=True)
    rc, out, dt = sh([exe, sub, '--tier', tier, '--seed', str(seed), '--out', outdir] + list(extra), timeout=timeout)
    sp = os.path.join(outdir, 'stats.json')
    if rc != 0 or not os.path.exists(sp):
        return None, 'harness exit %d: %s' % (rc, out[-1500:]), dt
    return json.load(open(sp)), out, dt

def run_model(driver, outdir, timeout=3000):
    """model results for cases.txt, sharded over 16 processes"""
    cases = os.path.join(outdir, 'cases.txt')
    n = sum(1 for _ in open(cases, 'rb'))
    if n == 0:
        open(os.path.join(outdir, 'model.txt'), 'w').close(); return True, 0, 0.0
    t0 = time.time()
    os.environ['VDRIVER_TABLES'] = os.path.join(outdir, 'tables.txt')
    shards = 16 if n > 20000 else 1
    if shards == 1:
        rc, out, dt = sh('%s < cases.txt > model.txt' % driver, cwd=outdir, timeout=timeout)
        return rc == 0, n, time.time() - t0
    per = (n + shards - 1) // shards
    sh('split -l %d -d -a 2 cases.txt shard_' % per, cwd=outdir)
    parts = sorted(glob.glob(os.path.join(outdir, 'shard_??')))
    procs = [subprocess.Popen('%s < %s > %s.out' % (driver, p, p), shell=True) for p in parts]
    ok = True
    for p in procs:
        try:
            ok = (p.wait(timeout=timeout) == 0) and ok
        except subprocess.TimeoutExpired:
            p.kill(); ok = False
    with open(os.path.join(outdir, 'model.txt'), 'wb') as o:
        for p in parts:
            o.write(open(p + '.out', 'rb').read()); os.remove(p); os.remove(p + '.out')
    return ok, n, time.time() - t0

def reroute_bad_ops(drivers, outdir, timeout=600):
    """case lines the main driver does not know (`?bad-op`) are answered by the drivers of the extra groups"""
    cases = open(os.path.join(outdir, 'cases.txt'), encoding='utf-8', errors='replace').read().split('\n')
    mp = os.path.join(outdir, 'model.txt')
    model = open(mp, encoding='utf-8', errors='replace').read().split('\n')
    bad = [i for i, m in enumerate(model) if m == '?bad-op' and i < len(cases)]
    for d in drivers:
        if not bad: break
        with open(os.path.join(outdir, 'reroute.txt'), 'w') as o:
            o.write('\n'.join(cases[i] for i in bad) + '\n')
        rc, out, dt = sh('%s < reroute.txt > reroute.out' % d, cwd=outdir, timeout=timeout)
        if rc != 0: continue
        res = open(os.path.join(outdir, 'reroute.out'), encoding='utf-8', errors='replace').read().split('\n')
        for k, i in enumerate(bad):
            if k < len(res): model[i] = res[k]
        bad = [i for i in bad if model[i] == '?bad-op']
    open(mp, 'w').write('\n'.join(model))
    for f in ('reroute.txt', 'reroute.out'):
        try: os.remove(os.path.join(outdir, f))
        except OSError: pass

def diff_results(outdir, limit=20):
    """returns (n_compared, [ (lineno, case, impl, model) ])"""
    dis = []; n = 0
    with open(os.path.join(outdir, 'cases.txt'), errors='replace') as c, open(os.path.join(outdir, 'impl.txt'), errors='replace') as i, \
         open(os.path.join(outdir, 'model.txt'), errors='replace') as m:
        for ln, (cl, il, ml) in enumerate(zip(c, i, m), 1):
            n += 1
            if il != ml:
                if len(dis) < limit: dis.append((ln, cl.rstrip('\n'), il.rstrip('\n'), ml.rstrip('\n')))
                else: dis.append(None)
    total = len(dis)
    return n, [d for d in dis if d], total

# ---------------------------------------------------------------- known findings
def load_known():
    """KNOWN_FINDINGS.txt: lines `known: property=<id> <text> | {json}` / `fixed: property=<id> <commit> <text> | {json}`"""
    p = os.path.join(ROOT, 'KNOWN_FINDINGS.txt')
    items = []
    if not os.path.exists(p): return items
    for line in open(p, encoding='utf-8'):
        line = line.rstrip('\n')
        if not line.strip() or line.startswith('#'): continue
        m = re.match(r'(known|fixed): property=(\w+) (.*?)(?: \| (\{.*\}))?$', line)
        if not m: raise SystemExit('KNOWN_FINDINGS.txt: bad line: ' + line)
        meta = json.loads(m.group(4)) if m.group(4) else {}
        items.append({'status': m.group(1), 'property': m.group(2), 'text': m.group(3), **meta})
    return items

# ---------------------------------------------------------------- evidence / replay
def write_replay(prop, payload):
    os.makedirs(os.path.join(ROOT, 'replays'), exist_ok=True)
    h = hashlib.sha256(json.dumps(payload, sort_keys=True).encode()).hexdigest()[:12]
    rel = 'replays/%s-%s.json' % (prop, h)
    json.dump(payload, open(os.path.join(ROOT, rel), 'w'), indent=1, ensure_ascii=False)
    return rel

def write_evidence(prop, ev):
    os.makedirs(os.path.join(ROOT, 'evidence'), exist_ok=True)
    json.dump(ev, open(os.path.join(ROOT, 'evidence', prop + '.json'), 'w'), indent=1, ensure_ascii=False)
