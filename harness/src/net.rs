//! Scripted in-memory transports for the blocking and the tokio `Framed`, the session runner and
//! the canonical trace used by C04 (framing), C05, C06, C07, C09 and C19.
use std::{
    collections::{HashMap, VecDeque},
    io::{self, Read, Write},
    pin::Pin,
    sync::{Arc, Mutex},
    task::{Context, Poll},
};

use bytes::BytesMut;
use insim::{
    net::{blocking_impl::Framed as BFramed, tokio_impl::Framed as AFramed, Codec, Mode},
    Error, Packet,
};
use tokio::io::{AsyncRead, AsyncWrite, ReadBuf};

use crate::common::*;

#[derive(Clone, Debug)]
pub enum REv { Data(Vec<u8>), Err(u8), Elapsed, Eof, Pend }
#[derive(Clone, Debug)]
pub enum WEv { Accept(usize), Pending, Fail(u8) }

pub const KINDS: [io::ErrorKind; 5] = [io::ErrorKind::WouldBlock, io::ErrorKind::Interrupted, io::ErrorKind::ConnectionReset, io::ErrorKind::BrokenPipe, io::ErrorKind::Other];
fn kind_idx(k: io::ErrorKind) -> Option<usize> { KINDS.iter().position(|x| *x == k) }

#[derive(Default, Debug)]
pub struct Shared {
    pub reads: VecDeque<REv>,
    pub wscript: VecDeque<WEv>,
    pub written: Vec<u8>,
    pub all_written: Vec<u8>,
    pub wcalls: Vec<usize>,
    pub offered: Vec<usize>,
    pub polls: u64,
    pub elapsing: bool,
    /// async only, paused clock: a scripted not-ready turn of the write half lasts an hour of (virtual) time instead of no time
    pub slow: bool,
    /// async only: poll_shutdown was called (the write half is closed: every later write fails, as on a socket)
    pub shut: bool,
    /// async only: every other poll_flush reports not-ready (a buffering transport under back-pressure); a connection that never
    /// flushes inside read() never notices
    pub slow_flush: bool,
    pub flush_calls: u64,
    pub nap: Option<Pin<Box<tokio::time::Sleep>>>,
}
#[derive(Clone, Debug)]
pub struct Transport(pub Arc<Mutex<Shared>>);
impl Transport {
    pub fn new(reads: Vec<REv>, ws: Vec<WEv>) -> Self {
        Transport(Arc::new(Mutex::new(Shared { reads: reads.into(), wscript: ws.into(), ..Default::default() })))
    }
    pub fn take_written(&self) -> Vec<u8> { std::mem::take(&mut self.0.lock().unwrap().written) }
}

impl Read for Transport {
    fn read(&mut self, buf: &mut [u8]) -> io::Result<usize> {
        let mut s = self.0.lock().unwrap();
        s.offered.push(buf.len());
        loop {
            match s.reads.pop_front() {
                None | Some(REv::Eof) => return Ok(0),
                Some(REv::Pend) => continue,
                Some(REv::Elapsed) => return Err(io::Error::new(io::ErrorKind::TimedOut, "scripted read timeout")),
                Some(REv::Err(k)) => return Err(io::Error::new(KINDS[k as usize], "scripted")),
                Some(REv::Data(d)) => {
                    let n = d.len().min(buf.len());
                    buf[..n].copy_from_slice(&d[..n]);
                    if n < d.len() { s.reads.push_front(REv::Data(d[n..].to_vec())); }
                    return Ok(n);
                },
            }
        }
    }
}
impl Write for Transport {
    fn write(&mut self, buf: &[u8]) -> io::Result<usize> {
        let mut s = self.0.lock().unwrap();
        match s.wscript.pop_front() {
            None => { s.written.extend_from_slice(buf); s.all_written.extend_from_slice(buf); s.wcalls.push(buf.len()); Ok(buf.len()) },
            Some(WEv::Accept(k)) => { let n = (k + 1).min(buf.len()); s.written.extend_from_slice(&buf[..n]); s.all_written.extend_from_slice(&buf[..n]); s.wcalls.push(n); Ok(n) },
            Some(WEv::Pending) => Err(io::Error::new(io::ErrorKind::Interrupted, "scripted interrupted")),
            Some(WEv::Fail(k)) => Err(io::Error::new(KINDS[k as usize], "scripted write failure")),
        }
    }
    fn flush(&mut self) -> io::Result<()> { Ok(()) }
}
impl AsyncRead for Transport {
    fn poll_read(self: Pin<&mut Self>, cx: &mut Context<'_>, buf: &mut ReadBuf<'_>) -> Poll<io::Result<()>> {
        let mut s = self.0.lock().unwrap();
        s.polls += 1;
        // second poll of a scripted timeout: tokio's Timeout polls the inner future once more when its
        // timer fires; stay pending so that the deadline, not later data, decides
        if s.elapsing { s.elapsing = false; return Poll::Pending; }
        s.offered.push(buf.remaining());
        match s.reads.pop_front() {
            None | Some(REv::Eof) => Poll::Ready(Ok(())),
            Some(REv::Pend) => { cx.waker().wake_by_ref(); Poll::Pending },
            // never woken: with the paused clock the runtime advances time to the 90 s timeout
            Some(REv::Elapsed) => { s.elapsing = true; Poll::Pending },
            Some(REv::Err(k)) => Poll::Ready(Err(io::Error::new(KINDS[k as usize], "scripted"))),
            Some(REv::Data(d)) => {
                let n = d.len().min(buf.remaining());
                buf.put_slice(&d[..n]);
                if n < d.len() { s.reads.push_front(REv::Data(d[n..].to_vec())); }
                Poll::Ready(Ok(()))
            },
        }
    }
}
impl AsyncWrite for Transport {
    fn poll_write(self: Pin<&mut Self>, cx: &mut Context<'_>, buf: &[u8]) -> Poll<io::Result<usize>> {
        let mut s = self.0.lock().unwrap();
        s.polls += 1;
        if s.shut { return Poll::Ready(Err(io::Error::new(io::ErrorKind::BrokenPipe, "write after shutdown"))); }
        if let Some(n) = s.nap.as_mut() { match std::future::Future::poll(n.as_mut(), cx) { Poll::Pending => return Poll::Pending, Poll::Ready(()) => { s.nap = None; } } }
        match s.wscript.pop_front() {
            None => { s.written.extend_from_slice(buf); s.all_written.extend_from_slice(buf); s.wcalls.push(buf.len()); Poll::Ready(Ok(buf.len())) },
            Some(WEv::Accept(k)) => { let n = (k + 1).min(buf.len()); s.written.extend_from_slice(&buf[..n]); s.all_written.extend_from_slice(&buf[..n]); s.wcalls.push(n); Poll::Ready(Ok(n)) },
            Some(WEv::Pending) if s.slow => { let mut n = Box::pin(tokio::time::sleep(std::time::Duration::from_secs(3600))); let _ = std::future::Future::poll(n.as_mut(), cx); s.nap = Some(n); Poll::Pending },
            Some(WEv::Pending) => { cx.waker().wake_by_ref(); Poll::Pending },
            Some(WEv::Fail(k)) => Poll::Ready(Err(io::Error::new(KINDS[k as usize], "scripted write failure"))),
        }
    }
    fn poll_flush(self: Pin<&mut Self>, cx: &mut Context<'_>) -> Poll<io::Result<()>> { let mut s = self.0.lock().unwrap(); s.flush_calls += 1; if s.slow_flush && s.flush_calls % 2 == 1 { cx.waker().wake_by_ref(); Poll::Pending } else { Poll::Ready(Ok(())) } }
    fn poll_shutdown(self: Pin<&mut Self>, _cx: &mut Context<'_>) -> Poll<io::Result<()>> { self.0.lock().unwrap().shut = true; Poll::Ready(Ok(())) }
}

pub fn mode_of(c: bool) -> Mode { if c { Mode::Compressed } else { Mode::Uncompressed } }
pub fn mode_tag(c: bool) -> &'static str { if c { "C" } else { "U" } }

// ---------------------------------------------------------------- frame classification
#[derive(Clone, Debug, PartialEq)]
pub enum Class { Keep, Ver(u8), Other, Err }
impl Class {
    pub fn tag(&self) -> String { match self { Class::Keep => "K".into(), Class::Ver(v) => format!("V{v}"), Class::Other => "O".into(), Class::Err => "E".into() } }
}
/// decode one complete frame in isolation with the real Codec; None if it is not one complete frame
pub fn classify(compressed: bool, frame: &[u8]) -> Option<(Class, String)> {
    let codec = Codec::new(mode_of(compressed));
    let mut b = BytesMut::from(frame);
    match guard(|| codec.decode(&mut b)) {
        None => None,
        Some(Ok(Some(p))) => {
            if !b.is_empty() { return None; }
            let dbg = format!("{:?}", p);
            let c = if p.maybe_pong().is_some() { Class::Keep } else {
                match p.maybe_verify_version() { Err(Error::IncompatibleVersion(v)) => Class::Ver(v), Ok(true) => Class::Ver(insim::VERSION), _ => Class::Other }
            };
            Some((c, dbg))
        },
        Some(Ok(None)) => None,
        // a frame the codec removed from the buffer but could not turn into a packet is a per-frame decode error whatever error value
        // the library chose for it (the session oracle then insists on the decode-error result and on the session carrying on)
        Some(Err(Error::IO { kind: std::io::ErrorKind::InvalidData, .. })) if !b.is_empty() => None,
        Some(Err(_)) => if b.is_empty() { Some((Class::Err, "ERR".into())) } else { None },
    }
}

/// complete frames (size byte = length) that the codec, called on the frame alone, neither turned into a packet nor removed as a decode
/// error: they cannot take part in a session, and each one is a violation of the framing contract in its own right
pub static UNCONSUMED: Mutex<Vec<String>> = Mutex::new(Vec::new());
/// to be called by every harness that builds sessions from frame pools, before it writes its results
pub fn report_unconsumed(prop: &str, st: &mut Stats) {
    let v = UNCONSUMED.lock().unwrap();
    for f in v.iter().take(3) { st.fail(format!("[{prop}/C04] a complete frame is neither decoded nor removed from the buffer as a decode error (it would be met again by every later read): {f}"), format!("unconsumed {f}")); }
}

pub struct Frames {
    pub compressed: bool,
    pub frames: Vec<Vec<u8>>,
    pub class: Vec<Class>,
    pub rep: Vec<usize>,
}
impl Frames {
    pub fn new(compressed: bool, frames: Vec<Vec<u8>>) -> Self {
        let mut class = vec![]; let mut rep = vec![]; let mut keep = vec![];
        let mut by_dbg: HashMap<String, usize> = HashMap::new();
        for f in frames {
            let announced = if f.is_empty() { 0 } else { f[0] as usize * if compressed { 4 } else { 1 } };
            let cl = classify(compressed, &f);
            if cl.is_none() && f.len() >= 4 && announced == f.len() && f.len() <= if compressed { 1020 } else { 255 } { let mut u = UNCONSUMED.lock().unwrap(); if u.len() < 8 { u.push(format!("{} {}", mode_tag(compressed), hex(&f))); } }
            if let Some((c, d)) = cl {
                let i = keep.len();
                let key = if c == Class::Err { format!("ERR{}", hex(&f)) } else { d };
                let r = *by_dbg.entry(key).or_insert(i);
                keep.push(f); class.push(c); rep.push(r);
            }
        }
        Frames { compressed, frames: keep, class, rep }
    }
    pub fn table(&self) -> String {
        self.frames.iter().enumerate().map(|(i, f)| format!("f:{}:{}:{}", hex(&f[1..]), self.class[i].tag(), self.rep[i])).collect::<Vec<_>>().join(" ")
    }
    pub fn stream(&self) -> Vec<u8> { self.frames.concat() }
    /// the property's expectation for a session over these frames
    pub fn expected(&self, verify: bool) -> Vec<String> {
        let pong = if self.compressed { "W01030000" } else { "W04030000" };
        let mut o = vec![];
        for i in 0..self.frames.len() {
            match &self.class[i] {
                Class::Err => o.push("DE".to_string()),
                Class::Ver(v) if verify && *v != 9 => o.push(format!("BV{v}")),
                Class::Keep => { o.push(pong.to_string()); o.push(format!("P{}", self.rep[i])); },
                _ => o.push(format!("P{}", self.rep[i])),
            }
        }
        o.push("DC".into());
        o
    }
}

pub fn ev_tag(e: &REv) -> String {
    match e { REv::Data(d) => format!("D{}", hex(d)), REv::Err(k) => format!("E{k}"), REv::Elapsed => "T".into(), REv::Eof => "Z".into(), REv::Pend => "N".into() }
}
pub fn parse_ev(s: &str) -> REv {
    match &s[..1] { "D" => REv::Data(unhex(&s[1..])), "E" => REv::Err(s[1..].parse().unwrap()), "T" => REv::Elapsed, "N" => REv::Pend, _ => REv::Eof }
}

pub fn err_token(e: &Error) -> (String, bool) {
    match e {
        Error::Disconnected => ("DC".into(), true),
        Error::IncompatibleVersion(v) => (format!("BV{v}"), false),
        Error::Timeout(_) => ("TO".into(), false),
        Error::BinRw(_) => ("DE".into(), false),
        Error::IO { kind, .. } => match kind {
            io::ErrorKind::InvalidData => ("FE".into(), true),
            io::ErrorKind::TimedOut => ("TO".into(), false),
            k => (kind_idx(*k).map(|i| format!("IO{i}")).unwrap_or(format!("IO?{:?}", k)), false),
        },
        other => (format!("ERR?{:?}", other), true),
    }
}

fn packet_token(fr: &Frames, p: &Packet) -> String {
    let d = format!("{:?}", p);
    // representative = first frame whose isolated decoding prints the same
    for i in 0..fr.frames.len() {
        if fr.rep[i] == i && fr.class[i] != Class::Err {
            if let Some((_, di)) = classify(fr.compressed, &fr.frames[i]) { if di == d { return format!("P{i}"); } }
        }
    }
    format!("P?{}", d.chars().take(60).collect::<String>())
}

/// cache of representative Debug strings so packet_token is O(1)
pub struct RepIndex(HashMap<String, usize>);
impl RepIndex {
    pub fn new(fr: &Frames) -> Self {
        let mut m = HashMap::new();
        for i in 0..fr.frames.len() {
            if fr.rep[i] == i && fr.class[i] != Class::Err {
                if let Some((_, d)) = classify(fr.compressed, &fr.frames[i]) { m.entry(d).or_insert(i); }
            }
        }
        RepIndex(m)
    }
    pub fn token(&self, p: &Packet) -> String {
        let d = format!("{:?}", p);
        match self.0.get(&d) { Some(i) => format!("P{i}"), None => format!("P?{}", d.chars().take(60).collect::<String>()) }
    }
}

/// run a whole session on the blocking connection; returns the canonical trace
pub fn session_blocking(fr: &Frames, idx: &RepIndex, verify: bool, evs: &[REv], ws: &[WEv], max_reads: usize) -> (Vec<String>, Vec<usize>) {
    let t = Transport::new(evs.to_vec(), ws.to_vec());
    let mut f = BFramed::new(Box::new(t.clone()), Codec::new(mode_of(fr.compressed)));
    f.verify_version(verify);
    let mut trace = vec![]; let wline = format!("session {} {} {} | {}", mode_tag(fr.compressed), verify as u8, fr.table(), evs.iter().map(ev_tag).collect::<Vec<_>>().join(" "));
    for _ in 0..max_reads {
        // (watched: a read() that spins on the scripted transport is reported with the session instead of stalling the run)
        let r = watched("blocking Framed::read", || wline.clone(), || guard(|| f.read()));
        let w = t.take_written();
        if !w.is_empty() { trace.push(format!("W{}", hex(&w))); }
        match r {
            None => { trace.push("PANIC".into()); break; },
            Some(Ok(p)) => trace.push(idx.token(&p)),
            Some(Err(e)) => { let (tok, fin) = err_token(&e); trace.push(tok); if fin { break; } },
        }
    }
    let off = t.0.lock().unwrap().offered.clone();
    (trace, off)
}

pub fn runtime() -> tokio::runtime::Runtime {
    tokio::runtime::Builder::new_current_thread().enable_time().start_paused(true).build().unwrap()
}

pub fn session_async(rt: &tokio::runtime::Runtime, fr: &Frames, idx: &RepIndex, verify: bool, evs: &[REv], ws: &[WEv], max_reads: usize) -> (Vec<String>, Vec<usize>) {
    let t = Transport::new(evs.to_vec(), ws.to_vec());
    let mut f = AFramed::new(Box::new(t.clone()), Codec::new(mode_of(fr.compressed)));
    f.verify_version(verify);
    let mut trace = vec![]; let wline = format!("session {} {} {} | {}", mode_tag(fr.compressed), verify as u8, fr.table(), evs.iter().map(ev_tag).collect::<Vec<_>>().join(" "));
    for _ in 0..max_reads {
        let r = watched("tokio Framed::read", || wline.clone(), || guard(|| rt.block_on(async { f.read().await })));
        let w = t.take_written();
        if !w.is_empty() { trace.push(format!("W{}", hex(&w))); }
        match r {
            None => { trace.push("PANIC".into()); break; },
            Some(Ok(p)) => trace.push(idx.token(&p)),
            Some(Err(e)) => { let (tok, fin) = err_token(&e); trace.push(tok); if fin { break; } },
        }
    }
    let off = t.0.lock().unwrap().offered.clone();
    (trace, off)
}

/// version texts LFS has sent or can send (number, letter, optional revision), up to the full 8 bytes of the field
// (the empty text - a Version field of eight NULs, as a host that does not fill it in sends - is a version packet too: the gate looks at InSimVer)
pub const GOOD_VERSION_TEXTS: [&str; 10] = ["0.7F", "0.7E1234", "0.7D0", "0.6V", "0.7A12", "0.5Z34", "0.7E15", "0.04K", "0.6K999", ""];
pub fn is_transient_tok(t: &str) -> bool { t.starts_with("IO") || t == "TO" }

/// the C05/C07/C09 oracle on one implementation trace: None = holds
pub fn session_oracle(fr: &Frames, verify: bool, evs: &[REv], trace: &[String]) -> Option<String> {
    // what counts as a keep-alive / a version packet is decided by the bytes (type 3, request id 0, sub-type 0 / type 2), not by
    // what the decoder makes of them
    for (i, f) in fr.frames.iter().enumerate() {
        let is_ka_bytes = f.len() >= 4 && f[1] == 3 && f[2] == 0 && f[3] == 0; // bytes after the third inside an over-long TINY frame are ignored by every decoder
        if (fr.class[i] == Class::Keep) != is_ka_bytes { return Some(format!("frame {} is {}treated as a keep-alive (TINY_NONE, request id 0)", hex(f), if is_ka_bytes { "not " } else { "" })); }
        if matches!(fr.class[i], Class::Ver(_)) && f[1] != 2 { return Some(format!("frame {} of type {} is treated as a version packet", hex(f), f[1])); }
        // an IS_VER frame (type 2, 20 bytes) whose 8-byte version text is a plain LFS version is a version packet reporting byte 18
        if f.len() == 20 && f[1] == 2 {
            let txt: Vec<u8> = f[4..12].iter().copied().take_while(|b| *b != 0).collect();
            if f[4..12].iter().skip(txt.len()).all(|b| *b == 0) && GOOD_VERSION_TEXTS.iter().any(|t| t.as_bytes() == &txt[..]) && fr.class[i] != Class::Ver(f[18]) {
                return Some(format!("IS_VER frame {} (version text {:?}, InSim version {}) is classified {:?}", hex(f), String::from_utf8_lossy(&txt), f[18], fr.class[i]));
            }
        }
    }
    let got: Vec<&String> = trace.iter().filter(|t| !is_transient_tok(t)).collect();
    let want = fr.expected(verify);
    if got.len() != want.len() || got.iter().zip(want.iter()).any(|(a, b)| *a != b) {
        let pos = got.iter().zip(want.iter()).position(|(a, b)| *a != b).unwrap_or(got.len().min(want.len()));
        return Some(format!("result #{pos}: got {:?} want {:?} (got {} results, want {})", got.get(pos), want.get(pos), got.len(), want.len()));
    }
    // a transient result is returned exactly where the transport reported it: after every frame that had completely arrived before
    // it (a complete frame is handed out before the transport is touched again), before everything that arrived later
    {
        let ends: Vec<usize> = fr.frames.iter().scan(0usize, |acc, f| { *acc += f.len(); Some(*acc) }).collect();
        let mut received = 0usize; let mut want_pos: Vec<usize> = vec![]; // number of frame results that precede each transient
        for e in evs { match e { REv::Data(d) => received += d.len(), REv::Err(_) | REv::Elapsed => want_pos.push(ends.iter().filter(|x| **x <= received).count()), _ => {} } }
        let mut frames_seen = 0usize; let mut got_pos: Vec<usize> = vec![];
        for t in trace { if is_transient_tok(t) { got_pos.push(frames_seen); } else if !t.starts_with('W') && t != "DC" { frames_seen += 1; } }
        // a rejected version / decode error counts as the result of its frame; only compare when every frame yields exactly one result
        if got_pos.len() == want_pos.len() && got_pos != want_pos {
            let k = got_pos.iter().zip(want_pos.iter()).position(|(a, b)| a != b).unwrap_or(0);
            return Some(format!("transient result #{k} is returned after {} frame results, but {} frames had completely arrived when the transport reported it", got_pos[k], want_pos[k]));
        }
    }
    let tr_got: Vec<&String> = trace.iter().filter(|t| is_transient_tok(t)).collect();
    let tr_want: Vec<String> = evs.iter().filter_map(|e| match e { REv::Err(k) => Some(format!("IO{k}")), REv::Elapsed => Some("TO".into()), _ => None }).collect();
    if tr_got.len() != tr_want.len() || tr_got.iter().zip(tr_want.iter()).any(|(a, b)| *a != b) {
        return Some(format!("transient results {:?} differ from the transport's transient events {:?}", tr_got, tr_want));
    }
    None
}

// ---------------------------------------------------------------- frame pools
pub fn encode(compressed: bool, p: &Packet) -> Option<Vec<u8>> {
    let codec = Codec::new(mode_of(compressed));
    guard(|| codec.encode(p).ok().map(|b| b.to_vec())).flatten()
}
pub fn size_byte(compressed: bool, len: usize) -> u8 { if compressed { (len / 4) as u8 } else { len as u8 } }
pub fn raw_frame(compressed: bool, ty: u8, reqi: u8, rest: &[u8]) -> Vec<u8> {
    let mut body = vec![ty, reqi]; body.extend_from_slice(rest);
    while (body.len() + 1) % 4 != 0 { body.push(0); }
    let mut f = vec![size_byte(compressed, body.len() + 1)]; f.extend(body); f
}

/// a pool of complete frames: every kind (default values), keep-alives and their near misses,
/// version packets, mutated payloads (decode errors), unknown type numbers, large frames
pub fn frame_pool(rng: &mut Rng, compressed: bool) -> Vec<Vec<u8>> {
    let mut v: Vec<Vec<u8>> = vec![];
    let defaults: Vec<Vec<u8>> = crate::gen::kinds::default_packets().iter().filter_map(|p| encode(compressed, p)).collect();
    v.extend(defaults.iter().cloned());
    for subt in 0..32u8 { for reqi in [0u8, 1, 255] { v.push(raw_frame(compressed, 3, reqi, &[subt])); } }
    if let Some(ver) = defaults.iter().find(|f| f[1] == 2) {
        for ins in [0u8, 1, 8, 9, 10, 255] { let mut f = ver.clone(); let n = f.len(); f[n - 2] = ins; f[4] = b'0'; f[5] = b'.'; f[6] = b'7'; f[7] = b'F'; v.push(f); }
        for (k, sp) in [1u8, 9, 128, 255].iter().enumerate() { let mut f = ver.clone(); let n = f.len(); f[n - 2] = [9u8, 8, 10, 9][k]; f[n - 1] = *sp; f[4] = b'0'; f[5] = b'.'; f[6] = b'7'; f[7] = b'F'; v.push(f); }
        for (k, t) in GOOD_VERSION_TEXTS.iter().enumerate() { let mut f = ver.clone(); let n = f.len(); f[n - 2] = [9u8, 8, 10][k % 3]; for j in 0..8 { f[4 + j] = *t.as_bytes().get(j).unwrap_or(&0); } v.push(f); }
    }
    for d in &defaults { for _ in 0..2 { let mut f = d.clone(); if f.len() > 3 { let i = 3 + rng.below((f.len() - 3) as u64) as usize; f[i] = rng.byte(); } v.push(f); } }
    // text kinds that read their text to the end of the frame, with a text that fills the frame to its last byte (no NUL inside): IS_MSO (11),
    // IS_III (12), IS_ACR (55), IS_MTC (14): what follows them in a buffer must not leak into the text
    for (ty, head) in [(11u8, vec![0u8, 0, 0, 0, 0]), (12, vec![0, 0, 0, 0, 0]), (55, vec![0, 0, 1, 0, 0]), (14, vec![0, 0, 0, 0, 0])] {
        for txt in [&b"four"[..], &b"eight888"[..]] { let mut body = vec![ty]; body.push(0); body.extend(&head[..]); body.truncate(7); body.extend_from_slice(txt); if (body.len() + 1) % 4 == 0 { let mut f = vec![size_byte(compressed, body.len() + 1)]; f.extend(body); v.push(f); } }
    }
    for ty in [0u8, 68, 100, 200, 249] { let n = rng.range(0, 7) as usize; let r = rng.bytes(1 + 4 * n); v.push(raw_frame(compressed, ty, rng.byte(), &r)); }
    let max: u64 = if compressed { 1020 } else { 252 };
    for _ in 0..6 { let ty = 1 + rng.below(67) as u8; let len = 4 * rng.range(1, max / 4) as usize; let r = rng.bytes(len - 3); v.push(raw_frame(compressed, ty, rng.byte(), &r)); }
    v.retain(|f| f.len() % 4 == 0 && f.len() >= 4 && (f.len() as u64) <= max + if compressed { 0 } else { 3 });
    // uncompressed mode can announce any length 4..=255: a peer's frame whose length is not a multiple of 4 (LFS never sends one) is still ONE frame
    // of the announced length - it is decoded or refused as a unit and its successors are not disturbed
    if !compressed { for len in [5usize, 6, 7, 9, 253, 254, 255] { for ty in [3u8, 33, rng.byte()] { let mut f = vec![len as u8, ty, rng.byte()]; f.extend(rng.bytes(len - 3)); if ty == 3 { f[3] = 0; } v.push(f); } } }
    v
}
