(* Core/Vehicle.v — executable model of insim_core::vehicle (BinRead / BinWrite / Display)
   over the arms generated from the source (Gen/VehicleTab.v). No proofs here. *)
Require Import Base.Bytes Core.VehicleDefs Gen.VehicleTab.
Local Open Scope N_scope.

Definition is_alnum (b : N) : bool :=
  ((48 <=? b) && (b <=? 57)) || ((65 <=? b) && (b <=? 90)) || ((97 <=? b) && (b <=? 122)).

(* `bytes[0..=2].iter().all(|c| c.is_ascii_alphanumeric()) && bytes[3] == 0` *)
Definition builtin_shape (bs : bytes) : bool :=
  match bs with
  | [a; b; c; d] => is_alnum a && is_alnum b && is_alnum c && (d =? 0)
  | _ => false
  end.

Definition arm_matches (bs : bytes) (sh : bool) (a : varm) : bool :=
  let '(p, g, _) := a in
  (match p with None => true | Some q => list_eqb q bs end) &&
  (match g with None => true | Some b => Bool.eqb b sh end).

(* Rust `match`: first arm whose pattern matches *)
Fixpoint first_match (arms : list varm) (bs : bytes) (sh : bool) : option vout :=
  match arms with
  | [] => None
  | a :: t => if arm_matches bs sh a then Some (snd a) else first_match t bs sh
  end.

Definition vehicle_read_with (arms : list varm) (bs : bytes) : res vehicle :=
  match first_match arms bs (builtin_shape bs) with
  | Some OUnknown => Ok Unknown
  | Some (OBuiltin i) => Ok (Builtin i)
  | Some OErr => Err
  | Some OMod => Ok (Mod (le_dec bs))
  | None => Panic (* rustc's exhaustiveness check makes this unreachable *)
  end.

(* reads exactly 4 bytes; shorter input is an (io) error *)
Definition vehicle_read (bs : bytes) : res vehicle :=
  if Nat.eqb (length bs) 4 then vehicle_read_with vehicle_read_arms bs else Err.

Fixpoint assoc {A} (k : N) (l : list (N * A)) : option A :=
  match l with [] => None | (k', v) :: t => if k =? k' then Some v else assoc k t end.

Definition vehicle_write (v : vehicle) : res bytes :=
  match v with
  | Builtin i => match assoc i vehicle_write_tab with Some bs => Ok bs | None => Panic end
  | Mod id => if id <? 4294967296 then Ok (le_enc 4 id) else Panic (* u32 by typing *)
  | Unknown => Ok vehicle_write_unknown
  end.

(* Display for built-ins (Mod prints {:06X}, Unknown prints "Unknown"; not modelled further) *)
Definition vehicle_display (i : N) : option bytes := assoc i vehicle_display_tab.

(* Vehicle::is_mod / Vehicle::is_builtin: each is a test for the Mod variant or its negation; the translator reads which
   (Gen/VehicleTab.v: value on a mod, value on anything else) *)
Definition is_mod (v : vehicle) : bool :=
  match v with Mod _ => fst vehicle_is_mod_tab | _ => snd vehicle_is_mod_tab end.
Definition is_builtin (v : vehicle) : bool :=
  match v with Mod _ => fst vehicle_is_builtin_tab | _ => snd vehicle_is_builtin_tab end.

(* ---- the InSim v9 rule, stated independently of the match arms ---- *)
Definition zeros4 : bytes := [0; 0; 0; 0].

Fixpoint find_name (bs : bytes) (tab : list (N * bytes)) : option N :=
  match tab with
  | [] => None
  | (i, nm) :: t => if list_eqb (nm ++ [0]) bs then Some i else find_name bs t
  end.

Definition spec_read_with (tab : list (N * bytes)) (bs : bytes) : res vehicle :=
  if list_eqb zeros4 bs then Ok Unknown
  else if builtin_shape bs then
         match find_name bs tab with Some i => Ok (Builtin i) | None => Err end
       else Ok (Mod (le_dec bs)).

Definition spec_read (bs : bytes) : res vehicle :=
  if Nat.eqb (length bs) 4 then spec_read_with vehicle_display_tab bs else Err.

(* canonical shape of the match: zero arm, one arm per built-in (wire = printed name + NUL,
   guarded by the shape test), then the two catch-alls *)
Definition canon_arms (tab : list (N * bytes)) : list varm :=
  (Some zeros4, None, OUnknown)
  :: map (fun '(i, nm) => (Some (nm ++ [0]), Some true, OBuiltin i)) tab
  ++ [(None, Some true, OErr); (None, Some false, OMod)].

Definition to_upper (b : N) : N := if (97 <=? b) && (b <=? 122) then b - 32 else b.

(* decidable table coherence checks (finite: one entry per built-in) *)
Definition tab_entry_ok (e : N * bytes) : bool :=
  let '(i, nm) := e in
  Nat.eqb (length nm) 3 && forallb is_alnum nm &&
  match assoc i vehicle_write_tab with Some w => list_eqb w (nm ++ [0]) | None => false end &&
  match assoc i vehicle_names with Some id => list_eqb (map to_upper id) nm | None => false end.

Fixpoint nodup_keys (l : list (N * bytes)) : bool :=
  match l with
  | [] => true
  | (i, nm) :: t => negb (existsb (fun '(j, nm') => (i =? j) || list_eqb nm nm') t) && nodup_keys t
  end.

(* the 20 cars of LFS, transcribed by hand from InSim.txt (independent of the source) *)
Definition lfs_builtin_cars : list bytes :=
  [[88;70;71]; [88;82;71]; [70;66;77]; [88;82;84]; [82;66;52]; [70;88;79]; [76;88;52]; [76;88;54];
   [77;82;84]; [85;70;49]; [82;65;67]; [70;90;53]; [70;79;88]; [88;70;82]; [85;70;82]; [70;79;56];
   [70;88;82]; [88;82;82]; [70;90;82]; [66;70;49]].
Definition same_car_set : bool :=
  forallb (fun nm => existsb (fun '(_, nm') => list_eqb nm nm') vehicle_display_tab) lfs_builtin_cars &&
  forallb (fun '(_, nm') => existsb (fun nm => list_eqb nm nm') lfs_builtin_cars) vehicle_display_tab.
