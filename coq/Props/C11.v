(* Props/C11.v — text fields always occupy their exact wire width and terminate correctly.
   Text is bytes here (the codepage layer is C10); all lengths, all byte contents. *)
Require Import Coq.Strings.String.
Require Import Base.Bytes Wire.Layout Wire.LayoutProofs.
Local Open Scope N_scope.

(* fixed-width field: exactly N bytes = the text truncated to N, then NUL padding *)
Theorem c11_fixed_exact_width : forall n bs,
  length (write_fixed n bs) = n /\
  write_fixed n bs = firstn n bs ++ repeat 0 (n - length (firstn n bs)).
Proof. intros. split; [apply write_fixed_len|reflexivity]. Qed.

(* variable-width field: NUL-padded to a multiple of the alignment, never above the maximum *)
Theorem c11_aligned_width : forall mx al bs, (0 < al)%nat -> Nat.modulo mx al = 0%nat ->
  length (write_aligned mx al bs) = Nat.min mx (round_up (length bs) al) /\
  Nat.modulo (length (write_aligned mx al bs)) al = 0%nat /\
  (length (write_aligned mx al bs) <= mx)%nat /\
  write_aligned mx al bs = firstn mx (bs ++ repeat 0 (round_up (length bs) al - length bs)).
Proof.
  intros mx al bs Ha Hm. rewrite write_aligned_len by exact Ha. repeat split.
  - destruct (Nat.min_spec mx (round_up (length bs) al)) as [[_ ->]|[_ ->]]; [exact Hm|apply round_up_mod; exact Ha].
  - apply Nat.le_min_l.
Qed.

(* decoding stops at the first NUL, and is idempotent *)
Lemma strip_nul_first_nul a b : nonul a = true -> strip_nul (a ++ 0 :: b) = a.
Proof.
  induction a as [|x a IH]; cbn [nonul forallb app strip_nul]; [reflexivity|].
  intros H. apply andb_prop in H as [Hx Ha]. apply negb_true_iff in Hx. rewrite Hx. f_equal. apply IH. exact Ha.
Qed.
Theorem c11_decode_stops_at_first_nul : forall a b, nonul a = true -> strip_nul (a ++ 0 :: b) = a.
Proof. exact strip_nul_first_nul. Qed.

Lemma strip_nul_nonul_out bs : nonul (strip_nul bs) = true.
Proof.
  induction bs as [|b t IH]; cbn [strip_nul]; [reflexivity|].
  destruct (b =? 0) eqn:E; [reflexivity|]. cbn [nonul forallb]. rewrite E. cbn [negb andb]. exact IH.
Qed.
Theorem c11_strip_idempotent : forall bs, strip_nul (strip_nul bs) = strip_nul bs.
Proof. intros. apply strip_nul_nonul. apply strip_nul_nonul_out. Qed.

(* what is written is read back: text shorter than / equal to the width survives *)
Theorem c11_fixed_read_back : forall n bs, (length bs <= n)%nat -> nonul bs = true ->
  strip_nul (write_fixed n bs) = bs.
Proof. intros. rewrite write_fixed_short by assumption. apply strip_nul_app_zeros. assumption. Qed.

(* ---- the terminating NUL of the free-text packets sent to LFS (MST, MSX, MSL, MTC) ----
   Since 62eca23 (the repair of the former known finding) these four fields use the NUL-terminated
   writer: the text is cut to N-1 bytes, so the last byte of the field is ALWAYS NUL, for every text. *)
Theorem c11_terminated_fixed : forall n bs, (0 < n)%nat ->
  length (write_text n true bs) = n /\ last (write_text n true bs) 1 = 0 /\
  write_text n true bs = firstn (Nat.pred n) bs ++ repeat 0 (n - length (firstn (Nat.pred n) bs)).
Proof.
  intros n bs Hn. split; [apply write_text_len|]. split; [apply write_text_z_terminated; exact Hn|].
  unfold write_text. destruct n as [|k]; [lia|]. cbn [Nat.pred]. unfold write_fixed. rewrite <- app_assoc. f_equal.
  pose proof (firstn_le_length k bs) as Hl.
  replace (S k - length (firstn k bs))%nat with ((k - length (firstn k bs)) + 1)%nat by lia. rewrite repeat_app. reflexivity.
Qed.
Theorem c11_terminated_aligned : forall mx al bs, (0 < al)%nat -> (0 < mx)%nat -> Nat.modulo mx al = 0%nat ->
  last (write_aligned_z mx al bs) 1 = 0 /\
  Nat.modulo (length (write_aligned_z mx al bs)) al = 0%nat /\ (length (write_aligned_z mx al bs) <= mx)%nat.
Proof.
  intros mx al bs Ha Hmx Hm. split; [apply write_aligned_z_terminated|]. rewrite write_aligned_z_len by assumption. split.
  - destruct (Nat.min_spec mx (round_up (S (Nat.min (length bs) (Nat.pred mx))) al)) as [[_ ->]|[_ ->]]; [exact Hm|apply round_up_mod; exact Ha].
  - apply Nat.le_min_l.
Qed.
(* what is written is still read back (text one byte shorter than the field) *)
Theorem c11_terminated_read_back : forall n bs, (0 < n)%nat -> (length bs <= Nat.pred n)%nat -> nonul bs = true ->
  strip_nul (write_text n true bs) = bs.
Proof.
  intros n bs Hn Hl Hz. rewrite write_text_short; [apply strip_nul_app_zeros; exact Hz|exact Hl|intros _; exact Hn].
Qed.
(* the four packets use that writer, all other text fields the plain one (regenerated from the source) *)
Require Import Gen.Packets Wire.Packet.
Definition text_flags (k : pkind) : list bool :=
  match k with
  | KLayout l => flat_map (fun f => match snd f with AText _ z => [z] | _ => [] end) (fixed l) ++
                 match ltail l with TTextEof _ _ z => [z] | _ => [] end
  | KMso => []
  end.
Definition must_terminate (nm : string) : bool :=
  existsb (String.eqb nm) ["Mst"%string; "Msx"%string; "Msl"%string; "Mtc"%string].
Theorem c11_the_four_packets_use_the_terminated_writer :
  forallb (fun e => let '(_, nm, k) := e in
                    if must_terminate nm then negb (match text_flags k with [] => true | _ => false end) && forallb (fun z => z) (text_flags k)
                    else forallb negb (text_flags k)) packet_table = true.
Proof. vm_compute. reflexivity. Qed.

(* the plain writer (all other text fields, which LFS sends and this library only echoes) terminates
   exactly when the text is shorter than the field: kept to document why the four packets need their own writer *)
Definition known_class_full_width (n : nat) (bs : list N) : Prop := (n <= length bs)%nat.
Theorem c11_plain_fixed_terminated_iff_room : forall n bs,
  ~ known_class_full_width n bs -> last (write_fixed n bs) 1 = 0.
Proof.
  unfold known_class_full_width. intros n bs H. rewrite write_fixed_short by lia.
  assert (exists k, (n - length bs = S k)%nat) as [k ->] by (exists (n - length bs - 1)%nat; lia).
  replace (repeat 0 (S k)) with (repeat 0 k ++ [0]) by (rewrite <- repeat_cons; reflexivity).
  rewrite app_assoc. apply last_last.
Qed.
Theorem c11_plain_writer_refuted :
  (exists bs, known_class_full_width 64 bs /\ nonul bs = true /\ last (write_fixed 64 bs) 1 <> 0) /\
  (exists bs, nonul bs = true /\ last (write_aligned 128 4 bs) 1 <> 0).
Proof.
  split.
  - exists (repeat 65 64). unfold known_class_full_width. vm_compute. repeat split; try discriminate. lia.
  - exists [65; 65; 65; 65; 65; 65; 65; 65]. vm_compute. split; [reflexivity|discriminate].
Qed.
