Require Import Base.Bytes Net.Frame Net.Framed Net.FramedProofs Net.Async Net.AsyncProofs Net.AsyncRefines Net.Concrete Net.AsyncConvProofs Net.AsyncResults.
Require Import Props.C19.
Local Open Scope N_scope.
Check c19_cancel_safe :
  forall (packet : Type) (parse : bytes -> res packet) (ver_of : packet -> option N)
         (is_keepalive : packet -> bool) (version : N) (m : mode) (verify : bool) (pong : bytes),
  forall fuel c s rs ws cancels acc,
    Inv packet parse ver_of is_keepalive version m verify pong c s ->
    asession packet parse ver_of is_keepalive version m verify pong fuel c s rs ws cancels acc
    = asession packet parse ver_of is_keepalive version m verify pong fuel c s rs ws [] acc.
Check c19_resume_equals_fresh :
  forall (packet : Type) (parse : bytes -> res packet) (ver_of : packet -> option N)
         (is_keepalive : packet -> bool) (version : N) (m : mode) (verify : bool) (pong : bytes) c s rs ws,
    Inv packet parse ver_of is_keepalive version m verify pong c s ->
    poll_from packet parse ver_of is_keepalive version m verify pong c s rs ws
    = poll_from packet parse ver_of is_keepalive version m verify pong Top s rs ws.
Check c19_suspension_invariant :
  forall (packet : Type) (parse : bytes -> res packet) (ver_of : packet -> option N)
         (is_keepalive : packet -> bool) (version : N) (m : mode) (verify : bool) (pong : bytes)
         c s rs ws c' s' rs' ws' w,
    Inv packet parse ver_of is_keepalive version m verify pong c s ->
    poll_from packet parse ver_of is_keepalive version m verify pong c s rs ws = (PPending c', s', rs', ws', w) ->
    Inv packet parse ver_of is_keepalive version m verify pong c' s'.
Check c19_outgoing_whole_replies :
  forall (packet : Type) (parse : bytes -> res packet) (ver_of : packet -> option N)
         (is_keepalive : packet -> bool) (version : N) (m : mode) (verify : bool) (pong : bytes),
  pong <> [] -> forall fuel c s rs ws cancels acc,
    forallb no_fail ws = true ->
    Inv packet parse ver_of is_keepalive version m verify pong c s ->
    WInv packet is_keepalive pong s acc ->
    trace_ok packet is_keepalive pong
      (asession packet parse ver_of is_keepalive version m verify pong fuel c s rs ws cancels acc).
Check c19_uninterrupted_is_the_connection :
  forall (packet : Type) (parse : bytes -> res packet) (ver_of : packet -> option N)
         (is_keepalive : packet -> bool) (version : N) (m : mode) (verify : bool) (pong : bytes),
  pong <> [] -> forall fuel tr buf,
    asession packet parse ver_of is_keepalive version m verify pong fuel Top (mkF buf [] None) (map AEv (tr ++ [Eof])) [] [] []
    = session packet parse ver_of is_keepalive version m verify pong fuel buf (tr ++ [Eof]).
Check c19_reply_state_in_future_refuted :
  forall (p q : tpacket) rest,
    legacy_after_keepalive tpacket [1;3;0;0] p rest [WAccept 0; WPending]
      = ((PPending Top, LInPong tpacket p [3;0;0]), rest, [], [1]) /\
    snd (fst (fst (legacy_after_keepalive tpacket [1;3;0;0] p rest [WAccept 0; WPending])))
      = snd (fst (fst (legacy_after_keepalive tpacket [1;3;0;0] q rest [WAccept 0; WPending]))) /\
    legacy_resume_pong tpacket p [3;0;0] [] = (Some (RPacket p), LTop tpacket, [], [3;0;0]).
Check c19_conversation_without_writes_is_the_session :
  forall (packet : Type) (parse : bytes -> res packet) (ver_of : packet -> option N)
         (is_keepalive : packet -> bool) (version : N) (m : mode) (verify : bool) (pong : bytes),
  forall fuel c s rs ws cancels acc,
    flat_map (out_of packet) (aconv packet parse ver_of is_keepalive version m verify pong fuel c s rs ws cancels [] acc)
    = asession packet parse ver_of is_keepalive version m verify pong fuel c s rs ws cancels acc.
Check c19_conversation_wire_is_whole_frames :
  forall (packet : Type) (parse : bytes -> res packet) (ver_of : packet -> option N)
         (is_keepalive : packet -> bool) (version : N) (m : mode) (verify : bool) (pong : bytes),
  forall fuel c s rs ws cancels wsched acc done,
    forallb no_fail ws = true ->
    Inv packet parse ver_of is_keepalive version m verify pong c s ->
    WInv packet is_keepalive pong s (done ++ acc) ->
    conv_ok packet is_keepalive pong done (aconv packet parse ver_of is_keepalive version m verify pong fuel c s rs ws cancels wsched acc).
Check c19_model_state_is_the_struct : state_tied = true.
Check c19_results_are_the_connections :
  forall (packet : Type) (parse : bytes -> res packet) (ver_of : packet -> option N)
         (is_keepalive : packet -> bool) (version : N) (m : mode) (verify : bool) (pong : bytes),
  forall fuel c s rs ws cancels wsched acc,
    forallb no_fail ws = true ->
    Inv packet parse ver_of is_keepalive version m verify pong c s ->
    prefix (results packet (aconv packet parse ver_of is_keepalive version m verify pong fuel c s rs ws cancels wsched acc))
           (held packet s ++ rets packet (session packet parse ver_of is_keepalive version m verify pong fuel (fbuf s) (strip rs ++ [Eof]))).
Check c19_results_complete_at_end_of_stream :
  forall (packet : Type) (parse : bytes -> res packet) (ver_of : packet -> option N)
         (is_keepalive : packet -> bool) (version : N) (m : mode) (verify : bool) (pong : bytes),
  forall fuel c s rs ws cancels wsched acc pre x,
    forallb no_fail ws = true ->
    Inv packet parse ver_of is_keepalive version m verify pong c s ->
    results packet (aconv packet parse ver_of is_keepalive version m verify pong fuel c s rs ws cancels wsched acc) = pre ++ [x] ->
    is_final packet (Ret x) = true ->
    results packet (aconv packet parse ver_of is_keepalive version m verify pong fuel c s rs ws cancels wsched acc)
    = held packet s ++ rets packet (session packet parse ver_of is_keepalive version m verify pong fuel (fbuf s) (strip rs ++ [Eof])).
Check c19_parked_reply_is_conserved : forall ws pw r pw' ws' w,
  flush pw ws = (r, pw', ws', w) -> pw = w ++ pw' /\ (r = FDone -> pw' = []).
Print Assumptions c19_cancel_safe.
Print Assumptions c19_resume_equals_fresh.
Print Assumptions c19_suspension_invariant.
Print Assumptions c19_outgoing_whole_replies.
Print Assumptions c19_uninterrupted_is_the_connection.
Print Assumptions c19_reply_state_in_future_refuted.
Print Assumptions c19_conversation_without_writes_is_the_session.
Print Assumptions c19_conversation_wire_is_whole_frames.
Print Assumptions c19_model_state_is_the_struct.
Print Assumptions c19_results_are_the_connections.
Print Assumptions c19_results_complete_at_end_of_stream.
Print Assumptions c19_parked_reply_is_conserved.
