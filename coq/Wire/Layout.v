(* Wire/Layout.v — deep-embedded wire-layout DSL for binrw-declared packets: atoms, a fixed
   part (one atom per declared field / pad / count slot, sub-structs and arrays inlined by the
   translator) and an optional variable tail (counted vector, de-duplicated word set, or
   until-end-of-frame text). Executable encode / decode with a three-valued result.
   Text is modelled at the byte level (the codepage layer is C10's subject).  No proofs here. *)
Require Import Coq.Strings.String.
Require Import Base.Bytes.
Local Open Scope N_scope.

(* hand-modelled fixed-width codecs, defined in Wire/Customs.v *)
Inductive custom :=
| CVehicle | CTrack | CRaceLaps | CFuel | CSmallType | CCimMode | CGameVersion | CNibHiLo | CNibHi.

Inductive atom :=
| ANum (w : nat) (max : option N)   (* w-byte little-endian; bw(assert(x <= max)) when present *)
| APad (n : nat)                    (* zeros on write, skipped on read *)
| AEnum (vals : list N)             (* #[brw(repr(u8))]: unknown discriminant = decode error *)
| AFlags (w : nat) (mask : N)       (* from_bits_truncate on read, bits() on write *)
| ABool                             (* read x != 0, write x as u8 *)
| AChar8                            (* read x as char, write x as u8 (truncating) *)
| ACount (w : nat) (cap : option N) (* bw(calc = tail.len() as uW) ; optional bw(assert(len <= cap)) *)
| AText (n : nat) (z : bool)        (* fixed-width text: strip at first NUL / truncate + NUL-pad; z = the writer cuts to n-1
                                       bytes so that the last byte is always NUL (binrw_write_codepage_string_nul_terminated) *)
| ADur (w : nat) (scale : N)        (* Duration in ms <-> w-byte count of scale-ms units *)
| ACustom (c : custom).

Inductive value :=
| VN (n : N) | VB (bs : list N) | VU | VL (l : list value).

Inductive tail :=
| TNone
| TVec (elt : list (string * atom)) (padm padk : nat)
      (* #[br(count = n)] Vec<struct>, followed by (n mod padm) * padk spare bytes *)
| TWords                                 (* IndexSet of 4-byte words (duplicates collapse) *)
| TTextEof (max align : nat) (z : bool).  (* until_eof text / aligned writer; z = NUL-terminated variant of the writer *)

Inductive tvalue := TVNone | TVRows (rows : list (list value)) | TVWords (ws : list N) | TVText (bs : list N).

Record layout := { fixed : list (string * atom); ltail : tail }.

(* ---- text helpers (insim_core::string) ---- *)
Fixpoint strip_nul (bs : list N) : list N :=
  match bs with [] => [] | b :: t => if b =? 0 then [] else b :: strip_nul t end.
(* binrw_write_codepage_string::<SIZE>(_, 0|1): truncate, then NUL-pad to SIZE *)
Definition write_fixed (n : nat) (bs : list N) : list N :=
  firstn n bs ++ repeat 0 (n - length (firstn n bs)).
(* ... ::<SIZE>(_, align): NUL-pad to a multiple of align, then truncate to SIZE *)
Definition round_up (len align : nat) : nat :=
  match align with O => len | _ => Nat.div (len + (align - 1)) align * align end.
Definition write_aligned (max align : nat) (bs : list N) : list N :=
  firstn max (bs ++ repeat 0 (round_up (length bs) align - length bs)).

(* binrw_write_codepage_string_nul_terminated::<SIZE>(_, 0|1): cut to SIZE-1, one NUL, NUL-pad to SIZE *)
Definition write_text (n : nat) (z : bool) (bs : list N) : list N :=
  if z then match n with O => [] | S k => write_fixed k bs ++ [0] end else write_fixed n bs.
(* ... ::<SIZE>(_, align): cut to SIZE-1, one NUL, NUL-pad to a multiple of align (never beyond SIZE) *)
Definition write_aligned_z (max align : nat) (bs : list N) : list N :=
  let r := firstn (Nat.pred max) bs ++ [0] in
  r ++ repeat 0 (Nat.min (round_up (length r) align) max - length r).

Definition pow256 (w : nat) : N := 256 ^ N.of_nat w.

Section Codec.
  (* the hand-modelled customs: width, encoder, decoder *)
  Variable cwidth : custom -> nat.
  Variable cenc : custom -> value -> res (list N).
  Variable cdec : custom -> list N -> res value.

  Definition awidth (a : atom) : nat :=
    match a with
    | ANum w _ => w | APad n => n | AEnum _ => 1 | AFlags w _ => w | ABool => 1 | AChar8 => 1
    | ACount w _ => w | AText n _ => n | ADur w _ => w | ACustom c => cwidth c
    end.

  (* count = number of elements of the tail (what `calc = v.len()` sees) *)
  Definition enc_atom (count : N) (a : atom) (v : value) : res (list N) :=
    match a, v with
    | ANum w mx, VN n =>
        if negb (n <? pow256 w) then Panic (* not a uW: excluded by typing *)
        else match mx with
             | Some m => if m <? n then Err else Ok (le_enc w n)
             | None => Ok (le_enc w n)
             end
    | APad n, VU => Ok (repeat 0 n)
    | AEnum vals, VN n => if existsb (N.eqb n) vals then Ok [n] else Panic (* not an enumerant: typing *)
    | AFlags w _, VN n => if n <? pow256 w then Ok (le_enc w n) else Panic
    | ABool, VN n => if n <? 2 then Ok [n] else Panic
    | AChar8, VN n => Ok [n mod 256]
    | ACount w cap, VU =>
        match cap with
        | Some c => if c <? count then Err else Ok (le_enc w (count mod pow256 w))
        | None => Ok (le_enc w (count mod pow256 w))
        end
    | AText n z, VB bs => Ok (write_text n z bs)
    | ADur w scale, VN ms =>
        let q := ms / scale in if q <? pow256 w then Ok (le_enc w q) else Err
    | ACustom c, v => cenc c v
    | _, _ => Panic (* ill-typed value *)
    end.

  (* returns (value, count read if this is the count slot) *)
  Definition dec_atom (a : atom) (bs : list N) : res (value * option N) :=
    match a with
    | ANum w _ => Ok (VN (le_dec bs), None)
    | APad _ => Ok (VU, None)
    | AEnum vals => let n := le_dec bs in if existsb (N.eqb n) vals then Ok (VN n, None) else Err
    | AFlags w mask => Ok (VN (N.land (le_dec bs) mask), None)
    | ABool => Ok (VN (if le_dec bs =? 0 then 0 else 1), None)
    | AChar8 => Ok (VN (le_dec bs), None)
    | ACount w _ => Ok (VU, Some (le_dec bs))
    | AText _ _ => Ok (VB (strip_nul bs), None)
    | ADur w scale => Ok (VN (le_dec bs * scale), None)
    | ACustom c => match cdec c bs with Ok v => Ok (v, None) | Err => Err | Panic => Panic end
    end.

  Fixpoint enc_fixed (count : N) (fs : list (string * atom)) (vs : list value) : res (list N) :=
    match fs, vs with
    | [], [] => Ok []
    | (_, a) :: fs', v :: vs' =>
        match enc_atom count a v with
        | Ok b1 => match enc_fixed count fs' vs' with
                   | Ok b2 => Ok (b1 ++ b2) | Err => Err | Panic => Panic end
        | Err => Err
        | Panic => Panic
        end
    | _, _ => Panic
    end.

  (* binrw reads field by field; a short read is an (io) error *)
  Fixpoint dec_fixed (fs : list (string * atom)) (bs : list N) (cnt : option N)
    : res (list value * option N * list N) :=
    match fs with
    | [] => Ok ([], cnt, bs)
    | (_, APad n) :: fs' =>
        (* pad_before / pad_after on read is a seek: it cannot fail, even past the end *)
        match dec_fixed fs' (skipn n bs) cnt with
        | Ok (vs, cnt', r) => Ok (VU :: vs, cnt', r)
        | Err => Err | Panic => Panic
        end
    | (_, a) :: fs' =>
        match take (awidth a) bs with
        | None => Err
        | Some (h, t) =>
            match dec_atom a h with
            | Ok (v, c) =>
                match dec_fixed fs' t (match c with Some n => Some n | None => cnt end) with
                | Ok (vs, cnt', r) => Ok (v :: vs, cnt', r)
                | Err => Err | Panic => Panic
                end
            | Err => Err
            | Panic => Panic
            end
        end
    end.

  Fixpoint enc_rows (elt : list (string * atom)) (rows : list (list value)) : res (list N) :=
    match rows with
    | [] => Ok []
    | r :: rows' =>
        match enc_fixed 0 elt r with
        | Ok b1 => match enc_rows elt rows' with Ok b2 => Ok (b1 ++ b2) | Err => Err | Panic => Panic end
        | Err => Err | Panic => Panic
        end
    end.

  Fixpoint dec_rows (elt : list (string * atom)) (n : nat) (bs : list N) : res (list (list value) * list N) :=
    match n with
    | O => Ok ([], bs)
    | S k =>
        match dec_fixed elt bs None with
        | Ok (r, _, t) => match dec_rows elt k t with
                          | Ok (rows, t') => Ok (r :: rows, t') | Err => Err | Panic => Panic end
        | Err => Err | Panic => Panic
        end
    end.

  Fixpoint enc_words (ws : list N) : list N :=
    match ws with [] => [] | w :: t => le_enc 4 w ++ enc_words t end.
  Fixpoint dec_words (n : nat) (bs : list N) : res (list N * list N) :=
    match n with
    | O => Ok ([], bs)
    | S k => match take 4 bs with
             | None => Err
             | Some (h, t) => match dec_words k t with
                              | Ok (ws, t') => Ok (le_dec h :: ws, t') | Err => Err | Panic => Panic end
             end
    end.
  (* IndexSet::insert in reading order: later duplicates are dropped *)
  Fixpoint dedupe (seen ws : list N) : list N :=
    match ws with
    | [] => []
    | w :: t => if existsb (N.eqb w) seen then dedupe seen t else w :: dedupe (w :: seen) t
    end.

  Definition tail_count (tv : tvalue) : N :=
    match tv with
    | TVRows rows => N.of_nat (length rows)
    | TVWords ws => N.of_nat (length ws)
    | _ => 0
    end.

  Definition enc_tail (t : tail) (tv : tvalue) : res (list N) :=
    match t, tv with
    | TNone, TVNone => Ok []
    | TVec elt padm padk, TVRows rows =>
        match enc_rows elt rows with
        | Ok b => Ok (b ++ repeat 0 (Nat.modulo (length rows) padm * padk))
        | Err => Err | Panic => Panic
        end
    | TWords, TVWords ws => if forallb (fun w => w <? pow256 4) ws then Ok (enc_words ws) else Panic
    | TTextEof max align z, TVText bs => Ok (if z then write_aligned_z max align bs else write_aligned max align bs)
    | _, _ => Panic
    end.

  Definition dec_tail (t : tail) (cnt : option N) (bs : list N) : res (tvalue * list N) :=
    match t with
    | TNone => Ok (TVNone, bs)
    | TVec elt padm padk =>
        match cnt with
        | Some n => match dec_rows elt (N.to_nat n) bs with
                    (* pad_after on read is a seek: it cannot fail, even past the end *)
                    | Ok (rows, r) => Ok (TVRows rows, skipn (Nat.modulo (N.to_nat n) padm * padk) r)
                    | Err => Err | Panic => Panic end
        | None => Panic
        end
    | TWords =>
        match cnt with
        | Some n => match dec_words (N.to_nat n) bs with
                    | Ok (ws, r) => Ok (TVWords (dedupe [] ws), r) | Err => Err | Panic => Panic end
        | None => Panic
        end
    | TTextEof _ _ _ => Ok (TVText (strip_nul bs), [])
    end.

  Definition enc_struct (l : layout) (vs : list value) (tv : tvalue) : res (list N) :=
    match enc_fixed (tail_count tv) (fixed l) vs with
    | Ok b1 => match enc_tail (ltail l) tv with
               | Ok b2 => Ok (b1 ++ b2) | Err => Err | Panic => Panic end
    | Err => Err | Panic => Panic
    end.

  (* returns the values and the unread remainder of the frame (binrw does not require that the
     frame be exhausted) *)
  Definition dec_struct (l : layout) (bs : list N) : res (list value * tvalue * list N) :=
    match dec_fixed (fixed l) bs None with
    | Ok (vs, cnt, r) =>
        match dec_tail (ltail l) cnt r with
        | Ok (tv, r') => Ok (vs, tv, r') | Err => Err | Panic => Panic end
    | Err => Err | Panic => Panic
    end.
End Codec.
