(* Text/Codepage.v — executable model of insim_core::string::codepages::{to_lossy_bytes,
   to_lossy_string}. Strings are lists of Unicode scalar values, byte strings lists of bytes
   (both N). The code tables of encoding_rs enter as Section variables (an oracle):
     enc l c  = bytes of the single non-ASCII character c in the codepage of marker letter l
     dec l bs = lossy decoding of bs in the codepage of marker letter l
   The letter set, search order, default codepage and marker are regenerated from the source
   (Gen/TextTab.v).  No proofs here. *)
Require Import Coq.Strings.String.
Require Import Base.Bytes Gen.TextTab Text.Escape.
Local Open Scope N_scope.

Definition is_ascii (c : N) : bool := c <? 128.
Definition is_letter (b : N) : bool := existsb (N.eqb b) gen_codepage_letters.
Definition qmark : N := 63.

(* is_double_byte_lead (regenerated): is b the first byte of a two-byte character in the codepage of letter l? *)
Fixpoint sassoc {A} (k : string) (l : list (string * A)) : option A :=
  match l with [] => None | (k', x) :: r => if String.eqb k k' then Some x else sassoc k r end.
Fixpoint nassoc {A} (k : N) (l : list (N * A)) : option A :=
  match l with [] => None | (k', x) :: r => if k =? k' then Some x else nassoc k r end.
Definition lead (l b : N) : bool :=
  match nassoc l gen_codepage_tab with
  | Some nm => match sassoc nm gen_lead_ranges with
               | Some rs => existsb (fun r => (fst r <=? b) && (b <=? snd r)) rs
               | None => false
               end
  | None => false
  end.

Section CP.
  Variable enc : N -> N -> option (list N).
  Variable dec : N -> list N -> list N.

  (* try the other codepages in the fixed search order, skipping the current one *)
  Fixpoint search (cands : list N) (cur c : N) : option (N * list N) :=
    match cands with
    | [] => None
    | k :: t => if k =? cur then search t cur c
                else match enc k c with Some w => Some (k, w) | None => search t cur c end
    end.

  (* the encoder loop, with its state: the current codepage letter, and whether the previous
     character was the marker character. A marker that is already part of the text (ASCII caret
     followed by a codepage letter) switches the current codepage; ^8 switches to the default. *)
  Definition follow (l : N) : N := if l =? gen_propagate_letter then gen_default_codepage else l.
  Fixpoint enc_from (cur : N) (after : bool) (s : list N) : list N :=
    match s with
    | [] => []
    | c :: t =>
        if is_ascii c then
          c :: enc_from (if after && is_letter c then follow c else cur) (negb after && is_caret c) t
        else match enc cur c with
             | Some w => w ++ enc_from cur false t
             | None =>
                 match search gen_search_order cur c with
                 | Some (k, w) => caret :: k :: w ++ enc_from k false t
                 | None => qmark :: enc_from cur false t
                 end
             end
    end.
  Fixpoint state_after (cur : N) (after : bool) (s : list N) : N * bool :=
    match s with
    | [] => (cur, after)
    | c :: t =>
        if is_ascii c then state_after (if after && is_letter c then follow c else cur) (negb after && is_caret c) t
        else match enc cur c with
             | Some _ => state_after cur false t
             | None => match search gen_search_order cur c with
                       | Some (k, _) => state_after k false t
                       | None => state_after cur false t
                       end
             end
    end.

  Definition to_lossy_bytes (s : list N) : list N :=
    if forallb is_ascii s then s else enc_from gen_default_codepage false s.

  (* the decoder: a left-to-right scan for marker pairs (caret, codepage letter) in which an escaped
     caret (^^) and a double-byte character (lead byte + any second byte, possibly 0x5E) are taken as
     pairs; the bytes between two markers are decoded in the codepage of the first; ^8 is kept in the text *)
  Fixpoint dls (cur : N) (acc : list N) (bs : list N) : list N :=
    match bs with
    | [] => dec cur (rev acc)
    | b :: t =>
        match t with
        | l :: t' =>
            if is_caret b then
              if is_letter l
              then dec cur (rev acc) ++ (if l =? gen_propagate_letter then [caret; l] else []) ++ dls l [] t'
              else if is_caret l then dls cur (l :: b :: acc) t'
              else dls cur (b :: acc) t
            else if lead cur b then dls cur (l :: b :: acc) t'
            else dls cur (b :: acc) t
        | [] => dec cur (rev (b :: acc))
        end
    end.

  Definition to_lossy_string (bs : list N) : list N :=
    match bs with [] => [] | _ => dls gen_default_codepage [] bs end.
End CP.
