Require Import Base.Bytes Net.Frame Net.FrameProofs Net.Framed Net.FramedProofs Net.Concrete Gen.NetConsts Net.ConvProofs.
Require Import Props.C09.
Local Open Scope N_scope.
Check c09_rejects_iff :
  forall packet ver_of is_keepalive version verify pong (p : packet) v,
  deliver packet ver_of is_keepalive version verify pong p = [Ret (RBadVersion v)] <->
  verify = true /\ ver_of p = Some v /\ v <> version.
Check c09_delivers_otherwise :
  forall packet ver_of is_keepalive version verify pong (p : packet),
  (verify = false \/ ver_of p = None \/ ver_of p = Some version) ->
  In (Ret (RPacket p)) (deliver packet ver_of is_keepalive version verify pong p).
Check c09_version_is_9 : gen_version = 9.
Check c09_expected_frame_is_gate :
  forall packet parse ver_of is_keepalive version verify pong f (p : packet),
  parse (tl f) = Ok p ->
  expected_frame packet parse ver_of is_keepalive version verify pong f
  = deliver packet ver_of is_keepalive version verify pong p.
Check c09_caller_writes_do_not_matter :
  forall (packet : Type) (parse : bytes -> res packet) (ver_of : packet -> option N)
         (is_keepalive : packet -> bool) (version : N) (m : mode) (verify : bool) (pong : bytes),
  forall ops buf tr,
    map snd (filter (from_read packet) (conv packet parse ver_of is_keepalive version m verify pong ops buf tr))
    = session packet parse ver_of is_keepalive version m verify pong (reads ops) buf tr.
Check c09_model_state_is_the_struct : state_tied = true.
Print Assumptions c09_rejects_iff.
Print Assumptions c09_delivers_otherwise.
Print Assumptions c09_version_is_9.
Print Assumptions c09_expected_frame_is_gate.
Print Assumptions c09_caller_writes_do_not_matter.
Print Assumptions c09_model_state_is_the_struct.
