(* Core/TrackProofs.v — coherence of the seven track tables regenerated from track.rs.
   Finite facts (one per configuration, 154 of them) by vm_compute; the uniqueness statement
   quantifies over all byte strings. *)
Require Import Coq.Strings.String.
Require Import Base.Bytes Core.Vehicle Wire.Layout Wire.Customs Wire.CustomProofs Gen.TrackTab.
Local Open Scope N_scope.

Definition track_ids : list N := map fst track_write_tab.
Definition pad6 (bs : list N) : list N := bs ++ repeat 0 (6 - length bs).
Definition code_of (i : N) : list N := match assoc i track_code_tab with Some c => c | None => [] end.
Definition memb (i : N) (l : list N) : bool := existsb (N.eqb i) l.
Definition last_is (c : list N) (xs : list N) : bool := match rev c with b :: _ => memb b xs | [] => false end.

(* wire form = short code NUL-padded to 6, and decoding it returns the configuration *)
Definition entry_ok (i : N) : bool :=
  match track_write i with
  | Ok bs => list_eqb bs (pad6 (code_of i)) && Nat.leb (length (code_of i)) 6 && track_rt_ok i
             && negb (memb 0 (code_of i))
  | _ => false
  end.
Lemma all_entries_ok : forallb entry_ok track_ids = true. Proof. vm_compute. reflexivity. Qed.
Lemma ids_complete : track_ids = map fst track_code_tab /\ N.of_nat (length track_ids) = track_count.
Proof. vm_compute. auto. Qed.

(* every read arm is the wire form of its configuration *)
Definition arm_ok (e : list N * N) : bool :=
  match track_write (snd e) with Ok bs => list_eqb bs (fst e) | _ => false end.
Lemma all_arms_ok : forallb arm_ok track_read_arms = true. Proof. vm_compute. reflexivity. Qed.

Lemma track_find_some bs arms i : track_find bs arms = Some i -> In (bs, i) arms.
Proof.
  induction arms as [|[p j] arms IH]; cbn [track_find]; [discriminate|].
  destruct (list_eqb p bs) eqn:E.
  - intros [= ->]. apply list_eqb_eq in E. subst p. left. reflexivity.
  - intros H. right. apply IH. exact H.
Qed.

(* no other 6-byte (or any other) value decodes to a configuration: decode bs = i -> bs = encode i *)
Theorem track_decode_unique bs i : track_read bs = Ok i -> track_write i = Ok bs.
Proof.
  unfold track_read. destruct (track_find bs track_read_arms) as [j|] eqn:E; [|discriminate].
  intros [= ->]. apply track_find_some in E. pose proof all_arms_ok as H. rewrite forallb_forall in H.
  specialize (H _ E). unfold arm_ok in H. cbn [fst snd] in H.
  destruct (track_write i) as [b| |]; try discriminate. apply list_eqb_eq in H. congruence.
Qed.

Theorem track_encode_decode i : In i track_ids ->
  exists bs, track_write i = Ok bs /\ bs = pad6 (code_of i) /\ length bs = 6%nat /\ track_read bs = Ok i.
Proof.
  intros Hin. pose proof all_entries_ok as H. rewrite forallb_forall in H. specialize (H _ Hin).
  unfold entry_ok in H. destruct (track_write i) as [bs| |] eqn:E; try discriminate.
  apply andb_prop in H as [H _]. apply andb_prop in H as [H Hrt]. apply andb_prop in H as [Hb Hl].
  apply list_eqb_eq in Hb. exists bs. split; [reflexivity|]. split; [exact Hb|].
  unfold track_rt_ok in Hrt. rewrite E in Hrt. apply andb_prop in Hrt as [Hlen Hr].
  apply Nat.eqb_eq in Hlen. split; [exact Hlen|].
  destruct (track_read bs) as [j| |]; try discriminate. apply N.eqb_eq in Hr. congruence.
Qed.

(* flags, distance, licence *)
Definition flags_ok (i : N) : bool :=
  Bool.eqb (memb i track_reverse_set) (last_is (code_of i) [82; 89]) &&   (* R, Y *)
  Bool.eqb (memb i track_open_set) (last_is (code_of i) [88; 89]) &&      (* X, Y *)
  implb (memb i track_open_set) (negb (match assoc i track_distance_tab with Some b => b | None => true end)).
Lemma all_flags_ok : forallb flags_ok track_ids = true. Proof. vm_compute. reflexivity. Qed.

Definition area (i : N) : list N := firstn 2 (code_of i).
Definition lic (i : N) : option N := assoc i track_license_tab.
Definition licence_ok (i : N) : bool :=
  forallb (fun j => implb (list_eqb (area i) (area j)) (match lic i, lic j with Some a, Some b => a =? b | _, _ => false end)) track_ids.
Lemma all_licence_ok : forallb licence_ok track_ids = true. Proof. vm_compute. reflexivity. Qed.

(* variant identifiers are the codes *)
Definition name_ok (i : N) : bool :=
  match assoc i track_names with Some nm => list_eqb (map to_upper nm) (code_of i) | None => false end.
Lemma all_names_ok : forallb name_ok track_ids = true. Proof. vm_compute. reflexivity. Qed.
