(* core group: vehicle, track, durations, race laps, game version *)
let show_vehicle v = match v with
  | Builtin i -> Printf.sprintf "B %d" (int_of_n i)
  | Mod id -> Printf.sprintf "M %d" (int_of_n id)
  | Unknown -> "U"

let handle (toks : Stdlib.String.t list) : Stdlib.String.t =
  match toks with
  | ["vread"; h] -> show_res show_vehicle (vehicle_read (bytes_of_hex h))
  | ["vcls"; h] -> (match vehicle_read (bytes_of_hex h) with Ok v -> Printf.sprintf "mod=%d builtin=%d" (if is_mod v then 1 else 0) (if is_builtin v then 1 else 0) | _ -> "E")
  | ["vspec"; h] -> show_res show_vehicle (spec_read (bytes_of_hex h))
  | ["vwrite"; "B"; i] -> show_res hex_of_bytes (vehicle_write (Builtin (n_of_int (int_of_string i))))
  | ["vwrite"; "M"; i] -> show_res hex_of_bytes (vehicle_write (Mod (n_of_int (int_of_string i))))
  | ["vwrite"; "U"] -> show_res hex_of_bytes (vehicle_write Unknown)
  | ["vdisplay"; i] -> (match vehicle_display (n_of_int (int_of_string i)) with Some b -> hex_of_bytes b | None -> "none")
  (* gv <codepoints|-> <numeric flags, one 0/1 per char|-> <f32 bits of the major run|none> <usize of the patch run|none>
     the std oracles (char::is_numeric, f32 / usize FromStr) are answered by the harness per case *)
  | ["gv"; s; flags; f; u] ->
      let cps = if s = "-" then [] else Stdlib.List.map (fun x -> int_of_string ("0x" ^ x)) (Stdlib.String.split_on_char ',' s) in
      let fl = if flags = "-" then [] else Stdlib.List.init (Stdlib.String.length flags) (fun i -> flags.[i] = '1') in
      let tab = Stdlib.List.combine cps fl in
      let is_numeric c = (try Stdlib.List.assoc (int_of_n c) tab with Not_found -> false) in
      let parse_f32 _ = if f = "none" then None else Some (n_of_int (int_of_string f)) in
      let parse_usize l = if l = [] || u = "none" then None else Some (n_of_int (int_of_string u)) in
      (match x_gv is_numeric parse_f32 parse_usize (Stdlib.List.map n_of_int cps) with
       | POk v -> Printf.sprintf "ok %d %d %s" (int_of_n v.v_major) (int_of_n v.v_minor) (match v.v_patch with Some p -> string_of_int (int_of_n p) | None -> "none")
       | PErr EMajor -> "EMajor" | PErr EMinor -> "EMinor" | PErr EPatch -> "EPatch")
  | ["vcmp"; m1; c1; p1; m2; c2; p2] ->
      let mk m c p = { v_major = n_of_int (int_of_string m); v_minor = n_of_int (int_of_string c); v_patch = (if p = "none" then None else Some (n_of_int (int_of_string p))) } in
      let a = mk m1 c1 p1 and b = mk m2 c2 p2 in
      (match x_vcmp a b with Eq -> "Eq" | Lt -> "Lt" | Gt -> "Gt") ^ (if x_veq a b then " eq" else " ne")
  | _ -> "?bad-op"

let () = main handle
