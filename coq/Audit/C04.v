Require Import Coq.Strings.String Net.Concrete.
Require Import Props.C04.
Require Import Base.Bytes Wire.Layout Wire.Customs Wire.LayoutProofs Wire.CustomProofs Wire.Packet Wire.PacketProofs.
Require Import Gen.Packets Net.Frame Net.FrameProofs.
Local Open Scope N_scope.
Check c04_never_panics : forall m buf, frame_decode m buf <> DPanic.
Check c04_outcomes : forall m buf,
  match frame_decode m buf with
  | NeedMore => (length buf < min_len)%nat \/ (length buf < announced m buf)%nat
  | FrameErr => (min_len <= length buf)%nat /\
                ((announced m buf < min_len)%nat \/ (max_length m < announced m buf)%nat)
  | Got _ rest | Bad rest =>
      let n := announced m buf in
      (min_len <= n)%nat /\ (n <= max_length m)%nat /\ (n <= length buf)%nat /\ rest = skipn n buf
  | DPanic => False
  end.
Check c04_reads_only_the_frame : forall m f tail1 tail2, wf_frame m f ->
  match frame_decode m (f ++ tail1), frame_decode m (f ++ tail2) with
  | Got p1 r1, Got p2 r2 => p1 = p2 /\ r1 = tail1 /\ r2 = tail2
  | Bad r1, Bad r2 => r1 = tail1 /\ r2 = tail2
  | DPanic, DPanic => True
  | _, _ => False
  end.
Check c04_packet_layer_total : forall body, parse body <> Panic.
Check c04_removed_prefix_is_a_frame : forall m buf,
  match frame_decode m buf with
  | Got _ _ | Bad _ => wf_frame m (firstn (announced m buf) buf)
  | _ => True
  end.
Check c04_codec_is_stateless_like_the_model : state_tied = true.
Print Assumptions c04_never_panics.
Print Assumptions c04_outcomes.
Print Assumptions c04_reads_only_the_frame.
Print Assumptions c04_packet_layer_total.
Print Assumptions c04_removed_prefix_is_a_frame.
Print Assumptions c04_codec_is_stateless_like_the_model.
