(* Net/AdaptorSession.v — a Framed connection reading through a buffering adaptor (UDP datagrams,
   WebSocket binary messages): whatever the sizes of the slices the connection offers and however
   the frames are distributed over datagrams / messages, the session is the TCP session of the
   concatenated payload. Composition of Adaptor.serve_stream with FramedProofs.session_frames.
   Axiom-free. *)
Require Import Base.Bytes Net.Frame Net.FrameProofs Net.Framed Net.FramedProofs Net.Adaptor.
Local Open Scope N_scope.

Lemma chunk_ok_ev_ok es : Forall chunk_ok es -> Forall ev_ok es.
Proof.
  induction 1 as [|e es He _ IH]; constructor; [|exact IH].
  destruct e as [[|b bs]| | |]; try contradiction. exact I.
Qed.

Section Over.
  Variable packet : Type.
  Variable parse : bytes -> res packet.
  Variable ver_of : packet -> option N.
  Variable is_keepalive : packet -> bool.
  Variable version : N.
  Variable m : mode.
  Variable verify : bool.
  Variable pong : bytes.
  Hypothesis parse_total : forall b, parse b <> Panic.

  Notation session := (session packet parse ver_of is_keepalive version m verify pong).
  Notation expected_frame := (expected_frame packet parse ver_of is_keepalive version verify pong).

  (* the adaptor's chunk sequence for ANY slice sizes, then end of stream *)
  Theorem adaptor_session eof sizes items es buf' items' fs fuel :
    no_end items = true -> (eof = true -> no_empty items = true) ->
    serve eof sizes [] items = (es, buf', items') -> buf' = [] -> payload items' = [] ->
    payload items = concat fs -> Forall (wf_frame m) fs ->
    (length fs + length es < fuel)%nat ->
    filter (keep packet) (session fuel [] (es ++ [Eof]))
      = concat (map expected_frame fs) ++ [Ret RDisconnected]
    /\ filter (is_transient packet) (session fuel [] (es ++ [Eof])) = [].
  Proof.
    intros Hn He Hs -> Hp' Hpay Hwf Hfuel.
    pose proof (serve_stream eof sizes [] items Hn He) as H. rewrite Hs in H. destruct H as [Hc Hd].
    cbn [app] in Hd. rewrite Hp', app_nil_r in Hd.
    assert (Hev : Forall ev_ok es) by (apply chunk_ok_ev_ok; exact Hc).
    destruct (session_frames packet parse ver_of is_keepalive version m verify pong parse_total
                fuel fs es [] Hwf Hev) as [H1 H2].
    - cbn [app]. rewrite <- Hd. exact Hpay.
    - exact Hfuel.
    - split; [exact H1|]. rewrite H2.
      clear -Hc. induction Hc as [|e es He _ IH]; [reflexivity|].
      destruct e as [[|b bs]| | |]; try contradiction. exact IH.
  Qed.

  (* UDP: every datagram is a concatenation of complete frames and fits the scratch array;
     any slice sizes that drain the adaptor *)
  Theorem udp_session scratch (dgs : list (list bytes)) sizes fuel :
    Forall (fun fs => fs <> [] /\ Forall (wf_frame m) fs) dgs ->
    Forall (fun fs => (length (concat fs) <= scratch)%nat) dgs ->
    let items := udp_items scratch (map (@concat N) dgs) in
    (weight items <= length sizes)%nat ->
    let es := fst (fst (serve true sizes [] items)) in
    (length (concat dgs) + length es < fuel)%nat ->
    filter (keep packet) (session fuel [] (es ++ [Eof]))
      = concat (map expected_frame (concat dgs)) ++ [Ret RDisconnected].
  Proof.
    intros Hdg Hfit items Hlen es Hfuel.
    assert (Hitems : items = map IBytes (map (@concat N) dgs)).
    { apply udp_items_fit. rewrite Forall_map. exact Hfit. }
    assert (Hne : Forall (fun d : list N => d <> []) (map (@concat N) dgs)).
    { rewrite Forall_map. eapply Forall_impl; [|exact Hdg]. intros fs [Hfs Hwf] E.
      destruct fs as [|f fs']; [congruence|]. inversion Hwf as [|? ? Hf _]; subst.
      cbn [concat] in E. apply app_eq_nil in E as [E _]. destruct Hf as [Hl _]. subst f. cbn in Hl. unfold min_len in Hl. lia. }
    assert (Hn : no_end items = true) by (rewrite Hitems; apply no_end_bytes).
    assert (He : true = true -> no_empty items = true) by (intros _; rewrite Hitems; apply no_empty_bytes; exact Hne).
    pose proof (serve_drains true sizes [] items Hn He) as Hd. cbn [length Nat.add] in Hd. specialize (Hd Hlen).
    subst es. destruct (serve true sizes [] items) as [[es b'] it'] eqn:Es. destruct Hd as [Hb Hp]. cbn [fst] in *.
    eapply proj1. eapply (adaptor_session true sizes items es b' it' (concat dgs) fuel Hn He Es Hb Hp).
    - rewrite Hitems, payload_bytes. clear. induction dgs as [|fs t IH]; [reflexivity|].
      cbn [map concat]. rewrite concat_app, IH. reflexivity.
    - apply Forall_concat. eapply Forall_impl; [|exact Hdg]. intros fs [_ H]; exact H.
    - exact Hfuel.
  Qed.

  (* WebSocket: binary messages carry any partition of the stream (frames split across messages,
     several frames per message, messages larger than any buffer), other messages are interleaved *)
  Theorem ws_session items sizes fs fuel :
    no_end items = true -> payload items = concat fs -> Forall (wf_frame m) fs ->
    (weight items <= length sizes)%nat ->
    let es := fst (fst (serve false sizes [] items)) in
    (length fs + length es < fuel)%nat ->
    filter (keep packet) (session fuel [] (es ++ [Eof]))
      = concat (map expected_frame fs) ++ [Ret RDisconnected].
  Proof.
    intros Hn Hpay Hwf Hlen es Hfuel.
    assert (He : false = true -> no_empty items = true) by discriminate.
    pose proof (serve_drains false sizes [] items Hn He) as Hd. cbn [length Nat.add] in Hd. specialize (Hd Hlen).
    subst es. destruct (serve false sizes [] items) as [[es b'] it'] eqn:Es. destruct Hd as [Hb Hp]. cbn [fst] in *.
    eapply proj1. eapply (adaptor_session false sizes items es b' it' fs fuel Hn He Es Hb Hp Hpay Hwf Hfuel).
  Qed.
End Over.

(* skipped (non-binary) messages carry no payload *)
Definition is_skip (i : item) : bool := match i with ISkip => true | _ => false end.
Lemma payload_without_skips items : payload (filter (fun i => negb (is_skip i)) items) = payload items.
Proof.
  induction items as [|i t IH]; [reflexivity|]. destruct i as [d| |]; cbn [filter is_skip negb payload];
    [rewrite IH; reflexivity | exact IH | reflexivity].
Qed.
Lemma no_end_without_skips items : no_end items = true -> no_end (filter (fun i => negb (is_skip i)) items) = true.
Proof.
  unfold no_end. induction items as [|i t IH]; intros H; [reflexivity|]. cbn [forallb filter] in *. apply andb_prop in H as [H1 H2].
  destruct i; cbn [is_skip negb forallb] in *; try discriminate; exact (IH H2).
Qed.

Section Equiv.
  Variable packet : Type.
  Variable parse : bytes -> res packet.
  Variable ver_of : packet -> option N.
  Variable is_keepalive : packet -> bool.
  Variable version : N.
  Variable m : mode.
  Variable verify : bool.
  Variable pong : bytes.
  Hypothesis parse_total : forall b, parse b <> Panic.
  Notation session := (session packet parse ver_of is_keepalive version m verify pong).

  (* the WebSocket session equals the TCP session of the same byte stream, however TCP segments it *)
  Theorem ws_equals_tcp items sizes fs fuel tr fuel' :
    no_end items = true -> payload items = concat fs -> Forall (wf_frame m) fs ->
    (weight items <= length sizes)%nat ->
    let es := fst (fst (serve false sizes [] items)) in
    (length fs + length es < fuel)%nat ->
    Forall ev_ok tr -> Forall is_data tr -> data_of tr = concat fs -> (length fs + length tr < fuel')%nat ->
    filter (keep packet) (session fuel [] (es ++ [Eof])) = filter (keep packet) (session fuel' [] (tr ++ [Eof])).
  Proof.
    intros Hn Hpay Hwf Hlen es Hfuel Htr _ Hdata Hfuel'.
    pose proof (ws_session packet parse ver_of is_keepalive version m verify pong parse_total items sizes fs fuel Hn Hpay Hwf Hlen Hfuel) as H1.
    destruct (session_frames packet parse ver_of is_keepalive version m verify pong parse_total fuel' fs tr [] Hwf Htr Hdata Hfuel') as [H2 _].
    fold es in H1. rewrite H1, H2. reflexivity.
  Qed.

  (* interleaved non-binary messages change nothing *)
  Theorem ws_noise_irrelevant items sizes sizes' fs fuel fuel' :
    no_end items = true -> payload items = concat fs -> Forall (wf_frame m) fs ->
    let clean := filter (fun i => negb (is_skip i)) items in
    (weight items <= length sizes)%nat -> (weight clean <= length sizes')%nat ->
    let es := fst (fst (serve false sizes [] items)) in
    let es' := fst (fst (serve false sizes' [] clean)) in
    (length fs + length es < fuel)%nat -> (length fs + length es' < fuel')%nat ->
    filter (keep packet) (session fuel [] (es ++ [Eof])) = filter (keep packet) (session fuel' [] (es' ++ [Eof])).
  Proof.
    intros Hn Hpay Hwf clean Hl Hl' es es' Hf Hf'.
    pose proof (ws_session packet parse ver_of is_keepalive version m verify pong parse_total items sizes fs fuel Hn Hpay Hwf Hl Hf) as H1.
    assert (Hpay' : payload clean = concat fs) by (unfold clean; rewrite payload_without_skips; exact Hpay).
    pose proof (ws_session packet parse ver_of is_keepalive version m verify pong parse_total clean sizes' fs fuel'
                  (no_end_without_skips items Hn) Hpay' Hwf Hl' Hf') as H2.
    fold es in H1. fold es' in H2. rewrite H1, H2. reflexivity.
  Qed.

  (* closure: the adaptor reports end of stream, and a read that finds no complete frame returns Disconnected *)
  Theorem closure_disconnects buf t tr c :
    aread false [] (IEnd :: t) c = Some (Eof, [], t) /\
    (try_decode packet parse ver_of is_keepalive version m verify pong buf = None ->
     read packet parse ver_of is_keepalive version m verify pong buf (Eof :: tr) = ([Ret RDisconnected], buf, tr)).
  Proof.
    split; [reflexivity|]. intros H. rewrite read_unfold, H. reflexivity.
  Qed.
End Equiv.
