(* Core/ExprDefs.v — the expression language of the arms the translator reads from hand-written conversions
   (one variable, integer literals, + - * /).  Subtraction is truncated: the arms translated so far subtract only
   below their own range guard. *)
Require Import Base.Bytes.
Local Open Scope N_scope.

Inductive expr := EVar | EConst (k : N) | EAdd (a b : expr) | ESub (a b : expr) | EMul (a b : expr) | EDiv (a b : expr).

Fixpoint eval (e : expr) (x : N) : N :=
  match e with
  | EVar => x | EConst k => k
  | EAdd a b => eval a x + eval b x | ESub a b => eval a x - eval b x
  | EMul a b => eval a x * eval b x | EDiv a b => eval a x / eval b x
  end.

(* Rust `match x { lo..=hi => .., }`: the first arm whose range holds x *)
Fixpoint pick {A} (arms : list (N * N * A)) (x : N) : option A :=
  match arms with
  | [] => None
  | (lo, hi, a) :: t => if (lo <=? x) && (x <=? hi) then Some a else pick t x
  end.
