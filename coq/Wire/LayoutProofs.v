(* Wire/LayoutProofs.v — generic theorems about the layout DSL, each proved once by induction
   over the layout and used for all generated packet layouts:
     T6  totality      decoding never panics, whatever the bytes
     T1  length        the length of a successful encoding is determined by the layout and the
                       element / text counts
     T2  round trip    decode (encode v ++ rest) = (v, rest) for in-domain values
   The customs are abstract here (Section hypotheses about cenc / cdec, discharged in
   Wire/CustomProofs.v).  Axiom-free. *)
Require Import Coq.Strings.String.
Require Import Base.Bytes Wire.Layout.
Local Open Scope N_scope.

(* ---------------- text helpers ---------------- *)
Lemma strip_nul_nonul bs : forallb (fun b => negb (b =? 0)) bs = true -> strip_nul bs = bs.
Proof.
  induction bs as [|b t IH]; cbn [strip_nul forallb]; [reflexivity|].
  intros H. apply andb_prop in H as [Hb Ht]. apply negb_true_iff in Hb. rewrite Hb, (IH Ht). reflexivity.
Qed.

Lemma strip_nul_app_zeros bs k : forallb (fun b => negb (b =? 0)) bs = true ->
  strip_nul (bs ++ repeat 0 k) = bs.
Proof.
  induction bs as [|b t IH]; cbn [strip_nul forallb app].
  - intros _. destruct k; reflexivity.
  - intros H. apply andb_prop in H as [Hb Ht]. apply negb_true_iff in Hb. rewrite Hb, (IH Ht). reflexivity.
Qed.

Lemma write_fixed_len n bs : length (write_fixed n bs) = n.
Proof.
  unfold write_fixed. rewrite app_length, repeat_length, firstn_length. lia.
Qed.

Lemma write_fixed_short n bs : (length bs <= n)%nat -> write_fixed n bs = bs ++ repeat 0 (n - length bs).
Proof. intros H. unfold write_fixed. rewrite firstn_all2 by exact H. reflexivity. Qed.

Lemma round_up_ge len align : (0 < align)%nat -> (len <= round_up len align)%nat.
Proof.
  intros Ha. unfold round_up. destruct align as [|a]; [lia|].
  pose proof (Nat.div_mod (len + (S a - 1)) (S a) ltac:(lia)) as Hd.
  pose proof (Nat.mod_upper_bound (len + (S a - 1)) (S a) ltac:(lia)) as Hm. nia.
Qed.

Lemma round_up_mod len align : (0 < align)%nat -> Nat.modulo (round_up len align) align = 0%nat.
Proof.
  intros Ha. unfold round_up. destruct align as [|a]; [lia|]. apply Nat.mod_mul. lia.
Qed.

Lemma round_up_le_mult len align max : (0 < align)%nat -> Nat.modulo max align = 0%nat ->
  (len <= max)%nat -> (round_up len align <= max)%nat.
Proof.
  intros Ha Hm Hl. unfold round_up. destruct align as [|a]; [lia|].
  apply Nat.mod_divides in Hm as [q Hq]; [|lia]. subst max.
  assert (Nat.div (len + (S a - 1)) (S a) < S q)%nat.
  { apply Nat.div_lt_upper_bound; [lia|]. nia. }
  nia.
Qed.

Lemma write_aligned_len max align bs : (0 < align)%nat ->
  length (write_aligned max align bs) = Nat.min max (round_up (length bs) align).
Proof.
  intros Ha. unfold write_aligned. rewrite firstn_length, app_length, repeat_length.
  pose proof (round_up_ge (length bs) align Ha). lia.
Qed.

Lemma write_aligned_strip max align bs : (0 < align)%nat -> Nat.modulo max align = 0%nat ->
  (length bs <= max)%nat -> forallb (fun b => negb (b =? 0)) bs = true ->
  strip_nul (write_aligned max align bs) = bs.
Proof.
  intros Ha Hm Hl Hnz. unfold write_aligned.
  rewrite firstn_all2.
  - apply strip_nul_app_zeros. exact Hnz.
  - rewrite app_length, repeat_length. pose proof (round_up_ge (length bs) align Ha).
    pose proof (round_up_le_mult _ _ _ Ha Hm Hl). lia.
Qed.

(* ---- the NUL-terminated writers ---- *)
Lemma write_text_len n z bs : length (write_text n z bs) = n.
Proof.
  unfold write_text. destruct z; [|apply write_fixed_len]. destruct n as [|k]; [reflexivity|].
  rewrite app_length, write_fixed_len. cbn [length]. lia.
Qed.
(* in-domain text for the terminated writer is one byte shorter than the field *)
Definition text_room (n : nat) (z : bool) : nat := if z then Nat.pred n else n.
Lemma write_text_short n z bs : (length bs <= text_room n z)%nat -> (z = true -> 0 < n)%nat ->
  write_text n z bs = bs ++ repeat 0 (n - length bs).
Proof.
  unfold text_room. intros Hl Hz. unfold write_text. destruct z; [|apply write_fixed_short; exact Hl].
  specialize (Hz eq_refl). destruct n as [|k]; [lia|]. cbn [Nat.pred] in Hl.
  rewrite write_fixed_short by exact Hl. rewrite <- app_assoc. f_equal.
  replace (S k - length bs)%nat with ((k - length bs) + 1)%nat by lia. rewrite repeat_app. reflexivity.
Qed.
Lemma last_app_one {A} (l : list A) x d : last (l ++ [x]) d = x.
Proof. induction l as [|a l IH]; [reflexivity|]. cbn [app]. destruct (l ++ [x]) eqn:E; [destruct l; discriminate|]. exact IH. Qed.
Lemma last_repeat0 k : last (repeat 0 k) 0 = 0.
Proof. induction k as [|k IH]; [reflexivity|]. cbn [repeat]. destruct (repeat 0 k); [reflexivity|exact IH]. Qed.
Lemma last_app_repeat0 (l : list N) k : l <> [] -> last l 0 = 0 -> last (l ++ repeat 0 k) 0 = 0.
Proof.
  intros Hne Hl. induction k as [|k IH]; [rewrite app_nil_r; exact Hl|].
  replace (S k) with (k + 1)%nat by lia. rewrite repeat_app, app_assoc. cbn [repeat]. apply last_app_one.
Qed.
(* the terminated fixed writer always ends in NUL *)
Lemma write_text_z_terminated n bs : (0 < n)%nat -> last (write_text n true bs) 1 = 0.
Proof. intros Hn. unfold write_text. destruct n as [|k]; [lia|]. apply last_app_one. Qed.
Lemma write_aligned_z_len max align bs : (0 < align)%nat -> (0 < max)%nat ->
  length (write_aligned_z max align bs) = Nat.min max (round_up (S (Nat.min (length bs) (Nat.pred max))) align).
Proof.
  intros Ha Hm. unfold write_aligned_z. set (r := firstn (Nat.pred max) bs ++ [0]).
  assert (Hr : length r = S (Nat.min (length bs) (Nat.pred max))).
  { unfold r. rewrite app_length, firstn_length. cbn [length]. lia. }
  rewrite app_length, repeat_length, Hr.
  pose proof (round_up_ge (S (Nat.min (length bs) (Nat.pred max))) align Ha). lia.
Qed.
(* ... and so does the terminated aligned writer *)
Lemma write_aligned_z_terminated max align bs : last (write_aligned_z max align bs) 1 = 0.
Proof.
  unfold write_aligned_z. set (r := firstn (Nat.pred max) bs ++ [0]).
  assert (Hne : r <> []) by (unfold r; destruct (firstn (Nat.pred max) bs); discriminate).
  assert (Hl : last r 0 = 0) by (unfold r; apply last_app_one).
  assert (H1 : forall l : list N, l <> [] -> last l 1 = last l 0).
  { intros l. induction l as [|a l IH]; [congruence|]. intros _. destruct l; [reflexivity|]. cbn [last]. cbn [last] in IH. apply IH. discriminate. }
  rewrite H1; [apply last_app_repeat0; assumption|]. destruct r; [congruence|discriminate].
Qed.
Lemma strip_nul_app_nul bs t : forallb (fun b => negb (b =? 0)) bs = true -> strip_nul (bs ++ 0 :: t) = bs.
Proof.
  induction bs as [|b bs IH]; cbn [forallb app strip_nul]; [reflexivity|]. intros H. apply andb_prop in H as [Hb H].
  destruct (b =? 0); [discriminate|]. rewrite IH by exact H. reflexivity.
Qed.
Lemma write_aligned_z_strip max align bs : (length bs <= Nat.pred max)%nat ->
  forallb (fun b => negb (b =? 0)) bs = true -> strip_nul (write_aligned_z max align bs) = bs.
Proof.
  intros Hl Hnz. unfold write_aligned_z. rewrite firstn_all2 by exact Hl. rewrite <- app_assoc. cbn [app].
  apply strip_nul_app_nul. exact Hnz.
Qed.

Lemma pow256_pos w : 0 < pow256 w.
Proof. unfold pow256. assert (256 ^ N.of_nat w <> 0) by (apply N.pow_nonzero; lia). lia. Qed.

Lemma le_dec_land_mask w n mask : n < pow256 w -> N.land n mask = n ->
  N.land (le_dec (le_enc w n)) mask = n.
Proof. intros H1 H2. unfold pow256 in H1. rewrite le_dec_enc by exact H1. exact H2. Qed.

Section Generic.
  Variable cwidth : custom -> nat.
  Variable cenc : custom -> value -> res (list N).
  Variable cdec : custom -> list N -> res value.
  Variable cindom : custom -> value -> bool.

  Hypothesis cdec_total : forall c bs, cdec c bs <> Panic.
  Hypothesis cenc_len : forall c v b, cenc c v = Ok b -> length b = cwidth c.
  Hypothesis c_roundtrip : forall c v b, cindom c v = true -> cenc c v = Ok b -> cdec c b = Ok v.

  Notation awidth := (awidth cwidth).
  Notation enc_atom := (enc_atom cenc).
  Notation dec_atom := (dec_atom cdec).
  Notation enc_fixed := (enc_fixed cenc).
  Notation dec_fixed := (dec_fixed cwidth cdec).
  Notation enc_rows := (enc_rows cenc).
  Notation dec_rows := (dec_rows cwidth cdec).
  Notation enc_tail := (enc_tail cenc).
  Notation dec_tail := (dec_tail cwidth cdec).
  Notation enc_struct := (enc_struct cenc).
  Notation dec_struct := (dec_struct cwidth cdec).

  Definition fixed_width (fs : list (string * atom)) : nat :=
    fold_right (fun f acc => (awidth (snd f) + acc)%nat) 0%nat fs.

  (* ================= T6: totality ================= *)
  Lemma dec_atom_total a bs : dec_atom a bs <> Panic.
  Proof.
    destruct a; cbn [Layout.dec_atom]; try discriminate.
    - destruct (existsb _ _); discriminate.
    - destruct (cdec c bs) eqn:E; try discriminate. exfalso. exact (cdec_total _ _ E).
  Qed.

  Lemma dec_fixed_total fs : forall bs c, dec_fixed fs bs c <> Panic.
  Proof.
    induction fs as [|[nm a] fs IH]; intros bs c; cbn [Layout.dec_fixed]; [discriminate|].
    destruct a;
      try (destruct (take _ bs) as [[h t]|]; [|discriminate];
           match goal with |- context [Layout.dec_atom cdec ?a h] =>
             pose proof (dec_atom_total a h) as Hd; destruct (Layout.dec_atom cdec a h) as [[v cc]| |]; [|discriminate|congruence]
           end;
           match goal with |- context [Layout.dec_fixed cwidth cdec fs t ?c'] =>
             pose proof (IH t c') as Hr; destruct (Layout.dec_fixed cwidth cdec fs t c') as [[[vs cn] r]| |]; [discriminate|discriminate|congruence]
           end).
    (* APad *)
    pose proof (IH (skipn n bs) c) as Hr.
    destruct (Layout.dec_fixed cwidth cdec fs (skipn n bs) c) as [[[vs cn] r]| |]; [discriminate|discriminate|congruence].
  Qed.

  Lemma dec_rows_total elt n : forall bs, dec_rows elt n bs <> Panic.
  Proof.
    induction n as [|n IH]; intros bs; cbn [Layout.dec_rows]; [discriminate|].
    pose proof (dec_fixed_total elt bs None) as Hd.
    destruct (Layout.dec_fixed cwidth cdec elt bs None) as [[[r c] t]| |]; [|discriminate|congruence].
    pose proof (IH t) as Hr. destruct (Layout.dec_rows cwidth cdec elt n t) as [[rows t']| |]; [discriminate|discriminate|congruence].
  Qed.

  Lemma dec_words_total n : forall bs, dec_words n bs <> Panic.
  Proof.
    induction n as [|n IH]; intros bs; cbn [dec_words]; [discriminate|].
    destruct (take 4 bs) as [[h t]|]; [|discriminate].
    pose proof (IH t) as Hr. destruct (dec_words n t) as [[ws t']| |]; [discriminate|discriminate|congruence].
  Qed.

  Definition is_count (a : atom) : bool := match a with ACount _ _ => true | _ => false end.
  Definition has_count (fs : list (string * atom)) : bool := existsb (fun f => is_count (snd f)) fs.
  Definition panic_free (l : layout) : bool :=
    match ltail l with TVec _ _ _ | TWords => has_count (fixed l) | _ => true end.

  Lemma dec_fixed_count fs : forall bs c vs c' r,
    dec_fixed fs bs c = Ok (vs, c', r) -> (has_count fs = true \/ c <> None) -> c' <> None.
  Proof.
    induction fs as [|[nm a] fs IH]; intros bs c vs c' r; cbn [Layout.dec_fixed has_count existsb snd].
    - intros [= <- <- <-] [H|H]; [discriminate|exact H].
    - fold (has_count fs). intros Hd Hc.
      assert (forall (c1 : option N), (has_count fs = true \/ c1 <> None) ->
              forall t, Layout.dec_fixed cwidth cdec fs t c1 = Layout.dec_fixed cwidth cdec fs t c1) as _ by reflexivity.
      destruct a; cbn [is_count orb] in Hc;
        try (destruct (take _ bs) as [[h t]|]; [|discriminate];
             cbn [Layout.dec_atom] in Hd;
             repeat match type of Hd with
                    | context [if ?b then _ else _] => destruct b; try discriminate
                    | context [match cdec ?c ?h with _ => _ end] => destruct (cdec c h); try discriminate
                    end;
             match type of Hd with context [Layout.dec_fixed cwidth cdec fs t ?c1] =>
               destruct (Layout.dec_fixed cwidth cdec fs t c1) as [[[vs1 cn1] r1]| |] eqn:E; try discriminate;
               injection Hd as <- <- <-; eapply IH; [exact E|]
             end;
             try (destruct Hc as [Hc|Hc]; [left; exact Hc|right; exact Hc]);
             try (right; discriminate)).
      (* APad *)
      destruct (Layout.dec_fixed cwidth cdec fs (skipn n bs) c) as [[[vs1 cn1] r1]| |] eqn:E; try discriminate.
      injection Hd as <- <- <-. eapply IH; [exact E|]. destruct Hc as [Hc|Hc]; [left; exact Hc|right; exact Hc].
  Qed.

  Theorem dec_struct_total l bs : panic_free l = true -> dec_struct l bs <> Panic.
  Proof.
    intros Hpf. unfold Layout.dec_struct.
    pose proof (dec_fixed_total (fixed l) bs None) as Hd.
    destruct (Layout.dec_fixed cwidth cdec (fixed l) bs None) as [[[vs cnt] r]| |] eqn:E; [|discriminate|congruence].
    unfold Layout.dec_tail. unfold panic_free in Hpf.
    destruct (ltail l) as [|elt pm pk| |mx al]; try discriminate.
    - assert (cnt <> None) as Hc by (eapply dec_fixed_count; [exact E|left; exact Hpf]).
      destruct cnt as [n|]; [|congruence].
      pose proof (dec_rows_total elt (N.to_nat n) r) as Hr.
      destruct (Layout.dec_rows cwidth cdec elt (N.to_nat n) r) as [[rows t]| |]; [discriminate|discriminate|congruence].
    - assert (cnt <> None) as Hc by (eapply dec_fixed_count; [exact E|left; exact Hpf]).
      destruct cnt as [n|]; [|congruence].
      pose proof (dec_words_total (N.to_nat n) r) as Hr.
      destruct (dec_words (N.to_nat n) r) as [[ws t]| |]; [discriminate|discriminate|congruence].
  Qed.

  (* ================= T1: length ================= *)
  Lemma enc_atom_len cnt a v b : enc_atom cnt a v = Ok b -> length b = awidth a.
  Proof.
    destruct a; destruct v; cbn [Layout.enc_atom Layout.awidth]; try discriminate;
      try (intros H; eapply cenc_len; exact H).
    - destruct (negb _); [discriminate|]. destruct max as [m|]; [destruct (m <? n)|]; try discriminate;
        intros [= <-]; apply le_enc_len.
    - intros [= <-]. apply repeat_length.
    - destruct (existsb _ _); [|discriminate]. intros [= <-]. reflexivity.
    - destruct (n <? pow256 w); [|discriminate]. intros [= <-]. apply le_enc_len.
    - destruct (n <? 2); [|discriminate]. intros [= <-]. reflexivity.
    - intros [= <-]. reflexivity.
    - destruct cap as [c|]; [destruct (c <? cnt)|]; try discriminate; intros [= <-]; apply le_enc_len.
    - intros [= <-]. apply write_text_len.
    - destruct (_ <? _); [|discriminate]. intros [= <-]. apply le_enc_len.
  Qed.

  Lemma enc_fixed_len cnt fs : forall vs b, enc_fixed cnt fs vs = Ok b -> length b = fixed_width fs.
  Proof.
    induction fs as [|[nm a] fs IH]; intros vs b; destruct vs as [|v vs]; cbn [Layout.enc_fixed]; try discriminate.
    - intros [= <-]. reflexivity.
    - destruct (Layout.enc_atom cenc cnt a v) as [b1| |] eqn:E1; try discriminate.
      destruct (Layout.enc_fixed cenc cnt fs vs) as [b2| |] eqn:E2; try discriminate.
      intros [= <-]. rewrite app_length, (enc_atom_len _ _ _ _ E1), (IH _ _ E2). reflexivity.
  Qed.

  Lemma enc_rows_len elt rows : forall b, enc_rows elt rows = Ok b ->
    length b = (length rows * fixed_width elt)%nat.
  Proof.
    induction rows as [|r rows IH]; intros b; cbn [Layout.enc_rows].
    - intros [= <-]. reflexivity.
    - destruct (Layout.enc_fixed cenc 0 elt r) as [b1| |] eqn:E1; try discriminate.
      destruct (Layout.enc_rows cenc elt rows) as [b2| |] eqn:E2; try discriminate.
      intros [= <-]. rewrite app_length, (enc_fixed_len _ _ _ _ E1), (IH _ eq_refl). cbn [length]. lia.
  Qed.

  Lemma enc_words_len ws : length (enc_words ws) = (4 * length ws)%nat.
  Proof. induction ws as [|w t IH]; cbn [enc_words length]; [reflexivity|]. rewrite app_length, le_enc_len, IH. lia. Qed.

  (* symbolic size of the variable tail *)
  Definition tail_size (t : tail) (tv : tvalue) : nat :=
    match t, tv with
    | TVec elt pm pk, TVRows rows => (length rows * fixed_width elt + Nat.modulo (length rows) pm * pk)%nat
    | TWords, TVWords ws => (4 * length ws)%nat
    | TTextEof mx al z, TVText bs =>
        if z then Nat.min mx (round_up (S (Nat.min (length bs) (Nat.pred mx))) al) else Nat.min mx (round_up (length bs) al)
    | _, _ => 0%nat
    end.
  Definition tail_align_ok (t : tail) : bool :=
    match t with TTextEof mx al z => Nat.ltb 0 al && (negb z || Nat.ltb 0 mx) | _ => true end.

  Lemma enc_tail_len t tv b : tail_align_ok t = true -> enc_tail t tv = Ok b -> length b = tail_size t tv.
  Proof.
    intros Hal. destruct t as [|elt pm pk| |mx al z]; destruct tv; cbn [Layout.enc_tail tail_size]; try discriminate.
    - intros [= <-]. reflexivity.
    - destruct (Layout.enc_rows cenc elt rows) as [b1| |] eqn:E; try discriminate. intros [= <-].
      rewrite app_length, repeat_length, (enc_rows_len _ _ _ E). reflexivity.
    - destruct (forallb _ ws); [|discriminate]. intros [= <-]. apply enc_words_len.
    - intros [= <-]. cbn [tail_align_ok] in Hal. apply andb_prop in Hal as [Hal Hz]. apply Nat.ltb_lt in Hal. destruct z.
      + apply write_aligned_z_len; [exact Hal|]. cbn [negb orb] in Hz. apply Nat.ltb_lt. exact Hz.
      + apply write_aligned_len. exact Hal.
  Qed.

  Theorem enc_struct_len l vs tv b : tail_align_ok (ltail l) = true -> enc_struct l vs tv = Ok b ->
    length b = (fixed_width (fixed l) + tail_size (ltail l) tv)%nat.
  Proof.
    intros Hal. unfold Layout.enc_struct.
    destruct (Layout.enc_fixed cenc (tail_count tv) (fixed l) vs) as [b1| |] eqn:E1; try discriminate.
    destruct (Layout.enc_tail cenc (ltail l) tv) as [b2| |] eqn:E2; try discriminate.
    intros [= <-]. rewrite app_length, (enc_fixed_len _ _ _ _ E1), (enc_tail_len _ _ _ Hal E2). reflexivity.
  Qed.

  (* ================= T2: decode . encode = id on in-domain values ================= *)
  Definition nonul (bs : list N) : bool := forallb (fun b => negb (b =? 0)) bs.
  Definition bytesb (bs : list N) : bool := forallb (fun b => b <? 256) bs.

  Definition aindom (a : atom) (v : value) : bool :=
    match a, v with
    | ANum w mx, VN n => (n <? pow256 w) && match mx with Some m => n <=? m | None => true end
    | APad _, VU => true
    | AEnum vals, VN n => existsb (N.eqb n) vals && (n <? 256)
    | AFlags w mask, VN n => (n <? pow256 w) && (N.land n mask =? n)
    | ABool, VN n => n <? 2
    | AChar8, VN n => n <? 256
    | ACount _ _, VU => true
    | AText n z, VB bs => Nat.leb (length bs) (text_room n z) && nonul bs && (negb z || Nat.ltb 0 n)
    | ADur w scale, VN ms => (0 <? scale) && (ms mod scale =? 0) && (ms / scale <? pow256 w)
    | ACustom c, v => cindom c v
    | _, _ => false
    end.

  Lemma allbytes_byte b : b < 256 -> allbytes [b].
  Proof. intros H. constructor; [exact H|constructor]. Qed.

  (* the count slot holds [count] whenever it fits the slot *)
  Lemma dec_enc_atom cnt a v b :
    aindom a v = true -> enc_atom cnt a v = Ok b ->
    dec_atom a b = Ok (v, if is_count a then Some (cnt mod pow256 (awidth a)) else None).
  Proof.
    destruct a; destruct v; cbn [aindom Layout.enc_atom Layout.dec_atom is_count Layout.awidth]; try discriminate.
    - (* ANum *)
      intros Hd. apply andb_prop in Hd as [Hlt _]. rewrite Hlt. cbn [negb].
      apply N.ltb_lt in Hlt. unfold pow256 in Hlt.
      destruct max as [m|]; [destruct (m <? n); [discriminate|]|]; intros [= <-];
        rewrite le_dec_enc by exact Hlt; reflexivity.
    - intros _ [= <-]. reflexivity.
    - (* AEnum *)
      intros Hd. apply andb_prop in Hd as [He Hb]. rewrite He. intros [= <-].
      cbn [le_dec]. replace (n + 256 * 0) with n by lia. rewrite He. reflexivity.
    - (* AFlags *)
      intros Hd. apply andb_prop in Hd as [Hlt Hm]. rewrite Hlt. intros [= <-].
      apply N.ltb_lt in Hlt. apply N.eqb_eq in Hm. rewrite le_dec_land_mask by assumption. reflexivity.
    - (* ABool *)
      intros Hd. rewrite Hd. intros [= <-]. cbn [le_dec]. apply N.ltb_lt in Hd.
      replace (n + 256 * 0) with n by lia.
      destruct (N.eqb_spec n 0) as [->|Hn]; [reflexivity|]. replace n with 1 by lia. reflexivity.
    - (* AChar8 *)
      intros Hd [= <-]. apply N.ltb_lt in Hd. cbn [le_dec].
      rewrite N.mod_small by exact Hd. replace (n + 256 * 0) with n by lia. reflexivity.
    - (* ACount *)
      intros _. assert (cnt mod pow256 w < pow256 w) as Hlt by (apply N.mod_lt; pose proof (pow256_pos w); lia).
      unfold pow256 in Hlt.
      destruct cap as [c|]; [destruct (c <? cnt); [discriminate|]|]; intros [= <-];
        rewrite le_dec_enc by exact Hlt; reflexivity.
    - (* AText *)
      intros Hd [= <-]. apply andb_prop in Hd as [Hd Hpos]. apply andb_prop in Hd as [Hl Hz]. apply Nat.leb_le in Hl.
      rewrite write_text_short; [rewrite strip_nul_app_zeros by exact Hz; reflexivity|exact Hl|].
      intros ->. cbn in Hpos. apply Nat.ltb_lt. exact Hpos.
    - (* ADur *)
      intros Hd. apply andb_prop in Hd as [Hd Hq]. apply andb_prop in Hd as [Hs Hm]. rewrite Hq.
      intros [= <-]. apply N.ltb_lt in Hq, Hs. apply N.eqb_eq in Hm. unfold pow256 in Hq.
      rewrite le_dec_enc by exact Hq.
      pose proof (N.div_mod n scale ltac:(lia)) as Hdm. rewrite Hm in Hdm.
      replace (n / scale * scale) with n by lia. reflexivity.
    - (* ACustom, each value shape *)
      intros Hd He. rewrite (c_roundtrip _ _ _ Hd He). reflexivity.
    - intros Hd He. rewrite (c_roundtrip _ _ _ Hd He). reflexivity.
    - intros Hd He. rewrite (c_roundtrip _ _ _ Hd He). reflexivity.
    - intros Hd He. rewrite (c_roundtrip _ _ _ Hd He). reflexivity.
  Qed.

  Fixpoint findom (fs : list (string * atom)) (vs : list value) : bool :=
    match fs, vs with
    | [], [] => true
    | (_, a) :: fs', v :: vs' => aindom a v && findom fs' vs'
    | _, _ => false
    end.

  (* at most one count slot, and the count fits it *)
  Fixpoint count_slots (fs : list (string * atom)) : nat :=
    match fs with [] => 0 | (_, a) :: t => ((if is_count a then 1 else 0) + count_slots t)%nat end.
  Definition count_fits (fs : list (string * atom)) (cnt : N) : bool :=
    forallb (fun f => match snd f with
                      | ACount w cap => (cnt <? pow256 w) && match cap with Some c => cnt <=? c | None => true end
                      | _ => true end) fs.

  Lemma dec_enc_fixed cnt fs : forall vs b rest c0,
    findom fs vs = true -> count_fits fs cnt = true -> (count_slots fs <= 1)%nat ->
    enc_fixed cnt fs vs = Ok b ->
    dec_fixed fs (b ++ rest) c0 = Ok (vs, (if has_count fs then Some cnt else c0), rest).
  Proof.
    induction fs as [|[nm a] fs IH]; intros vs b rest c0; destruct vs as [|v vs];
      cbn [findom Layout.enc_fixed]; try discriminate.
    - intros _ _ _ [= <-]. reflexivity.
    - intros Hd Hfit Hslots. apply andb_prop in Hd as [Ha Hf].
      destruct (Layout.enc_atom cenc cnt a v) as [b1| |] eqn:E1; try discriminate.
      destruct (Layout.enc_fixed cenc cnt fs vs) as [b2| |] eqn:E2; try discriminate.
      intros [= <-]. rewrite <- app_assoc.
      cbn [count_fits forallb snd] in Hfit. apply andb_prop in Hfit as [Hfa Hfit].
      fold (count_fits fs cnt) in Hfit.
      cbn [count_slots] in Hslots.
      pose proof (dec_enc_atom cnt a v b1 Ha E1) as Hda.
      pose proof (enc_atom_len _ _ _ _ E1) as Hlen.
      assert (Hstep : Layout.dec_fixed cwidth cdec ((nm, a) :: fs) (b1 ++ b2 ++ rest) c0 =
              match Layout.dec_atom cdec a b1 with
              | Ok (v0, c) =>
                  match Layout.dec_fixed cwidth cdec fs (b2 ++ rest) (match c with Some n => Some n | None => c0 end) with
                  | Ok (vs0, cnt', r) => Ok (v0 :: vs0, cnt', r) | Err => Err | Panic => Panic end
              | Err => Err | Panic => Panic end).
      { cbn [Layout.dec_fixed]. destruct a; try (rewrite take_app by exact Hlen; reflexivity).
        (* APad: value is VU, bytes are skipped *)
        destruct v; cbn [aindom] in Ha; try discriminate. cbn [Layout.enc_atom] in E1. injection E1 as <-.
        rewrite skipn_app, repeat_length, Nat.sub_diag, skipn_all2 by (rewrite repeat_length; lia).
        cbn [skipn app Layout.dec_atom]. reflexivity. }
      rewrite Hstep, Hda.
      cbn [has_count existsb snd]. fold (has_count fs).
      destruct (is_count a) eqn:Hic.
      + (* this is the count slot: none later *)
        assert (count_slots fs = 0%nat) as H0 by lia.
        assert (has_count fs = false) as Hnc.
        { clear - H0. induction fs as [|[n0 a0] fs IH]; [reflexivity|]. cbn [count_slots] in H0. cbn [has_count existsb snd].
          destruct (is_count a0); [lia|]. apply IH. lia. }
        destruct a; try discriminate. cbn [Layout.awidth] in *. cbn [snd] in Hfa.
        apply andb_prop in Hfa as [Hlt _]. apply N.ltb_lt in Hlt. rewrite N.mod_small by exact Hlt.
        rewrite (IH vs b2 rest (Some cnt) Hf Hfit ltac:(lia) E2). rewrite Hnc. reflexivity.
      + rewrite (IH vs b2 rest c0 Hf Hfit ltac:(lia) E2). cbn [orb]. reflexivity.
  Qed.

  Lemma no_count_slots fs : has_count fs = false -> count_slots fs = 0%nat /\ forall c, count_fits fs c = true.
  Proof.
    induction fs as [|[nm a] fs IH]; [intros _; split; reflexivity|].
    cbn [has_count existsb snd count_slots count_fits forallb]. fold (has_count fs). fold count_fits.
    destruct (is_count a) eqn:E; [discriminate|]. cbn [orb]. intros H. destruct (IH H) as [H1 H2].
    split; [lia|]. intros c. destruct a; try discriminate; cbn; apply H2.
  Qed.

  Lemma dec_enc_rows elt : has_count elt = false -> forall rows b rest,
    forallb (findom elt) rows = true -> enc_rows elt rows = Ok b ->
    dec_rows elt (length rows) (b ++ rest) = Ok (rows, rest).
  Proof.
    intros Hnc. destruct (no_count_slots elt Hnc) as [Hs Hf].
    induction rows as [|r rows IH]; intros b rest; cbn [forallb Layout.enc_rows Layout.dec_rows length].
    - intros _ [= <-]. reflexivity.
    - intros Hd. apply andb_prop in Hd as [Hr Hrows].
      destruct (Layout.enc_fixed cenc 0 elt r) as [b1| |] eqn:E1; try discriminate.
      destruct (Layout.enc_rows cenc elt rows) as [b2| |] eqn:E2; try discriminate.
      intros [= <-]. rewrite <- app_assoc.
      rewrite (dec_enc_fixed 0 elt r b1 (b2 ++ rest) None Hr (Hf 0) ltac:(lia) E1).
      rewrite (IH b2 rest Hrows eq_refl). reflexivity.
  Qed.

  Lemma dec_enc_words ws : forall rest, forallb (fun w => w <? pow256 4) ws = true ->
    dec_words (length ws) (enc_words ws ++ rest) = Ok (ws, rest).
  Proof.
    induction ws as [|w t IH]; intros rest; cbn [forallb enc_words dec_words length]; [reflexivity|].
    intros H. apply andb_prop in H as [Hw Ht]. rewrite <- app_assoc, take_app by apply le_enc_len.
    rewrite (IH rest Ht). apply N.ltb_lt in Hw. unfold pow256 in Hw. rewrite le_dec_enc by exact Hw. reflexivity.
  Qed.

  Fixpoint nodupb (ws : list N) : bool :=
    match ws with [] => true | w :: t => negb (existsb (N.eqb w) t) && nodupb t end.

  Lemma dedupe_nodup ws : forall seen,
    nodupb ws = true -> forallb (fun w => negb (existsb (N.eqb w) seen)) ws = true -> dedupe seen ws = ws.
  Proof.
    induction ws as [|w t IH]; intros seen; cbn [nodupb forallb dedupe]; [reflexivity|].
    intros Hn Hs. apply andb_prop in Hn as [Hw Hn]. apply andb_prop in Hs as [Hws Hs].
    apply negb_true_iff in Hws. rewrite Hws. f_equal. apply IH; [exact Hn|].
    apply forallb_forall. intros x Hx. rewrite forallb_forall in Hs. specialize (Hs x Hx).
    cbn [existsb]. apply negb_true_iff. apply orb_false_iff. split; [|apply negb_true_iff; exact Hs].
    apply negb_true_iff in Hw. destruct (N.eqb_spec x w) as [->|]; [|reflexivity].
    exfalso. assert (existsb (N.eqb w) t = true) by (apply existsb_exists; exists w; split; [exact Hx|apply N.eqb_refl]).
    congruence.
  Qed.

  Definition tindom (t : tail) (tv : tvalue) : bool :=
    match t, tv with
    | TNone, TVNone => true
    | TVec elt pm pk, TVRows rows => negb (has_count elt) && forallb (findom elt) rows
    | TWords, TVWords ws => forallb (fun w => w <? pow256 4) ws && nodupb ws
    | TTextEof mx al z, TVText bs =>
        Nat.ltb 0 al && Nat.eqb (Nat.modulo mx al) 0 && Nat.leb (length bs) (text_room mx z) && nonul bs
    | _, _ => false
    end.

  (* the whole struct: for tails that end at the frame boundary (until-eof text) [rest] is empty *)
  Definition rest_ok (t : tail) (rest : list N) : Prop :=
    match t with TTextEof _ _ _ => rest = [] | _ => True end.

  Definition sindom (l : layout) (vs : list value) (tv : tvalue) : bool :=
    findom (fixed l) vs && tindom (ltail l) tv && count_fits (fixed l) (tail_count tv)
    && Nat.leb (count_slots (fixed l)) 1
    && match ltail l with TVec _ _ _ | TWords => has_count (fixed l) | _ => true end.

  Theorem dec_enc_struct l vs tv b rest :
    sindom l vs tv = true -> rest_ok (ltail l) rest -> enc_struct l vs tv = Ok b ->
    dec_struct l (b ++ rest) = Ok (vs, tv, rest).
  Proof.
    unfold sindom, Layout.enc_struct, Layout.dec_struct. intros Hd Hrest.
    apply andb_prop in Hd as [Hd Hhc]. apply andb_prop in Hd as [Hd Hslots].
    apply andb_prop in Hd as [Hd Hfit]. apply andb_prop in Hd as [Hf Ht]. apply Nat.leb_le in Hslots.
    destruct (Layout.enc_fixed cenc (tail_count tv) (fixed l) vs) as [b1| |] eqn:E1; try discriminate.
    destruct (Layout.enc_tail cenc (ltail l) tv) as [b2| |] eqn:E2; try discriminate.
    intros [= <-]. rewrite <- app_assoc.
    rewrite (dec_enc_fixed _ _ _ _ (b2 ++ rest) None Hf Hfit Hslots E1).
    destruct (ltail l) as [|elt pm pk| |mx al z]; destruct tv; cbn [tindom] in Ht; try discriminate;
      cbn [Layout.enc_tail] in E2; cbn [Layout.dec_tail tail_count].
    - injection E2 as <-. destruct (has_count (fixed l)); reflexivity.
    - rewrite Hhc. apply andb_prop in Ht as [Hnc Hrows]. apply negb_true_iff in Hnc.
      destruct (Layout.enc_rows cenc elt rows) as [b3| |] eqn:E3; try discriminate. injection E2 as <-.
      rewrite Nat2N.id, <- app_assoc, (dec_enc_rows elt Hnc rows b3 _ Hrows E3).
      rewrite skipn_app, repeat_length, Nat.sub_diag, skipn_all2 by (rewrite repeat_length; lia).
      reflexivity.
    - rewrite Hhc. apply andb_prop in Ht as [Hw Hnd]. rewrite Hw in E2. injection E2 as <-.
      rewrite Nat2N.id, (dec_enc_words ws rest Hw), (dedupe_nodup ws [] Hnd); [reflexivity|].
      apply forallb_forall. intros x _. reflexivity.
    - injection E2 as <-. cbn [rest_ok] in Hrest. subst rest. rewrite app_nil_r.
      apply andb_prop in Ht as [Ht Hnz]. apply andb_prop in Ht as [Ht Hl]. apply andb_prop in Ht as [Ha Hm].
      apply Nat.ltb_lt in Ha. apply Nat.eqb_eq in Hm. apply Nat.leb_le in Hl. destruct z; cbn [text_room] in Hl.
      + rewrite (write_aligned_z_strip mx al bs Hl Hnz). destruct (has_count (fixed l)); reflexivity.
      + rewrite (write_aligned_strip mx al bs Ha Hm Hl Hnz). destruct (has_count (fixed l)); reflexivity.
  Qed.
End Generic.
