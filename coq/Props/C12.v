(* Props/C12.v — escaping makes arbitrary text wire-safe; colour stripping is exact. *)
Require Import Coq.Strings.String.
Require Import Base.Bytes Gen.TextTab Text.Escape Text.EscapeProofs Text.Codepage Text.CodepageProofs Text.CodepageRoundtrip Text.WireComposition.
Local Open Scope N_scope.

Theorem c12_unescape_escape : forall s, unescape (escape s) = s.
Proof. exact unescape_escape. Qed.

Theorem c12_escaped_is_reserved_free : forall s, existsb reserved (escape s) = false.
Proof. exact escape_reserved_free. Qed.

(* strip = the text with exactly the colour tokens (^0..^9) deleted, where the text is read as
   tokens "^^" | "^digit" | single character; escaped carets are untouched; idempotent *)
Theorem c12_strip_removes_exactly_colours : forall s,
  strip s = concat (map (render false) (tokens s)) /\ s = concat (map (render true) (tokens s)).
Proof. exact strip_spec. Qed.
Theorem c12_strip_idempotent : forall s, strip (strip s) = strip s.
Proof. exact strip_idempotent. Qed.
Theorem c12_strip_keeps_text_without_colours : forall s,
  (forall d, ~ In (TColour d) (tokens s)) -> strip s = s.
Proof. exact strip_keeps_escaped_carets. Qed.

(* the fast paths are unobservable *)
Theorem c12_fast_paths : forall s, escape s = esc s /\ unescape s = unesc s /\ strip s = strp s.
Proof. intros. split; [apply escape_is_esc|split; [apply unescape_is_unesc|apply strip_is_strp]]. Qed.

(* composition with the codepage path, at full strength: for every code-table oracle satisfying the
   named hypotheses (validated exhaustively on encoding_rs), EVERY string whose non-ASCII characters exist
   in some codepage survives escape -> codepage encode -> codepage decode -> unescape: carets, reserved
   characters, colours (incl. ^8), carets before codepage letters, double-byte characters with a 0x5E
   trail byte. (Before 68d499a this was refuted by "^L" and "<trail 5E>L": the former known findings.) *)
Theorem c12_wire_composition : forall enc dec,
  (forall l c w, enc l c = Some w -> exists b1, 128 <= b1 /\ (w = [b1] \/ exists b2, w = [b1; b2])) ->
  (forall l, dec l [] = []) ->
  (forall l b r, is_ascii b = true -> dec l (b :: r) = b :: dec l r) ->
  (forall l c w r, enc l c = Some w -> dec l (w ++ r) = c :: dec l r) ->
  (forall l c b1 b2, enc l c = Some [b1; b2] -> lead l b1 = true) ->
  (forall l c b1, enc l c = Some [b1] -> lead l b1 = false) ->
  (forall bs, dec gen_propagate_letter bs = dec gen_default_codepage bs) ->
  forall s, Forall (encodable enc) s ->
  unescape (to_lossy_string dec (to_lossy_bytes enc (escape s))) = s.
Proof. exact escaped_text_survives_the_wire. Qed.

Theorem c12_tables : tab_inverse = true. Proof. exact tab_inverse_ok. Qed.
Example c12_example : escape [94; 124; 42; 49] = [94; 94; 94; 118; 94; 97; 49] /\ strip [94; 94; 49; 94; 50; 51] = [94; 94; 49; 51].
Proof. vm_compute. auto. Qed.

(* non-vacuity of the composition's premises and the two former counter-examples, over a toy table in which
   U+3042 is the double-byte character 83 5E of codepage J and nothing else is encodable *)
Definition toy_enc (l c : N) : option (list N) := if (l =? 74) && (c =? 12354) then Some [131; 94] else None.
Example c12_former_counterexamples_are_escaped_safely :
  escape [94; 76] = [94; 94; 76] /\
  safe toy_enc gen_default_codepage false (escape [94; 76]) = true /\
  safe toy_enc gen_default_codepage false (escape [12354; 76]) = true /\
  to_lossy_bytes toy_enc (escape [12354; 76]) = [94; 74; 131; 94; 76].
Proof. vm_compute. auto. Qed.
