"""Per-property configuration of the check pipeline."""

TRUSTED_COMMON = [
    'Coq 8.16.1 kernel + vm_compute (no native_compute)',
    'tools/translate.py (regex/tokenizer over Rust declarations; fails closed)',
    'extraction (ExtrOcamlBasic only: bool/option/unit/list/prod/sumbool/sumor, andb/orb inlined) + OCaml 4.13.1 + ocaml/prelude.ml conversions',
    'Rust harness (generators, canonicalisation, independent property oracle) linked against /repo by path',
]

PROPS = {
    'C13': dict(
        gens=['vehicle'], coq_targets=['Props/C13.vo'], coqchk_modules=['Props.C13'], group='core', harness='c13',
        axioms_allowed=[],
        proved=['for every byte list: model read = the InSim v9 rule (zeros=unknown / 3 alnum+NUL = built-in name or error / else mod id)',
                'every decodable 4-byte value re-encodes to the identical bytes (all 2^32, by arithmetic, not enumeration)',
                'error iff unrecognised built-in-shaped name; Unknown iff zeros; Mod iff not built-in-shaped and non-zero; Builtin iff named',
                'printed name = wire name for every built-in; the built-in set is the 20 LFS cars; variant identifiers match names'],
        modelled=['binrw [u8;4] read/write and u32 LE write (validated by correspondence on every case)',
                  'the match arms / write arms / Display arms are REGENERATED from vehicle.rs each run (translator)'],
        trusted=['hand-transcribed list of the 20 LFS built-in cars (Core/Vehicle.v lfs_builtin_cars, harness CARS)'],
        assumptions=['Mod/Unknown Display text ({:06X} / "Unknown") is pinned syntactically by the translator, not modelled'],
        exhaustive_when=lambda tier, st: tier == 'thorough' and any('2^32' in s for s in st.get('exhaustive', [])),
    ),
}

LEVEL_TEXT = {
    'C13': 'Theorems over all byte lists / all 2^32 wire values (case analysis + little-endian arithmetic) about a model whose match arms, write arms and Display arms are regenerated from vehicle.rs on every run; finite table facts by vm_compute; model = code checked on 640k cases (all 62^3 names) and, in the thorough tier, the property oracle on all 2^32 values of the real BinRead/BinWrite.',
}

# properties not (yet) claimed, with the reason (kept current)
NOT_APPLICABLE = {p: 'not yet built in this round (work in progress; see DESIGN.md §7 order of work)' for p in
                  ['C01','C02','C03','C04','C05','C06','C07','C08','C09','C10','C11','C12','C14','C15','C16','C17','C18','C19','C20']}
