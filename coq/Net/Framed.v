(* Net/Framed.v — executable model of the blocking and tokio Framed connections
   (blocking_impl/framed.rs, tokio_impl/framed.rs): the read loop with version gate and
   keep-alive reply, the session of successive reads, and the write path (write_all).
   Both implementations are this one function: they differ only in `.await` and in the
   90 s timeout of the tokio loop, which appears here as the transport event [Elapsed].
   No proofs here. *)
Require Import Base.Bytes Net.Frame.
Local Open Scope N_scope.

(* ---- write path: Write::write_all / AsyncWriteExt::write_all_buf over a scripted transport ---- *)
Inductive wev :=
| WAccept (k : nat)    (* the transport takes min (k+1) offered bytes: at least one *)
| WPending             (* async: not ready; blocking: ErrorKind::Interrupted (write_all retries) *)
| WFail (e : N).       (* any other io::Error *)
Inductive wres := WOk | WErr (e : N) | WBlocked (* script exhausted: the call is still pending *).

(* returns (bytes that reached the transport, outcome, remaining script); structural on the script *)
Fixpoint write_all (ws : list wev) (buf : bytes) : bytes * wres * list wev :=
  match buf with
  | [] => ([], WOk, ws)
  | _ =>
    match ws with
    | [] => ([], WBlocked, [])
    | WAccept k :: ws' =>
        let n := Nat.min (S k) (length buf) in
        let '(d, r, ws2) := write_all ws' (skipn n buf) in
        (firstn n buf ++ d, r, ws2)
    | WPending :: ws' => write_all ws' buf
    | WFail e :: ws' => ([], WErr e, ws')
    end
  end.

(* the keep-alive reply of the BLOCKING connection on a write half that may fail: write_all(reply), then the packet is returned;
   a failed write is returned instead of the packet.  (what reached the transport, Some outcome, remaining script);
   WOk = the keep-alive is handed to the caller *)
Definition reply_then_return (pong : bytes) (ws : list wev) : bytes * wres * list wev := write_all ws pong.

(* transport events seen by inner.read *)
Inductive rev :=
| Data (bs : bytes)   (* inner.read returned Ok(len bs); Ok(0) is end of stream *)
| RdErr (e : N)       (* inner.read returned Err(e): returned to the caller, buffer kept *)
| Elapsed             (* tokio only: timeout(90 s) elapsed around read_buf *)
| Eof.

Section Framed.
  Variable packet : Type.
  Variable parse : bytes -> res packet.
  Variable unparse : packet -> res bytes.
  (* Packet::maybe_verify_version: Some v iff the packet is a Ver reporting InSim version v *)
  Variable ver_of : packet -> option N.
  (* Packet::maybe_pong(..).is_some() *)
  Variable is_keepalive : packet -> bool.
  Variable version : N.             (* crate::VERSION *)
  Variable m : mode.
  Variable verify : bool.           (* Framed::verify_version *)
  Variable pong : bytes.            (* Codec::encode(Tiny{reqi 0, subt None}) in mode m *)

  Inductive rres :=
  | RPacket (p : packet) | RDecodeErr | RFrameErr | RBadVersion (v : N)
  | RIo (e : N) | RTimeout | RDisconnected | RPanic | RBlocked.
  Inductive out := Wrote (bs : bytes) | Ret (r : rres).

  (* what happens once a packet has been decoded: gate, then keep-alive reply, then return *)
  Definition deliver (p : packet) : list out :=
    match (if verify then ver_of p else None) with
    | Some v => if v =? version
                then (if is_keepalive p then [Wrote pong] else []) ++ [Ret (RPacket p)]
                else [Ret (RBadVersion v)]
    | None => (if is_keepalive p then [Wrote pong] else []) ++ [Ret (RPacket p)]
    end.

  Definition try_decode (buf : bytes) : option (list out * bytes) :=
    match buf with
    | [] => None
    | _ => match decode packet parse m buf with
           | NeedMore => None
           | FrameErr => Some ([Ret RFrameErr], buf)
           | DPanic => Some ([Ret RPanic], buf)
           | Bad rest => Some ([Ret RDecodeErr], rest)
           | Got p rest => Some (deliver p, rest)
           end
    end.

  (* one Framed::read(): structurally recursive on the transport script — every turn of the
     real loop either returns or consumes one transport event *)
  Fixpoint read (buf : bytes) (tr : list rev) : list out * bytes * list rev :=
    match try_decode buf with
    | Some (o, b) => (o, b, tr)
    | None =>
      match tr with
      | [] => ([Ret RBlocked], buf, [])
      | Data [] :: tr' => ([Ret RDisconnected], buf, tr')
      | Data bs :: tr' => read (buf ++ bs) tr'
      | RdErr e :: tr' => ([Ret (RIo e)], buf, tr')
      | Elapsed :: tr' => ([Ret RTimeout], buf, tr')
      | Eof :: tr' => ([Ret RDisconnected], buf, tr')
      end
    end.

  Definition is_final (o : out) : bool :=
    match o with Ret RDisconnected | Ret RBlocked | Ret RPanic | Ret RFrameErr => true | _ => false end.

  (* successive reads until the stream ends (or the connection is unusable) *)
  Fixpoint session (fuel : nat) (buf : bytes) (tr : list rev) : list out :=
    match fuel with
    | O => []
    | S k => let '(o, b, tr') := read buf tr in
             if existsb is_final o then o else o ++ session k b tr'
    end.

  (* a conversation: the caller's read() and write() calls in any order.  write() = encode + write_all;
     the caller's packets (the ISI of handshake() included) are given by their frames.
     (true, _) marks what a write() call put on the wire. *)
  Inductive uop := URead | UWrite (f : bytes).
  Fixpoint conv (ops : list uop) (buf : bytes) (tr : list rev) : list (bool * out) :=
    match ops with
    | [] => []
    | URead :: t => let '(o, b, tr') := read buf tr in
                    map (pair false) o ++ (if existsb is_final o then [] else conv t b tr')
    | UWrite f :: t => (true, Wrote f) :: conv t buf tr
    end.

  (* per-frame expectation, by decoding the frame in isolation *)
  Definition expected_frame (f : bytes) : list out :=
    match parse (tl f) with
    | Ok p => deliver p
    | Err => [Ret RDecodeErr]
    | Panic => [Ret RPanic]
    end.

  Fixpoint data_of (tr : list rev) : bytes :=
    match tr with [] => [] | Data bs :: t => bs ++ data_of t | _ :: t => data_of t end.

  Definition is_transient (o : out) : bool :=
    match o with Ret (RIo _) | Ret RTimeout => true | _ => false end.
  Definition transient_of (e : rev) : list out :=
    match e with RdErr c => [Ret (RIo c)] | Elapsed => [Ret RTimeout] | _ => [] end.

  (* Framed::write: encode, then write_all *)
  Definition write (p : packet) (ws : list wev) : res (bytes * wres * list wev) :=
    match encode packet unparse m p with
    | Ok fr => Ok (write_all ws fr)
    | Err => Err
    | Panic => Panic
    end.
End Framed.

Arguments Wrote {packet}. Arguments Ret {packet}.

Arguments RDecodeErr {packet}. Arguments RFrameErr {packet}. Arguments RBadVersion {packet}.
Arguments RIo {packet}. Arguments RTimeout {packet}. Arguments RDisconnected {packet}.
Arguments RPanic {packet}. Arguments RBlocked {packet}. Arguments RPacket {packet}.
