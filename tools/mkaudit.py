#!/usr/bin/env python3
"""mkaudit.py Cnn — (re)writes coq/Audit/Cnn.v from coq/Props/Cnn.v: every Theorem's statement is
pinned with `Check name : stmt.` and followed by `Print Assumptions name.`  Run by hand when a
property file is edited on purpose; the check compiles the committed Audit file, so a statement
that is quietly weakened in Props/ no longer matches its pin."""
import re, sys, os
sys.path.insert(0, os.path.dirname(os.path.abspath(__file__)))
import vlib
P = sys.argv[1]
src = vlib.strip_coq_comments(open(os.path.join(vlib.COQ, 'Props', P + '.v')).read())
head = re.match(r'\s*((?:Require Import[^.]*(?:\.[A-Za-z][^.\s]*)*\.\s*|From [^\n]*\n|Local Open Scope \w+\.\s*)+)', src)
reqs = re.findall(r'^(?:Require Import|From|Local Open Scope|Import)[^\n]*', src, re.M)
out = []
for r in reqs:
    out.append(r.strip())
out.insert(1 if out else 0, 'Require Import Props.%s.' % P)
names = []
for m in re.finditer(r'\bTheorem\s+(\w+)\s*:(.*?)\.\s*Proof\.', src, re.S):
    names.append(m.group(1))
    out.append('Check %s :%s.' % (m.group(1), m.group(2).rstrip()))
for n in names: out.append('Print Assumptions %s.' % n)
open(os.path.join(vlib.COQ, 'Audit', P + '.v'), 'w').write('\n'.join(out) + '\n')
print(P, len(names), 'pinned')
