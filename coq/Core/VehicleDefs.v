(* Core/VehicleDefs.v — vocabulary shared by the generated vehicle tables and the model *)
Require Import Base.Bytes.
Local Open Scope N_scope.

(* outcome of one arm of the `match (bytes, is_builtin)` in Vehicle::read_options *)
Inductive vout := OUnknown | OBuiltin (i : N) | OErr | OMod.
(* pattern: Some bs = literal 4-byte array pattern, None = `_` ; guard: Some b = literal bool, None = `_` *)
Definition varm := (option bytes * option bool * vout)%type.

Inductive vehicle := Builtin (i : N) | Mod (id : N) | Unknown.

Definition vout_eqb (a b : vout) : bool :=
  match a, b with
  | OUnknown, OUnknown | OErr, OErr | OMod, OMod => true
  | OBuiltin i, OBuiltin j => i =? j
  | _, _ => false
  end.
