(* Wire/CustomProofs.v — the hand-modelled codecs satisfy the interface the generic layout
   theorems assume: decoding never panics, encodings have the declared width, and
   decode (encode v) = v on an explicit, decidable domain per codec.  Axiom-free. *)
Require Import Coq.Strings.String.
Require Import Base.Bytes Wire.Layout Wire.Customs Wire.LayoutProofs.
Require Import Core.VehicleDefs Core.Vehicle Core.VehicleProofs Gen.TrackTab Gen.Packets.
Require Import ZifyN ZifyNat ZifyBool.
Ltac Zify.zify_post_hook ::= Z.div_mod_to_equations.
Local Open Scope N_scope.

(* ---------------- explicit domains ---------------- *)
Definition racelaps_dom (tag n : N) : bool :=
  if tag =? 0 then n =? 0
  else if tag =? 1 then ((1 <=? n) && (n <=? 99)) || ((100 <=? n) && (n <=? 1000) && (n mod 10 =? 0))
  else if tag =? 2 then (1 <=? n) && (n <=? 48)
  else false.

Definition small_dom (d x : N) : bool :=
  if d =? 0 then x =? 0
  else if is_cs d then (x mod 10 =? 0) && (x / 10 <? u32max)
  else if d =? 3 then x <=? 3
  else if d =? 4 then x <=? 1
  else if d =? 7 then x <? u32max
  else if d =? 8 then (N.land x gen_mask_Plc =? x) && (x <? u32max)
  else if d =? 9 then (N.land x gen_mask_LcsFlags =? x) && (x <? u32max)
  else if d =? 10 then (N.land x gen_mask_LclFlags =? x) && (x <? u32max)
  else false.

Definition track_rt_ok (i : N) : bool :=
  match track_write i with
  | Ok bs => Nat.eqb (length bs) 6 && match track_read bs with Ok j => i =? j | _ => false end
  | _ => false
  end.

Definition cindom (c : custom) (v : value) : bool :=
  match c, v with
  | CVehicle, VB bs => Nat.eqb (length bs) 4 && match vehicle_read bs with Ok _ => true | _ => false end
  | CTrack, VN i => track_rt_ok i
  | CRaceLaps, VL [VN tag; VN n] => racelaps_dom tag n
  | CFuel, VL [VN tag; VN n] => ((tag =? 0) && (n =? 0)) || ((tag =? 1) && (n <? 255))
  | CSmallType, VL [VN d; VN x] => small_dom d x
  | CCimMode, VL [VN d; VN s; VN t] => cim_ok d s t
  | CGameVersion, VB bs => Nat.leb (length bs) 8 && nonul bs && gv_accepts bs
  | CNibHiLo, VL [VN h; VN l] => (h <=? 15) && (l <=? 15)
  | CNibHi, VN g => g <=? 15
  | _, _ => false
  end.

(* ---------------- totality ---------------- *)
Lemma vehicle_read_total bs : vehicle_read bs <> Panic.
Proof.
  rewrite read_is_spec. unfold spec_read. destruct (Nat.eqb (length bs) 4); [|discriminate].
  unfold spec_read_with. destruct (list_eqb zeros4 bs); [discriminate|].
  destruct (builtin_shape bs); [|discriminate].
  destruct (find_name bs Gen.VehicleTab.vehicle_display_tab); discriminate.
Qed.

Lemma small_dec_total d u : small_dec d u <> Panic.
Proof.
  unfold small_dec.
  repeat match goal with |- context [if ?c then _ else _] => destruct c end; discriminate.
Qed.

Lemma cim_dec_total d s t : cim_dec d s t <> Panic.
Proof.
  unfold cim_dec.
  repeat match goal with |- context [if ?c then _ else _] => destruct c end; discriminate.
Qed.

Theorem cdec_total c bs : cdec c bs <> Panic.
Proof.
  destruct c; cbn [cdec]; try discriminate.
  - pose proof (vehicle_read_total bs). destruct (vehicle_read bs); congruence.
  - unfold track_read. destruct (track_find bs track_read_arms); discriminate.
  - destruct (racelaps_of_u8 (le_dec bs)). discriminate.
  - destruct bs as [|d u]; [discriminate|].
    pose proof (small_dec_total d (le_dec u)). destruct (small_dec d (le_dec u)) as [[d' x]| |]; congruence.
  - destruct bs as [|d [|s [|t [|? ?]]]]; try discriminate.
    pose proof (cim_dec_total d s t). destruct (cim_dec d s t) as [[[d' s'] t']| |]; congruence.
  - destruct (gv_accepts _); discriminate.
Qed.

(* ---------------- widths ---------------- *)
Lemma track_write_tab_len : forallb (fun e => Nat.eqb (length (snd e)) 6) track_write_tab = true.
Proof. vm_compute. reflexivity. Qed.

Lemma track_write_len i bs : track_write i = Ok bs -> length bs = 6%nat.
Proof.
  unfold track_write. destruct (assoc i track_write_tab) as [b|] eqn:E; [|discriminate].
  intros [= <-]. apply assoc_in in E. pose proof track_write_tab_len as H.
  rewrite forallb_forall in H. specialize (H _ E). cbn [snd] in H. apply Nat.eqb_eq. exact H.
Qed.

Theorem cenc_len c v b : cenc c v = Ok b -> length b = cwidth c.
Proof.
  destruct c; cbn [cenc cwidth].
  - destruct v as [|bs| |]; try discriminate. destruct (Nat.eqb_spec (length bs) 4) as [Hl|]; [|discriminate].
    destruct (vehicle_read bs); try discriminate. intros [= <-]. exact Hl.
  - destruct v; try discriminate. apply track_write_len.
  - destruct v as [| | |[|[t| | |] [|[n| | |] [|? ?]]]]; try discriminate. intros [= <-]. reflexivity.
  - destruct v as [| | |[|[t| | |] [|[n| | |] [|? ?]]]]; try discriminate.
    destruct t as [|p]; [intros [= <-]; reflexivity|]. destruct p as [p|p|]; try discriminate.
    destruct (n <? 256); [|discriminate]. intros [= <-]. reflexivity.
  - destruct v as [| | |[|[d| | |] [|[x| | |] [|? ?]]]]; try discriminate.
    destruct (small_enc d x) as [[d' u]| |]; try discriminate. intros [= <-].
    reflexivity.
  - destruct v as [| | |[|[d| | |] [|[s| | |] [|[t| | |] [|? ?]]]]]; try discriminate.
    destruct (_ && _); [|discriminate]. intros [= <-]. reflexivity.
  - destruct v as [|bs| |]; try discriminate. destruct (_ && _); [|discriminate]. intros [= <-]. apply write_fixed_len.
  - destruct v as [| | |[|[h| | |] [|[l| | |] [|? ?]]]]; try discriminate.
    destruct (_ && _); [|discriminate]. destruct (_ || _); [discriminate|]. intros [= <-]. reflexivity.
  - destruct v as [g| | |]; try discriminate. destruct (g <? 256); [|discriminate].
    destruct (15 <? g); [discriminate|]. intros [= <-]. reflexivity.
Qed.

(* ---------------- round trips ---------------- *)
Lemma le_dec_single b : le_dec [b] = b.
Proof. cbn [le_dec]. lia. Qed.

Lemma racelaps_roundtrip tag n : racelaps_dom tag n = true ->
  racelaps_of_u8 (racelaps_to_u8 tag n) = (tag, n).
Proof.
  unfold racelaps_dom, racelaps_to_u8, racelaps_of_u8.
  destruct (N.eqb_spec tag 0) as [->|H0].
  - intros H. apply N.eqb_eq in H. subst n. reflexivity.
  - destruct (N.eqb_spec tag 1) as [->|H1].
    + intros H. apply orb_prop in H as [H|H].
      * apply andb_prop in H as [Ha Hb]. rewrite Ha, Hb. cbn [andb].
        apply N.leb_le in Ha, Hb. rewrite N.mod_small by lia.
        destruct (N.eqb_spec n 0); [lia|]. rewrite (proj2 (N.leb_le n 99)) by lia. reflexivity.
      * apply andb_prop in H as [H Hm]. apply andb_prop in H as [Ha Hb].
        apply N.leb_le in Ha, Hb. apply N.eqb_eq in Hm.
        replace ((1 <=? n) && (n <=? 99)) with false by (symmetry; apply andb_false_iff; right; apply N.leb_gt; lia).
        rewrite (proj2 (N.leb_le 100 n)) by lia. rewrite (proj2 (N.leb_le n 1000)) by lia. cbn [andb].
        set (q := (n - 100) / 10).
        assert (Hq : n = 100 + 10 * q) by (subst q; lia).
        assert (q <= 90) by (subst q; lia).
        rewrite N.mod_small by lia.
        destruct (N.eqb_spec (q + 100) 0); [lia|].
        replace (q + 100 <=? 99) with false by (symmetry; apply N.leb_gt; lia).
        rewrite (proj2 (N.leb_le (q + 100) 190)) by lia. f_equal. lia.
    + destruct (N.eqb_spec tag 2) as [->|H2]; [|discriminate].
      intros H. apply andb_prop in H as [Ha Hb]. rewrite Ha, Hb. cbn [andb].
      apply N.leb_le in Ha, Hb. rewrite N.mod_small by lia.
      destruct (N.eqb_spec (n + 190) 0); [lia|].
      replace (n + 190 <=? 99) with false by (symmetry; apply N.leb_gt; lia).
      replace (n + 190 <=? 190) with false by (symmetry; apply N.leb_gt; lia).
      rewrite (proj2 (N.leb_le (n + 190) 238)) by lia. f_equal. lia.
Qed.

Lemma small_dec_0 u : small_dec 0 u = Ok (0, 0). Proof. reflexivity. Qed.
Lemma small_dec_3 u : small_dec 3 u = Ok (3, if (1 <=? u) && (u <=? 3) then u else 0). Proof. reflexivity. Qed.
Lemma small_dec_4 u : small_dec 4 u = Ok (4, if u =? 0 then 0 else 1). Proof. reflexivity. Qed.
Lemma small_dec_7 u : small_dec 7 u = Ok (7, u). Proof. reflexivity. Qed.
Lemma small_dec_8 u : small_dec 8 u = Ok (8, N.land u gen_mask_Plc). Proof. reflexivity. Qed.
Lemma small_dec_9 u : small_dec 9 u = Ok (9, N.land u gen_mask_LcsFlags). Proof. reflexivity. Qed.
Lemma small_dec_10 u : small_dec 10 u = Ok (10, N.land u gen_mask_LclFlags). Proof. reflexivity. Qed.
Lemma small_enc_3 x : small_enc 3 x = if x <=? 3 then Ok (3, x) else Panic. Proof. reflexivity. Qed.
Lemma small_enc_4 x : small_enc 4 x = if x <=? 1 then Ok (4, x) else Panic. Proof. reflexivity. Qed.
Lemma small_enc_7 x : small_enc 7 x = if x <? u32max then Ok (7, x) else Err. Proof. reflexivity. Qed.
Lemma small_enc_8 x : small_enc 8 x = if x <? u32max then Ok (8, x) else Panic. Proof. reflexivity. Qed.
Lemma small_enc_9 x : small_enc 9 x = if x <? u32max then Ok (9, x) else Panic. Proof. reflexivity. Qed.
Lemma small_enc_10 x : small_enc 10 x = if x <? u32max then Ok (10, x) else Panic. Proof. reflexivity. Qed.

Lemma small_roundtrip d x : small_dom d x = true ->
  exists d' u, small_enc d x = Ok (d', u) /\ u < u32max /\ small_dec d' u = Ok (d, x).
Proof.
  unfold small_dom.
  destruct (N.eqb_spec d 0) as [->|H0].
  { intros H. apply N.eqb_eq in H. subst x. exists 0, 0.
    split; [reflexivity|]. split; [unfold u32max; lia|reflexivity]. }
  destruct (is_cs d) eqn:Hcs.
  { intros H. apply andb_prop in H as [Hm Hq]. exists d, (x / 10).
    unfold small_enc, small_dec. destruct (N.eqb_spec d 0); [contradiction|]. rewrite Hcs, Hq.
    apply N.eqb_eq in Hm. apply N.ltb_lt in Hq.
    split; [reflexivity|]. split; [exact Hq|]. f_equal. f_equal.
    clear - Hm. pose proof (N.div_mod x 10 ltac:(lia)) as Hd. rewrite Hm in Hd. lia. }
  destruct (N.eqb_spec d 3) as [->|H3].
  { intros H. exists 3, x. rewrite small_enc_3, small_dec_3, H. apply N.leb_le in H.
    split; [reflexivity|]. split; [unfold u32max; lia|]. f_equal. f_equal.
    destruct (N.leb_spec 1 x); cbn [andb]; [reflexivity|lia]. }
  destruct (N.eqb_spec d 4) as [->|H4].
  { intros H. exists 4, x. rewrite small_enc_4, small_dec_4, H. apply N.leb_le in H.
    split; [reflexivity|]. split; [unfold u32max; lia|]. f_equal. f_equal. destruct (N.eqb_spec x 0); lia. }
  destruct (N.eqb_spec d 7) as [->|H7].
  { intros H. exists 7, x. rewrite small_enc_7, small_dec_7, H. apply N.ltb_lt in H.
    split; [reflexivity|]. split; [exact H|reflexivity]. }
  destruct (N.eqb_spec d 8) as [->|H8].
  { intros H. apply andb_prop in H as [Hm Hq]. exists 8, x. rewrite small_enc_8, small_dec_8, Hq.
    apply N.eqb_eq in Hm. apply N.ltb_lt in Hq.
    split; [reflexivity|]. split; [exact Hq|]. rewrite Hm. reflexivity. }
  destruct (N.eqb_spec d 9) as [->|H9].
  { intros H. apply andb_prop in H as [Hm Hq]. exists 9, x. rewrite small_enc_9, small_dec_9, Hq.
    apply N.eqb_eq in Hm. apply N.ltb_lt in Hq.
    split; [reflexivity|]. split; [exact Hq|]. rewrite Hm. reflexivity. }
  destruct (N.eqb_spec d 10) as [->|H10]; [|discriminate].
  intros H. apply andb_prop in H as [Hm Hq]. exists 10, x. rewrite small_enc_10, small_dec_10, Hq.
  apply N.eqb_eq in Hm. apply N.ltb_lt in Hq.
  split; [reflexivity|]. split; [exact Hq|]. rewrite Hm. reflexivity.
Qed.

Lemma cim_roundtrip d s t : cim_ok d s t = true ->
  d < 256 /\ s < 256 /\ t < 256 /\ cim_dec d s t = Ok (d, s, t).
Proof.
  unfold cim_ok, cim_dec.
  destruct (N.eqb_spec d 0) as [->|H0].
  { intros H. apply andb_prop in H as [Hs Ht]. rewrite Hs. apply N.leb_le in Hs. apply N.eqb_eq in Ht. subst t.
    repeat split; lia. }
  destruct (is_plain_mode d) eqn:Hp.
  { intros H. apply andb_prop in H as [Hs Ht]. apply N.eqb_eq in Hs, Ht. subst s t.
    unfold is_plain_mode in Hp.
    assert (d < 256).
    { repeat (apply orb_prop in Hp as [Hp|Hp]); apply N.eqb_eq in Hp; lia. }
    repeat split; lia. }
  destruct (N.eqb_spec d 3) as [->|H3].
  { intros H. apply andb_prop in H as [Hs Ht]. rewrite Hs. apply N.leb_le in Hs. apply N.eqb_eq in Ht. subst t.
    repeat split; lia. }
  destruct (N.eqb_spec d 6) as [->|H6]; [|discriminate].
  intros H. apply andb_prop in H as [Hs Ht]. apply N.leb_le in Hs. apply N.ltb_lt in Ht.
  repeat split; try lia. f_equal. f_equal. f_equal.
  destruct (N.eqb_spec s 1); [reflexivity|]. destruct (N.eqb_spec s 2); [reflexivity|]. cbn [orb]. lia.
Qed.

Lemma trim_nul_end_zeros k : trim_nul_end (repeat 0 k) = [].
Proof. induction k as [|k IH]; [reflexivity|]. cbn [repeat trim_nul_end]. rewrite IH. reflexivity. Qed.

Lemma trim_nul_end_app bs k : nonul bs = true -> trim_nul_end (bs ++ repeat 0 k) = bs.
Proof.
  induction bs as [|b t IH]; cbn [app nonul forallb].
  - intros _. apply trim_nul_end_zeros.
  - intros H. apply andb_prop in H as [Hb Ht]. fold (nonul t) in Ht.
    cbn [trim_nul_end]. rewrite (IH Ht). apply negb_true_iff in Hb.
    destruct t; [rewrite Hb; reflexivity|reflexivity].
Qed.

Theorem c_roundtrip c v b : cindom c v = true -> cenc c v = Ok b -> cdec c b = Ok v.
Proof.
  destruct c; cbn [cindom cenc cdec].
  - (* vehicle *)
    destruct v as [|bs| |]; try discriminate. intros H. apply andb_prop in H as [Hl Hr]. rewrite Hl.
    destruct (vehicle_read bs) eqn:E; try discriminate. intros [= <-]. rewrite E. reflexivity.
  - (* track *)
    destruct v as [i| | |]; try discriminate. unfold track_rt_ok.
    destruct (track_write i) as [bs| |]; try discriminate. intros H. apply andb_prop in H as [_ H].
    intros [= <-]. destruct (track_read bs) as [j| |]; try discriminate. apply N.eqb_eq in H. subst j. reflexivity.
  - (* race laps *)
    destruct v as [| | |[|[t| | |] [|[n| | |] [|? ?]]]]; try discriminate.
    intros H [= <-]. rewrite le_dec_single, (racelaps_roundtrip _ _ H). reflexivity.
  - (* fuel *)
    destruct v as [| | |[|[t| | |] [|[n| | |] [|? ?]]]]; try discriminate.
    intros H. apply orb_prop in H as [H|H]; apply andb_prop in H as [Ht Hn]; apply N.eqb_eq in Ht; subst t.
    + apply N.eqb_eq in Hn. subst n. intros [= <-]. rewrite le_dec_single. reflexivity.
    + apply N.ltb_lt in Hn. rewrite (proj2 (N.ltb_lt n 256)) by lia. intros [= <-]. rewrite le_dec_single.
      destruct (N.eqb_spec n 255); [lia|reflexivity].
  - (* small *)
    destruct v as [| | |[|[d| | |] [|[x| | |] [|? ?]]]]; try discriminate.
    intros H. destruct (small_roundtrip _ _ H) as [d' [u [He [Hu Hd]]]]. rewrite He. intros Hb.
    assert (b = d' :: le_enc 4 u) as -> by congruence. cbv iota beta.
    unfold u32max in Hu. rewrite le_dec_enc by exact Hu. rewrite Hd. reflexivity.
  - (* cim *)
    destruct v as [| | |[|[d| | |] [|[s| | |] [|[t| | |] [|? ?]]]]]; try discriminate.
    intros H. destruct (cim_roundtrip _ _ _ H) as [Hd [Hs [Ht Hdec]]].
    rewrite (proj2 (N.ltb_lt d 256) Hd), (proj2 (N.ltb_lt s 256) Hs), (proj2 (N.ltb_lt t 256) Ht).
    cbn [andb]. intros [= <-]. rewrite Hdec. reflexivity.
  - (* game version *)
    destruct v as [|bs| |]; try discriminate. intros H. apply andb_prop in H as [H Hacc].
    apply andb_prop in H as [Hl Hnz]. rewrite Hl, Hacc. cbn [andb]. apply Nat.leb_le in Hl. intros [= <-].
    rewrite write_fixed_short by exact Hl. rewrite (trim_nul_end_app _ _ Hnz), Hacc. reflexivity.
  - (* nibble pair *)
    destruct v as [| | |[|[h| | |] [|[l| | |] [|? ?]]]]; try discriminate.
    intros H. apply andb_prop in H as [Hh Hl]. apply N.leb_le in Hh, Hl.
    rewrite (proj2 (N.ltb_lt h 256)) by lia. rewrite (proj2 (N.ltb_lt l 256)) by lia. cbn [andb].
    replace (15 <? h) with false by (symmetry; apply N.ltb_ge; lia).
    replace (15 <? l) with false by (symmetry; apply N.ltb_ge; lia). cbn [orb].
    intros [= <-]. rewrite le_dec_single.
    replace ((h * 16 + l) / 16) with h by lia. replace ((h * 16 + l) mod 16) with l by lia. reflexivity.
  - (* high nibble *)
    destruct v as [g| | |]; try discriminate. intros H. apply N.leb_le in H.
    rewrite (proj2 (N.ltb_lt g 256)) by lia.
    replace (15 <? g) with false by (symmetry; apply N.ltb_ge; lia).
    intros [= <-]. rewrite le_dec_single. f_equal. f_equal. lia.
Qed.
