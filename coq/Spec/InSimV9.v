(* Spec/InSimV9.v — hand transcription of the packet definitions of InSim.txt (InSim version 9,
   LFS 0.7) and of the InSim-Relay documentation, as data.
   InSim.txt is NOT available in the sandbox: this is written from the transcriber's knowledge of
   the document, independently of the Rust sources (only the name aliases — sf_code / se_code —
   were filled in afterwards by looking at the identifiers the implementation uses).  Entries the
   transcriber is not sure of are tagged Unasserted and create no obligation.  Struct by struct:
   name, packet type number, documented size of the part before any variable tail, then the
   fields after Size and Type in order.  No proofs here. *)
Require Import Coq.Strings.String.
Require Import Base.Bytes Wire.Layout Spec.Defs.
Local Open Scope string_scope.

Definition byte := SNum 1.   Definition word := SNum 2.   Definition unsigned := SNum 4.
Definition int := SNum 4.    Definition short := SNum 2.  Definition float := SNum 4.
Definition char := SNum 1.   Definition bool01 := SBool.
Definition f (n : string) (k : sk) := SF (mkSF n "" k Asserted).
Definition fa (n c : string) (k : sk) := SF (mkSF n c k Asserted).
Definition fu (n : string) (k : sk) := SF (mkSF n "" k Unasserted).
Definition sp (n : nat) := SF (mkSF "Sp" "" (SSpare n) Asserted).
Definition e (n : string) (k : sk) := mkSF n "" k Asserted.
Definition ea (n c : string) (k : sk) := mkSF n c k Asserted.
Definition esp (n : nat) := mkSF "Sp" "" (SSpare n) Asserted.
Definition reqi := f "ReqI" byte.

(* sub-structures *)
Definition CarContOBJ : list sfield :=
  [e "Direction" byte; e "Heading" byte; e "Speed" byte; ea "Zbyte" "z" byte; e "X" short; e "Y" short].
Definition ObjectInfo : list sfield :=
  [e "X" short; e "Y" short; ea "Zbyte" "z" byte; e "Flags" byte; e "Index" byte; e "Heading" byte].
Definition CarContact : list sfield :=
  [e "PLID" byte; e "Info" (SFlags 1 "CCI"); esp 1; e "Steer" char;
   e "ThrBrk" (SOpaque 1); e "CluHan" (SOpaque 1); e "GearSp" (SOpaque 1);
   e "Speed" byte; e "Direction" byte; e "Heading" byte; e "AccelF" char; e "AccelR" char; e "X" short; e "Y" short].
Definition NodeLap : list sfield := [e "Node" word; e "Lap" word; e "PLID" byte; e "Position" byte].
Definition CompCar : list sfield :=
  [e "Node" word; e "Lap" word; e "PLID" byte; e "Position" byte; e "Info" (SFlags 1 "CCI"); esp 1;
   ea "X" "xyz.x" int; ea "Y" "xyz.y" int; ea "Z" "xyz.z" int; e "Speed" word; e "Direction" word; e "Heading" word; e "AngVel" short].
Definition PlayerHCap : list sfield := [e "PLID" byte; e "Flags" (SFlags 1 "HCAP"); e "H_Mass" byte; e "H_TRes" byte].
Definition CarHCP : list sfield := [e "H_Mass" byte; e "H_TRes" byte].
Definition HostInfo : list sfield := [e "HName" (SText 32); e "Track" (SOpaque 6); e "Flags" (SFlags 1 "HOS"); e "NumConns" byte].
Definition one (k : sk) : list sfield := [mkSF "" "" k Asserted].

Definition structs : list sstruct := [
  mkSS "IS_ISI" "Isi" 1 44 [reqi; sp 1; f "UDPPort" word; f "Flags" (SFlags 2 "ISF"); fa "InSimVer" "version" byte; f "Prefix" byte;
                            f "Interval" (STime 2 1); f "Admin" (SText 16); f "IName" (SText 16)] STNone;
  mkSS "IS_VER" "Ver" 2 20 [reqi; sp 1; f "Version" (SOpaque 8); f "Product" (SText 6); f "InSimVer" byte; sp 1] STNone;
  mkSS "IS_TINY" "Tiny" 3 4 [reqi; f "SubT" (SEnum "TINY")] STNone;
  mkSS "IS_SMALL" "Small" 4 8 [reqi; f "SubT" (SOpaque 5)] STNone;
  mkSS "IS_STA" "Sta" 5 28 [reqi; sp 1; f "ReplaySpeed" float; f "Flags" (SFlags 2 "ISS"); f "InGameCam" (SEnum "VIEW"); f "ViewPLID" byte;
                            f "NumP" byte; f "NumConns" byte; f "NumFinished" byte; f "RaceInProg" (SEnum "RACEINPROG");
                            f "QualMins" byte; f "RaceLaps" (SOpaque 1); sp 1; f "ServerStatus" byte;
                            f "Track" (SOpaque 6); f "Weather" byte; f "Wind" (SEnum "WIND")] STNone;
  mkSS "IS_SCH" "Sch" 6 8 [reqi; sp 1; f "CharB" char; f "Flags" (SFlags 1 "SCHF"); sp 2] STNone;
  mkSS "IS_SFP" "Sfp" 7 8 [reqi; sp 1; f "Flag" (SFlags 2 "ISS"); fa "OffOn" "onoff" bool01; sp 1] STNone;
  mkSS "IS_SCC" "Scc" 8 8 [reqi; sp 1; f "ViewPLID" byte; f "InGameCam" (SEnum "VIEW"); sp 2] STNone;
  mkSS "IS_CPP" "Cpp" 9 32 [reqi; sp 1; SSub "Pos" "" [e "X" int; e "Y" int; e "Z" int]; f "H" word; f "P" word; f "R" word;
                            f "ViewPLID" byte; f "InGameCam" (SEnum "VIEW"); f "FOV" float; f "Time" (STime 2 1); f "Flags" (SFlags 2 "ISS")] STNone;
  mkSS "IS_ISM" "Ism" 10 40 [reqi; sp 1; f "Host" bool01; sp 3; f "HName" (SText 32)] STNone;
  mkSS "IS_MSO" "Mso" 11 8 [reqi; sp 1; f "UCID" byte; f "PLID" byte; f "UserType" (SEnum "MSO"); f "TextStart" byte] (STText 128 4);
  mkSS "IS_III" "Iii" 12 8 [reqi; sp 1; f "UCID" byte; f "PLID" byte; sp 2] (STText 64 4);
  mkSS "IS_MST" "Mst" 13 68 [reqi; sp 1; f "Msg" (SText 64)] STNone;
  mkSS "IS_MTC" "Mtc" 14 8 [reqi; f "Sound" (SEnum "SND"); f "UCID" byte; f "PLID" byte; sp 2] (STText 128 4);
  mkSS "IS_MOD" "Mod" 15 20 [reqi; sp 1; fa "Bits16" "bit16" int; f "RR" int; f "Width" int; f "Height" int] STNone;
  mkSS "IS_VTN" "Vtn" 16 8 [reqi; sp 1; f "UCID" byte; f "Action" (SEnum "VOTE"); sp 2] STNone;
  mkSS "IS_RST" "Rst" 17 28 [reqi; sp 1; f "RaceLaps" (SOpaque 1); f "QualMins" byte; f "NumP" byte; fu "Timing" byte;
                             f "Track" (SOpaque 6); f "Weather" byte; f "Wind" (SEnum "WIND"); f "Flags" (SFlags 2 "HOSTF");
                             f "NumNodes" word; f "Finish" word; f "Split1" word; f "Split2" word; f "Split3" word] STNone;
  mkSS "IS_NCN" "Ncn" 18 56 [reqi; f "UCID" byte; f "UName" (SText 24); f "PName" (SText 24); f "Admin" bool01; f "Total" byte;
                             f "Flags" (SFlags 1 "NCNF"); sp 1] STNone;
  mkSS "IS_CNL" "Cnl" 19 8 [reqi; f "UCID" byte; f "Reason" (SEnum "LEAVR"); f "Total" byte; sp 2] STNone;
  mkSS "IS_CPR" "Cpr" 20 36 [reqi; f "UCID" byte; f "PName" (SText 24); f "Plate" (SText 8)] STNone;
  mkSS "IS_NPL" "Npl" 21 76 [reqi; f "PLID" byte; f "UCID" byte; f "PType" (SFlags 1 "PTYPE"); f "Flags" (SFlags 2 "PIF");
                             f "PName" (SText 24); f "Plate" (SText 8); f "CName" (SOpaque 4); f "SName" (SText 16);
                             SRep "Tyres" "" 4 (one (SEnum "TYRE")); f "H_Mass" byte; f "H_TRes" byte; f "Model" byte;
                             f "Pass" (SFlags 1 "PASS"); f "RWAdj" byte; f "FWAdj" byte; sp 2; f "SetF" (SFlags 1 "SETF");
                             f "NumP" byte; f "Config" byte; f "Fuel" (SOpaque 1)] STNone;
  mkSS "IS_PLP" "Plp" 22 4 [reqi; f "PLID" byte] STNone;
  mkSS "IS_PLL" "Pll" 23 4 [reqi; f "PLID" byte] STNone;
  mkSS "IS_LAP" "Lap" 24 20 [reqi; f "PLID" byte; f "LTime" (STime 4 1); f "ETime" (STime 4 1); f "LapsDone" word; f "Flags" (SFlags 2 "PIF");
                             sp 1; f "Penalty" (SEnum "PENALTY"); f "NumStops" byte; f "Fuel200" (SOpaque 1)] STNone;
  mkSS "IS_SPX" "Spx" 25 16 [reqi; f "PLID" byte; f "STime" (STime 4 1); f "ETime" (STime 4 1); f "Split" byte;
                             f "Penalty" (SEnum "PENALTY"); f "NumStops" byte; f "Fuel200" (SOpaque 1)] STNone;
  mkSS "IS_PIT" "Pit" 26 24 [reqi; f "PLID" byte; f "LapsDone" word; f "Flags" (SFlags 2 "PIF"); f "FuelAdd" (SOpaque 1);
                             f "Penalty" (SEnum "PENALTY"); f "NumStops" byte; sp 1; SRep "Tyres" "" 4 (one (SEnum "TYRE"));
                             f "Work" (SFlags 4 "PSE"); sp 4] STNone;
  mkSS "IS_PSF" "Psf" 27 12 [reqi; f "PLID" byte; f "STime" (STime 4 1); sp 4] STNone;
  mkSS "IS_PLA" "Pla" 28 8 [reqi; f "PLID" byte; f "Fact" (SEnum "PITLANE"); sp 3] STNone;
  mkSS "IS_CCH" "Cch" 29 8 [reqi; f "PLID" byte; f "Camera" (SEnum "VIEW"); sp 3] STNone;
  mkSS "IS_PEN" "Pen" 30 8 [reqi; f "PLID" byte; f "OldPen" (SEnum "PENALTY"); f "NewPen" (SEnum "PENALTY"); f "Reason" (SEnum "PENR"); sp 1] STNone;
  mkSS "IS_TOC" "Toc" 31 8 [reqi; f "PLID" byte; f "OldUCID" byte; f "NewUCID" byte; sp 2] STNone;
  mkSS "IS_FLG" "Flg" 32 8 [reqi; f "PLID" byte; f "OffOn" bool01; f "Flag" (SEnum "FLG"); f "CarBehind" byte; sp 1] STNone;
  mkSS "IS_PFL" "Pfl" 33 8 [reqi; f "PLID" byte; f "Flags" (SFlags 2 "PIF"); sp 2] STNone;
  mkSS "IS_FIN" "Fin" 34 20 [reqi; f "PLID" byte; f "TTime" (STime 4 1); f "BTime" (STime 4 1); sp 1; f "NumStops" byte;
                             f "Confirm" (SFlags 1 "CONF"); sp 1; f "LapsDone" word; f "Flags" (SFlags 2 "PIF")] STNone;
  mkSS "IS_RES" "Res" 35 84 [reqi; f "PLID" byte; f "UName" (SText 24); f "PName" (SText 24); f "Plate" (SText 8); f "CName" (SOpaque 4);
                             f "TTime" (STime 4 1); f "BTime" (STime 4 1); sp 1; f "NumStops" byte; f "Confirm" (SFlags 1 "CONF"); sp 1;
                             f "LapsDone" word; f "Flags" (SFlags 2 "PIF"); f "ResultNum" byte; f "NumRes" byte; f "PSeconds" word] STNone;
  mkSS "IS_REO" "Reo" 36 44 [reqi; f "NumP" byte; SRep "PLID" "" 40 (one byte)] STNone;
  mkSS "IS_NLP" "Nlp" 37 4 [reqi; f "NumP" SCount] (STArray NodeLap 40 2 2);
  mkSS "IS_MCI" "Mci" 38 4 [reqi; f "NumC" SCount] (STArray CompCar 16 1 0);
  mkSS "IS_MSX" "Msx" 39 100 [reqi; sp 1; f "Msg" (SText 96)] STNone;
  mkSS "IS_MSL" "Msl" 40 132 [reqi; f "Sound" (SEnum "SND"); f "Msg" (SText 128)] STNone;
  mkSS "IS_CRS" "Crs" 41 4 [reqi; f "PLID" byte] STNone;
  mkSS "IS_BFN" "Bfn" 42 8 [reqi; f "SubT" (SEnum "BFN"); f "UCID" byte; f "ClickID" byte; f "ClickMax" byte; f "Inst" (SFlags 1 "INST")] STNone;
  mkSS "IS_AXI" "Axi" 43 40 [reqi; sp 1; f "AXStart" byte; f "NumCP" byte; f "NumO" word; f "LName" (SText 32)] STNone;
  mkSS "IS_AXO" "Axo" 44 4 [reqi; f "PLID" byte] STNone;
  mkSS "IS_BTN" "Btn" 45 12 [reqi; f "UCID" byte; f "ClickID" byte; f "Inst" (SFlags 1 "INST"); f "BStyle" (SFlags 1 "ISB");
                             f "TypeIn" byte; f "L" byte; f "T" byte; f "W" byte; f "H" byte] (STText 240 4);
  mkSS "IS_BTC" "Btc" 46 8 [reqi; f "UCID" byte; f "ClickID" byte; f "Inst" (SFlags 1 "INST"); f "CFlags" (SFlags 1 "ISBCLICK"); sp 1] STNone;
  mkSS "IS_BTT" "Btt" 47 104 [reqi; f "UCID" byte; f "ClickID" byte; f "Inst" (SFlags 1 "INST"); f "TypeIn" byte; sp 1; f "Text" (SText 96)] STNone;
  mkSS "IS_RIP" "Rip" 48 80 [reqi; f "Error" (SEnum "RIP"); f "MPR" bool01; f "Paused" bool01; f "Options" (SFlags 1 "RIPOPT"); sp 1;
                             fu "CTime" (STime 4 1); fu "TTime" (STime 4 1); f "RName" (SText 64)] STNone;
  mkSS "IS_SSH" "Ssh" 49 40 [reqi; f "Error" (SEnum "SSH"); sp 4; f "Name" (SText 32)] STNone;
  mkSS "IS_CON" "Con" 50 40 [reqi; sp 1; f "SpClose" (SFlags 2 "SPCLOSE"); f "Time" (STime 2 10); SSub "A" "" CarContact; SSub "B" "" CarContact] STNone;
  mkSS "IS_OBH" "Obh" 51 24 [reqi; f "PLID" byte; f "SpClose" (SFlags 2 "SPCLOSE"); f "Time" (STime 2 10); SSub "C" "" CarContOBJ;
                             f "X" short; f "Y" short; f "Zbyte" byte; sp 1; f "Index" byte; fa "OBHFlags" "flags" (SFlags 1 "OBH")] STNone;
  mkSS "IS_HLV" "Hlv" 52 16 [reqi; f "PLID" byte; f "HLVC" (SEnum "HLVC"); sp 1; f "Time" (STime 2 10); SSub "C" "" CarContOBJ] STNone;
  mkSS "IS_PLC" "Plc" 53 12 [reqi; sp 1; f "UCID" byte; sp 3; f "Cars" (SFlags 4 "CARS")] STNone;
  mkSS "IS_AXM" "Axm" 54 8 [reqi; f "NumO" SCount; f "UCID" byte; f "PMOAction" (SEnum "PMO"); f "PMOFlags" (SFlags 1 "PMOF"); sp 1] (STArray ObjectInfo 60 1 0);
  mkSS "IS_ACR" "Acr" 55 8 [reqi; sp 1; f "UCID" byte; f "Admin" bool01; f "Result" (SEnum "ACR"); sp 1] (STText 64 4);
  mkSS "IS_HCP" "Hcp" 56 68 [reqi; sp 1; SRep "Info" "" 32 CarHCP] STNone;
  mkSS "IS_NCI" "Nci" 57 16 [reqi; f "UCID" byte; f "Language" (SEnum "LFS"); f "License" (SEnum "LICENSE"); sp 2; f "UserID" unsigned; f "IPAddress" unsigned] STNone;
  mkSS "IS_JRR" "Jrr" 58 16 [reqi; f "PLID" byte; f "UCID" byte; f "JRRAction" (SEnum "JRR"); sp 2; SSub "StartPos" "" ObjectInfo] STNone;
  mkSS "IS_UCO" "Uco" 59 28 [reqi; f "PLID" byte; sp 1; f "UCOAction" (SEnum "UCO"); sp 2; f "Time" (STime 4 10); SSub "C" "" CarContOBJ; SSub "Info" "" ObjectInfo] STNone;
  mkSS "IS_OCO" "Oco" 60 8 [reqi; sp 1; f "OCOAction" (SEnum "OCO"); f "Index" (SEnum "OCOINDEX"); f "Identifier" byte; f "Data" (SFlags 1 "OCOLIGHTS")] STNone;
  mkSS "IS_TTC" "Ttc" 61 8 [reqi; f "SubT" (SEnum "TTC"); f "UCID" byte; f "B1" byte; f "B2" byte; f "B3" byte] STNone;
  mkSS "IS_SLC" "Slc" 62 8 [reqi; f "UCID" byte; f "CName" (SOpaque 4)] STNone;
  mkSS "IS_CSC" "Csc" 63 20 [reqi; f "PLID" byte; sp 1; f "CSCAction" (SEnum "CSC"); sp 2; f "Time" (STime 4 10); SSub "C" "" CarContOBJ] STNone;
  mkSS "IS_CIM" "Cim" 64 8 [reqi; f "UCID" byte; f "Mode" (SOpaque 3); sp 1] STNone;
  mkSS "IS_MAL" "Mal" 65 8 [reqi; f "NumM" SCount; f "UCID" byte; sp 3] (STWords 120);
  mkSS "IS_PLH" "Plh" 66 4 [reqi; f "NumP" SCount] (STArray PlayerHCap 40 1 0);
  mkSS "IS_IPB" "Ipb" 67 8 [reqi; f "NumB" SCount; sp 4] (STWords 120);
  (* InSim Relay *)
  mkSS "IR_ARQ" "RelayArq" 250 4 [reqi; sp 1] STNone;
  mkSS "IR_ARP" "RelayArp" 251 4 [reqi; f "Admin" bool01] STNone;
  mkSS "IR_HLR" "RelayHlr" 252 4 [reqi; sp 1] STNone;
  mkSS "IR_HOS" "RelayHos" 253 4 [reqi; f "NumHosts" SCount] (STArray HostInfo 6 1 0);
  mkSS "IR_SEL" "RelaySel" 254 68 [reqi; sp 1; f "HName" (SText 32); f "Admin" (SText 16); f "Spec" (SText 16)] STNone;
  mkSS "IR_ERR" "RelayErr" 255 4 [reqi; fa "ErrNo" "err" (SEnum "IRERR")] STNone
].

(* ---------------- enumerations and bit flags ---------------- *)
Definition v (n : string) (x : N) := mkSE n "" x false Asserted true.
Definition va (n c : string) (x : N) := mkSE n c x false Asserted true.      (* the implementation uses another name *)
Definition vr (n : string) (x : N) := mkSE n "" x true Asserted true.         (* reserved / spare / unused in the specification *)
Definition vu (n : string) (x : N) := mkSE n "" x false Unasserted false.
(* value asserted, name not (the specification gives a number and a comment, not an identifier) *)
Definition vn (c : string) (x : N) := mkSE c "" x false Asserted false.
Local Open Scope N_scope.

Fixpoint seq_from (i : N) (names : list string) : list sentry :=
  match names with nil => nil | cons n r => cons (v n i) (seq_from (i + 1) r) end.
Definition seq_entries (names : list string) : list sentry := seq_from 0 names.

Definition tables : list stable := [
  mkST "TINY" "TINY_" (seq_entries ["NONE"; "VER"; "CLOSE"; "PING"; "REPLY"; "VTC"; "SCP"; "SST"; "GTH"; "MPE"; "ISM"; "REN"; "CLR"; "NCN"; "NPL";
                                    "RES"; "NLP"; "MCI"; "REO"; "RST"; "AXI"; "AXC"; "RIP"; "NCI"; "ALC"; "AXM"; "SLC"; "MAL"; "PLH"; "IPB"]);
  (* SMALL_AII (11) belongs to the later revision of the document that also adds IS_AIC / IS_AII: unasserted *)
  mkST "SMALL" "SMALL_" (seq_entries ["NONE"; "SSP"; "SSG"; "VTA"; "TMS"; "STP"; "RTP"; "NLI"; "ALC"; "LCS"; "LCL"] ++ [vu "AII" 11]);
  (* IS_CIM: interface mode, and the sub-mode numbering of the three modes that have one *)
  mkST "CIM" "CIM_" (seq_entries ["NORMAL"; "OPTIONS"; "HOST_OPTIONS"; "GARAGE"; "CAR_SELECT"; "TRACK_SELECT"; "SHIFTU"]);
  mkST "NRM" "NRM_" (seq_entries ["NORMAL"; "WHEEL_TEMPS"; "WHEEL_DAMAGE"; "LIVE_SETTINGS"; "PIT_INSTRUCTIONS"]);
  mkST "GRG" "GRG_" (seq_entries ["INFO"; "COLOURS"; "BRAKE_TC"; "SUSP"; "STEER"; "DRIVE"; "TYRES"; "AERO"; "PASS"]);
  mkST "FVM" "FVM_" (seq_entries ["PLAIN"; "BUTTONS"; "EDIT"]);
  mkST "TTC" "TTC_" [vr "NONE" 0; v "SEL" 1; v "SEL_START" 2; v "SEL_STOP" 3];
  mkST "VIEW" "VIEW_" [v "FOLLOW" 0; v "HELI" 1; v "CAM" 2; v "DRIVER" 3; v "CUSTOM" 4; v "ANOTHER" 255];
  mkST "RACEINPROG" "" [vn "No" 0; vn "Racing" 1; vn "Qualifying" 2];
  mkST "WIND" "" [va "off" "None" 0; v "weak" 1; v "strong" 2];
  mkST "MSO" "MSO_" [v "SYSTEM" 0; v "USER" 1; v "PREFIX" 2; v "O" 3];
  mkST "SND" "SND_" [v "SILENT" 0; v "MESSAGE" 1; v "SYSMESSAGE" 2; v "INVALIDKEY" 3; v "ERROR" 4];
  mkST "VOTE" "VOTE_" [v "NONE" 0; v "END" 1; v "RESTART" 2; v "QUALIFY" 3];
  mkST "LEAVR" "LEAVR_" (seq_entries ["DISCO"; "TIMEOUT"; "LOSTCONN"; "KICKED"; "BANNED"; "SECURITY"; "CPW"; "OOS"; "JOOS"; "HACK"]);
  mkST "TYRE" "TYRE_" [v "R1" 0; v "R2" 1; v "R3" 2; v "R4" 3; v "ROAD_SUPER" 4; v "ROAD_NORMAL" 5; v "HYBRID" 6; v "KNOBBLY" 7; va "NOT_CHANGED" "NoChange" 255];
  mkST "PENALTY" "PENALTY_" [v "NONE" 0; v "DT" 1; v "DT_VALID" 2; v "SG" 3; v "SG_VALID" 4; va "30" "Seconds30" 5; va "45" "Seconds45" 6];
  mkST "PENR" "PENR_" (seq_entries ["UNKNOWN"; "ADMIN"; "WRONG_WAY"; "FALSE_START"; "SPEEDING"; "STOP_SHORT"; "STOP_LATE"]);
  mkST "PITLANE" "PITLANE_" (seq_entries ["EXIT"; "ENTER"; "NO_PURPOSE"; "DT"; "SG"]);
  mkST "FLG" "" [vn "Blue" 1; vn "Yellow" 2];
  mkST "BFN" "BFN_" [v "DEL_BTN" 0; v "CLEAR" 1; v "USER_CLEAR" 2; va "REQUEST" "BtnRequest" 3];
  mkST "RIP" "RIP_" (seq_entries ["OK"; "ALREADY"; "DEDICATED"; "WRONG_MODE"; "NOT_REPLAY"; "CORRUPTED"; "NOT_FOUND"; "UNLOADABLE"; "DEST_OOB"; "UNKNOWN"; "USER"; "OOS"]);
  mkST "SSH" "SSH_" (seq_entries ["OK"; "DEDICATED"; "CORRUPTED"; "NO_SAVE"]);
  mkST "HLVC" "" [vn "Ground" 0; vn "Wall" 1; vn "Speeding" 4; vn "OutOfBounds" 5];
  mkST "PMO" "PMO_" (seq_entries ["LOADING_FILE"; "ADD_OBJECTS"; "DEL_OBJECTS"; "CLEAR_ALL"; "TINY_AXM"; "TTC_SEL"; "SELECTION"; "POSITION"; "GET_Z"]);
  mkST "ACR" "" [vn "Processed" 1; vn "Rejected" 2; vn "UnknownCommand" 3];
  mkST "LFS" "LFS_" (seq_entries ["ENGLISH"; "DEUTSCH"; "PORTUGUESE"; "FRENCH"; "SUOMI"; "NORSK"; "NEDERLANDS"; "CATALAN"; "TURKISH"; "CASTELLANO";
                                  "ITALIANO"; "DANSK"; "CZECH"; "RUSSIAN"; "ESTONIAN"; "SERBIAN"; "GREEK"; "POLSKI"; "CROATIAN"; "HUNGARIAN";
                                  "BRAZILIAN"; "SWEDISH"; "SLOVAK"; "GALEGO"; "SLOVENSKI"; "BELARUSSIAN"; "LATVIAN"; "LITHUANIAN";
                                  "TRADITIONAL_CHINESE"; "SIMPLIFIED_CHINESE"; "JAPANESE"; "KOREAN"; "BULGARIAN"; "LATINO"; "UKRAINIAN"; "INDONESIAN"; "ROMANIAN"]);
  mkST "LICENSE" "" [vn "Demo" 0; vn "S1" 1; vn "S2" 2; vn "S3" 3];
  mkST "JRR" "JRR_" [v "REJECT" 0; v "SPAWN" 1; vr "2" 2; vr "3" 3; v "RESET" 4; v "RESET_NO_REPAIR" 5; vr "6" 6; vr "7" 7];
  mkST "UCO" "UCO_" (seq_entries ["CIRCLE_ENTER"; "CIRCLE_LEAVE"; "CP_FWD"; "CP_REV"]);
  mkST "OCO" "OCO_" [vr "ZERO" 0; vr "1" 1; vr "2" 2; vr "3" 3; v "LIGHTS_RESET" 4; v "LIGHTS_SET" 5; v "LIGHTS_UNSET" 6];
  mkST "OCOINDEX" "" [va "AXO_START_LIGHTS" "AxoStartLights1" 149; va "OCO_INDEX_MAIN" "MainLights" 240];
  mkST "CSC" "CSC_" [v "STOP" 0; v "START" 1];
  mkST "IRERR" "IR_ERR_" [va "PACKET" "InvalidPacketLength" 1; va "PACKET2" "InvalidPacketType" 2; va "HOSTNAME" "InvalidHostname" 3;
                          va "ADMIN" "BadAdminPassword" 4; va "SPEC" "BadSpectatorPassword" 5; va "NOSPEC" "MissingSpectatorPassword" 6];
  (* bit flags *)
  mkST "ISF" "ISF_" [vr "RES_0" 1; vr "RES_1" 2; v "LOCAL" 4; v "MSO_COLS" 8; v "NLP" 16; v "MCI" 32; v "CON" 64; v "OBH" 128; v "HLV" 256;
                     v "AXM_LOAD" 512; v "AXM_EDIT" 1024; v "REQ_JOIN" 2048];
  mkST "ISS" "ISS_" [v "GAME" 1; v "REPLAY" 2; va "PAUSED" "PAUSE" 4; v "SHIFTU" 8; v "DIALOG" 16; v "SHIFTU_FOLLOW" 32; v "SHIFTU_NO_OPT" 64; v "SHOW_2D" 128;
                     v "FRONT_END" 256; v "MULTI" 512; v "MPSPEEDUP" 1024; v "WINDOWED" 2048; v "SOUND_MUTE" 4096; v "VIEW_OVERRIDE" 8192;
                     v "VISIBLE" 16384; v "TEXT_ENTRY" 32768];
  mkST "SCHF" "" [vn "SHIFT" 1; vn "CTRL" 2];
  mkST "HOSTF" "HOSTF_" [v "CAN_VOTE" 1; v "CAN_SELECT" 2; v "MID_RACE" 32; v "MUST_PIT" 64; v "CAN_RESET" 128; v "FCV" 256; v "CRUISE" 512];
  mkST "NCNF" "" [vn "REMOTE" 4];
  mkST "PTYPE" "" [vn "FEMALE" 1; vn "AI" 2; vn "REMOTE" 4];
  mkST "PIF" "PIF_" [va "SWAPSIDE" "LEFTSIDE" 1; vr "RESERVED_2" 2; vr "RESERVED_4" 4; v "AUTOGEARS" 8; v "SHIFTER" 16; vr "RESERVED_32" 32; v "HELP_B" 64;
                     v "AXIS_CLUTCH" 128; v "INPITS" 256; v "AUTOCLUTCH" 512; v "MOUSE" 1024; v "KB_NO_HELP" 2048; v "KB_STABILISED" 4096; v "CUSTOM_VIEW" 8192];
  mkST "PASS" "" [vn "FRONT_MALE" 1; vn "FRONT_FEMALE" 2; vn "REAR_LEFT_MALE" 4; vn "REAR_LEFT_FEMALE" 8; vn "REAR_MIDDLE_MALE" 16; vn "REAR_MIDDLE_FEMALE" 32;
                  vn "REAR_RIGHT_MALE" 64; vn "REAR_RIGHT_FEMALE" 128];
  mkST "SETF" "SETF_" [v "SYMM_WHEELS" 1; v "TC_ENABLE" 2; v "ABS_ENABLE" 4];
  mkST "CONF" "CONF_" [v "MENTIONED" 1; v "CONFIRMED" 2; v "PENALTY_DT" 4; v "PENALTY_SG" 8; v "PENALTY_30" 16; v "PENALTY_45" 32; v "DID_NOT_PIT" 64];
  (* pit work: the bit number is the PSE_ enumeration index *)
  mkST "PSE" "PSE_" [v "NOTHING" 1; v "STOP" 2; v "FR_DAM" 4; v "FR_WHL" 8; v "LE_FR_DAM" 16; v "LE_FR_WHL" 32; v "RI_FR_DAM" 64; v "RI_FR_WHL" 128;
                     v "RE_DAM" 256; v "RE_WHL" 512; v "LE_RE_DAM" 1024; v "LE_RE_WHL" 2048; v "RI_RE_DAM" 4096; v "RI_RE_WHL" 8192;
                     v "BODY_MINOR" 16384; v "BODY_MAJOR" 32768; v "SETUP" 65536; v "REFUEL" 131072];
  mkST "CCI" "CCI_" [v "BLUE" 1; v "YELLOW" 2; v "LAG" 32; v "FIRST" 64; v "LAST" 128];
  mkST "OBH" "OBH_" [v "LAYOUT" 1; v "CAN_MOVE" 2; v "WAS_MOVING" 4; v "ON_SPOT" 8];
  mkST "PMOF" "PMO_" [v "FILE_END" 1; v "MOVE_MODIFY" 2; v "SELECTION_REAL" 4; v "AVOID_CHECK" 8];
  mkST "RIPOPT" "RIPOPT_" [v "LOOP" 1; v "SKINS" 2; v "FULL_PHYS" 4];
  mkST "ISB" "ISB_" [v "C1" 1; v "C2" 2; v "C4" 4; v "CLICK" 8; v "LIGHT" 16; v "DARK" 32; v "LEFT" 64; v "RIGHT" 128];
  mkST "ISBCLICK" "ISB_" [v "LMB" 1; v "RMB" 2; v "CTRL" 4; v "SHIFT" 8];
  mkST "INST" "INST_" [va "ALWAYS_ON" "ALWAYSON" 128];
  mkST "HCAP" "" [vn "MASS" 1; vn "TRES" 2; vn "SILENT" 128];
  mkST "HOS" "HOS_" [va "SPECPASS" "SPECTATE_PASSWORD_REQUIRED" 1; v "LICENSED" 2; v "S1" 4; v "S2" 8; v "FIRST" 64; v "LAST" 128];
  mkST "OCOLIGHTS" "" [vn "RED1" 1; vn "RED2" 2; vn "RED3" 4; vn "GREEN" 8];
  mkST "SPCLOSE" "" [vn "closing speed (low 12 bits)" 4095];
  mkST "CARS" "" [v "XF GTI" 1; v "XR GT" 2; v "XR GT TURBO" 4; va "RB4 GT" "RB4" 8; v "FXO TURBO" 16; v "LX4" 32; v "LX6" 64; v "MRT5" 128; v "UF 1000" 256;
                  v "RACEABOUT" 512; v "FZ50" 1024; v "FORMULA XR" 2048; v "XF GTR" 4096; v "UF GTR" 8192; v "FORMULA V8" 16384; v "FXO GTR" 32768;
                  v "XR GTR" 65536; v "FZ50 GTR" 131072; va "BMW SAUBER F1.06" "BWM_SAUBER_F1_06" 262144; v "FORMULA BMW FB02" 524288];
  (* IS_SMALL values (inside the hand-written SmallType codec) *)
  mkST "LCL" "LCL_" [v "SET_SIGNALS" 1; vr "SPARE_2" 2; v "SET_LIGHTS" 4; vr "SPARE_8" 8; v "SET_FOG_REAR" 16; v "SET_FOG_FRONT" 32; v "SET_EXTRA" 64;
                     vn "SIGNAL_LEFT" 65537; vn "SIGNAL_RIGHT" 131073; vn "SIGNAL_HAZARD" 196609; vn "LIGHT_SIDE" 262148; vn "LIGHT_LOW" 524292; vn "LIGHT_HIGH" 786436;
                     vn "FOG_REAR" 1048592; vn "FOG_FRONT" 2097184; vn "EXTRA" 4194368];
  mkST "LCS" "LCS_" [v "SET_SIGNALS" 1; v "SET_FLASH" 2; v "SET_HEADLIGHTS" 4; v "SET_HORN" 8; v "SET_SIREN" 16;
                     vn "SIGNAL_LEFT" 257; vn "SIGNAL_RIGHT" 513; vn "SIGNAL_HAZARD" 769; vn "FLASH_ON" 1026; vn "HEADLIGHTS_ON" 2052;
                     vn "HORN_1" 65544; vn "HORN_2" 131080; vn "HORN_3" 196616; vn "HORN_4" 262152; vn "HORN_5" 327688; vn "SIREN_FAST" 1048592; vn "SIREN_SLOW" 2097168]
].

(* which implementation table a specification table is compared with when no packet field links them
   (the tables used inside hand-written codecs) *)
Definition extra_links : list (string * string) := [("LCL", "LclFlags"); ("LCS", "LcsFlags"); ("MSO", "MsoUserType")].

(* valid content for the opaque fields (their formats are the subject of C13-C16 / C04), used when
   reference frames are built from this transcription: field name -> bytes *)
Definition opaque_defaults : list (string * list N) := [
  ("Version", [48; 46; 55; 70; 0; 0; 0; 0]);      (* "0.7F" *)
  ("Track", [66; 76; 49; 0; 0; 0]);               (* "BL1" *)
  ("CName", [88; 70; 71; 0]);                     (* "XFG" *)
  ("RaceLaps", [5]); ("Fuel", [50]); ("Fuel200", [50]); ("FuelAdd", [50]);
  ("SubT", [1; 10; 0; 0; 0]);                     (* SMALL_SSP, 10 *)
  ("Mode", [0; 0; 0]);                            (* CIM_NORMAL, NRM_NORMAL *)
  ("ThrBrk", [18]); ("CluHan", [52]); ("GearSp", [80])
].
