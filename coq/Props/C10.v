(* Props/C10.v — codepage text conversion is faithful, total and uses LFS's tables. The code
   tables of encoding_rs are an oracle constrained by the named hypotheses below (validated
   exhaustively by the harness); everything else is proved for all strings. *)
Require Import Coq.Strings.String.
Require Import Base.Bytes Gen.TextTab Text.Escape Text.EscapeProofs Text.Codepage Text.CodepageProofs Text.CodepageRoundtrip.
Local Open Scope N_scope.

(* round trip, all lengths, all orders of codepage switches, carets included: every string the encoder
   handles (every non-ASCII character in some codepage; a caret that is not the second half of an escaped
   caret is followed neither by a codepage letter other than the kept ^8 nor by a character that needs a
   codepage switch) survives encode-then-decode unchanged.  No condition on trail bytes: since 68d499a the
   decoder's scan takes both bytes of a double-byte character together. *)
Theorem c10_roundtrip : forall enc dec,
  (forall l c w, enc l c = Some w -> exists b1, 128 <= b1 /\ (w = [b1] \/ exists b2, w = [b1; b2])) ->
  (forall l, dec l [] = []) ->
  (forall l b r, is_ascii b = true -> dec l (b :: r) = b :: dec l r) ->
  (forall l c w r, enc l c = Some w -> dec l (w ++ r) = c :: dec l r) ->
  (forall l c b1 b2, enc l c = Some [b1; b2] -> lead l b1 = true) ->
  (forall l c b1, enc l c = Some [b1] -> lead l b1 = false) ->
  (forall bs, dec gen_propagate_letter bs = dec gen_default_codepage bs) ->
  forall s, safe enc gen_default_codepage false s = true ->
  to_lossy_string dec (to_lossy_bytes enc s) = s.
Proof. exact roundtrip. Qed.

(* in particular every caret-free string whose characters exist in some codepage *)
Theorem c10_caret_free_text_is_safe : forall enc s cur,
  Forall (fun c => is_caret c = false /\ encodable enc c) s -> safe enc cur false s = true.
Proof. exact safe_caret_free. Qed.

(* pure ASCII passes through byte for byte, both ways *)
Theorem c10_ascii_passthrough_bytes : forall enc s, forallb is_ascii s = true -> to_lossy_bytes enc s = s.
Proof. exact ascii_passthrough_bytes. Qed.
Theorem c10_ascii_passthrough_string : forall dec,
  (forall l bs, forallb is_ascii bs = true -> dec l bs = bs) ->
  forall bs, forallb is_ascii bs = true -> no_marker bs = true -> to_lossy_string dec bs = bs.
Proof. intros dec. exact (ascii_passthrough_string (fun _ _ => None) dec lead_ascii). Qed.

(* a character that exists in no codepage becomes '?' and its neighbours are encoded exactly as
   if it were not there *)
Theorem c10_unrepresentable_is_qmark : forall enc cur after a c b, unrepresentable enc c ->
  enc_from enc cur after (a ++ c :: b) =
    enc_from enc cur after a ++ qmark :: enc_from enc (fst (state_after enc cur after a)) false b /\
  (snd (state_after enc cur after a) = false ->
   enc_from enc cur after (a ++ b) = enc_from enc cur after a ++ enc_from enc (fst (state_after enc cur after a)) false b).
Proof. exact unrepresentable_is_qmark. Qed.

(* the letter -> codepage table regenerated from the source is LFS's assignment (1252 1253 1251
   1250 1254 1257 932 936 949 950; ^8 = 1252 and is the only letter kept in the text), the search
   order and default are letters, and the decoder does not sniff byte-order marks *)
Theorem c10_table_assignment : assignment_ok = true.
Proof. exact assignment_holds. Qed.

Theorem c10_fast_path_unobservable : forall enc s, to_lossy_bytes enc s = enc_from enc gen_default_codepage false s.
Proof. exact to_lossy_bytes_is_enc_from. Qed.
