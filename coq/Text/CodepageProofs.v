(* Text/CodepageProofs.v — C10 (and the C12 composition) over the codepage model. The table
   oracle is constrained only by named Section hypotheses; everything else is proved for all
   strings. *)
Require Import Coq.Strings.String.
Require Import Base.Bytes Gen.TextTab Text.Escape Text.EscapeProofs Text.Codepage.
Require Import Lia.
Local Open Scope N_scope.

(* LFS's assignment of Windows codepages to marker letters (hand transcription of the LFS
   documentation; encoding_rs names: 932 = SHIFT_JIS, 936 = GBK, 949 = EUC_KR, 950 = BIG5) *)
Definition lfs_assignment : list (N * string) :=
  [(76, "WINDOWS_1252"); (71, "WINDOWS_1253"); (67, "WINDOWS_1251"); (69, "WINDOWS_1250");
   (84, "WINDOWS_1254"); (66, "WINDOWS_1257"); (74, "SHIFT_JIS"); (83, "GBK"); (75, "EUC_KR");
   (72, "BIG5"); (56, "WINDOWS_1252")]%string.
Fixpoint slookup (k : N) (tab : list (N * string)) : option string :=
  match tab with [] => None | (a, b) :: t => if k =? a then Some b else slookup k t end.
Definition assignment_ok : bool :=
  forallb (fun '(l, nm) => match slookup l gen_codepage_tab with Some nm' => String.eqb nm nm' | None => false end) lfs_assignment &&
  forallb (fun '(l, _) => match slookup l lfs_assignment with Some _ => true | None => false end) gen_codepage_tab &&
  forallb (fun l => match slookup l gen_codepage_tab with Some _ => true | None => false end) gen_codepage_letters &&
  forallb is_letter gen_search_order && is_letter gen_default_codepage && is_letter gen_propagate_letter &&
  negb (existsb (N.eqb gen_propagate_letter) gen_search_order) && negb gen_decode_sniffs_bom.
Lemma assignment_holds : assignment_ok = true. Proof. vm_compute. reflexivity. Qed.

Section Proofs.
  Variable enc : N -> N -> option (list N).
  Variable dec : N -> list N -> list N.
  Notation enc_from := (enc_from enc).
  Notation state_after := (state_after enc).
  Notation to_lossy_bytes := (to_lossy_bytes enc).
  Notation dls := (dls dec).
  Notation to_lossy_string := (to_lossy_string dec).

  (* ---- pure ASCII passes through byte for byte ---- *)
  Lemma enc_from_ascii s : forall cur after, forallb is_ascii s = true -> enc_from cur after s = s.
  Proof.
    induction s as [|c t IH]; intros cur after; cbn [forallb Codepage.enc_from]; [reflexivity|].
    intros H. apply andb_prop in H as [Hc Ht]. rewrite Hc, (IH _ _ Ht). reflexivity.
  Qed.
  Theorem ascii_passthrough_bytes s : forallb is_ascii s = true -> to_lossy_bytes s = s.
  Proof. intros H. unfold Codepage.to_lossy_bytes. rewrite H. reflexivity. Qed.

  (* the fast path is not observable *)
  Theorem to_lossy_bytes_is_enc_from s : to_lossy_bytes s = enc_from gen_default_codepage false s.
  Proof.
    unfold Codepage.to_lossy_bytes. destruct (forallb is_ascii s) eqn:E; [|reflexivity].
    symmetry. apply enc_from_ascii. exact E.
  Qed.

  (* ---- a character no codepage has becomes '?', neighbours untouched ---- *)
  Lemma enc_from_app a : forall cur after b,
    enc_from cur after (a ++ b) =
    enc_from cur after a ++ enc_from (fst (state_after cur after a)) (snd (state_after cur after a)) b.
  Proof.
    induction a as [|c t IH]; intros cur after b; cbn [app Codepage.enc_from Codepage.state_after fst snd]; [reflexivity|].
    destruct (is_ascii c); [rewrite IH; reflexivity|].
    destruct (enc cur c) as [w|]; [rewrite IH, app_assoc; reflexivity|].
    destruct (search enc gen_search_order cur c) as [[k w]|].
    - rewrite IH. cbn [app]. rewrite app_assoc. reflexivity.
    - rewrite IH. reflexivity.
  Qed.

  Definition unrepresentable (c : N) : Prop :=
    is_ascii c = false /\ forall l, enc l c = None.

  Lemma search_none cands cur c : (forall l, enc l c = None) -> search enc cands cur c = None.
  Proof. intros H. induction cands as [|k t IH]; cbn [search]; [reflexivity|]. rewrite (H k). destruct (k =? cur); exact IH. Qed.

  (* the bytes produced for the neighbours a and b are the same with or without c between them
     (when a does not end in a caret; a trailing caret belongs to a marker the text itself starts) *)
  Theorem unrepresentable_is_qmark cur after a c b : unrepresentable c ->
    enc_from cur after (a ++ c :: b) =
      enc_from cur after a ++ qmark :: enc_from (fst (state_after cur after a)) false b /\
    (snd (state_after cur after a) = false ->
     enc_from cur after (a ++ b) = enc_from cur after a ++ enc_from (fst (state_after cur after a)) false b).
  Proof.
    intros [Hna Hno]. split.
    - rewrite enc_from_app. f_equal. cbn [Codepage.enc_from]. rewrite Hna, (Hno _), (search_none _ _ _ Hno). reflexivity.
    - intros Hs. rewrite enc_from_app, Hs. reflexivity.
  Qed.

  (* ---- decoding ASCII text without marker pairs is one decode in the default codepage ----
     (markers are found by the decoder's own left-to-right scan: an escaped caret is a pair) *)
  Fixpoint no_marker (bs : list N) : bool :=
    match bs with
    | [] => true
    | b :: t => match t with
                | l :: t' => if is_caret b then (if is_letter l then false else if is_caret l then no_marker t' else no_marker t)
                             else no_marker t
                | [] => true
                end
    end.

  Lemma no_marker_cons2 b l t' :
    no_marker (b :: l :: t') =
    if is_caret b then (if is_letter l then false else if is_caret l then no_marker t' else no_marker (l :: t')) else no_marker (l :: t').
  Proof. reflexivity. Qed.

  Hypothesis lead_ascii : forall l b, is_ascii b = true -> lead l b = false.

  Lemma dls_cons2 cur acc b l t' :
    dls cur acc (b :: l :: t') =
    if is_caret b then
      if is_letter l then dec cur (rev acc) ++ (if l =? gen_propagate_letter then [caret; l] else []) ++ dls l [] t'
      else if is_caret l then dls cur (l :: b :: acc) t'
      else dls cur (b :: acc) (l :: t')
    else if lead cur b then dls cur (l :: b :: acc) t'
    else dls cur (b :: acc) (l :: t').
  Proof. reflexivity. Qed.

  Lemma dls_no_marker n : forall bs cur acc, (length bs <= n)%nat -> forallb is_ascii bs = true -> no_marker bs = true ->
    dls cur acc bs = dec cur (rev acc ++ bs).
  Proof.
    induction n as [|n IH]; intros bs cur acc Hlen Ha Hm.
    - destruct bs; [|cbn in Hlen; lia]. cbn [Codepage.dls]. rewrite app_nil_r. reflexivity.
    - destruct bs as [|b t]; [cbn [Codepage.dls]; rewrite app_nil_r; reflexivity|].
      cbn [length] in Hlen. cbn [forallb] in Ha. apply andb_prop in Ha as [Hab Hat].
      destruct t as [|l t']; [cbn [Codepage.dls rev]; reflexivity|].
      rewrite dls_cons2. rewrite no_marker_cons2 in Hm.
      destruct (is_caret b) eqn:Hc.
      + destruct (is_letter l); [discriminate|]. destruct (is_caret l).
        * cbn [forallb] in Hat. apply andb_prop in Hat as [Hal Hat'].
          rewrite (IH t' cur (l :: b :: acc)); [|cbn [length] in Hlen; lia|exact Hat'|exact Hm].
          cbn [rev]. rewrite <- !app_assoc. reflexivity.
        * rewrite (IH (l :: t') cur (b :: acc)); [|cbn [length] in Hlen |- *; lia|exact Hat|exact Hm].
          cbn [rev]. rewrite <- app_assoc. reflexivity.
      + rewrite (lead_ascii _ _ Hab).
        rewrite (IH (l :: t') cur (b :: acc)); [|cbn [length] in Hlen |- *; lia|exact Hat|exact Hm].
        cbn [rev]. rewrite <- app_assoc. reflexivity.
  Qed.

  Hypothesis dec_ascii : forall l bs, forallb is_ascii bs = true -> dec l bs = bs.

  Theorem ascii_passthrough_string bs : forallb is_ascii bs = true -> no_marker bs = true ->
    to_lossy_string bs = bs.
  Proof.
    intros Ha Hm. unfold Codepage.to_lossy_string. destruct bs as [|b t]; [reflexivity|].
    rewrite (dls_no_marker (length (b :: t)) _ _ _ (le_n _) Ha Hm). cbn [rev app]. apply dec_ascii. exact Ha.
  Qed.
End Proofs.
