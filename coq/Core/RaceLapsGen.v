(* Core/RaceLapsGen.v — RaceLaps <-> u8 exactly as the two `From` impls of racelaps.rs say it, evaluated over the arms
   the translator regenerates (Gen/RaceLapsTab.v).  No proofs here. *)
Require Import Base.Bytes Core.ExprDefs Gen.RaceLapsTab.
Local Open Scope N_scope.

Definition pick4 (arms : list (N * N * N * expr)) (x : N) : option (N * expr) :=
  pick (map (fun a => let '(lo, hi, tag, e) := a in (lo, hi, (tag, e))) arms) x.

(* From<u8> for RaceLaps: (tag, payload) *)
Definition rl_dec (b : N) : N * N :=
  match pick4 gen_racelaps_dec_arms b with
  | Some (tag, e) => (tag, eval e b)
  | None => (fst gen_racelaps_dec_default, eval (snd gen_racelaps_dec_default) b)
  end.

(* From<RaceLaps> for u8, narrowed `as u8` *)
Definition rl_enc (tag n : N) : N :=
  (if tag =? 1 then match pick gen_racelaps_enc_laps n with Some e => eval e n | None => eval gen_racelaps_enc_laps_default n end
   else if tag =? 2 then match pick gen_racelaps_enc_hours n with Some e => eval e n | None => eval gen_racelaps_enc_hours_default n end
   else 0) mod 256.
