(* Text/CodepageRoundtrip.v — C10 round trip: to_lossy_string (to_lossy_bytes s) = s for every
   string the encoder handles safely, for all lengths and all orders of codepage switches.
   The code tables are constrained by three named hypotheses (validated exhaustively on
   encoding_rs by the harness). *)
Require Import Coq.Strings.String.
Require Import Base.Bytes Gen.TextTab Text.Escape Text.EscapeProofs Text.Codepage Text.CodepageProofs.
Local Open Scope N_scope.

Section RT.
  Variable enc : N -> N -> option (list N).
  Variable dec : N -> list N -> list N.
  Notation enc_from := (enc_from enc).
  Notation dls := (dls dec).

  (* table oracle hypotheses *)
  Hypothesis enc_shape : forall l c w, enc l c = Some w ->
    exists b1, 128 <= b1 /\ (w = [b1] \/ exists b2, w = [b1; b2]).
  Hypothesis dec_nil : forall l, dec l [] = [].
  Hypothesis dec_ascii_cons : forall l b r, is_ascii b = true -> dec l (b :: r) = b :: dec l r.
  Hypothesis dec_enc_app : forall l c w r, enc l c = Some w -> dec l (w ++ r) = c :: dec l r.

  (* table facts about the generated letter set *)
  Definition letters_ok : bool :=
    forallb is_ascii gen_codepage_letters && negb (is_letter caret) && negb (is_letter qmark) &&
    forallb is_letter gen_search_order && negb (existsb (N.eqb gen_propagate_letter) gen_search_order) && is_ascii caret.
  Lemma letters_hold : letters_ok = true. Proof. vm_compute. reflexivity. Qed.

  Lemma letter_is_ascii b : is_letter b = true -> is_ascii b = true.
  Proof.
    intros H. pose proof letters_hold as T. unfold letters_ok in T.
    do 5 (apply andb_prop in T as [T _]). rewrite forallb_forall in T.
    unfold is_letter in H. apply existsb_exists in H as [x [Hin Hx]]. apply N.eqb_eq in Hx. subst x. exact (T _ Hin).
  Qed.
  Lemma caret_not_letter : is_letter caret = false.
  Proof. pose proof letters_hold as T. unfold letters_ok in T. do 4 (apply andb_prop in T as [T _]).
         apply andb_prop in T as [_ T]. apply negb_true_iff in T. exact T. Qed.
  Lemma qmark_not_letter : is_letter qmark = false.
  Proof. pose proof letters_hold as T. unfold letters_ok in T. do 3 (apply andb_prop in T as [T _]).
         apply andb_prop in T as [_ T]. apply negb_true_iff in T. exact T. Qed.
  Lemma high_not_letter b : 128 <= b -> is_letter b = false.
  Proof.
    intros H. destruct (is_letter b) eqn:E; [|reflexivity]. apply letter_is_ascii in E.
    unfold is_ascii in E. apply N.ltb_lt in E. lia.
  Qed.
  Lemma high_not_caret b : 128 <= b -> is_caret b = false.
  Proof. intros H. unfold is_caret. apply N.eqb_neq. intros ->. vm_compute in H. apply H. reflexivity. Qed.

  Lemma search_letter cands cur c k w : forallb is_letter cands = true ->
    search enc cands cur c = Some (k, w) -> is_letter k = true /\ enc k c = Some w /\ In k cands.
  Proof.
    induction cands as [|x t IH]; cbn [search forallb]; [discriminate|].
    intros H. apply andb_prop in H as [Hx Ht].
    destruct (x =? cur).
    - intros Hs. destruct (IH Ht Hs) as [A [B C]]. repeat split; auto. right. exact C.
    - destruct (enc x c) as [w'|] eqn:E.
      + intros [= -> ->]. repeat split; auto. left. reflexivity.
      + intros Hs. destruct (IH Ht Hs) as [A [B C]]. repeat split; auto. right. exact C.
  Qed.

  (* ---- the decoder pushes a byte that does not start a marker ---- *)
  Lemma dls_push cur acc b t :
    match t with l :: _ => is_caret b && is_letter l = false | [] => True end ->
    dls cur acc (b :: t) = dls cur (b :: acc) t.
  Proof. destruct t as [|l t']; cbn [Codepage.dls]; [reflexivity|]. intros ->. reflexivity. Qed.

  (* ---- safety of a string w.r.t. the encoder's own choices ---- *)
  Definition ends_in_caret (w : list N) : bool := is_caret (last w 0).
  Definition ok_after (w : list N) (t : list N) : bool :=
    negb (ends_in_caret w) || match t with d :: _ => negb (is_letter d) | [] => true end.
  Fixpoint safe (cur : N) (s : list N) : bool :=
    match s with
    | [] => true
    | c :: t =>
        if is_ascii c then negb (is_caret c) && safe cur t
        else match enc cur c with
             | Some w => ok_after w t && safe cur t
             | None => match search enc gen_search_order cur c with
                       | Some (k, w) => ok_after w t && safe k t
                       | None => false
                       end
             end
    end.

  (* first byte of what the encoder emits next *)
  Lemma hd_enc_from_letter cur after t l r : enc_from cur after t = l :: r -> is_letter l = true ->
    exists d t', t = d :: t' /\ d = l.
  Proof.
    destruct t as [|d t']; cbn [Codepage.enc_from]; [discriminate|].
    destruct (is_ascii d) eqn:Ha.
    - intros [= <- _] _. eauto.
    - destruct (enc cur d) as [w|] eqn:E.
      + destruct (enc_shape _ _ _ E) as [b1 [Hb [->|[b2 ->]]]]; cbn [app]; intros [= <- _] Hl;
          rewrite (high_not_letter _ Hb) in Hl; discriminate.
      + destruct (search enc gen_search_order cur d) as [[k w]|].
        * intros [= <- _] Hl. rewrite caret_not_letter in Hl. discriminate.
        * intros [= <- _] Hl. rewrite qmark_not_letter in Hl. discriminate.
  Qed.

  (* a unit w (the encoding of one character) is pushed whole *)
  Lemma dls_unit cur acc l c w t cur' :
    enc l c = Some w -> ok_after w t = true ->
    dls cur acc (w ++ enc_from cur' false t) = dls cur (rev w ++ acc) (enc_from cur' false t).
  Proof.
    intros E Hok. destruct (enc_shape _ _ _ E) as [b1 [Hb [->|[b2 ->]]]]; cbn [app rev].
    - apply dls_push. destruct (enc_from cur' false t); [exact I|]. rewrite (high_not_caret _ Hb). reflexivity.
    - rewrite dls_push by (rewrite (high_not_caret _ Hb); reflexivity).
      apply dls_push. destruct (enc_from cur' false t) as [|x r] eqn:Ee; [exact I|].
      unfold ok_after, ends_in_caret in Hok. cbn [last] in Hok.
      destruct (is_caret b2) eqn:Hc; [|reflexivity]. cbn [negb orb] in Hok. cbn [andb].
      destruct (is_letter x) eqn:Hl; [|reflexivity]. exfalso.
      destruct (hd_enc_from_letter _ _ _ _ _ Ee Hl) as [d [t' [-> ->]]]. rewrite Hl in Hok. discriminate.
  Qed.

  (* invariant: [pre] are pending bytes of codepage cur that decode, followed by anything, to [p] *)
  Definition pending (cur : N) (pre p : list N) : Prop := forall X, dec cur (pre ++ X) = p ++ dec cur X.

  Lemma pending_nil cur : pending cur [] [].
  Proof. intros X. reflexivity. Qed.
  Lemma pending_ascii cur pre p b : pending cur pre p -> is_ascii b = true -> pending cur (pre ++ [b]) (p ++ [b]).
  Proof. intros H Hb X. rewrite <- !app_assoc. cbn [app]. rewrite H, dec_ascii_cons by exact Hb. reflexivity. Qed.
  Lemma pending_unit cur pre p c w : pending cur pre p -> enc cur c = Some w -> pending cur (pre ++ w) (p ++ [c]).
  Proof. intros H E X. rewrite <- !app_assoc. cbn [app]. rewrite H, (dec_enc_app _ _ _ _ E). reflexivity. Qed.

  Theorem dls_enc_from : forall s cur pre p,
    safe cur s = true -> pending cur pre p ->
    dls cur (rev pre) (enc_from cur false s) = p ++ s.
  Proof.
    pose proof letters_hold as T. unfold letters_ok in T.
    apply andb_prop in T as [T _]. apply andb_prop in T as [T Tprop]. apply andb_prop in T as [T Tso]. clear T.
    induction s as [|c t IH]; intros cur pre p Hs Hp; cbn [Codepage.enc_from].
    - cbn [Codepage.dls]. rewrite rev_involutive. specialize (Hp []). rewrite app_nil_r, dec_nil in Hp. exact Hp.
    - cbn [safe] in Hs. destruct (is_ascii c) eqn:Ha.
      + apply andb_prop in Hs as [Hnc Hs]. apply negb_true_iff in Hnc. cbn [andb]. rewrite Hnc.
        rewrite dls_push by (destruct (enc_from cur false t); [exact I|rewrite Hnc; reflexivity]).
        replace (c :: rev pre) with (rev (pre ++ [c])) by (rewrite rev_app_distr; reflexivity).
        rewrite (IH cur (pre ++ [c]) (p ++ [c]) Hs (pending_ascii _ _ _ _ Hp Ha)).
        rewrite <- app_assoc. reflexivity.
      + destruct (enc cur c) as [w|] eqn:E.
        * apply andb_prop in Hs as [Hok Hs].
          rewrite (dls_unit cur (rev pre) cur c w t cur E Hok).
          replace (rev w ++ rev pre) with (rev (pre ++ w)) by (rewrite rev_app_distr; reflexivity).
          rewrite (IH cur (pre ++ w) (p ++ [c]) Hs (pending_unit _ _ _ _ _ Hp E)).
          rewrite <- app_assoc. reflexivity.
        * destruct (search enc gen_search_order cur c) as [[k w]|] eqn:Es; [|discriminate].
          apply andb_prop in Hs as [Hok Hs].
          destruct (search_letter _ _ _ _ _ Tso Es) as [Hk [Ek Hin]].
          (* the encoder's own marker *)
          cbn [Codepage.dls]. destruct (w ++ enc_from k false t) as [|x r] eqn:Ew.
          { destruct (enc_shape _ _ _ Ek) as [b1 [_ [->|[b2 ->]]]]; discriminate. }
          replace (is_caret caret) with true by (symmetry; apply N.eqb_refl). rewrite Hk. cbn [andb].
          assert (k =? gen_propagate_letter = false) as Hnp.
          { apply N.eqb_neq. intros ->. apply negb_true_iff in Tprop.
            assert (existsb (N.eqb gen_propagate_letter) gen_search_order = true) by
              (apply existsb_exists; exists gen_propagate_letter; split; [exact Hin|apply N.eqb_refl]).
            congruence. }
          rewrite Hnp. cbn [app]. rewrite rev_involutive.
          specialize (Hp []) as Hp0. rewrite app_nil_r, dec_nil, app_nil_r in Hp0. rewrite Hp0.
          rewrite <- Ew. rewrite (dls_unit k [] k c w t k Ek Hok). rewrite app_nil_r.
          replace (rev w) with (rev ([] ++ w)) by reflexivity.
          rewrite (IH k ([] ++ w) ([] ++ [c]) Hs (pending_unit _ _ _ _ _ (pending_nil k) Ek)).
          reflexivity.
  Qed.

  (* C10: text whose characters exist in some codepage, without caret, and without a
     trail-byte-0x5E character directly before a marker letter, survives the round trip *)
  Theorem roundtrip s : safe gen_default_codepage s = true ->
    to_lossy_string dec (to_lossy_bytes enc s) = s.
  Proof.
    intros Hs. rewrite to_lossy_bytes_is_enc_from. unfold to_lossy_string.
    pose proof (dls_enc_from s gen_default_codepage [] [] Hs (pending_nil _)) as H. cbn [rev app] in H.
    destruct (enc_from gen_default_codepage false s) eqn:E; [|exact H].
    cbn [Codepage.dls rev] in H. rewrite dec_nil in H. exact H.
  Qed.

  (* a simple sufficient condition for [safe]: no caret, every non-ASCII character encodable
     somewhere, and no character of the string has an encoding ending in 0x5E *)
  Definition no_5e_trail (c : N) : Prop := forall l w, enc l c = Some w -> ends_in_caret w = false.
  Definition encodable (c : N) : Prop := is_ascii c = true \/ forall cur, enc cur c <> None \/ search enc gen_search_order cur c <> None.

  Theorem safe_sufficient s : forall cur,
    Forall (fun c => is_caret c = false /\ encodable c /\ no_5e_trail c) s -> safe cur s = true.
  Proof.
    pose proof letters_hold as T. unfold letters_ok in T.
    apply andb_prop in T as [T _]. apply andb_prop in T as [T _]. apply andb_prop in T as [_ Tso].
    induction s as [|c t IH]; intros cur Hall; [reflexivity|].
    inversion Hall as [|? ? [Hnc [Henc Hno]] Ht]; subst. cbn [safe].
    destruct (is_ascii c) eqn:Ha; [rewrite Hnc; cbn [negb andb]; apply IH; exact Ht|].
    destruct Henc as [Habs|Henc]; [congruence|].
    destruct (enc cur c) as [w|] eqn:E.
    - unfold ok_after. rewrite (Hno _ _ E). cbn [negb orb andb]. apply IH. exact Ht.
    - destruct (Henc cur) as [H|H]; [congruence|].
      destruct (search enc gen_search_order cur c) as [[k w]|] eqn:Es; [|congruence].
      destruct (search_letter _ _ _ _ _ Tso Es) as [_ [Ek _]].
      unfold ok_after. rewrite (Hno _ _ Ek). cbn [negb orb andb]. apply IH. exact Ht.
  Qed.
End RT.
