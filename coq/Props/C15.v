(* Props/C15.v — time and race-length conversions are exact, or refused - never wrong. *)
Require Import Coq.Strings.String.
Require Import Base.Bytes Wire.Layout Wire.Customs Wire.LayoutProofs Wire.CustomProofs Wire.Packet Gen.Packets Core.TimeProofs Core.ExprDefs Gen.RaceLapsTab Core.RaceLapsGen Core.RaceLapsGenProofs.
Local Open Scope N_scope.

(* every wire value of a scaled time field (any width, any scale > 0) decodes to a duration that
   re-encodes to the same wire value *)
Theorem c15_time_wire_roundtrip : forall w scale x, 0 < scale -> x < pow256 w ->
  dec_atom cdec (ADur w scale) (le_enc w x) = Ok (VN (x * scale), None) /\
  enc_atom cenc 0 (ADur w scale) (VN (x * scale)) = Ok (le_enc w x).
Proof. exact dur_wire_roundtrip. Qed.

(* encoding a duration rounds DOWN to the field's resolution, or is refused when out of range *)
Theorem c15_time_encode_floor_or_refuse : forall w scale ms,
  enc_atom cenc 0 (ADur w scale) (VN ms) = if ms / scale <? pow256 w then Ok (le_enc w (ms / scale)) else Err.
Proof. exact dur_encode_floor_or_refuse. Qed.
Theorem c15_time_encode_exact_value : forall w scale ms b,
  enc_atom cenc 0 (ADur w scale) (VN ms) = Ok b -> le_dec b = ms / scale /\ ms / scale < pow256 w.
Proof. exact dur_encode_exact_value. Qed.

(* the time fields of the regenerated layouts are 16/32-bit with resolution 1 ms or 10 ms *)
Theorem c15_all_time_fields_known :
  forallb (fun e => match snd e with KLayout l => layout_durs_ok l | KMso => true end) packet_table = true.
Proof. exact all_durations_known. Qed.

(* race length byte: 0..238 re-encode exactly; 239..255 are the documented practice fallback *)
Theorem c15_racelaps_wire_roundtrip : forall b, b <= 238 ->
  let '(tag, n) := racelaps_of_u8 b in racelaps_to_u8 tag n = b.
Proof. exact racelaps_wire_roundtrip. Qed.
Theorem c15_racelaps_reserved_bytes : forall b, 239 <= b -> racelaps_of_u8 b = (0, 0).
Proof. exact racelaps_reserved_bytes_are_practice. Qed.

(* the race-length model these theorems are about IS racelaps.rs: the two `From` impls, translated arm by arm on every run
   (Gen/RaceLapsTab.v: ranges and arithmetic), evaluate to the model for every byte and for every lap / hour count *)
Theorem c15_racelaps_model_is_the_source :
  (forall b, rl_dec b = racelaps_of_u8 b) /\ (forall tag n, rl_enc tag n = racelaps_to_u8 tag n).
Proof. exact (conj rl_dec_is_model rl_enc_is_model). Qed.

(* encode side, all lap and hour counts: practice, or the same count, or (100..1000 laps) the count
   rounded down to the 10-lap resolution - never another value *)
Theorem c15_racelaps_encode_never_wrong : forall tag n,
  let b := racelaps_to_u8 tag n in
  b = 0 \/ racelaps_of_u8 b = (tag, n) \/
  (tag = 1 /\ 100 <= n <= 1000 /\ racelaps_of_u8 b = (1, n - n mod 10)).
Proof. exact racelaps_encode_never_a_different_value. Qed.

(* the hand-written Small conversions: all 2^32 wire values of the 1/100 s and 1 ms sub-types, and
   refusal beyond the range *)
Theorem c15_small_durations_exact : forall d u, is_cs d = true \/ d = 7 -> u < u32max ->
  exists x, small_dec d u = Ok (d, x) /\ small_enc d x = Ok (d, u).
Proof. exact small_duration_wire_roundtrip. Qed.
Theorem c15_small_durations_refused_beyond_range : forall d x,
  is_cs d = true -> u32max <= x / 10 -> small_enc d x = Err.
Proof. exact small_duration_out_of_range_refused. Qed.

Example c15_example_hours : racelaps_to_u8 2 67 = 0 /\ racelaps_to_u8 2 0 = 0 /\ racelaps_to_u8 2 48 = 238 /\ racelaps_to_u8 1 199 = 109.
Proof. vm_compute. auto. Qed.
