(* Props/C14.v — the track table is coherent: code, wire bytes, flags and licence agree. *)
Require Import Coq.Strings.String.
Require Import Base.Bytes Core.Vehicle Wire.Layout Wire.Customs Wire.CustomProofs Gen.TrackTab Core.TrackProofs.
Local Open Scope N_scope.

(* for every configuration: wire form = code NUL-padded to 6 bytes, and decoding it returns the
   configuration (154 configurations, finite, stated) *)
Theorem c14_wire_form_is_padded_code : forall i, In i track_ids ->
  exists bs, track_write i = Ok bs /\ bs = pad6 (code_of i) /\ length bs = 6%nat /\ track_read bs = Ok i.
Proof. exact track_encode_decode. Qed.

(* no other byte string decodes to it: for ALL inputs, decode bs = i -> bs = encode i *)
Theorem c14_decode_unique : forall bs i, track_read bs = Ok i -> track_write i = Ok bs.
Proof. exact track_decode_unique. Qed.

(* reversed <-> code ends in R or Y; open <-> ends in X or Y; open => no lap distance *)
Theorem c14_flags_follow_the_code : forall i, In i track_ids ->
  memb i track_reverse_set = last_is (code_of i) [82; 89] /\
  memb i track_open_set = last_is (code_of i) [88; 89] /\
  (memb i track_open_set = true -> assoc i track_distance_tab = Some false).
Proof.
  intros i Hin. pose proof all_flags_ok as H. rewrite forallb_forall in H. specialize (H _ Hin).
  unfold flags_ok in H. apply andb_prop in H as [H Hd]. apply andb_prop in H as [Hr Ho].
  apply Bool.eqb_prop in Hr, Ho. split; [exact Hr|]. split; [exact Ho|].
  intros Hopen. rewrite Hopen in Hd. cbn [implb] in Hd.
  destruct (assoc i track_distance_tab) as [[|]|]; try discriminate. reflexivity.
Qed.

(* every configuration of one track area (first two letters) requires the same licence *)
Theorem c14_one_licence_per_area : forall i j, In i track_ids -> In j track_ids ->
  area i = area j -> exists l, lic i = Some l /\ lic j = Some l.
Proof.
  intros i j Hi Hj Ha. pose proof all_licence_ok as H. rewrite forallb_forall in H. specialize (H _ Hi).
  unfold licence_ok in H. rewrite forallb_forall in H. specialize (H _ Hj).
  rewrite Ha, list_eqb_refl in H. cbn [implb] in H.
  destruct (lic i) as [a|]; [|discriminate]. destruct (lic j) as [b|]; [|discriminate].
  apply N.eqb_eq in H. subst b. exists a. auto.
Qed.

Theorem c14_tables_complete : track_ids = map fst track_code_tab /\ N.of_nat (length track_ids) = track_count
  /\ forallb name_ok track_ids = true.
Proof. exact (conj (proj1 ids_complete) (conj (proj2 ids_complete) all_names_ok)). Qed.

Example c14_example : track_read [66; 76; 49; 82; 0; 0] = Ok 1 /\ memb 1 track_reverse_set = true. Proof. vm_compute. auto. Qed.
