(* Props/C02.v — the wire layout conforms to the InSim v9 / InSim-Relay specification. *)
Require Import Coq.Strings.String.
Require Import Base.Bytes Wire.Layout Wire.Customs Wire.CustomProofs Gen.Packets Net.Frame Wire.Packet Wire.PacketProofs.
Require Import Spec.Defs Spec.InSimV9 Spec.Conform Spec.ConformProofs.
Local Open Scope N_scope.

(* The layouts, type numbers and enum / flag tables REGENERATED from the Rust declarations agree with the
   independent transcription of the specification: per packet type the same struct name; field by field the
   same width (hence the same byte offset), kind (integer width, spare bytes, text width, time unit,
   enumeration, flag set), and name; the same variable tail; per enumeration / flag set every value the
   specification assigns exists under the same name, and no specification name carries another value. *)
Theorem c02_conforms_all_kinds : conforms_all = true.
Proof. vm_compute. reflexivity. Qed.

(* the same 73 packet types, number by number *)
Theorem c02_type_numbers :
  map (fun e => (fst (fst e), snd (fst e))) packet_table = map (fun s => (ss_type s, ss_code s)) structs.
Proof. vm_compute. reflexivity. Qed.

(* What that means for EVERY value (not per sample): in any successfully encoded frame of a declarative
   kind, bytes 0 and 1 are the size byte of the mode and the packet type, and the i-th declared field
   occupies exactly the bytes [2 + sum of the widths before it, + its width) in its atom's representation. *)
Theorem c02_fields_at_their_offsets : forall m ty vs tv fr l,
  find_kind ty packet_table = Some (KLayout l) ->
  frame_encode m (PV ty vs tv) = Ok fr ->
  exists size body, fr = size :: ty :: body /\
    encode_length m (length fr) = Ok size /\
    forall i n a v, nth_error (fixed l) i = Some (n, a) -> nth_error vs i = Some v ->
      exists bi, enc_atom cenc (tail_count tv) a v = Ok bi /\
                 firstn (awidth cwidth a) (skipn (2 + offset_of (fixed l) i) fr) = bi.
Proof. exact frame_header_and_fields. Qed.

(* representation per kind of field: little-endian integers / flags / times of the declared width, one byte
   per enumerant (a listed one), zero spare bytes, text truncated and NUL-padded to the width *)
Theorem c02_field_representation : forall cnt a v bi, enc_atom cenc cnt a v = Ok bi ->
  match a, v with
  | ANum w _, VN n => bi = le_enc w n /\ n < pow256 w
  | APad k, _ => bi = repeat 0 k
  | AEnum vals, VN n => bi = [n] /\ In n vals
  | AFlags w _, VN n => bi = le_enc w n /\ n < pow256 w
  | ABool, VN n => bi = [n] /\ n < 2
  | AChar8, VN n => bi = [n mod 256]
  | ACount w _, _ => bi = le_enc w (cnt mod pow256 w)
  | AText k z, VB bs => bi = write_text k z bs /\ length bi = k
  | ADur w scale, VN ms => bi = le_enc w (ms / scale) /\ ms / scale < pow256 w
  | _, _ => True
  end.
Proof. exact enc_atom_repr. Qed.

(* byte order: byte k of a w-byte field is digit k of the value in base 256 (least significant first) *)
Theorem c02_little_endian : forall w n k, (k < w)%nat -> nth k (le_enc w n) 0 = (n / 256 ^ N.of_nat k) mod 256.
Proof. exact le_enc_nth. Qed.

(* byte 2 of every frame is the request id: the first declared field of every kind is the one-byte reqi *)
Theorem c02_reqi_is_byte_2 : forallb (fun e => reqi_first (snd e)) packet_table = true.
Proof. exact all_reqi_first. Qed.

(* decoding direction: a frame the conforming encoder produced from in-domain values (i.e. a
   specification-conformant frame carrying those values) decodes to exactly those values (C01's theorem) *)
Theorem c02_decoding_recovers_the_values : forall m p fr rest,
  pindom p = true -> frame_encode m p = Ok fr -> frame_decode m (fr ++ rest) = Got p rest.
Proof. exact frame_roundtrip. Qed.

(* non-vacuity: the check rejects a deviating layout (the spare bytes of IS_PLC on the wrong side of UCID,
   the defect repaired by 07da63a) and a shifted flag table (PSE_, repaired by 3b57fe0) *)
Example c02_check_can_fail :
  struct_problems cwidth tables (mkSS "IS_PLC" "Plc" 53 12 [reqi; sp 1; f "UCID" byte; sp 3; f "Cars" (SFlags 4 "CARS")] STNone)
    {| fixed := [("reqi"%string, ANum 1 None); (""%string, APad 1); (""%string, APad 3); ("ucid"%string, ANum 1 None); ("cars"%string, AFlags 4 1048575)];
       ltail := TNone |} <> []
  /\ table_problems (mkST "PSE" "PSE_" [v "NOTHING" 1; v "STOP" 2]) [("NOTHING"%string, 2); ("STOP"%string, 4)] <> [].
Proof. vm_compute. split; discriminate. Qed.
