(* Props/C01.v — lossless packet round trip in both directions, every kind, both modes. *)
Require Import Coq.Strings.String Net.Concrete.
Require Import Base.Bytes Wire.Layout Wire.Customs Wire.LayoutProofs Wire.CustomProofs Wire.Packet Wire.PacketProofs.
Require Import Gen.Packets Net.Frame.
Local Open Scope N_scope.

(* encode then decode: for every kind in the generated table, every mode, every in-domain value
   assignment (full integer ranges, every enumerant, every subset of defined flag bits, nibbles,
   NUL-free text up to the field width, any element count that fits): the decoder returns exactly
   the packet, consuming exactly the frame, whatever follows it *)
Theorem c01_decode_encode : forall m p fr rest,
  pindom p = true -> frame_encode m p = Ok fr -> frame_decode m (fr ++ rest) = Got p rest.
Proof. exact frame_roundtrip. Qed.

(* decode then re-encode: a frame the encoder produced decodes to a packet that re-encodes to the
   identical bytes *)
Theorem c01_reencode_identical : forall m p fr p',
  pindom p = true -> frame_encode m p = Ok fr -> frame_decode m fr = Got p' [] ->
  frame_encode m p' = Ok fr.
Proof. exact frame_reencode_identical. Qed.

(* the same at the packet-body level (Packet::write / Packet::read) *)
Theorem c01_parse_unparse : forall p body,
  pindom p = true -> unparse p = Ok body -> parse body = Ok p.
Proof. exact parse_unparse. Qed.

(* the generic layout theorem behind it, for any layout and any customs meeting the interface *)
Theorem c01_layout_roundtrip :
  forall cwidth cenc cdec cindom,
  (forall c bs, cdec c bs <> Panic) ->
  (forall c v b, cenc c v = Ok b -> length b = cwidth c) ->
  (forall c v b, cindom c v = true -> cenc c v = Ok b -> cdec c b = Ok v) ->
  forall l vs tv b rest,
  sindom cindom l vs tv = true -> rest_ok (ltail l) rest -> enc_struct cenc l vs tv = Ok b ->
  dec_struct cwidth cdec l (b ++ rest) = Ok (vs, tv, rest).
Proof. exact dec_enc_struct. Qed.

(* the hand-written codecs (vehicle, track, race laps, fuel, Small, CIM, game version, nibbles)
   round-trip on their explicit domains *)
Theorem c01_customs_roundtrip : forall c v b, cindom c v = true -> cenc c v = Ok b -> cdec c b = Ok v.
Proof. exact c_roundtrip. Qed.

(* the codec of the source keeps no state between calls: its struct has the size mode as its only field (regenerated
   field names; the codec model is a pure function of the mode), and a connection struct has no field besides those
   the connection models carry *)
Theorem c01_codec_is_stateless_like_the_model : state_tied = true.
Proof. vm_compute. reflexivity. Qed.


(* non-vacuity *)
Example c01_example_domain_nonempty :
  pindom (PV 37 [VN 1; VU] (TVRows [[VN 258; VN 3; VN 4; VN 1]])) = true /\
  pindom (PV 4 [VN 0; VL [VN 1; VN 42949672950]] TVNone) = true /\
  pindom (PV 13 [VN 0; VU; VB [104; 105]] TVNone) = true.
Proof. vm_compute. auto. Qed.
