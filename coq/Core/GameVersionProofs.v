(* Core/GameVersionProofs.v — C16 over the game-version model. The three oracles are constrained
   by named hypotheses (validated by the harness: exhaustively over all non-negative f32 bit
   patterns in the thorough tier). *)
Require Import Base.Bytes Core.GameVersion.
Local Open Scope N_scope.

Section Proofs.
  Variable is_numeric : N -> bool.
  Variable parse_f32 : list N -> option N.
  Variable print_f32 : N -> list N.
  Variable parse_usize : list N -> option N.
  Variable print_usize : N -> list N.
  Notation parse := (parse is_numeric parse_f32 parse_usize).
  Notation print := (print print_f32 print_usize).

  Definition num_or_dot (c : N) : bool := is_numeric c || (c =? dot).

  (* oracle hypotheses *)
  Hypothesis numeric_ascii : forall c, c < 128 -> is_numeric c = is_digit c.
  Hypothesis print_f32_shape : forall x, x < inf_bits ->
    print_f32 x <> [] /\ forallb (fun c => is_digit c || (c =? dot)) (print_f32 x) = true.
  Hypothesis parse_print_f32 : forall x, x < inf_bits -> parse_f32 (print_f32 x) = Some x.
  Hypothesis print_usize_shape : forall p, print_usize p <> [] /\ forallb is_digit (print_usize p) = true.
  Hypothesis parse_print_usize : forall p, parse_usize (print_usize p) = Some p.
  Hypothesis parse_usize_empty : parse_usize [] = None.

  Lemma digit_lt c : is_digit c = true -> c < 128.
  Proof. unfold is_digit. intros H. apply andb_prop in H as [_ H]. apply N.leb_le in H. lia. Qed.
  Lemma alpha_lt c : is_alpha c = true -> c < 128.
  Proof. unfold is_alpha. intros H. apply orb_prop in H as [H|H]; apply andb_prop in H as [_ H]; apply N.leb_le in H; lia. Qed.
  Lemma alpha_not_numdot c : is_alpha c = true -> num_or_dot c = false.
  Proof.
    intros H. unfold num_or_dot. rewrite (numeric_ascii _ (alpha_lt _ H)).
    unfold is_alpha in H. unfold is_digit, dot.
    apply orb_prop in H as [H|H]; apply andb_prop in H as [H1 H2]; apply N.leb_le in H1, H2;
      (replace (c <=? 57) with false by (symmetry; apply N.leb_gt; lia)); rewrite andb_false_r; cbn [orb];
      apply N.eqb_neq; lia.
  Qed.
  Lemma alpha_not_numeric c : is_alpha c = true -> is_numeric c = false.
  Proof. intros H. pose proof (alpha_not_numdot c H) as Hn. unfold num_or_dot in Hn. apply orb_false_iff in Hn as [Hn _]. exact Hn. Qed.

  Lemma span_all (p : N -> bool) s : forallb p s = true -> forall r, (match r with c :: _ => p c = false | [] => True end) ->
    span p (s ++ r) = (s, r).
  Proof.
    induction s as [|c t IH]; cbn [forallb app]; intros H r Hr.
    - destruct r as [|c r']; [reflexivity|]. cbn [span]. rewrite Hr. reflexivity.
    - apply andb_prop in H as [Hc Ht]. cbn [span]. rewrite Hc, (IH Ht r Hr). reflexivity.
  Qed.

  Lemma digits_numdot s : forallb (fun c => is_digit c || (c =? dot)) s = true -> forallb num_or_dot s = true.
  Proof.
    intros H. apply forallb_forall. intros c Hin. rewrite forallb_forall in H. specialize (H c Hin).
    unfold num_or_dot. apply orb_prop in H as [H|H]; [|rewrite H; apply orb_true_r].
    rewrite (numeric_ascii _ (digit_lt _ H)), H. reflexivity.
  Qed.
  Lemma digits_numeric s : forallb is_digit s = true -> forallb is_numeric s = true.
  Proof.
    intros H. apply forallb_forall. intros c Hin. rewrite forallb_forall in H. specialize (H c Hin).
    rewrite (numeric_ascii _ (digit_lt _ H)). exact H.
  Qed.

  Lemma patch_loop_nonempty v s : s <> [] ->
    parse_patch_loop is_numeric parse_usize v s =
    let '(run, rest) := span is_numeric s in
    match parse_usize run with
    | None => PErr EPatch
    | Some p => match rest with
                | [] => POk {| v_major := v_major v; v_minor := v_minor v; v_patch := Some p |}
                | _ => match parse_usize [] with None => PErr EPatch | Some _ => PErr EPatch end
                end
    end.
  Proof. destruct s; [congruence|reflexivity]. Qed.

  (* the printed form of any version with a finite number and an alphabetic letter parses back to
     an equal version *)
  Theorem print_reparses v : v_major v < inf_bits -> is_alpha (v_minor v) = true -> to_upper (v_minor v) = v_minor v ->
    exists v', parse (print v) = POk v' /\ veq v v' = true.
  Proof.
    intros Hfin Halpha Hup. destruct (print_f32_shape _ Hfin) as [Hne Hshape].
    unfold GameVersion.print, GameVersion.parse.
    destruct (print_f32 (v_major v) ++ [v_minor v] ++ match v_patch v with Some p => print_usize p | None => [] end) eqn:E.
    { destruct (print_f32 (v_major v)); [congruence|discriminate]. }
    rewrite <- E. clear E.
    change (fun c : N => is_numeric c || (c =? dot)) with num_or_dot.
    rewrite (span_all num_or_dot (print_f32 (v_major v)) (digits_numdot _ Hshape)
               ([v_minor v] ++ match v_patch v with Some p => print_usize p | None => [] end))
      by (cbn [app]; apply alpha_not_numdot; exact Halpha).
    rewrite (parse_print_f32 _ Hfin). cbn [app]. rewrite Halpha, Hup.
    destruct (v_patch v) as [p|] eqn:Ep.
    - destruct (print_usize_shape p) as [Hpne Hpd].
      rewrite (patch_loop_nonempty _ _ Hpne).
      pose proof (span_all is_numeric (print_usize p) (digits_numeric _ Hpd) [] I) as Hsp.
      rewrite app_nil_r in Hsp. cbv zeta. rewrite Hsp.
      rewrite parse_print_usize. cbn [v_major v_minor].
      eexists. split; [reflexivity|]. unfold veq, patch0. cbn [v_major v_minor v_patch].
      rewrite Ep, !N.eqb_refl. reflexivity.
    - unfold parse_patch_loop. eexists. split; [reflexivity|]. unfold veq, patch0. cbn [v_major v_minor v_patch].
      rewrite Ep, !N.eqb_refl. reflexivity.
  Qed.

  (* whatever the parser returns has an upper-case ASCII letter, so (for a finite number) its printed
     form parses back to an equal version *)
  Lemma patch_loop_minor v s v' : parse_patch_loop is_numeric parse_usize v s = POk v' ->
    v_major v' = v_major v /\ v_minor v' = v_minor v.
  Proof.
    unfold parse_patch_loop. destruct s as [|c t]; [intros [= <-]; auto|].
    destruct (span is_numeric (c :: t)) as [run rest]. destruct (parse_usize run) as [p|]; [|discriminate].
    destruct rest; [intros [= <-]; auto|]. destruct (parse_usize []); discriminate.
  Qed.

  Lemma to_upper_idem c : to_upper (to_upper c) = to_upper c.
  Proof.
    unfold to_upper. destruct ((97 <=? c) && (c <=? 122)) eqn:E; [|rewrite E; reflexivity].
    apply andb_prop in E as [H1 H2]. apply N.leb_le in H1, H2.
    replace (97 <=? c - 32) with false by (symmetry; apply N.leb_gt; lia). reflexivity.
  Qed.
  Lemma to_upper_alpha c : is_alpha c = true -> is_alpha (to_upper c) = true.
  Proof.
    unfold is_alpha, to_upper. intros H. destruct ((97 <=? c) && (c <=? 122)) eqn:E.
    - apply andb_prop in E as [H1 H2]. apply N.leb_le in H1, H2. apply orb_true_iff. left.
      apply andb_true_iff. split; apply N.leb_le; lia.
    - rewrite E. exact H.
  Qed.

  Theorem parsed_version_shape s v : parse s = POk v ->
    is_alpha (v_minor v) = true /\ to_upper (v_minor v) = v_minor v.
  Proof.
    unfold GameVersion.parse. destruct s as [|c0 t0]; [intros [= <-]; split; reflexivity|].
    destruct (span (fun c => is_numeric c || (c =? dot)) (c0 :: t0)) as [mj r1].
    destruct (parse_f32 mj) as [m|]; [|discriminate].
    destruct r1 as [|c r2]; [intros [= <-]; split; reflexivity|].
    destruct (is_alpha c) eqn:Ha; [|discriminate]. intros H.
    destruct (patch_loop_minor _ _ _ H) as [_ Hm]. cbn [v_minor] in Hm. rewrite Hm.
    split; [apply to_upper_alpha; exact Ha|apply to_upper_idem].
  Qed.

  Theorem parse_print_parse s v : parse s = POk v -> v_major v < inf_bits ->
    exists v', parse (print v) = POk v' /\ veq v v' = true.
  Proof. intros H Hf. destruct (parsed_version_shape _ _ H) as [Ha Hu]. apply print_reparses; assumption. Qed.

  (* case-insensitive in the letter *)
  Theorem parse_case_insensitive mj c rest : forallb num_or_dot mj = true -> is_alpha c = true ->
    parse (mj ++ to_upper c :: rest) = parse (mj ++ c :: rest).
  Proof.
    intros Hmj Ha. unfold GameVersion.parse.
    destruct (mj ++ to_upper c :: rest) eqn:E1; [destruct mj; discriminate|]. rewrite <- E1. clear E1.
    destruct (mj ++ c :: rest) eqn:E2; [destruct mj; discriminate|]. rewrite <- E2. clear E2.
    change (fun c : N => is_numeric c || (c =? dot)) with num_or_dot.
    rewrite (span_all num_or_dot mj Hmj (to_upper c :: rest)) by (apply alpha_not_numdot, to_upper_alpha; exact Ha).
    rewrite (span_all num_or_dot mj Hmj (c :: rest)) by (apply alpha_not_numdot; exact Ha).
    destruct (parse_f32 mj); [|reflexivity]. rewrite Ha, (to_upper_alpha _ Ha), to_upper_idem. reflexivity.
  Qed.
End Proofs.

(* ---- the order: lexicographic over (number bits, letter, revision-or-0); a total order
   consistent with equality ---- *)
Lemma vcmp_refl a : vcmp a a = Eq.
Proof. unfold vcmp. rewrite !N.compare_refl. reflexivity. Qed.

Lemma vcmp_eq_iff a b : vcmp a b = Eq <-> veq a b = true.
Proof.
  unfold vcmp, veq. split.
  - destruct (v_major a ?= v_major b) eqn:E1; try discriminate.
    destruct (v_minor a ?= v_minor b) eqn:E2; try discriminate. intros E3.
    apply N.compare_eq_iff in E1, E2, E3. rewrite E1, E2, E3, !N.eqb_refl. reflexivity.
  - intros H. apply andb_prop in H as [H H3]. apply andb_prop in H as [H1 H2].
    apply N.eqb_eq in H1, H2, H3. rewrite H1, H2, H3, !N.compare_refl. reflexivity.
Qed.

Lemma vcmp_antisym a b : vcmp a b = CompOpp (vcmp b a).
Proof.
  unfold vcmp. rewrite (N.compare_antisym (v_major a) (v_major b)).
  destruct (v_major a ?= v_major b); cbn [CompOpp]; try reflexivity.
  rewrite (N.compare_antisym (v_minor a) (v_minor b)).
  destruct (v_minor a ?= v_minor b); cbn [CompOpp]; try reflexivity.
  apply N.compare_antisym.
Qed.

Lemma vcmp_lt_trans a b c : vcmp a b = Lt -> vcmp b c = Lt -> vcmp a c = Lt.
Proof.
  unfold vcmp.
  destruct (v_major a ?= v_major b) eqn:A1; destruct (v_major b ?= v_major c) eqn:B1; try discriminate.
  - apply N.compare_eq_iff in A1, B1. rewrite A1, B1, N.compare_refl.
    destruct (v_minor a ?= v_minor b) eqn:A2; destruct (v_minor b ?= v_minor c) eqn:B2; try discriminate.
    + apply N.compare_eq_iff in A2, B2. rewrite A2, B2, N.compare_refl. intros H1 H2.
      apply N.compare_lt_iff in H1, H2. apply N.compare_lt_iff. eapply N.lt_trans; eassumption.
    + apply N.compare_eq_iff in A2. rewrite A2, B2. reflexivity.
    + apply N.compare_eq_iff in B2. rewrite <- B2, A2. reflexivity.
    + intros _ _. apply N.compare_lt_iff in A2, B2.
      replace (v_minor a ?= v_minor c) with Lt by (symmetry; apply N.compare_lt_iff; eapply N.lt_trans; eassumption). reflexivity.
  - apply N.compare_eq_iff in A1. rewrite A1, B1. reflexivity.
  - apply N.compare_eq_iff in B1. rewrite <- B1, A1. reflexivity.
  - intros _ _. apply N.compare_lt_iff in A1, B1.
    replace (v_major a ?= v_major c) with Lt by (symmetry; apply N.compare_lt_iff; eapply N.lt_trans; eassumption). reflexivity.
Qed.

Lemma vcmp_total a b : vcmp a b = Lt \/ veq a b = true \/ vcmp b a = Lt.
Proof.
  destruct (vcmp a b) eqn:E; [right; left; apply vcmp_eq_iff; exact E|left; reflexivity|].
  right. right. rewrite vcmp_antisym, E. reflexivity.
Qed.
