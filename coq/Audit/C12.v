Require Import Coq.Strings.String.
Require Import Base.Bytes Gen.TextTab Text.Escape Text.EscapeProofs Text.Codepage Text.CodepageProofs Props.C12.
Check c12_unescape_escape : forall s, unescape (escape s) = s.
Check c12_escaped_is_reserved_free : forall s, existsb reserved (escape s) = false.
Check c12_strip_removes_exactly_colours : forall s,
  strip s = concat (map (render false) (tokens s)) /\ s = concat (map (render true) (tokens s)).
Check c12_strip_idempotent : forall s, strip (strip s) = strip s.
Check c12_strip_keeps_text_without_colours : forall s, (forall d, ~ In (TColour d) (tokens s)) -> strip s = s.
Check c12_fast_paths : forall s, escape s = esc s /\ unescape s = unesc s /\ strip s = strp s.
Check c12_wire_composition_partial : forall enc dec,
  (forall l bs, forallb is_ascii bs = true -> dec l bs = bs) ->
  forall s, forallb is_ascii s = true -> existsb is_caret s = false ->
  unescape (to_lossy_string dec (to_lossy_bytes enc (escape s))) = s.
Check c12_caret_marker_refuted : forall enc dec,
  (forall l bs, forallb is_ascii bs = true -> dec l bs = bs) ->
  exists s, forallb is_ascii s = true /\ unescape (to_lossy_string dec (to_lossy_bytes enc (escape s))) <> s.
Check c12_tables : tab_inverse = true.
Print Assumptions c12_unescape_escape.
Print Assumptions c12_escaped_is_reserved_free.
Print Assumptions c12_strip_removes_exactly_colours.
Print Assumptions c12_strip_idempotent.
Print Assumptions c12_strip_keeps_text_without_colours.
Print Assumptions c12_fast_paths.
Print Assumptions c12_wire_composition_partial.
Print Assumptions c12_caret_marker_refuted.
Print Assumptions c12_tables.
