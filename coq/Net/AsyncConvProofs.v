(* Net/AsyncConvProofs.v — conversations on the tokio connection: read() futures that may be dropped,
   interleaved with the caller's write() calls (Net/Async.v [aconv]).
     aconv_no_writes      : without caller writes a conversation is the session of C19
     aconv_ok             : whatever is dropped and whenever the caller writes, the wire carries whole
                            frames only — a write() first completes an outstanding keep-alive reply and
                            then sends its own frame; a keep-alive whose reply a write() completed is still
                            returned by the next read(); nothing else is ever written
     aconv_user_frames    : the caller's frames leave in call order *)
Require Import Base.Bytes Net.Frame Net.Framed Net.FramedProofs Net.Async Net.AsyncProofs.
Local Open Scope N_scope.

Lemma drain_nil ws : drain [] ws = Some ws.
Proof. destruct ws; reflexivity. Qed.

Lemma drain_no_fail ws : forall pw ws', forallb no_fail ws = true -> drain pw ws = Some ws' -> forallb no_fail ws' = true.
Proof.
  induction ws as [|e ws IH]; intros pw ws' Hn H.
  - destruct pw; inversion H; reflexivity.
  - destruct pw as [|b t]; [inversion H; subst; exact Hn|].
    cbn [forallb] in Hn. apply andb_prop in Hn as [He Hn]. cbn [drain] in H.
    destruct e as [k| |e]; [eapply IH; eassumption|eapply IH; eassumption|discriminate].
Qed.

Lemma drain_total ws : forall pw, forallb no_fail ws = true -> exists ws', drain pw ws = Some ws'.
Proof.
  induction ws as [|e ws IH]; intros pw Hn.
  - destruct pw; eexists; reflexivity.
  - destruct pw as [|b t]; [eexists; reflexivity|].
    cbn [forallb] in Hn. apply andb_prop in Hn as [He Hn]. cbn [drain].
    destruct e as [k| |e]; [apply IH; exact Hn|apply IH; exact Hn|discriminate].
Qed.

Section Proofs.
  Variable packet : Type.
  Variable parse : bytes -> res packet.
  Variable ver_of : packet -> option N.
  Variable is_keepalive : packet -> bool.
  Variable version : N.
  Variable m : mode.
  Variable verify : bool.
  Variable pong : bytes.

  Notation fstate := (fstate packet).
  Notation poll_from := (poll_from packet parse ver_of is_keepalive version m verify pong).
  Notation asession := (asession packet parse ver_of is_keepalive version m verify pong).
  Notation aconv := (aconv packet parse ver_of is_keepalive version m verify pong).
  Notation Inv := (Inv packet parse ver_of is_keepalive version m verify pong).
  Notation WInv := (WInv packet is_keepalive pong).
  Notation ctok := (ctok packet).
  Notation user_writes := (user_writes packet).

  Definition out_of (t : ctok) : list (out packet) :=
    match t with TW b => [Wrote b] | TR r => [Ret r] | TU pre fr => [Wrote (pre ++ fr)] end.

  Lemma tw_out b : flat_map out_of (tw packet b) = match b with [] => [] | _ => [Wrote b] end.
  Proof. destruct b; reflexivity. Qed.

  (* ---- without caller writes: the session of C19 ---- *)
  Theorem aconv_no_writes : forall fuel c s rs ws cancels acc,
    flat_map out_of (aconv fuel c s rs ws cancels [] acc) = asession fuel c s rs ws cancels acc.
  Proof.
    induction fuel as [|f IH]; intros c s rs ws cancels acc; [reflexivity|].
    cbn [Async.aconv Async.asession].
    destruct (poll_from c s rs ws) as [[[[o s'] rs'] ws'] w].
    destruct o as [c'|r].
    - destruct cancels as [|[|] cs]; cbn [tl]; apply IH.
    - rewrite flat_map_app, tw_out. cbn [flat_map out_of hd tl Async.user_writes app].
      destruct (acc ++ w); cbn [app]; f_equal; try f_equal;
        destruct (is_final packet (Ret r)); try reflexivity; cbn [app]; apply IH.
  Qed.

  (* ---- the wire under caller writes ---- *)
  (* done = the bytes of the reply to a not yet returned keep-alive that the tokens so far account for *)
  Fixpoint conv_ok (done : bytes) (l : list ctok) : Prop :=
    match l with
    | [] => True
    | TW b :: t => (exists rest, done ++ b ++ rest = pong) /\ conv_ok (done ++ b) t
    | TU pre fr :: t => ((done = [] /\ pre = []) \/ done ++ pre = pong) /\ conv_ok (done ++ pre) t
    | TR (RPacket p) :: t => (if is_keepalive p then done = pong else done = []) /\ conv_ok [] t
    | TR _ :: t => done = [] /\ conv_ok [] t
    end.

  Lemma user_writes_ok : forall frs s ws done toks s' ws',
    forallb no_fail ws = true -> WInv s done ->
    user_writes frs s ws = Some (toks, s', ws') ->
    forallb no_fail ws' = true /\
    exists done', WInv s' done' /\ forall rest, conv_ok done' rest -> conv_ok done (toks ++ rest).
  Proof.
    induction frs as [|fr t IH]; intros s ws done toks s' ws' Hn HW H.
    - inversion H; subst. split; [exact Hn|]. exists done. split; [exact HW|]. intros rest Hr. exact Hr.
    - cbn [Async.user_writes] in H.
      destruct (drain (pend_w s) ws) as [ws1|] eqn:E1; [|discriminate].
      destruct (drain fr ws1) as [ws2|] eqn:E2; [|discriminate].
      destruct (user_writes t (mkF (fbuf s) [] (pend_p s)) ws2) as [[[toks0 s0] ws0]|] eqn:E3; [|discriminate].
      inversion H; subst. clear H.
      pose proof (drain_no_fail _ _ _ Hn E1) as Hn1. pose proof (drain_no_fail _ _ _ Hn1 E2) as Hn2.
      assert (HW2 : WInv (mkF (fbuf s) [] (pend_p s)) (done ++ pend_w s)).
      { unfold AsyncProofs.WInv in *. cbn [pend_p pend_w]. destruct (pend_p s) as [p|].
        - destruct HW as [Hk Hp]. split; [exact Hk|]. rewrite app_nil_r. exact Hp.
        - destruct HW as [Hw Ha]. rewrite Hw, Ha. auto. }
      destruct (IH _ _ _ _ _ _ Hn2 HW2 E3) as [Hn' [done' [HW' Hrest]]].
      split; [exact Hn'|]. exists done'. split; [exact HW'|].
      intros rest Hr. cbn [app conv_ok]. split.
      + unfold AsyncProofs.WInv in HW. destruct (pend_p s) as [p|].
        * right. tauto.
        * left. destruct HW as [Hw Ha]. auto.
      + apply Hrest. exact Hr.
  Qed.

  Lemma conv_ok_tw done b rest t :
    done ++ b ++ rest = pong -> conv_ok (done ++ b) t -> conv_ok done (tw packet b ++ t).
  Proof.
    intros Hp Ht. destruct b as [|x b]; cbn [tw app].
    - rewrite app_nil_r in Ht. exact Ht.
    - cbn [conv_ok]. split; [exists rest; exact Hp|exact Ht].
  Qed.

  Lemma winv_prefix s total : WInv s total -> exists rest, total ++ rest = pong.
  Proof.
    unfold AsyncProofs.WInv. destruct (pend_p s) as [p|].
    - intros [_ Hp]. exists (pend_w s). exact Hp.
    - intros [_ Ha]. subst total. exists pong. reflexivity.
  Qed.

  Theorem aconv_ok : forall fuel c s rs ws cancels wsched acc done,
    forallb no_fail ws = true -> Inv c s -> WInv s (done ++ acc) ->
    conv_ok done (aconv fuel c s rs ws cancels wsched acc).
  Proof.
    induction fuel as [|f IH]; intros c s rs ws cancels wsched acc done Hn HI HW; [exact I|].
    cbn [Async.aconv].
    destruct (poll_from c s rs ws) as [[[[o s'] rs'] ws'] w] eqn:E.
    pose proof E as E'. rewrite (poll_resume_eq_fresh _ _ _ _ _ _ _ _ c s rs ws HI) in E'.
    destruct (poll_post_top _ _ _ _ _ _ _ _ s rs ws (done ++ acc) o s' rs' ws' w Hn HW E') as [Hn' Hpost].
    rewrite <- app_assoc in Hpost.
    destruct o as [c'|r].
    - pose proof (poll_pending_inv _ _ _ _ _ _ _ _ c s rs ws c' s' rs' ws' w HI E) as HI'. cbn in Hpost.
      assert (Hkeep : conv_ok done (aconv f c' s' rs' ws' (tl cancels) wsched (acc ++ w))) by (apply IH; auto).
      destruct cancels as [|[|] cs]; try exact Hkeep.
      destruct wsched as [|[|f1 ft] wt]; try (apply IH; auto; exact I).
      destruct (winv_prefix _ _ Hpost) as [rest Hex]. rewrite <- app_assoc in Hex.
      destruct (user_writes (f1 :: ft) s' ws') as [[[toks s''] ws'']|] eqn:EU.
      + destruct (user_writes_ok _ _ _ _ _ _ _ Hn' Hpost EU) as [Hn'' [done' [HW' Hrest]]].
        apply (conv_ok_tw done (acc ++ w) rest); [exact Hex|].
        apply Hrest. apply IH; auto; [exact I|]. rewrite app_nil_r. exact HW'.
      + rewrite <- (app_nil_r (tw packet (acc ++ w))). apply (conv_ok_tw done (acc ++ w) rest); [exact Hex|exact I].
    - assert (Hrest : forall s0, WInv s0 [] -> s0 = s' ->
                conv_ok [] (if is_final packet (Ret r) then [] else
                   match user_writes (hd [] wsched) s' ws' with
                   | Some (toks, s'', ws'') => toks ++ aconv f Top s'' rs' ws'' cancels (tl wsched) []
                   | None => []
                   end)).
      { intros s0 HW0 ->. destruct (is_final packet (Ret r)); [exact I|].
        destruct (user_writes (hd [] wsched) s' ws') as [[[toks s''] ws'']|] eqn:EU; [|exact I].
        destruct (user_writes_ok _ _ _ _ _ _ _ Hn' HW0 EU) as [Hn'' [done' [HW' Hr]]].
        apply Hr. apply IH; auto; [exact I|]. rewrite app_nil_r. exact HW'. }
      destruct r as [p| | |v|e| | | |]; cbn in Hpost;
        try (destruct Hpost as [HW0 Ht]; apply app_eq_nil in Ht as [Hd Ht]; subst done; rewrite Ht;
             cbn [tw app conv_ok]; split; [reflexivity|]; eapply Hrest; [exact HW0|reflexivity]).
      destruct Hpost as [HW0 [[Hk Ht]|[Hk Ht]]].
      + apply (conv_ok_tw done (acc ++ w) []); [rewrite app_nil_r; exact Ht|].
        cbn [conv_ok]. rewrite Hk. split; [exact Ht|]. eapply Hrest; [exact HW0|reflexivity].
      + apply app_eq_nil in Ht as [Hd Ht]; subst done; rewrite Ht. cbn [tw app conv_ok]. rewrite Hk.
        split; [reflexivity|]. eapply Hrest; [exact HW0|reflexivity].
  Qed.

  (* ---- the caller's frames leave in call order ---- *)
  Definition user_frame (t : ctok) : list bytes := match t with TU _ fr => [fr] | _ => [] end.
  Definition is_prefix {A} (a b : list A) : Prop := exists c, a ++ c = b.

  Lemma user_writes_frames : forall frs s ws toks s' ws',
    user_writes frs s ws = Some (toks, s', ws') -> flat_map user_frame toks = frs.
  Proof.
    induction frs as [|fr t IH]; intros s ws toks s' ws' H; cbn [Async.user_writes] in H.
    - inversion H; reflexivity.
    - destruct (drain (pend_w s) ws) as [ws1|]; [|discriminate].
      destruct (drain fr ws1) as [ws2|]; [|discriminate].
      destruct (user_writes t (mkF (fbuf s) [] (pend_p s)) ws2) as [[[toks0 s0] ws0]|] eqn:E3; [|discriminate].
      inversion H; subst. cbn [flat_map user_frame app]. f_equal. eapply IH; eassumption.
  Qed.

  Lemma tw_frames b : flat_map user_frame (tw packet b) = [].
  Proof. destruct b; reflexivity. Qed.

  Theorem aconv_user_frames : forall fuel c s rs ws cancels wsched acc,
    is_prefix (flat_map user_frame (aconv fuel c s rs ws cancels wsched acc)) (concat wsched).
  Proof.
    induction fuel as [|f IH]; intros c s rs ws cancels wsched acc; [exists (concat wsched); reflexivity|].
    cbn [Async.aconv].
    destruct (poll_from c s rs ws) as [[[[o s'] rs'] ws'] w].
    destruct o as [c'|r].
    - destruct cancels as [|[|] cs]; try apply IH.
      destruct wsched as [|[|f1 ft] wt]; try apply IH.
      + cbn [tl concat app]. apply IH.
      + destruct (user_writes (f1 :: ft) s' ws') as [[[toks s''] ws'']|] eqn:EU.
        * rewrite !flat_map_app, tw_frames, (user_writes_frames _ _ _ _ _ _ EU). cbn [concat]. rewrite app_nil_l.
          destruct (IH Top s'' rs' ws'' cs wt []) as [c0 Hc]. exists c0. rewrite <- app_assoc. rewrite Hc. reflexivity.
        * rewrite tw_frames. eexists; reflexivity.
    - rewrite flat_map_app, tw_frames. cbn [app flat_map user_frame].
      destruct (is_final packet (Ret r)); [eexists; reflexivity|].
      destruct (user_writes (hd [] wsched) s' ws') as [[[toks s''] ws'']|] eqn:EU; [|eexists; reflexivity].
      rewrite flat_map_app, (user_writes_frames _ _ _ _ _ _ EU).
      destruct (IH Top s'' rs' ws'' cancels (tl wsched) []) as [c0 Hc]. exists c0.
      destruct wsched as [|g wt]; cbn [hd tl concat] in *; [rewrite app_nil_l; exact Hc|]. rewrite <- app_assoc, Hc. reflexivity.
  Qed.

  (* ---- message transports (WebSocket): a write call takes the whole buffer offered or is not ready ----
     Then every reply leaves in ONE accepted call carrying the whole reply frame, and a write() call makes
     one accepted call per frame: the (whole) outstanding reply if there is one, then its own frame. *)
  Definition msg_ev (n : nat) (w : wev) : bool :=
    match w with WAccept k => Nat.leb n (S k) | WPending => true | WFail _ => false end.

  Lemma flush_msg n ws : forall pw r pw' ws' w,
    forallb (msg_ev n) ws = true -> (length pw <= n)%nat -> flush pw ws = (r, pw', ws', w) ->
    forallb (msg_ev n) ws' = true /\ ((r = FDone /\ pw' = [] /\ w = pw) \/ (r = FPend /\ pw' = pw /\ w = [] /\ pw <> [])).
  Proof.
    intros pw r pw' ws' w Hm Hl H. destruct pw as [|b t].
    - rewrite flush_nil in H. inversion H; subst. split; [exact Hm|]. left. auto.
    - destruct ws as [|e ws0]; cbn [flush] in H.
      + inversion H; subst. split; [reflexivity|]. left. auto.
      + cbn [forallb] in Hm. apply andb_prop in Hm as [He Hm]. destruct e as [k| |e]; cbn [msg_ev] in He.
        * apply Nat.leb_le in He.
          assert (Hmin : Nat.min (S k) (length (b :: t)) = length (b :: t)) by (apply Nat.min_r; lia).
          rewrite Hmin in H. rewrite skipn_all, firstn_all in H. rewrite flush_nil in H.
          inversion H; subst. split; [exact Hm|]. left. rewrite app_nil_r. auto.
        * inversion H; subst. split; [exact Hm|]. right. repeat split; discriminate.
        * discriminate.
  Qed.

  Lemma msg_no_fail n ws : forallb (msg_ev n) ws = true -> forallb no_fail ws = true.
  Proof.
    induction ws as [|e ws IH]; [reflexivity|]. cbn [forallb]. intros H. apply andb_prop in H as [He H].
    rewrite (IH H), andb_true_r. destruct e; [reflexivity|reflexivity|discriminate].
  Qed.

  Lemma drain_msg n ws : forall pw ws', forallb (msg_ev n) ws = true -> drain pw ws = Some ws' -> forallb (msg_ev n) ws' = true.
  Proof.
    induction ws as [|e ws IH]; intros pw ws' Hn H.
    - destruct pw; inversion H; reflexivity.
    - destruct pw as [|b t]; [inversion H; subst; exact Hn|].
      cbn [forallb] in Hn. apply andb_prop in Hn as [He Hn]. cbn [drain] in H.
      destruct e as [k| |e]; [eapply IH; eassumption|eapply IH; eassumption|discriminate].
  Qed.

  (* the connection never holds a partial reply *)
  Definition Whole (s : fstate) : Prop := pend_w s = [] \/ pend_w s = pong.
  Definition tok_whole (t : ctok) : Prop :=
    match t with TW b => b = pong | TU pre _ => pre = [] \/ pre = pong | TR _ => True end.

  Notation deliverK := (deliverK packet is_keepalive pong).
  Notation after_decode := (after_decode packet parse ver_of is_keepalive version m verify pong).
  Notation read_loop := (read_loop packet parse ver_of is_keepalive version m verify pong).

  (* one poll on a message transport: nothing is written by a poll that stays pending; a completed poll wrote
     nothing or exactly the reply; no partial reply is left behind *)
  Definition msg_post (o : pout packet) (s' : fstate) (w : bytes) : Prop :=
    Whole s' /\ (pend_p s' = None -> pend_w s' = []) /\ match o with PPending _ => w = [] | PReady _ => w = [] \/ w = pong end.

  Lemma deliverK_msg n p rest ws o s' ws' w' :
    forallb (msg_ev n) ws = true -> (length pong <= n)%nat -> deliverK p rest ws [] = (o, s', ws', w') ->
    forallb (msg_ev n) ws' = true /\ msg_post o s' w'.
  Proof.
    intros Hm Hl. unfold Async.deliverK. destruct (is_keepalive p).
    - destruct (flush pong ws) as [[[r pw] ws0] w2] eqn:Ef.
      destruct (flush_msg n _ _ _ _ _ _ Hm Hl Ef) as [Hm' [[Hr [Hp Hw]]|[Hr [Hp [Hw _]]]]]; subst.
      + intros H; inversion H; subst. split; [exact Hm'|]. split; [left; reflexivity|]. split; [reflexivity|]. right. reflexivity.
      + intros H; inversion H; subst. split; [exact Hm'|]. split; [right; reflexivity|]. split; [discriminate|]. reflexivity.
    - intros H; inversion H; subst. split; [exact Hm|]. split; [left; reflexivity|]. split; [reflexivity|]. left. reflexivity.
  Qed.

  Lemma after_decode_msg n buf ws o s' ws' w' :
    forallb (msg_ev n) ws = true -> (length pong <= n)%nat -> after_decode buf ws [] = Some (o, s', ws', w') ->
    forallb (msg_ev n) ws' = true /\ msg_post o s' w'.
  Proof.
    intros Hm Hl. unfold Async.after_decode. destruct buf as [|b t]; [discriminate|].
    destruct (decode packet parse m (b :: t)) as [|p rest|rest| |]; try discriminate;
      try (intros H; inversion H; subst; split; [exact Hm|split; [left; reflexivity|split; [reflexivity|left; reflexivity]]]).
    destruct (if verify then ver_of p else None) as [v|]; [destruct (v =? version)|];
      try (intros H; inversion H; subst; split; [exact Hm|split; [left; reflexivity|split; [reflexivity|left; reflexivity]]]);
      intros H; inversion H as [H1]; eapply deliverK_msg; eassumption.
  Qed.

  Lemma read_loop_msg n rs : forall skip buf ws o s' rs' ws' w',
    forallb (msg_ev n) ws = true -> (length pong <= n)%nat -> read_loop skip buf rs ws [] = (o, s', rs', ws', w') ->
    forallb (msg_ev n) ws' = true /\ msg_post o s' w'.
  Proof.
    induction rs as [|e rs IH]; intros skip buf ws o s' rs' ws' w' Hm Hl H; cbn [Async.read_loop] in H.
    - destruct (if skip then None else after_decode buf ws []) as [[[[o0 s0] ws0] wr0]|] eqn:E.
      + inversion H; subst. destruct skip; [discriminate|]. eapply after_decode_msg; eassumption.
      + inversion H; subst. split; [exact Hm|split; [left; reflexivity|split; [reflexivity|left; reflexivity]]].
    - destruct (if skip then None else after_decode buf ws []) as [[[[o0 s0] ws0] wr0]|] eqn:E.
      + inversion H; subst. destruct skip; [discriminate|]. eapply after_decode_msg; eassumption.
      + destruct e as [[[|b bs]|e0| |]|];
          try (inversion H; subst; split; [exact Hm|split; [left; reflexivity|split; [reflexivity|first [reflexivity|left; reflexivity]]]]).
        eapply (IH false); eassumption.
  Qed.

  Lemma poll_msg n s rs ws o s' rs' ws' w :
    forallb (msg_ev n) ws = true -> (length pong <= n)%nat -> Whole s -> (pend_p s = None -> pend_w s = []) ->
    poll_from Top s rs ws = (o, s', rs', ws', w) ->
    forallb (msg_ev n) ws' = true /\ msg_post o s' w.
  Proof.
    intros Hm Hl HWh Hnone. unfold Async.poll_from.
    destruct (flush (pend_w s) ws) as [[[r pw] ws0] w0] eqn:Ef.
    assert (Hlp : (length (pend_w s) <= n)%nat) by (destruct HWh as [->| ->]; [cbn; lia|exact Hl]).
    destruct (flush_msg n _ _ _ _ _ _ Hm Hlp Ef) as [Hm' [[Hr [Hp Hw]]|[Hr [Hp [Hw _]]]]]; subst.
    - destruct (pend_p s) as [p|] eqn:Epp.
      + intros H; inversion H; subst. split; [exact Hm'|]. split; [left; reflexivity|]. split; [reflexivity|]. destruct HWh as [->| ->]; auto.
      + rewrite (Hnone eq_refl) in *. intros H. eapply read_loop_msg; eassumption.
    - intros H; inversion H; subst. split; [exact Hm'|]. split; [exact HWh|]. split; [exact Hnone|reflexivity].
  Qed.

  Lemma user_writes_msg n : forall frs s ws toks s' ws',
    forallb (msg_ev n) ws = true -> Whole s ->
    user_writes frs s ws = Some (toks, s', ws') ->
    forallb (msg_ev n) ws' = true /\ Whole s' /\ (pend_p s' = pend_p s) /\ (frs <> [] -> pend_w s' = []) /\
    (frs = [] -> s' = s) /\ Forall tok_whole toks.
  Proof.
    induction frs as [|fr t IH]; intros s ws toks s' ws' Hm HWh H; cbn [Async.user_writes] in H.
    - inversion H; subst. repeat split; auto. intros Hc; congruence.
    - destruct (drain (pend_w s) ws) as [ws1|] eqn:E1; [|discriminate].
      destruct (drain fr ws1) as [ws2|] eqn:E2; [|discriminate].
      destruct (user_writes t (mkF (fbuf s) [] (pend_p s)) ws2) as [[[toks0 s0] ws0]|] eqn:E3; [|discriminate].
      inversion H; subst. clear H.
      pose proof (drain_msg n _ _ _ Hm E1) as Hm1. pose proof (drain_msg n _ _ _ Hm1 E2) as Hm2.
      assert (HW0 : Whole (mkF (fbuf s) [] (pend_p s))) by (left; reflexivity).
      destruct (IH _ _ _ _ _ Hm2 HW0 E3) as [Hm' [HW' [Hpp [Hpw [Hsame Hall]]]]].
      split; [exact Hm'|]. split; [exact HW'|]. split; [rewrite Hpp; reflexivity|].
      split; [|split].
      + intros _. destruct t as [|f2 t2]; [rewrite (Hsame eq_refl); reflexivity|apply Hpw; discriminate].
      + intros Hc; discriminate.
      + constructor; [exact HWh|exact Hall].
  Qed.

  Lemma tw_whole b : b = [] \/ b = pong -> Forall tok_whole (tw packet b).
  Proof. intros [->| ->]; [constructor|]. destruct pong eqn:E; constructor; [cbn; congruence|constructor]. Qed.

  Theorem aconv_messages_whole n : (length pong <= n)%nat ->
    forall fuel c s rs ws cancels wsched,
    forallb (msg_ev n) ws = true -> Inv c s -> Whole s -> (pend_p s = None -> pend_w s = []) ->
    Forall tok_whole (aconv fuel c s rs ws cancels wsched []).
  Proof.
    intros Hl. induction fuel as [|f IH]; intros c s rs ws cancels wsched Hm HI HWh Hnone; [constructor|].
    cbn [Async.aconv].
    destruct (poll_from c s rs ws) as [[[[o s'] rs'] ws'] w] eqn:E.
    pose proof E as E'. rewrite (poll_resume_eq_fresh _ _ _ _ _ _ _ _ c s rs ws HI) in E'.
    destruct (poll_msg n _ _ _ _ _ _ _ _ Hm Hl HWh Hnone E') as [Hm' [HWh' [Hnone' Hw]]].
    destruct o as [c'|r].
    - subst w. cbn [app].
      pose proof (poll_pending_inv _ _ _ _ _ _ _ _ c s rs ws c' s' rs' ws' [] HI E) as HI'.
      destruct cancels as [|[|] cs]; cbn [tl]; try (apply IH; assumption).
      destruct wsched as [|[|f1 ft] wt]; cbn [tl]; try (apply IH; auto; exact I).
      destruct (user_writes (f1 :: ft) s' ws') as [[[toks s''] ws'']|] eqn:EU; [|constructor].
      destruct (user_writes_msg n _ _ _ _ _ _ Hm' HWh' EU) as [Hm'' [HW'' [Hpp [Hpw [_ Hall]]]]].
      cbn [tw app]. apply Forall_app. split; [exact Hall|]. apply IH; auto; [exact I|].
      intros _. apply Hpw. discriminate.
    - cbn [app]. apply Forall_app. split; [apply tw_whole; exact Hw|]. constructor; [exact I|].
      destruct (is_final packet (Ret r)); [constructor|].
      destruct (user_writes (hd [] wsched) s' ws') as [[[toks s''] ws'']|] eqn:EU; [|constructor].
      destruct (user_writes_msg n _ _ _ _ _ _ Hm' HWh' EU) as [Hm'' [HW'' [Hpp [Hpw [Hsame Hall]]]]].
      apply Forall_app. split; [exact Hall|]. apply IH; auto; [exact I|].
      destruct (hd [] wsched) as [|g gs]; [rewrite (Hsame eq_refl); exact Hnone'|intros _; apply Hpw; discriminate].
  Qed.
End Proofs.
