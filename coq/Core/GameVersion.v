(* Core/GameVersion.v — executable model of insim_core::game_version: FromStr (three phases over
   a peekable char iterator), Display, PartialEq / Ord. Strings are lists of Unicode scalar values.
   A version's number is an f32 carried as its IEEE-754 bit pattern (N). Three oracles enter as
   Section variables: char::is_numeric, <f32 as FromStr>, <f32 as Display>; on the domain the
   parser can produce (non-negative, not NaN) f32::partial_cmp is the unsigned comparison of bit
   patterns (validated exhaustively by the harness).  No proofs here. *)
Require Import Base.Bytes.
Local Open Scope N_scope.

Record version := { v_major : N (* f32 bits *); v_minor : N (* char *); v_patch : option N }.
Inductive perr := EMajor | EMinor | EPatch.
Inductive pres := POk (v : version) | PErr (e : perr).

Definition dot : N := 46.
Definition is_digit (c : N) : bool := (48 <=? c) && (c <=? 57).
Definition is_alpha (c : N) : bool := ((65 <=? c) && (c <=? 90)) || ((97 <=? c) && (c <=? 122)).
Definition to_upper (c : N) : N := if (97 <=? c) && (c <=? 122) then c - 32 else c.
Definition inf_bits : N := 2139095040.   (* 0x7F800000 *)

Fixpoint span (p : N -> bool) (s : list N) : list N * list N :=
  match s with
  | [] => ([], [])
  | c :: t => if p c then let '(a, r) := span p t in (c :: a, r) else ([], s)
  end.

Section GV.
  Variable is_numeric : N -> bool.                 (* char::is_numeric *)
  Variable parse_f32 : list N -> option N.         (* str::parse::<f32>, result as bits *)
  Variable print_f32 : N -> list N.                (* format!("{}", f32) *)
  Variable parse_usize : list N -> option N.       (* str::parse::<usize> *)
  Variable print_usize : N -> list N.

  (* `while iter.peek().is_some()` with pos = Major -> Minor -> Patch (Patch repeats) *)
  Definition parse_patch_loop (v : version) (s : list N) : pres :=
    (* one turn of the Patch phase consumes the numeric run and must parse; a second turn (if any
       character is left) takes an empty run, whose parse fails *)
    match s with
    | [] => POk v
    | _ =>
        let '(run, rest) := span is_numeric s in
        match parse_usize run with
        | None => PErr EPatch
        | Some p =>
            match rest with
            | [] => POk {| v_major := v_major v; v_minor := v_minor v; v_patch := Some p |}
            | _ => match parse_usize [] with
                   | None => PErr EPatch
                   | Some p' => PErr EPatch (* unreachable: "" never parses; kept total *)
                   end
            end
        end
    end.

  Definition default_version : version := {| v_major := 0; v_minor := 65; v_patch := None |}.

  Definition parse (s : list N) : pres :=
    match s with
    | [] => POk default_version
    | _ =>
        let '(mj, r1) := span (fun c => is_numeric c || (c =? dot)) s in
        match parse_f32 mj with
        | None => PErr EMajor
        | Some m =>
            match r1 with
            | [] => POk {| v_major := m; v_minor := 65; v_patch := None |}
            | c :: r2 =>
                if is_alpha c
                then parse_patch_loop {| v_major := m; v_minor := to_upper c; v_patch := None |} r2
                else PErr EMinor
            end
        end
    end.

  Definition print (v : version) : list N :=
    print_f32 (v_major v) ++ [v_minor v] ++ match v_patch v with Some p => print_usize p | None => [] end.

  Definition patch0 (v : version) : N := match v_patch v with Some p => p | None => 0 end.
  Definition veq (a b : version) : bool :=
    (v_major a =? v_major b) && (v_minor a =? v_minor b) && (patch0 a =? patch0 b).
  (* Ord::cmp on the parser's domain: lexicographic (number, letter, revision-or-0) *)
  Definition vcmp (a b : version) : comparison :=
    match v_major a ?= v_major b with
    | Eq => match v_minor a ?= v_minor b with
            | Eq => patch0 a ?= patch0 b
            | c => c
            end
    | c => c
    end.
End GV.
