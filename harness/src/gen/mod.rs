//! glue regenerated from /repo by tools/translate.py on every run
pub mod kinds;
pub mod layouts;
pub mod glue;
pub mod tracks;
