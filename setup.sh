#!/bin/sh
# Builds the whole framework from files on disk (offline): translator run, Coq development,
# extraction + OCaml drivers, Rust harness against /repo's working tree.
cd "$(dirname "$0")"
export CARGO_NET_OFFLINE=true
rc=0
for p in $(python3 -c "import sys; sys.path.insert(0,'tools'); from props import PROPS; print(' '.join(PROPS))"); do
  ./check "$p" --setup || rc=1
done
exit $rc
