//! C13 — vehicle identifiers <-> 4 wire bytes, on the real BinRead/BinWrite/Display.
use std::{collections::HashSet, io::Cursor};

use insim_core::{binrw::{BinRead, BinWrite}, vehicle::Vehicle};

use crate::common::*;

/// LFS's built-in cars (InSim.txt), independent of the source tables.
const CARS: [&str; 20] = ["XFG", "XRG", "FBM", "XRT", "RB4", "FXO", "LX4", "LX6", "MRT", "UF1", "RAC", "FZ5", "FOX", "XFR", "UFR", "FO8", "FXR", "XRR", "FZR", "BF1"];

fn variant_index(v: &Vehicle) -> Option<usize> {
    Some(match v {
        Vehicle::Xfg => 0, Vehicle::Xrg => 1, Vehicle::Fbm => 2, Vehicle::Xrt => 3, Vehicle::Rb4 => 4,
        Vehicle::Fxo => 5, Vehicle::Lx4 => 6, Vehicle::Lx6 => 7, Vehicle::Mrt => 8, Vehicle::Uf1 => 9,
        Vehicle::Rac => 10, Vehicle::Fz5 => 11, Vehicle::Fox => 12, Vehicle::Xfr => 13, Vehicle::Ufr => 14,
        Vehicle::Fo8 => 15, Vehicle::Fxr => 16, Vehicle::Xrr => 17, Vehicle::Fzr => 18, Vehicle::Bf1 => 19,
        _ => return None,
    })
}

#[derive(Debug, PartialEq, Clone)]
pub enum R { U, B(usize), M(u32), E, P, Other }
impl R {
    fn show(&self) -> String {
        match self { R::U => "U".into(), R::B(i) => format!("B {i}"), R::M(m) => format!("M {m}"), R::E => "E".into(), R::P => "P".into(), R::Other => "?".into() }
    }
}

pub fn read(b: [u8; 4]) -> (R, Option<Vehicle>) {
    match guard(|| Vehicle::read_le(&mut Cursor::new(b))) {
        None => (R::P, None),
        Some(Err(_)) => (R::E, None),
        Some(Ok(v)) => {
            let r = match &v {
                Vehicle::Unknown => R::U,
                Vehicle::Mod(m) => R::M(*m),
                x => variant_index(x).map(R::B).unwrap_or(R::Other),
            };
            (r, Some(v))
        },
    }
}
pub fn write(v: &Vehicle) -> Option<Vec<u8>> {
    guard(|| { let mut c = Cursor::new(Vec::new()); v.write_le(&mut c).ok().map(|_| c.into_inner()) }).flatten()
}

/// the InSim v9 rule, independent of the implementation
pub fn rule(b: [u8; 4]) -> R {
    if b == [0; 4] { R::U }
    else if shape(b) { let name = std::str::from_utf8(&b[..3]).unwrap(); match CARS.iter().position(|c| *c == name) { Some(i) => R::B(i), None => R::E } }
    else { R::M(u32::from_le_bytes(b)) }
}
fn shape(b: [u8; 4]) -> bool { b[..3].iter().all(|c| c.is_ascii_alphanumeric()) && b[3] == 0 }

/// the property, evaluated on the implementation for one 4-byte value; None = holds
pub fn oracle(b: [u8; 4]) -> Option<String> {
    let (r, v) = read(b);
    let want = if b == [0; 4] { R::U }
        else if shape(b) {
            let name = std::str::from_utf8(&b[..3]).unwrap();
            match CARS.iter().position(|c| *c == name) { Some(i) => R::B(i), None => R::E }
        } else { R::M(u32::from_le_bytes(b)) };
    if r != want { return Some(format!("decode {} gives {} but the v9 rule gives {}", hex(&b), r.show(), want.show())); }
    if let Some(v) = v {
        match write(&v) {
            Some(w) if w == b => {},
            w => return Some(format!("decode {} then encode gives {:?}", hex(&b), w.map(|x| hex(&x)))),
        }
        if let R::B(i) = r {
            if v.to_string() != CARS[i] { return Some(format!("printed name {} differs from wire name {}", v, CARS[i])); }
            if v.is_mod() { return Some(format!("built-in {} reports is_mod", CARS[i])); }
        }
        if let R::M(_) = r { if !v.is_mod() { return Some(format!("mod {} reports !is_mod", hex(&b))); } if v.is_builtin() { return Some(format!("mod {} reports is_builtin", hex(&b))); } }
        if let R::B(i) = r { if !v.is_builtin() { return Some(format!("built-in {} reports !is_builtin", CARS[i])); } }
        if let R::U = r { if v.is_mod() { return Some("the unknown vehicle (all zeros) reports is_mod".into()); } }
    }
    None
}

/// the v9 rule where the identifier travels (car-name fields of every packet kind, IS_MAL entries); shared with C02
pub fn packet_sweep(prop: &str, a: &Args, st: &mut Stats) {
    let mut rng = Rng::new(a.seed ^ 0xC13);
    // the same rule where the identifier travels: every car-name field of every packet kind (fixed part and array elements).  A frame
    // whose identifier the rule rejects must be a decode error; otherwise the frame decodes, shows the car the rule names and
    // re-encodes to the identical bytes
    {
        use crate::{gen::layouts::KINDS, layout::{gen_frame, width, fixed_width, Atom, Tail, Custom}, wire::{decode_buf, encode_p, Dec, Enc}};
        let mut samples: Vec<[u8; 4]> = vec![[0; 4]];
        for c in CARS.iter() { let b = c.as_bytes(); samples.push([b[0], b[1], b[2], 0]); samples.push([b[0].to_ascii_lowercase(), b[1], b[2], 0]); samples.push([b[0], b[1], b[2], 1]); }
        for s in ["XYZ", "FO9", "000", "aB1", "ZZZ", "xfg", "A1b", "UF2", "[F1", "XF`"] { let b = s.as_bytes(); samples.push([b[0], b[1], b[2], 0]); }
        for _ in 0..40 { let r = rng.bytes(4); samples.push([r[0], r[1], r[2], r[3] | 1]); let r = rng.bytes(3); samples.push([b'0' + r[0] % 10, b'A' + r[1] % 26, b'a' + r[2] % 26, 0]); }
        let mut nslots = 0u64;
        for compressed in [true, false] { for k in KINDS.iter() {
            let Some(f) = crate::wire::stable_frame(&mut rng, k, compressed, Some(2)) else { continue };
            let mut slots: Vec<(usize, String)> = vec![]; let mut off = 2;
            for (name, at) in k.fixed { if matches!(at, Atom::Custom(Custom::Vehicle, _)) { slots.push((off, name.to_string())); } off += width(at); }
            if let Tail::Vec { elt, .. } = k.tail { let ew = fixed_width(elt); let mut eo = 0; for (name, at) in elt { if matches!(at, Atom::Custom(Custom::Vehicle, _)) { for e in 0..2 { slots.push((2 + fixed_width(k.fixed) + e * ew + eo, format!("[{e}].{name}"))); } } eo += width(at); } }
            for (o, name) in slots { if o + 4 > f.len() { continue; } nslots += 1;
                for b in samples.iter() {
                    let mut g = f.clone(); g[o..o + 4].copy_from_slice(b); st.evaluations += 1;
                    let id = format!("vframe {} {o} {}", if compressed { "C" } else { "U" }, hex(&g));
                    let want = rule(*b);
                    match decode_buf(compressed, &g) {
                        Dec::Got(p, _) => {
                            if want == R::E { st.fail(format!("[{prop}] {}.{name}: the unrecognised built-in-style name {} is accepted inside a packet: {}", k.name, hex(b), format!("{:?}", p).chars().take(100).collect::<String>()), id.clone()); }
                            match encode_p(compressed, &p) { Enc::Ok(e) if e == g => {}, Enc::Ok(e) => st.fail(format!("[{prop}] {}.{name}: identifier {} re-encodes as {}", k.name, hex(b), hex(&e[o..(o + 4).min(e.len())])), id.clone()), _ => st.fail(format!("[{prop}] {}.{name}: the decoded packet does not encode", k.name), id.clone()) }
                        },
                        Dec::Bad(_) => if want != R::E { st.fail(format!("[{prop}] {}.{name}: identifier {} ({}) makes the packet undecodable", k.name, hex(b), want.show()), id.clone()); },
                        d => st.fail(format!("[{prop}] {}.{name}: decoder outcome {}", k.name, crate::wire::cls_string(&d)), id.clone()),
                    }
                }
            }
        } }
        st.notes.push(format!("car-name fields inside packets: {nslots} (kinds x fields x modes), {} identifiers each", samples.len()));
        // IS_MAL (mods allowed): its entries are mod ids WHATEVER they look like - a frame listing ids that spell a car name, look like an
        // unknown car name or are zero decodes, contains exactly those ids as mods, and re-encodes identically
        for compressed in [true, false] { for chunk in samples.chunks(7) {
            let mut ids: Vec<[u8; 4]> = vec![]; for b in chunk { if !ids.contains(b) { ids.push(*b); } }
            let mut f = vec![0u8, 65, 3, ids.len() as u8, 12, 0, 0, 0]; for b in &ids { f.extend_from_slice(b); }
            f[0] = if compressed { (f.len() / 4) as u8 } else { f.len() as u8 };
            st.evaluations += 1;
            let id = format!("malframe {} {}", if compressed { "C" } else { "U" }, hex(&f));
            match decode_buf(compressed, &f) {
                Dec::Got(insim::Packet::Mal(m), _) => {
                    for b in &ids { let v = Vehicle::Mod(u32::from_le_bytes(*b)); if !m.contains(&v) { st.fail(format!("[{prop}] IS_MAL: the listed mod id {} is not reported as an allowed mod ({:?})", hex(b), m.iter().take(8).collect::<Vec<_>>()), id.clone()); break; } }
                    if m.len() != ids.len() || m.iter().any(|v| !v.is_mod()) { st.fail(format!("[{prop}] IS_MAL: {} ids listed, decoded set {:?}", ids.len(), m.iter().take(8).collect::<Vec<_>>()), id.clone()); }
                    match encode_p(compressed, &insim::Packet::Mal(m)) { Enc::Ok(e) if e == f => {}, _ => st.fail(format!("[{prop}] IS_MAL does not re-encode to the identical bytes"), id.clone()) }
                },
                d => st.fail(format!("[{prop}] IS_MAL listing mod ids {} is not decoded: {}", ids.iter().map(|b| hex(b)).collect::<Vec<_>>().join(" "), crate::wire::cls_string(&d)), id.clone()),
            }
        } }
        // the typed IS_MAL API takes mods only: a vehicle that is not a mod (every built-in, the unknown vehicle) is refused - or, if a future version
        // accepted it, the packet must still encode - it never becomes a packet the encoder aborts on
        for v in [[0u8; 4], *b"XFG\0", *b"BF1\0", *b"FZ5\0"].iter().filter_map(|b| read(*b).1) { for compressed in [true, false] {
            st.evaluations += 1;
            let id = format!("malinsert {} {}", if compressed { "C" } else { "U" }, v);
            let mut m = insim::insim::Mal::default();
            match crate::common::guard(|| m.insert(v.clone())) {
                None => st.fail(format!("[{prop}] Mal::insert({v:?}) panics"), id.clone()),
                Some(Err(_)) => {},
                Some(Ok(_)) => match encode_p(compressed, &insim::Packet::Mal(m.clone())) { Enc::Ok(_) | Enc::Err => {}, Enc::Panic => st.fail(format!("[{prop}] Mal::insert accepts {v:?}, which is not a mod, and the encoder then aborts on the packet"), id.clone()) },
            }
        } }
    }
}

pub fn run(a: &Args) {
    if let Some(r) = &a.replay { if r.starts_with("eq ") { println!("UNSUPPORTED-REPLAY"); std::process::exit(3); } }
    if let Some(r) = &a.replay { if let Some(rest) = r.strip_prefix("malframe ") {
        let t: Vec<&str> = rest.split_whitespace().collect(); let compressed = t[0] == "C"; let f = unhex(t[1]);
        let ok = match crate::wire::decode_buf(compressed, &f) { crate::wire::Dec::Got(insim::Packet::Mal(m), _) => { let n = f[3] as usize; let all = (0..n).all(|i| m.contains(&Vehicle::Mod(u32::from_le_bytes([f[8 + 4 * i], f[9 + 4 * i], f[10 + 4 * i], f[11 + 4 * i]])))); let same = matches!(crate::wire::encode_p(compressed, &insim::Packet::Mal(m.clone())), crate::wire::Enc::Ok(e) if e == f); println!("decoded {} entries, all listed ids present as mods: {all}, identical re-encoding: {same}", m.len()); all && same && m.len() == n }, d => { println!("decoder outcome {}", crate::wire::cls_string(&d)); false } };
        if ok { println!("PASS"); std::process::exit(0) } else { println!("FAIL [C13] IS_MAL entries are not treated as mod ids"); std::process::exit(1) } } }
    if let Some(r) = &a.replay { if let Some(rest) = r.strip_prefix("vframe ") {
        let t: Vec<&str> = rest.split_whitespace().collect(); let compressed = t[0] == "C"; let o: usize = t[1].parse().unwrap(); let g = unhex(t[2]);
        let b = [g[o], g[o + 1], g[o + 2], g[o + 3]]; let want = rule(b);
        let ok = match crate::wire::decode_buf(compressed, &g) {
            crate::wire::Dec::Got(p, _) => { let same = matches!(crate::wire::encode_p(compressed, &p), crate::wire::Enc::Ok(e) if e == g); println!("identifier {} ({}): the packet decodes to {} and re-encodes {}", hex(&b), want.show(), format!("{:?}", p).chars().take(120).collect::<String>(), if same { "identically" } else { "differently" }); want != R::E && same },
            crate::wire::Dec::Bad(_) => { println!("identifier {} ({}): the packet is a decode error", hex(&b), want.show()); want == R::E },
            d => { println!("decoder outcome {}", crate::wire::cls_string(&d)); false } };
        if ok { println!("PASS"); std::process::exit(0) } else { println!("FAIL [C13] a packet's car-name field does not follow the v9 rule"); std::process::exit(1) } } }
    if let Some(r) = &a.replay {
        let b = unhex(r);
        let b4 = [b[0], b[1], b[2], b[3]];
        match oracle(b4) { Some(w) => { println!("FAIL {w}"); std::process::exit(1) }, None => { println!("PASS {}", read(b4).0.show()); return } }
    }
    let mut rng = Rng::new(a.seed);
    let mut st = Stats::default();
    let mut out = Out::new(&a.out);
    let mut seen: HashSet<[u8; 4]> = HashSet::new();
    let mut nontrivial = 0u64;
    let mut one = |b: [u8; 4], st: &mut Stats, out: &mut Out, corr: bool| {
        st.evaluations += 1;
        let (r, v) = read(b);
        st.bump(match r { R::U => "unknown", R::B(_) => "builtin", R::M(_) => "mod", R::E => "error", R::P => "panic", R::Other => "other" });
        if let Some(w) = oracle(b) { st.fail(w, hex(&b)); }
        // the identifier is its 4 bytes however the reader hands them over: one or three bytes per read() call give the same value
        if corr && (shape(b) || b[3] == 0 || st.evaluations % 64 == 0) { for k in [1usize, 3] {
            let r2 = guard(|| Vehicle::read_le(&mut Dribble { inner: Cursor::new(b), k }).ok());
            if r2 != Some(v.clone()) && !(r2 == Some(None) && v.is_none()) { st.fail(format!("[C13] {} read {k} byte(s) at a time decodes to {:?}, in one piece to {:?}", hex(&b), r2, v), format!("dribble {k} {}", hex(&b))); break; }
        } }
        if seen.insert(b) && (shape(b) || b == [0; 4] || b[3] == 0) { nontrivial += 1; }
        if corr {
            out.case(&format!("vread {}", hex(&b)), &r.show());
            out.case(&format!("vcls {}", hex(&b)), &v.as_ref().map(|v| format!("mod={} builtin={}", v.is_mod() as u8, v.is_builtin() as u8)).unwrap_or("E".into()));
            if let Some(v) = v {
                let c = match r { R::U => "vwrite U".to_string(), R::B(i) => format!("vwrite B {i}"), R::M(m) => format!("vwrite M {m}"), _ => return };
                out.case(&c, &write(&v).map(|w| hex(&w)).unwrap_or("P".into()));
            }
        }
    };
    // 1. every built-in-shaped name: 62^3, exhaustive
    let alnum: Vec<u8> = (0u8..=255).filter(|c| c.is_ascii_alphanumeric()).collect();
    for &x in &alnum { for &y in &alnum { for &z in &alnum { one([x, y, z, 0], &mut st, &mut out, true); } } }
    st.exhaustive.push("all 62^3 built-in-shaped names".into());
    // 2. boundary grid: every combination of class-boundary bytes in every position
    let edge = [0u8, 1, 47, 48, 57, 58, 64, 65, 90, 91, 96, 97, 122, 123, 127, 128, 255];
    for &x in &edge { for &y in &edge { for &z in &edge { for &w in &edge { one([x, y, z, w], &mut st, &mut out, true); } } } }
    st.exhaustive.push("17^4 class-boundary grid".into());
    // 3. neighbours of every built-in name: each byte replaced by every value
    for c in CARS { let n = c.as_bytes(); for p in 0..4 { for v in 0..=255u8 { let mut b = [n[0], n[1], n[2], 0]; b[p] = v; one(b, &mut st, &mut out, true); } } }
    // 4. random words
    let nrand = if a.thorough() { 3_000_000 } else { 100_000 };
    for _ in 0..nrand { let w = rng.next() as u32; one(w.to_le_bytes(), &mut st, &mut out, true); }
    // display correspondence
    for i in 0..20 { out.case(&format!("vdisplay {i}"), &hex(CARS[i].as_bytes())); }
    drop(one);
    // 5. thorough: all 2^32 words, oracle on the implementation only (16 threads)
    if a.thorough() {
        let handles: Vec<_> = (0..16u64).map(|t| std::thread::spawn(move || {
            let mut fails = vec![]; let mut n = 0u64;
            let lo = t << 28; let hi = (t + 1) << 28;
            for w in lo..hi { n += 1; if let Some(f) = oracle((w as u32).to_le_bytes()) { if fails.len() < 20 { fails.push((f, hex(&(w as u32).to_le_bytes()))); } } }
            (n, fails)
        })).collect();
        for h in handles { let (n, fails) = h.join().unwrap(); st.evaluations += n; st.add("sweep32", n); for (w, i) in fails { st.fail(w, i); } }
        st.exhaustive.push("all 2^32 wire values (implementation oracle)".into());
    }
    packet_sweep("C13", a, &mut st);
    // mods and built-ins are never confused as VALUES either: a mod whose id bytes spell a car name is not that car, mod id 0 is not
    // "unknown", and sets / maps keep them apart
    {
        use std::collections::HashSet;
        let builtins: Vec<Vehicle> = CARS.iter().map(|c| { let b = c.as_bytes(); read([b[0], b[1], b[2], 0]).1.expect("built-in decodes") }).collect();
        for (i, v) in builtins.iter().enumerate() {
            let b = CARS[i].as_bytes(); let m = Vehicle::Mod(u32::from_le_bytes([b[0], b[1], b[2], 0]));
            st.evaluations += 1;
            if *v == m || m == *v { st.fail(format!("[C13] the mod with id {:#010x} compares equal to the built-in {}", u32::from_le_bytes([b[0], b[1], b[2], 0]), CARS[i]), format!("eq {i}")); }
            let mut hs: HashSet<Vehicle> = HashSet::new(); let _ = hs.insert(v.clone()); let _ = hs.insert(m.clone());
            if hs.len() != 2 || !hs.contains(&m) || !hs.contains(v) { st.fail(format!("[C13] a set holding the built-in {} and the mod with the same bytes has {} element(s)", CARS[i], hs.len()), format!("eq {i}")); }
            for (j, w) in builtins.iter().enumerate() { if (i == j) != (v == w) { st.fail(format!("[C13] built-ins {} and {} compare {}", CARS[i], CARS[j], v == w), format!("eq {i}")); } }
        }
        let unknown = read([0; 4]).1.expect("zeros decode");
        if unknown == Vehicle::Mod(0) { st.fail("[C13] the mod with id 0 compares equal to the unknown vehicle".into(), "eq unknown".into()); }
        if Vehicle::Mod(7) != Vehicle::Mod(7) || Vehicle::Mod(7) == Vehicle::Mod(8) { st.fail("[C13] mod ids do not compare by value".into(), "eq mods".into()); }
    }
    st.distinct_nontrivial = nontrivial;
    st.rule = "4-byte values: all 62^3 alnum names + 17^4 boundary grid + every single-byte neighbour of each built-in name + seeded random words; distinct inputs counted, non-trivial = last byte 0 (zero / built-in-shaped / near-shaped), i.e. not a plain mod id".into();
    for s in ["58464700", "00000000", "41414100", "01020304", "58525401"] { let b = unhex(s); st.sample(format!("{} -> {}", s, read([b[0], b[1], b[2], b[3]]).0.show())); }
    out.finish(&st);
}
