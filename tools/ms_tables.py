#!/usr/bin/env python3
"""Dump Microsoft's codepage tables (Python's cp125x / cp932 / cp936 / cp949 / cp950 codecs, which are
built from Microsoft's published mapping files) as the independent oracle for "LFS's tables":
lines `<marker letter code> <hexbytes> <codepoint>`."""
import sys
LFS = {'L': 'cp1252', 'G': 'cp1253', 'C': 'cp1251', 'E': 'cp1250', 'T': 'cp1254', 'B': 'cp1257',
       'J': 'cp932', 'S': 'cp936', 'K': 'cp949', 'H': 'cp950'}
out = open(sys.argv[1], 'w')
n = 0
for letter, cp in LFS.items():
    for b in range(0x80, 0x100):
        try:
            s = bytes([b]).decode(cp)
            if len(s) == 1: out.write('%d %02x %d\n' % (ord(letter), b, ord(s))); n += 1
        except UnicodeDecodeError: pass
    if cp in ('cp932', 'cp936', 'cp949', 'cp950'):
        for a in range(0x81, 0xFF):
            for b in range(0x40, 0xFF):
                try:
                    s = bytes([a, b]).decode(cp)
                    if len(s) == 1: out.write('%d %02x%02x %d\n' % (ord(letter), a, b, ord(s))); n += 1
                except UnicodeDecodeError: pass
out.close()
print(n)
