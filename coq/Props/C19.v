(* Props/C19.v — cancelling a pending async read loses nothing. *)
Require Import Base.Bytes Net.Frame Net.Framed Net.FramedProofs Net.Async Net.AsyncProofs Net.AsyncRefines Net.Concrete Net.AsyncConvProofs Net.AsyncResults.
Local Open Scope N_scope.

(* For every packet layer, mode, transport script (data in any segmentation, transient errors,
   not-ready turns on the read half; accepts of any size and not-ready turns on the write half)
   and EVERY choice of pending polls at which the read future is dropped, any number of times:
   the session (results, their order, and the outgoing bytes seen between results) is the
   uninterrupted session of the same script. *)
Theorem c19_cancel_safe :
  forall (packet : Type) (parse : bytes -> res packet) (ver_of : packet -> option N)
         (is_keepalive : packet -> bool) (version : N) (m : mode) (verify : bool) (pong : bytes),
  forall fuel c s rs ws cancels acc,
    Inv packet parse ver_of is_keepalive version m verify pong c s ->
    asession packet parse ver_of is_keepalive version m verify pong fuel c s rs ws cancels acc
    = asession packet parse ver_of is_keepalive version m verify pong fuel c s rs ws [] acc.
Proof. exact cancel_safe. Qed.

(* the reason: all progress is committed to the connection within one poll, so resuming a suspended
   future and polling a fresh one are the same step *)
Theorem c19_resume_equals_fresh :
  forall (packet : Type) (parse : bytes -> res packet) (ver_of : packet -> option N)
         (is_keepalive : packet -> bool) (version : N) (m : mode) (verify : bool) (pong : bytes) c s rs ws,
    Inv packet parse ver_of is_keepalive version m verify pong c s ->
    poll_from packet parse ver_of is_keepalive version m verify pong c s rs ws
    = poll_from packet parse ver_of is_keepalive version m verify pong Top s rs ws.
Proof. exact poll_resume_eq_fresh. Qed.

(* every suspension leaves the connection in a state from which that holds again (so it holds at every
   pending poll of every session, starting from a fresh connection) *)
Theorem c19_suspension_invariant :
  forall (packet : Type) (parse : bytes -> res packet) (ver_of : packet -> option N)
         (is_keepalive : packet -> bool) (version : N) (m : mode) (verify : bool) (pong : bytes)
         c s rs ws c' s' rs' ws' w,
    Inv packet parse ver_of is_keepalive version m verify pong c s ->
    poll_from packet parse ver_of is_keepalive version m verify pong c s rs ws = (PPending c', s', rs', ws', w) ->
    Inv packet parse ver_of is_keepalive version m verify pong c' s'.
Proof. exact poll_pending_inv. Qed.

(* the outgoing side, under any cancellation schedule: between two results the bytes written are exactly
   one whole keep-alive reply, completed before the keep-alive it answers is returned; nothing else is
   written; no result is returned while a reply is partially written *)
Theorem c19_outgoing_whole_replies :
  forall (packet : Type) (parse : bytes -> res packet) (ver_of : packet -> option N)
         (is_keepalive : packet -> bool) (version : N) (m : mode) (verify : bool) (pong : bytes),
  pong <> [] -> forall fuel c s rs ws cancels acc,
    forallb no_fail ws = true ->
    Inv packet parse ver_of is_keepalive version m verify pong c s ->
    WInv packet is_keepalive pong s acc ->
    trace_ok packet is_keepalive pong
      (asession packet parse ver_of is_keepalive version m verify pong fuel c s rs ws cancels acc).
Proof. exact outgoing_whole_replies. Qed.

(* the uninterrupted async session on an always-ready transport is literally the connection model of
   C05 / C07 / C09 (Net/Framed.v): so, with c19_cancel_safe, the per-frame expectations proved there hold
   for every cancelled async session as well *)
Theorem c19_uninterrupted_is_the_connection :
  forall (packet : Type) (parse : bytes -> res packet) (ver_of : packet -> option N)
         (is_keepalive : packet -> bool) (version : N) (m : mode) (verify : bool) (pong : bytes),
  pong <> [] -> forall fuel tr buf,
    asession packet parse ver_of is_keepalive version m verify pong fuel Top (mkF buf [] None) (map AEv (tr ++ [Eof])) [] [] []
    = session packet parse ver_of is_keepalive version m verify pong fuel buf (tr ++ [Eof]).
Proof. exact async_session_is_the_connection. Qed.

(* the design before the repair (1dad7af): the partially written reply and its packet are held by the
   future only.  After one byte of the reply has been accepted the connection's state no longer
   mentions the packet: dropping the future loses it and leaves the byte on the wire. *)
Theorem c19_reply_state_in_future_refuted :
  forall (p q : tpacket) rest,
    legacy_after_keepalive tpacket [1;3;0;0] p rest [WAccept 0; WPending]
      = ((PPending Top, LInPong tpacket p [3;0;0]), rest, [], [1]) /\
    snd (fst (fst (legacy_after_keepalive tpacket [1;3;0;0] p rest [WAccept 0; WPending])))
      = snd (fst (fst (legacy_after_keepalive tpacket [1;3;0;0] q rest [WAccept 0; WPending]))) /\
    legacy_resume_pong tpacket p [3;0;0] [] = (Some (RPacket p), LTop tpacket, [], [3;0;0]).
Proof. intros p q rest. vm_compute. auto. Qed.

(* conversations: the caller also writes between reads.  Without writes a conversation is the session above *)
Theorem c19_conversation_without_writes_is_the_session :
  forall (packet : Type) (parse : bytes -> res packet) (ver_of : packet -> option N)
         (is_keepalive : packet -> bool) (version : N) (m : mode) (verify : bool) (pong : bytes),
  forall fuel c s rs ws cancels acc,
    flat_map (out_of packet) (aconv packet parse ver_of is_keepalive version m verify pong fuel c s rs ws cancels [] acc)
    = asession packet parse ver_of is_keepalive version m verify pong fuel c s rs ws cancels acc.
Proof. exact aconv_no_writes. Qed.

(* with writes: whatever is dropped and whenever the caller writes, no partial frame is left on the outgoing
   side (a write() completes an outstanding reply first), and the keep-alive whose reply a write() completed is
   still the next packet returned (a result other than that keep-alive is impossible while reply bytes are
   accounted for: conv_ok demands done = [] there) *)
Theorem c19_conversation_wire_is_whole_frames :
  forall (packet : Type) (parse : bytes -> res packet) (ver_of : packet -> option N)
         (is_keepalive : packet -> bool) (version : N) (m : mode) (verify : bool) (pong : bytes),
  forall fuel c s rs ws cancels wsched acc done,
    forallb no_fail ws = true ->
    Inv packet parse ver_of is_keepalive version m verify pong c s ->
    WInv packet is_keepalive pong s (done ++ acc) ->
    conv_ok packet is_keepalive pong done (aconv packet parse ver_of is_keepalive version m verify pong fuel c s rs ws cancels wsched acc).
Proof. exact aconv_ok. Qed.

(* the connection structs of the source have exactly the fields the models carry as state (regenerated field
   names): receive buffer + verification flag; the tokio one also the outstanding reply and its packet *)
Theorem c19_model_state_is_the_struct : state_tied = true.
Proof. vm_compute. reflexivity. Qed.


(* THE RESULTS, in full generality: for every readiness pattern of both halves of the transport (not-ready turns
   anywhere on the read half; partial accepts and not-ready turns on the write half), every schedule of dropped
   read() futures and every schedule of caller writes in between, the results returned so far are a prefix of
   what the plain connection model (Net/Framed.v, the model of C05/C07/C09) returns for the same bytes, preceded
   by the keep-alive that is being held back behind its reply, if any: nothing is lost, duplicated or reordered *)
Theorem c19_results_are_the_connections :
  forall (packet : Type) (parse : bytes -> res packet) (ver_of : packet -> option N)
         (is_keepalive : packet -> bool) (version : N) (m : mode) (verify : bool) (pong : bytes),
  forall fuel c s rs ws cancels wsched acc,
    forallb no_fail ws = true ->
    Inv packet parse ver_of is_keepalive version m verify pong c s ->
    prefix (results packet (aconv packet parse ver_of is_keepalive version m verify pong fuel c s rs ws cancels wsched acc))
           (held packet s ++ rets packet (session packet parse ver_of is_keepalive version m verify pong fuel (fbuf s) (strip rs ++ [Eof]))).
Proof. exact aconv_results. Qed.

(* and once the conversation has seen the end of the stream (any final result) it has returned ALL of them *)
Theorem c19_results_complete_at_end_of_stream :
  forall (packet : Type) (parse : bytes -> res packet) (ver_of : packet -> option N)
         (is_keepalive : packet -> bool) (version : N) (m : mode) (verify : bool) (pong : bytes),
  forall fuel c s rs ws cancels wsched acc pre x,
    forallb no_fail ws = true ->
    Inv packet parse ver_of is_keepalive version m verify pong c s ->
    results packet (aconv packet parse ver_of is_keepalive version m verify pong fuel c s rs ws cancels wsched acc) = pre ++ [x] ->
    is_final packet (Ret x) = true ->
    results packet (aconv packet parse ver_of is_keepalive version m verify pong fuel c s rs ws cancels wsched acc)
    = held packet s ++ rets packet (session packet parse ver_of is_keepalive version m verify pong fuel (fbuf s) (strip rs ++ [Eof])).
Proof. exact aconv_results_complete. Qed.


(* the parked keep-alive reply is CONNECTION state: whichever future does the flushing - a read() or the caller's write(), run to the
   end or dropped at a not-ready poll - what it wrote followed by what is still parked is the reply, and nothing is left parked
   exactly when the flush completed *)
Theorem c19_parked_reply_is_conserved : forall ws pw r pw' ws' w,
  flush pw ws = (r, pw', ws', w) -> pw = w ++ pw' /\ (r = FDone -> pw' = []).
Proof. exact flush_conserve. Qed.

(* non-vacuity: the future is dropped while the keep-alive reply is half written and again while waiting for data *)
Example c19_example :
  run_async Compressed false [([3;0;0], (0, CKeep)); ([3;1;2], (1, COther))]
    [AEv (Data [1;3]); APend; AEv (Data [0;0;1;3]); APend; AEv (Data [1;2]); AEv Eof]
    [WAccept 1; WPending; WAccept 0; WPending; WAccept 0] [true; true; false; true]
  = [Wrote [1;3;0;0]; Ret (RPacket (0, CKeep)); Ret (RPacket (1, COther)); Ret RDisconnected]
  /\ Inv tpacket (tparse []) t_ver_of t_is_keepalive 9 Compressed false [1;3;0;0] Top (init_state tpacket)
  /\ WInv tpacket t_is_keepalive [1;3;0;0] (init_state tpacket) [].
Proof. vm_compute. auto. Qed.
