Require Import Coq.Strings.String.
Require Import Props.C18.
Require Import Base.Bytes Gen.BuilderTab Gen.NetConsts Net.Frame Builder.Builder Builder.BuilderProofs.
Require Import Wire.Layout Wire.Customs Wire.LayoutProofs Wire.CustomProofs Wire.Packet Wire.PacketProofs Gen.Packets.
Local Open Scope N_scope.
Check c18_isi_carries_last_set_or_default : forall ops,
  let i := isi_of (build ops) in
  i_reqi i = match last_some sets_reqi ops with Some v => v | None => 0 end /\
  i_admin i = match last_some sets_admin ops with Some (Some a) => a | _ => [] end /\
  i_iname i = match last_some sets_iname ops with Some (Some n) => n | _ => gen_default_iname end /\
  i_prefix i = match last_some sets_prefix ops with Some (Some p) => p | _ => 0 end /\
  i_interval i = match last_some sets_interval ops with Some (Some d) => d | _ => 0 end /\
  i_version i = gen_version /\
  i_udpport i = match last_some sets_proto ops with
                | Some Udp => match last_some sets_local ops with Some (Some p) => p | _ => 0 end
                | _ => 0 end /\
  (forall k, N.testbit (i_flags i) k = match last_some (touches k) ops with Some v => v | None => false end).
Check c18_flag_setter_changes_only_its_bit : forall flags bit e k,
  N.testbit (set_flag flags bit e) k = if N.testbit bit k then e else N.testbit flags k.
Check c18_setters_match_flags : setters_ok = true.
Check c18_mode_and_proto : forall ops,
  b_mode (build ops) = match last_some sets_mode ops with Some v => v | None => Compressed end /\
  b_proto (build ops) = match last_some sets_proto ops with Some v => v | None => Tcp end.
Check c18_handshake_frame_roundtrip : forall ops fr rest,
  let b := build ops in
  pindom (isi_pval (isi_of b)) = true ->
  frame_encode (b_mode b) (isi_pval (isi_of b)) = Ok fr ->
  frame_decode (b_mode b) (fr ++ rest) = Got (isi_pval (isi_of b)) rest /\ wf_frame (b_mode b) fr.
Check c18_relay_options_do_not_reach_the_handshake : forall ops1 ops2,
  build (ops1 ++ OOther :: ops2) = build (ops1 ++ ops2).
Check c18_setters_touch_only_their_own_option : footprints_tied = true.
Print Assumptions c18_isi_carries_last_set_or_default.
Print Assumptions c18_flag_setter_changes_only_its_bit.
Print Assumptions c18_setters_match_flags.
Print Assumptions c18_mode_and_proto.
Print Assumptions c18_handshake_frame_roundtrip.
Print Assumptions c18_relay_options_do_not_reach_the_handshake.
Print Assumptions c18_setters_touch_only_their_own_option.
