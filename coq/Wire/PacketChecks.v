(* Wire/PacketChecks.v — the decidable per-kind side conditions that Wire/PacketProofs.v closes by
   vm_compute over the generated table.  They live in their own file (definitions only) so that, when a
   regenerated layout stops satisfying one of them and the proof file no longer compiles, the check can
   still EVALUATE them and name the offending kinds (Diag step of ./check).  No proofs here. *)
Require Import Coq.Strings.String.
Require Import Base.Bytes Wire.Layout Wire.Customs Wire.LayoutProofs Wire.Packet Gen.Packets.
Local Open Scope N_scope.

(* totality (C04) *)
Definition kind_panic_free (e : N * string * pkind) : bool :=
  match snd e with KLayout l => panic_free l | KMso => true end.

(* length (C03) *)
Notation fwidth := (fixed_width cwidth).

Definition tail_mod4 (t : tail) : bool :=
  match t with
  | TNone | TWords => true
  | TVec elt pm pk =>
      let ew := fwidth elt in
      (Nat.eqb (Nat.modulo ew 4) 0 && Nat.eqb pm 1)
      || (Nat.eqb pm 2 && Nat.eqb (Nat.modulo ew 4) 2 && Nat.eqb (Nat.modulo pk 4) 2)
  | TTextEof mx al _ => Nat.eqb al 4 && Nat.eqb (Nat.modulo mx 4) 0
  end.
Definition size4 (l : layout) : bool :=
  Nat.eqb (Nat.modulo (2 + fwidth (fixed l)) 4) 0 && tail_mod4 (ltail l) && tail_align_ok (ltail l).

Definition kind_size4 (e : N * string * pkind) : bool :=
  match snd e with KLayout l => size4 l | KMso => true end.

(* names of the kinds that violate a condition *)
Definition offenders (f : N * string * pkind -> bool) : list string :=
  map (fun e => snd (fst e)) (filter (fun e => negb (f e)) packet_table).
