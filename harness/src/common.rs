//! shared helpers: PRNG (SplitMix64, single stream), hex, JSON writer, panic capture, output files
use std::{
    collections::BTreeMap,
    fmt::Write as _,
    fs::File,
    io::{BufWriter, Write},
    panic::{catch_unwind, AssertUnwindSafe},
};

#[derive(Clone)]
pub struct Rng(pub u64);
impl Rng {
    pub fn new(seed: u64) -> Self { Rng(seed ^ 0x9E37_79B9_7F4A_7C15) }
    pub fn next(&mut self) -> u64 {
        self.0 = self.0.wrapping_add(0x9E37_79B9_7F4A_7C15);
        let mut z = self.0;
        z = (z ^ (z >> 30)).wrapping_mul(0xBF58_476D_1CE4_E5B9);
        z = (z ^ (z >> 27)).wrapping_mul(0x94D0_49BB_1331_11EB);
        z ^ (z >> 31)
    }
    pub fn below(&mut self, n: u64) -> u64 { if n == 0 { 0 } else { self.next() % n } }
    pub fn range(&mut self, lo: u64, hi: u64) -> u64 { lo + self.below(hi - lo + 1) }
    pub fn byte(&mut self) -> u8 { self.next() as u8 }
    pub fn chance(&mut self, num: u64, den: u64) -> bool { self.below(den) < num }
    pub fn pick<'a, T>(&mut self, xs: &'a [T]) -> &'a T { &xs[self.below(xs.len() as u64) as usize] }
    pub fn bytes(&mut self, n: usize) -> Vec<u8> { (0..n).map(|_| self.byte()).collect() }
}

pub fn hex(bs: &[u8]) -> String {
    if bs.is_empty() { return "-".into(); }
    let mut s = String::with_capacity(bs.len() * 2);
    for b in bs { let _ = write!(s, "{:02x}", b); }
    s
}
pub fn unhex(s: &str) -> Vec<u8> {
    if s == "-" { return vec![]; }
    (0..s.len() / 2).map(|i| u8::from_str_radix(&s[2 * i..2 * i + 2], 16).unwrap()).collect()
}

/// run f, mapping a panic to None (the default panic hook is silenced once in main)
pub fn guard<T>(f: impl FnOnce() -> T) -> Option<T> { catch_unwind(AssertUnwindSafe(f)).ok() }

// ---------------------------------------------------------------- non-termination watchdog
// A call into the code under test that does not return cannot be caught like a panic.  Calls whose totality is part of a property are
// wrapped in `watched`: the input is recorded while the call runs, and a watchdog thread that sees the SAME call still running after
// WATCH_LIMIT seconds (the calls take microseconds) writes a stats file holding that input as the failure and ends the process.
static WATCH_SEQ: std::sync::atomic::AtomicU64 = std::sync::atomic::AtomicU64::new(0);
static WATCH_ARMED: std::sync::atomic::AtomicBool = std::sync::atomic::AtomicBool::new(false);
static WATCH_INPUT: std::sync::Mutex<(String, String)> = std::sync::Mutex::new((String::new(), String::new()));
pub const WATCH_LIMIT: u64 = 20;
pub fn watched<T>(what: &str, input: impl FnOnce() -> String, f: impl FnOnce() -> T) -> T {
    use std::sync::atomic::Ordering::SeqCst;
    { let mut g = WATCH_INPUT.lock().unwrap(); g.0.clear(); g.0.push_str(what); g.1 = input(); }
    WATCH_SEQ.fetch_add(1, SeqCst); WATCH_ARMED.store(true, SeqCst);
    let r = f();
    WATCH_ARMED.store(false, SeqCst); WATCH_SEQ.fetch_add(1, SeqCst);
    r
}
/// for calls that cannot be wrapped in a closure (an `.await`): arm before, disarm after; the input reported is the current case
static CURRENT_CASE: std::sync::Mutex<String> = std::sync::Mutex::new(String::new());
pub fn set_case(id: &str) { if let Ok(mut g) = CURRENT_CASE.lock() { g.clear(); g.push_str(id); } }
pub fn watch_arm(what: &str) { use std::sync::atomic::Ordering::SeqCst; { let c = CURRENT_CASE.lock().map(|g| g.clone()).unwrap_or_default(); let mut g = WATCH_INPUT.lock().unwrap(); g.0.clear(); g.0.push_str(what); g.1 = c; } WATCH_SEQ.fetch_add(1, SeqCst); WATCH_ARMED.store(true, SeqCst); }
pub fn watch_disarm() { use std::sync::atomic::Ordering::SeqCst; WATCH_ARMED.store(false, SeqCst); WATCH_SEQ.fetch_add(1, SeqCst); }
/// started once per run; `out` = the run's output directory (stats.json, cases.txt, impl.txt)
pub fn start_watchdog(prop: &str, out: &str, replay: bool) {
    use std::sync::atomic::Ordering::SeqCst;
    let (prop, out) = (prop.to_string(), out.to_string());
    let _ = std::thread::spawn(move || {
        let mut last = 0u64; let mut since = std::time::Instant::now();
        loop {
            std::thread::sleep(std::time::Duration::from_millis(500));
            let s = WATCH_SEQ.load(SeqCst);
            if s != last || !WATCH_ARMED.load(SeqCst) { last = s; since = std::time::Instant::now(); continue; }
            if since.elapsed().as_secs() >= WATCH_LIMIT {
                let (what, input) = WATCH_INPUT.lock().map(|g| g.clone()).unwrap_or_default();
                if replay { println!("FAIL [{prop}] {what} does not return within {WATCH_LIMIT} s"); std::process::exit(1); }
                let mut st = Stats::default(); st.evaluations = 1;
                st.rule = "run cut short by the non-termination watchdog".into();
                st.fail(format!("[{prop}] {what} does not return (still running after {WATCH_LIMIT} s; such calls take microseconds)"), input);
                let _ = std::fs::write(format!("{out}/cases.txt"), ""); let _ = std::fs::write(format!("{out}/impl.txt"), "");
                st.write(&format!("{out}/stats.json"));
                std::process::exit(0);
            }
        }
    });
}

/// a reader that hands over at most k bytes per read() call (a pipe, a socket, a BufReader at its buffer boundary)
pub struct Dribble<R> { pub inner: R, pub k: usize }
impl<R: std::io::Read> std::io::Read for Dribble<R> { fn read(&mut self, buf: &mut [u8]) -> std::io::Result<usize> { let n = buf.len().min(self.k); self.inner.read(&mut buf[..n]) } }
impl<R: std::io::Seek> std::io::Seek for Dribble<R> { fn seek(&mut self, p: std::io::SeekFrom) -> std::io::Result<u64> { self.inner.seek(p) } }

/// a writer that takes at most k bytes per write() call (a pipe, a socket, a nearly full buffer)
pub struct DribbleW { pub inner: std::io::Cursor<Vec<u8>>, pub k: usize }
impl std::io::Write for DribbleW { fn write(&mut self, buf: &[u8]) -> std::io::Result<usize> { let n = buf.len().min(self.k); std::io::Write::write(&mut self.inner, &buf[..n]) } fn flush(&mut self) -> std::io::Result<()> { Ok(()) } }
impl std::io::Seek for DribbleW { fn seek(&mut self, p: std::io::SeekFrom) -> std::io::Result<u64> { std::io::Seek::seek(&mut self.inner, p) } }

pub fn jstr(s: &str) -> String {
    let mut o = String::from("\"");
    for c in s.chars() {
        match c {
            '"' => o.push_str("\\\""),
            '\\' => o.push_str("\\\\"),
            '\n' => o.push_str("\\n"),
            '\r' => o.push_str("\\r"),
            '\t' => o.push_str("\\t"),
            c if (c as u32) < 0x20 => { let _ = write!(o, "\\u{:04x}", c as u32); },
            c => o.push(c),
        }
    }
    o.push('"');
    o
}

/// Collected per run; written as stats.json for the python driver to fold into the evidence file.
#[derive(Default)]
pub struct Stats {
    pub evaluations: u64,
    pub distinct_nontrivial: u64,
    pub rule: String,
    pub exhaustive: Vec<String>,
    pub hist: BTreeMap<String, u64>,
    pub samples: Vec<String>,
    /// (what, replay-input) property violations seen directly on the implementation
    pub failures: Vec<(String, String, String)>,
    pub failures_total: u64,
    pub fail_classes: BTreeMap<String, u64>,
    pub notes: Vec<String>,
}
impl Stats {
    pub fn bump(&mut self, k: &str) { *self.hist.entry(k.to_string()).or_insert(0) += 1; }
    pub fn add(&mut self, k: &str, n: u64) { *self.hist.entry(k.to_string()).or_insert(0) += n; }
    pub fn sample(&mut self, s: String) { if self.samples.len() < 12 { self.samples.push(s); } }
    pub fn fail(&mut self, what: String, input: String) { self.fail_class("", what, input) }
    /// class = id of a known-finding class the input provably belongs to ("" = none)
    pub fn fail_class(&mut self, class: &str, what: String, input: String) {
        if self.failures.iter().any(|f| f.2 == input && f.0 == class) { return; }
        self.failures_total += 1;
        *self.fail_classes.entry(class.to_string()).or_insert(0) += 1;
        let same = self.failures.iter().filter(|f| f.0 == class).count();
        if same < 25 { self.failures.push((class.to_string(), what, input)); }
    }
    pub fn write(&self, path: &str) {
        let mut o = String::from("{");
        let _ = write!(o, "\"evaluations\":{},\"distinct_nontrivial\":{},\"rule\":{},", self.evaluations, self.distinct_nontrivial, jstr(&self.rule));
        let _ = write!(o, "\"exhaustive\":[{}],", self.exhaustive.iter().map(|s| jstr(s)).collect::<Vec<_>>().join(","));
        let _ = write!(o, "\"hist\":{{{}}},", self.hist.iter().map(|(k, v)| format!("{}:{}", jstr(k), v)).collect::<Vec<_>>().join(","));
        let _ = write!(o, "\"samples\":[{}],", self.samples.iter().map(|s| jstr(s)).collect::<Vec<_>>().join(","));
        let _ = write!(o, "\"notes\":[{}],", self.notes.iter().map(|s| jstr(s)).collect::<Vec<_>>().join(","));
        let _ = write!(o, "\"failures_total\":{},", self.failures_total);
        let _ = write!(o, "\"fail_classes\":{{{}}},", self.fail_classes.iter().map(|(k, v)| format!("{}:{}", jstr(k), v)).collect::<Vec<_>>().join(","));
        let _ = write!(o, "\"failures\":[{}]", self.failures.iter().map(|(c, w, i)| format!("{{\"class\":{},\"what\":{},\"input\":{}}}", jstr(c), jstr(w), jstr(i))).collect::<Vec<_>>().join(","));
        o.push('}');
        std::fs::write(path, o).unwrap();
    }
}

pub struct Out {
    pub cases: BufWriter<File>,
    pub imp: BufWriter<File>,
    pub dir: String,
}
impl Out {
    pub fn new(dir: &str) -> Self {
        std::fs::create_dir_all(dir).unwrap();
        Out {
            cases: BufWriter::new(File::create(format!("{dir}/cases.txt")).unwrap()),
            imp: BufWriter::new(File::create(format!("{dir}/impl.txt")).unwrap()),
            dir: dir.to_string(),
        }
    }
    /// one correspondence case: the line for the model driver, and what the implementation did
    pub fn case(&mut self, case: &str, imp: &str) {
        writeln!(self.cases, "{case}").unwrap();
        writeln!(self.imp, "{imp}").unwrap();
    }
    pub fn finish(mut self, stats: &Stats) {
        self.cases.flush().unwrap();
        self.imp.flush().unwrap();
        stats.write(&format!("{}/stats.json", self.dir));
    }
}

pub struct Args {
    pub tier: String,
    pub seed: u64,
    pub out: String,
    pub replay: Option<String>,
    pub extra: Vec<String>,
}
impl Args {
    pub fn thorough(&self) -> bool { self.tier == "thorough" }
}
