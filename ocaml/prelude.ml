(* prelude.ml — conversions between OCaml ints/strings and the extracted Coq datatypes;
   textually included after `open Model` in every group's driver *)
let rec pos_of_int (i : int) : positive =
  if i = 1 then XH else if i land 1 = 0 then XO (pos_of_int (i lsr 1)) else XI (pos_of_int (i lsr 1))
let n_of_int (i : int) : n = if i = 0 then N0 else Npos (pos_of_int i)
let rec int_of_pos (p : positive) : int =
  match p with XH -> 1 | XO q -> 2 * int_of_pos q | XI q -> 2 * int_of_pos q + 1
let int_of_n (x : n) : int = match x with N0 -> 0 | Npos p -> int_of_pos p
let rec nat_of_int (i : int) : nat = if i = 0 then O else S (nat_of_int (i - 1))
let rec int_of_nat (x : nat) : int = match x with O -> 0 | S k -> 1 + int_of_nat k

let bytes_of_hex (s : Stdlib.String.t) : n list =
  if s = "-" then [] else begin
    let l = Stdlib.String.length s / 2 in
    Stdlib.List.init l (fun i -> n_of_int (int_of_string ("0x" ^ Stdlib.String.sub s (2 * i) 2)))
  end
let hex_of_bytes (bs : n list) : Stdlib.String.t =
  if bs = [] then "-" else Stdlib.String.concat "" (Stdlib.List.map (fun b -> Printf.sprintf "%02x" (int_of_n b)) bs)

let show_res f r = match r with Ok a -> f a | Err -> "E" | Panic -> "P"


let main (handle : Stdlib.String.t list -> Stdlib.String.t) =
  try
    while true do
      let line = input_line stdin in
      let toks = Stdlib.List.filter (fun s -> s <> "") (Stdlib.String.split_on_char ' ' line) in
      print_string (try handle toks with Stack_overflow -> "?stack" | Not_found -> "?notfound" | Failure m -> "?fail:" ^ m);
      print_char '\n'
    done
  with End_of_file -> ()
