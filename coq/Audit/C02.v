Require Import Coq.Strings.String.
Require Import Props.C02.
Require Import Base.Bytes Wire.Layout Wire.Customs Wire.CustomProofs Gen.Packets Net.Frame Wire.Packet Wire.PacketProofs.
Require Import Spec.Defs Spec.InSimV9 Spec.Conform Spec.ConformProofs.
Local Open Scope N_scope.
Check c02_conforms_all_kinds : conforms_all = true.
Check c02_type_numbers :
  map (fun e => (fst (fst e), snd (fst e))) packet_table = map (fun s => (ss_type s, ss_code s)) structs.
Check c02_fields_at_their_offsets : forall m ty vs tv fr l,
  find_kind ty packet_table = Some (KLayout l) ->
  frame_encode m (PV ty vs tv) = Ok fr ->
  exists size body, fr = size :: ty :: body /\
    encode_length m (length fr) = Ok size /\
    forall i n a v, nth_error (fixed l) i = Some (n, a) -> nth_error vs i = Some v ->
      exists bi, enc_atom cenc (tail_count tv) a v = Ok bi /\
                 firstn (awidth cwidth a) (skipn (2 + offset_of (fixed l) i) fr) = bi.
Check c02_field_representation : forall cnt a v bi, enc_atom cenc cnt a v = Ok bi ->
  match a, v with
  | ANum w _, VN n => bi = le_enc w n /\ n < pow256 w
  | APad k, _ => bi = repeat 0 k
  | AEnum vals, VN n => bi = [n] /\ In n vals
  | AFlags w _, VN n => bi = le_enc w n /\ n < pow256 w
  | ABool, VN n => bi = [n] /\ n < 2
  | AChar8, VN n => bi = [n mod 256]
  | ACount w _, _ => bi = le_enc w (cnt mod pow256 w)
  | AText k z, VB bs => bi = write_text k z bs /\ length bi = k
  | ADur w scale, VN ms => bi = le_enc w (ms / scale) /\ ms / scale < pow256 w
  | _, _ => True
  end.
Check c02_little_endian : forall w n k, (k < w)%nat -> nth k (le_enc w n) 0 = (n / 256 ^ N.of_nat k) mod 256.
Check c02_reqi_is_byte_2 : forallb (fun e => reqi_first (snd e)) packet_table = true.
Check c02_decoding_recovers_the_values : forall m p fr rest,
  pindom p = true -> frame_encode m p = Ok fr -> frame_decode m (fr ++ rest) = Got p rest.
Print Assumptions c02_conforms_all_kinds.
Print Assumptions c02_type_numbers.
Print Assumptions c02_fields_at_their_offsets.
Print Assumptions c02_field_representation.
Print Assumptions c02_little_endian.
Print Assumptions c02_reqi_is_byte_2.
Print Assumptions c02_decoding_recovers_the_values.
