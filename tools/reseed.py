#!/usr/bin/env python3
"""reseed.py <seeded-id-prefix>... [--checks C01,C03] — re-run the registered checks against stored seeded changes:
applies seeded/<id>/patch.diff to /repo (which must be clean), runs the checks, reverts /repo, and records the
outcome in the change's meta.json (checks_run, caught_by, found_input).  Patches whose base no longer applies are
reported and skipped.  /repo is never committed to."""
import sys, os, json, glob, subprocess, time
ROOT = os.path.dirname(os.path.dirname(os.path.abspath(__file__)))
def sh(cmd, cwd=None):
    p = subprocess.run(cmd, shell=True, cwd=cwd, stdout=subprocess.PIPE, stderr=subprocess.STDOUT, text=True)
    return p.returncode, p.stdout
def main():
    args = [a for a in sys.argv[1:] if not a.startswith('--')]
    checks = None
    if '--checks' in sys.argv: checks = sys.argv[sys.argv.index('--checks') + 1].split(','); args = [a for a in args if a != ','.join(checks)]
    rc, o = sh('git status --porcelain', cwd='/repo')
    if o.strip(): print('/repo is not clean:', o); return 2
    bad = 0
    for pre in args:
        for d in sorted(glob.glob(os.path.join(ROOT, 'seeded', pre + '*'))):
            mp = os.path.join(d, 'meta.json'); m = json.load(open(mp))
            cs = checks or [m['breaks_property']]
            rc, o = sh('git apply --check %s' % os.path.join(d, 'patch.diff'), cwd='/repo')
            if rc != 0: print(os.path.basename(d)[:40], 'patch no longer applies (base %s)' % m.get('base_commit')); continue
            sh('git apply %s' % os.path.join(d, 'patch.diff'), cwd='/repo')
            try:
                for c in cs:
                    t0 = time.time()
                    rc, o = sh('./check %s --tier quick' % c, cwd=ROOT)
                    v = [l for l in o.splitlines() if l.startswith('VIOLATION')]
                    detail = [l.strip()[:300] for l in o.splitlines() if l.strip().startswith(('fails:', 'broken['))][:4]
                    m.setdefault('checks_run', {})[c] = {'rc': rc, 'violation': v[:1], 'detail': detail, 'wall_s': round(time.time() - t0, 1)}
                    found = bool(v) and 'no-failing-input-found' not in v[0]
                    print(os.path.basename(d)[:44], c, 'rc', rc, 'concrete input' if found else ('NO INPUT' if v else 'MISSED'), (detail[:1] or [''])[0][:160])
                    if rc == 0: bad += 1
            finally:
                sh('git apply -R %s' % os.path.join(d, 'patch.diff'), cwd='/repo')   # also removes files the patch added
                sh('git checkout -- .', cwd='/repo')
                for f in glob.glob(os.path.join(ROOT, 'replays', '*.json')):
                    if os.path.getmtime(f) > time.time() - 3600: os.remove(f)
            m['caught_by'] = [c for c, r in m['checks_run'].items() if r['rc'] != 0]
            m['found_input'] = [c for c, r in m['checks_run'].items() if r['rc'] != 0 and r['violation'] and 'no-failing-input-found' not in r['violation'][0]]
            json.dump(m, open(mp, 'w'), indent=1)
    return 1 if bad else 0
if __name__ == '__main__':
    sys.exit(main())
