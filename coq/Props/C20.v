(* Props/C20.v — the WebSocket relay transport carries the same byte stream as TCP. *)
Require Import Base.Bytes Net.Frame Net.FrameProofs Net.Framed Net.FramedProofs Net.Adaptor Net.AdaptorSession Net.Concrete Net.Async Net.AsyncProofs Net.AsyncConvProofs.
Local Open Scope N_scope.

(* For every packet layer that never panics (C04), every list of complete frames, EVERY way of
   distributing the concatenated stream over binary messages (one frame per message, several,
   frames split across messages, messages of any size), any interleaving of non-binary messages
   and empty binary messages, and every sequence of slice sizes offered by the connection:
   one result per frame, in order, then Disconnected. *)
Theorem c20_session_any_partition :
  forall (packet : Type) (parse : bytes -> res packet) (ver_of : packet -> option N)
         (is_keepalive : packet -> bool) (version : N) (m : mode) (verify : bool) (pong : bytes),
  (forall b, parse b <> Panic) ->
  forall items sizes fs fuel,
    no_end items = true -> payload items = concat fs -> Forall (wf_frame m) fs ->
    (weight items <= length sizes)%nat ->
    let es := fst (fst (serve false sizes [] items)) in
    (length fs + length es < fuel)%nat ->
    filter (keep packet) (session packet parse ver_of is_keepalive version m verify pong fuel [] (es ++ [Eof]))
      = concat (map (expected_frame packet parse ver_of is_keepalive version verify pong) fs) ++ [Ret RDisconnected].
Proof. exact ws_session. Qed.

(* ... which is exactly what TCP delivers for the same stream under any segmentation *)
Theorem c20_equals_tcp :
  forall (packet : Type) (parse : bytes -> res packet) (ver_of : packet -> option N)
         (is_keepalive : packet -> bool) (version : N) (m : mode) (verify : bool) (pong : bytes),
  (forall b, parse b <> Panic) ->
  forall items sizes fs fuel tr fuel',
    no_end items = true -> payload items = concat fs -> Forall (wf_frame m) fs ->
    (weight items <= length sizes)%nat ->
    let es := fst (fst (serve false sizes [] items)) in
    (length fs + length es < fuel)%nat ->
    Forall ev_ok tr -> Forall is_data tr -> data_of tr = concat fs -> (length fs + length tr < fuel')%nat ->
    filter (keep packet) (session packet parse ver_of is_keepalive version m verify pong fuel [] (es ++ [Eof]))
    = filter (keep packet) (session packet parse ver_of is_keepalive version m verify pong fuel' [] (tr ++ [Eof])).
Proof. exact ws_equals_tcp. Qed.

(* non-binary messages are ignored without losing data *)
Theorem c20_non_binary_ignored :
  forall (packet : Type) (parse : bytes -> res packet) (ver_of : packet -> option N)
         (is_keepalive : packet -> bool) (version : N) (m : mode) (verify : bool) (pong : bytes),
  (forall b, parse b <> Panic) ->
  forall items sizes sizes' fs fuel fuel',
    no_end items = true -> payload items = concat fs -> Forall (wf_frame m) fs ->
    let clean := filter (fun i => negb (is_skip i)) items in
    (weight items <= length sizes)%nat -> (weight clean <= length sizes')%nat ->
    let es := fst (fst (serve false sizes [] items)) in
    let es' := fst (fst (serve false sizes' [] clean)) in
    (length fs + length es < fuel)%nat -> (length fs + length es' < fuel')%nat ->
    filter (keep packet) (session packet parse ver_of is_keepalive version m verify pong fuel [] (es ++ [Eof]))
    = filter (keep packet) (session packet parse ver_of is_keepalive version m verify pong fuel' [] (es' ++ [Eof])).
Proof. exact ws_noise_irrelevant. Qed.

(* closure surfaces as Disconnected *)
Theorem c20_closure_disconnects :
  forall (packet : Type) (parse : bytes -> res packet) (ver_of : packet -> option N)
         (is_keepalive : packet -> bool) (version : N) (m : mode) (verify : bool) (pong : bytes) buf t tr c,
    aread false [] (IEnd :: t) c = Some (Eof, [], t) /\
    (try_decode packet parse ver_of is_keepalive version m verify pong buf = None ->
     read packet parse ver_of is_keepalive version m verify pong buf (Eof :: tr) = ([Ret RDisconnected], buf, tr)).
Proof. exact closure_disconnects. Qed.

(* the adaptor never loses, duplicates or reorders a byte, for any slice sizes (incl. messages larger than its buffer) *)
Theorem c20_adaptor_loses_nothing : forall eof sizes buf items,
  no_end items = true -> (eof = true -> no_empty items = true) ->
  let '(es, buf', items') := serve eof sizes buf items in
  Forall chunk_ok es /\ buf ++ payload items = data_of es ++ buf' ++ payload items'.
Proof. exact serve_stream. Qed.

(* every written packet leaves as exactly one binary message holding exactly its frame *)
Theorem c20_write_is_one_message : forall frame, frame <> [] ->
  fst (awrite frame) = [IBytes frame] /\
  write_all [WAccept (pred (snd (awrite frame)))] frame = (frame, WOk, []).
Proof. exact awrite_write_all. Qed.

(* the outgoing side on the tokio connection when read() futures are dropped and the caller writes in between:
   WebsocketStream::poll_write sends the WHOLE buffer it is offered as one binary message or is not ready
   (msg_ev n: every accepted call takes at least n bytes, n bounding the reply; not ready otherwise).  Then
   every burst of reply bytes written by a read() is the whole reply frame (one message), and every write()
   first sends the whole outstanding reply or nothing and then its own frame: a message never carries part
   of a frame or two frames.  (With c06_writes_never_split_a_reply this is exactly one message per frame.) *)
Theorem c20_messages_are_whole_frames_under_cancellation_and_writes :
  forall (packet : Type) (parse : bytes -> res packet) (ver_of : packet -> option N)
         (is_keepalive : packet -> bool) (version : N) (m : mode) (verify : bool) (pong : bytes),
  forall n, (length pong <= n)%nat ->
  forall fuel c s rs ws cancels wsched,
    forallb (msg_ev n) ws = true ->
    Inv packet parse ver_of is_keepalive version m verify pong c s ->
    Whole packet pong s -> (pend_p s = None -> pend_w s = []) ->
    Forall (tok_whole packet pong) (aconv packet parse ver_of is_keepalive version m verify pong fuel c s rs ws cancels wsched []).
Proof. intros. eapply aconv_messages_whole; eassumption. Qed.


(* the connection structs and the codec of the source have exactly the fields the models carry as state (regenerated field
   names): nothing else can be left behind by a failed or dropped write *)
Theorem c20_model_state_is_the_struct : state_tied = true.
Proof. vm_compute. reflexivity. Qed.


(* non-vacuity: a frame split across two binary messages with a text message between them, two frames in one
   message, an empty binary message, then closure; 2-byte slices *)
Example c20_example :
  run_adaptor_session Compressed false [([3;0;0], (0, CKeep)); ([3;1;2], (1, COther))]
    false 0 [IBytes [1;3]; ISkip; IBytes [0;0;1]; IBytes []; IBytes [3;1;2;1;3;1;2]; IEnd] (repeat 1%nat 12)
  = [Wrote [1;3;0;0]; Ret (RPacket (0, CKeep)); Ret (RPacket (1, COther)); Ret (RPacket (1, COther)); Ret RDisconnected].
Proof. vm_compute. reflexivity. Qed.
