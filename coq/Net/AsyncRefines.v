(* Net/AsyncRefines.v — the async read future (Net/Async.v), never cancelled, on a transport whose halves are
   always ready, IS the connection of Net/Framed.v: same results, same outgoing bytes, for every script that
   ends in end-of-stream.  Together with cancel_safe this carries the per-frame expectations of C05 / C07 / C09
   to every cancelled async session.  Axiom-free. *)
Require Import Base.Bytes Net.Frame Net.Framed Net.Async Net.AsyncProofs.
Require Import Lia.
Local Open Scope N_scope.

Section Refine.
  Variable packet : Type.
  Variable parse : bytes -> res packet.
  Variable ver_of : packet -> option N.
  Variable is_keepalive : packet -> bool.
  Variable version : N.
  Variable m : mode.
  Variable verify : bool.
  Variable pong : bytes.
  Hypothesis pong_nonempty : pong <> [].

  Notation read := (read packet parse ver_of is_keepalive version m verify pong).
  Notation session := (session packet parse ver_of is_keepalive version m verify pong).
  Notation try_decode := (try_decode packet parse ver_of is_keepalive version m verify pong).
  Notation deliver := (deliver packet ver_of is_keepalive version verify pong).
  Notation after_decode := (after_decode packet parse ver_of is_keepalive version m verify pong).
  Notation read_loop := (read_loop packet parse ver_of is_keepalive version m verify pong).
  Notation poll_from := (poll_from packet parse ver_of is_keepalive version m verify pong).
  Notation asession := (asession packet parse ver_of is_keepalive version m verify pong).

  Definition wrote (w : bytes) : list (out packet) := match w with [] => [] | _ => [Wrote w] end.

  Lemma flush_all pw : pw <> [] -> flush pw [] = (FDone, [], [], pw).
  Proof. destruct pw; [congruence|reflexivity]. Qed.

  (* the decode step: same decision, same outputs *)
  Lemma decode_agree buf :
    match try_decode buf with
    | None => after_decode buf [] [] = None
    | Some (o, b) => exists r w, after_decode buf [] [] = Some (PReady r, mkF b [] None, [], w) /\ o = wrote w ++ [Ret r]
    end.
  Proof.
    unfold Framed.try_decode, Async.after_decode. destruct buf as [|x t]; [reflexivity|].
    destruct (decode packet parse m (x :: t)) as [|p rest|rest| |].
    - reflexivity.
    - unfold Framed.deliver, Async.deliverK.
      destruct (if verify then ver_of p else None) as [v|].
      + destruct (v =? version).
        * destruct (is_keepalive p).
          -- rewrite (flush_all pong pong_nonempty). exists (RPacket p), pong. split; [reflexivity|].
             unfold wrote. destruct pong; [congruence|reflexivity].
          -- exists (RPacket p), []. split; reflexivity.
        * exists (RBadVersion v), []. split; reflexivity.
      + destruct (is_keepalive p).
        * rewrite (flush_all pong pong_nonempty). exists (RPacket p), pong. split; [reflexivity|].
          unfold wrote. destruct pong; [congruence|reflexivity].
        * exists (RPacket p), []. split; reflexivity.
    - exists RDecodeErr, []. split; reflexivity.
    - exists RFrameErr, []. split; reflexivity.
    - exists RPanic, []. split; reflexivity.
  Qed.

  (* one read(): the async loop with an always-ready transport returns what the connection model returns *)
  Lemma read_agree : forall tr buf,
    exists r w b tr',
      read buf (tr ++ [Eof]) = (wrote w ++ [Ret r], b, tr') /\
      read_loop false buf (map AEv (tr ++ [Eof])) [] [] = (PReady r, mkF b [] None, map AEv tr', [], w) /\
      (is_final packet (Ret r) = false -> exists tr2, tr' = tr2 ++ [Eof]).
  Proof.
    induction tr as [|e tr IH]; intros buf.
    - cbn [app map]. pose proof (decode_agree buf) as Hd.
      destruct (try_decode buf) as [[o b]|] eqn:Et.
      + destruct Hd as [r [w [Ha Ho]]]. exists r, w, b, [Eof]. cbn [Framed.read Async.read_loop]. rewrite Et, Ha. cbn [map]. subst o.
        split; [reflexivity|]. split; [reflexivity|]. intros _. exists []. reflexivity.
      + exists RDisconnected, [], buf, []. cbn [Framed.read Async.read_loop]. rewrite Et, Hd. cbn [map wrote app].
        split; [reflexivity|]. split; [reflexivity|]. discriminate.
    - cbn [app map]. pose proof (decode_agree buf) as Hd.
      destruct (try_decode buf) as [[o b]|] eqn:Et.
      + destruct Hd as [r [w [Ha Ho]]]. exists r, w, b, (e :: tr ++ [Eof]). cbn [Framed.read Async.read_loop]. rewrite Et, Ha. subst o.
        split; [reflexivity|]. split; [reflexivity|]. intros _. exists (e :: tr). reflexivity.
      + cbn [Framed.read Async.read_loop]. rewrite Et, Hd.
        destruct e as [[|x bs]|c| |].
        * exists RDisconnected, [], buf, (tr ++ [Eof]). cbn [wrote app]. split; [reflexivity|]. split; [reflexivity|]. discriminate.
        * destruct (IH (buf ++ x :: bs)) as [r [w [b [tr' [H1 [H2 H3]]]]]]. exists r, w, b, tr'. auto.
        * exists (RIo c), [], buf, (tr ++ [Eof]). cbn [wrote app]. split; [reflexivity|]. split; [reflexivity|]. intros _. exists tr. reflexivity.
        * exists RTimeout, [], buf, (tr ++ [Eof]). cbn [wrote app]. split; [reflexivity|]. split; [reflexivity|]. intros _. exists tr. reflexivity.
        * exists RDisconnected, [], buf, (tr ++ [Eof]). cbn [wrote app]. split; [reflexivity|]. split; [reflexivity|]. discriminate.
  Qed.

  Lemma final_wrote w r : existsb (is_final packet) (wrote w ++ [Ret r]) = is_final packet (Ret r).
  Proof. unfold wrote. destruct w; cbn [app existsb]; rewrite ?orb_false_r; reflexivity. Qed.

  Theorem async_session_is_the_connection : forall fuel tr buf,
    asession fuel Top (mkF buf [] None) (map AEv (tr ++ [Eof])) [] [] [] = session fuel buf (tr ++ [Eof]).
  Proof.
    induction fuel as [|f IH]; intros tr buf; [reflexivity|].
    cbn [Async.asession Framed.session]. unfold Async.poll_from. cbn [pend_w pend_p fbuf]. rewrite flush_nil.
    destruct (read_agree tr buf) as [r [w [b [tr' [H1 [H2 H3]]]]]]. rewrite H1, H2. cbn [app].
    rewrite final_wrote. destruct (is_final packet (Ret r)) eqn:Ef.
    - unfold wrote. destruct w; reflexivity.
    - destruct (H3 eq_refl) as [tr2 ->]. rewrite IH. unfold wrote. destruct w; cbn [app]; reflexivity.
  Qed.
End Refine.
