(* Props/C04.v — decoding untrusted bytes is total, bounded and always progresses. *)
Require Import Coq.Strings.String Net.Concrete.
Require Import Base.Bytes Wire.Layout Wire.Customs Wire.LayoutProofs Wire.CustomProofs Wire.Packet Wire.PacketProofs.
Require Import Gen.Packets Net.Frame Net.FrameProofs.
Local Open Scope N_scope.

(* for every byte buffer, both modes: the decoder never panics *)
Theorem c04_never_panics : forall m buf, frame_decode m buf <> DPanic.
Proof. exact frame_decode_never_panics. Qed.

(* ... and its outcome is one of: need-more (buffer too short for the header or for the announced
   frame); a packet or a decode error after removing exactly the announced frame, which is at least
   4 bytes, at most the mode's limit and within the buffer; a framing error for an impossible
   announced length *)
Theorem c04_outcomes : forall m buf,
  match frame_decode m buf with
  | NeedMore => (length buf < min_len)%nat \/ (length buf < announced m buf)%nat
  | FrameErr => (min_len <= length buf)%nat /\
                ((announced m buf < min_len)%nat \/ (max_length m < announced m buf)%nat)
  | Got _ rest | Bad rest =>
      let n := announced m buf in
      (min_len <= n)%nat /\ (n <= max_length m)%nat /\ (n <= length buf)%nat /\ rest = skipn n buf
  | DPanic => False
  end.
Proof.
  intros m buf. pose proof (decode_outcomes pval parse m buf) as H.
  pose proof (frame_decode_never_panics m buf) as Hp. unfold frame_decode in *.
  destruct (decode pval parse m buf); auto.
Qed.

(* it never reads beyond the announced frame: the bytes after it neither influence the result nor
   are consumed *)
Theorem c04_reads_only_the_frame : forall m f tail1 tail2, wf_frame m f ->
  match frame_decode m (f ++ tail1), frame_decode m (f ++ tail2) with
  | Got p1 r1, Got p2 r2 => p1 = p2 /\ r1 = tail1 /\ r2 = tail2
  | Bad r1, Bad r2 => r1 = tail1 /\ r2 = tail2
  | DPanic, DPanic => True
  | _, _ => False
  end.
Proof. intros. apply decode_ignores_tail. assumption. Qed.

(* the packet layer is total for every kind: generic layout theorem + customs + Mso *)
Theorem c04_packet_layer_total : forall body, parse body <> Panic.
Proof. exact parse_total. Qed.

(* what is removed is always a well-formed frame *)
Theorem c04_removed_prefix_is_a_frame : forall m buf,
  match frame_decode m buf with
  | Got _ _ | Bad _ => wf_frame m (firstn (announced m buf) buf)
  | _ => True
  end.
Proof. intros. apply decode_removes_wf_frame. Qed.

(* the codec of the source keeps no state between calls: its struct has the size mode as its only field (regenerated
   field names; the codec model is a pure function of the mode), and a connection struct has no field besides those
   the connection models carry *)
Theorem c04_codec_is_stateless_like_the_model : state_tied = true.
Proof. vm_compute. reflexivity. Qed.


Example c04_example_undersized : frame_decode Compressed [0; 3; 0; 0] = FrameErr. Proof. vm_compute. reflexivity. Qed.
Example c04_example_cim_submode : frame_decode Compressed [2; 64; 0; 0; 0; 9; 0; 0] = Bad []. Proof. vm_compute. reflexivity. Qed.
