#!/usr/bin/env python3
"""translate.py --repo /repo --out coq/Gen [--only a,b]
Regenerates the Coq tables/layouts from the Rust sources. Fail-closed: any construct outside the
grammar raises TranslateError; the failing generator's outputs are replaced by a *.FAILED marker
(and the stale .v removed) so dependants cannot silently build against an old model."""
import sys, os, json, argparse, importlib, traceback
sys.path.insert(0, os.path.dirname(os.path.abspath(__file__)))
from rustparse import TranslateError

GENERATORS = {
    'vehicle': ('gen_vehicle', ['VehicleTab.v']),
    'consts': ('gen_consts', ['NetConsts.v']),
    'track': ('gen_track', ['TrackTab.v']),
    'packets': ('gen_packets', ['Packets.v']),
    'text': ('gen_text', ['TextTab.v']),
    'builder': ('gen_builder', ['BuilderTab.v']),
    'files': ('gen_files', ['FilesTab.v']),
    'racelaps': ('gen_racelaps', ['RaceLapsTab.v']),
}

def write_if_changed(path, text):
    if os.path.exists(path) and open(path, encoding='utf-8').read() == text:
        return False
    with open(path, 'w', encoding='utf-8') as f:
        f.write(text)
    return True

def main():
    ap = argparse.ArgumentParser()
    ap.add_argument('--repo', default='/repo')
    ap.add_argument('--out', required=True)
    ap.add_argument('--only', default='')
    ap.add_argument('--harness-gen', default=None)
    a = ap.parse_args()
    names = [n for n in a.only.split(',') if n] or list(GENERATORS)
    os.makedirs(a.out, exist_ok=True)
    status = {}
    for n in names:
        modname, outs = GENERATORS[n]
        marker = os.path.join(a.out, n + '.FAILED')
        try:
            mod = importlib.import_module(modname)
            files, info = mod.generate(a.repo)
            changed = []
            for fn, text in files.items():
                if write_if_changed(os.path.join(a.out, fn), text): changed.append(fn)
            hfiles = info.pop('_harness', {}) if isinstance(info, dict) else {}
            if a.harness_gen:
                os.makedirs(a.harness_gen, exist_ok=True)
                for fn, text in hfiles.items():
                    if write_if_changed(os.path.join(a.harness_gen, fn), text): changed.append('harness:' + fn)
            if os.path.exists(marker): os.remove(marker)
            status[n] = {'ok': True, 'changed': changed, 'info': info}
        except (TranslateError, Exception) as e:
            for fn in outs:
                for ext in ('', 'o', 'ok', 'os'):
                    p = os.path.join(a.out, fn + ext)
                    if os.path.exists(p): os.remove(p)
            with open(marker, 'w') as f: f.write(repr(e) + '\n' + traceback.format_exc())
            status[n] = {'ok': False, 'error': repr(e)}
    print(json.dumps(status))
    sys.exit(0 if all(s['ok'] for s in status.values()) else 3)

if __name__ == '__main__':
    main()
