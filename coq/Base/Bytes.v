(* Base/Bytes.v — bytes as N, little-endian integers, list slicing.
   Stdlib only, axiom-free. *)
Require Export List NArith ZArith Lia Bool Arith.
Require Import ZifyN ZifyNat ZifyBool.
Export ListNotations.
Ltac Zify.zify_post_hook ::= Z.div_mod_to_equations.
#[global] Arguments N.add : simpl never.
#[global] Arguments N.sub : simpl never.
#[global] Arguments N.mul : simpl never.
#[global] Arguments N.div : simpl never.
#[global] Arguments N.modulo : simpl never.
#[global] Arguments N.ltb : simpl never.
#[global] Arguments N.leb : simpl never.
#[global] Arguments N.eqb : simpl never.
#[global] Arguments N.pow : simpl never.

Local Open Scope N_scope.

Notation byte := N (only parsing).
Definition isbyte (b : byte) : Prop := b < 256.
Definition isbyteb (b : byte) : bool := b <? 256.
Notation bytes := (list N) (only parsing).
Definition allbytes (l : bytes) : Prop := Forall isbyte l.

Lemma isbyteb_spec b : isbyteb b = true <-> isbyte b.
Proof. unfold isbyteb, isbyte. apply N.ltb_lt. Qed.

(* three-valued result used by every codec model: Panic is a value so that
   "never panics" is a statement, not an assumption *)
Inductive res (A : Type) := Ok (a : A) | Err | Panic.
Arguments Ok {A} a. Arguments Err {A}. Arguments Panic {A}.

Definition bind {A B} (r : res A) (f : A -> res B) : res B :=
  match r with Ok a => f a | Err => Err | Panic => Panic end.
Notation "'do' x <- r ; k" := (bind r (fun x => k)) (at level 200, x pattern, r at level 100, k at level 200).

(* ---- little-endian ---- *)
Fixpoint le_enc (n : nat) (x : N) : bytes :=
  match n with O => [] | S k => (x mod 256) :: le_enc k (x / 256) end.
Fixpoint le_dec (l : bytes) : N :=
  match l with [] => 0 | b :: t => b + 256 * le_dec t end.

Lemma le_enc_len n x : length (le_enc n x) = n.
Proof. revert x; induction n; simpl; intros; auto. Qed.

Lemma le_enc_bytes n x : allbytes (le_enc n x).
Proof.
  revert x; induction n as [|n IH]; intros x; cbn [le_enc]; constructor; [|apply IH].
  unfold isbyte. pose proof (N.mod_lt x 256). lia.
Qed.

Lemma pow256_succ n : 256 ^ N.of_nat (S n) = 256 * 256 ^ N.of_nat n.
Proof. rewrite Nat2N.inj_succ, N.pow_succ_r'. reflexivity. Qed.

Lemma le_dec_enc n x : x < 256 ^ N.of_nat n -> le_dec (le_enc n x) = x.
Proof.
  revert x; induction n as [|n IH]; intros x H.
  - change (256 ^ N.of_nat 0) with 1 in H. cbn. lia.
  - cbn [le_enc le_dec]. rewrite IH.
    + pose proof (N.div_mod x 256). lia.
    + rewrite pow256_succ in H. apply N.div_lt_upper_bound; lia.
Qed.

Lemma le_enc_dec l : allbytes l -> le_enc (length l) (le_dec l) = l.
Proof.
  induction 1 as [|b t Hb Ht IH]; cbn [length le_enc le_dec]; auto.
  unfold isbyte in Hb. set (d := le_dec t) in *.
  f_equal.
  - lia.
  - replace ((b + 256 * d) / 256) with d by lia. exact IH.
Qed.

Lemma le_dec_bound l : allbytes l -> le_dec l < 256 ^ N.of_nat (length l).
Proof.
  induction 1 as [|b t Hb Ht IH]; cbn [length le_dec].
  - change (256 ^ N.of_nat 0) with 1. lia.
  - rewrite pow256_succ. unfold isbyte in Hb. set (d := le_dec t) in *.
    set (p := 256 ^ N.of_nat (length t)) in *. lia.
Qed.

(* ---- slicing ---- *)
Definition take (n : nat) (bs : bytes) : option (bytes * bytes) :=
  if Nat.leb n (length bs) then Some (firstn n bs, skipn n bs) else None.

Lemma take_app n a b : length a = n -> take n (a ++ b) = Some (a, b).
Proof.
  intros <-. unfold take. rewrite app_length.
  replace (Nat.leb (length a) (length a + length b)) with true
    by (symmetry; apply Nat.leb_le; lia).
  rewrite firstn_app, Nat.sub_diag, firstn_all, skipn_app, Nat.sub_diag, skipn_all.
  simpl. now rewrite app_nil_r.
Qed.

Lemma take_some n bs h t : take n bs = Some (h, t) -> bs = h ++ t /\ length h = n.
Proof.
  unfold take. destruct (Nat.leb_spec n (length bs)); [|discriminate].
  intros [= <- <-]. split; [symmetry; apply firstn_skipn|].
  rewrite firstn_length. lia.
Qed.

Lemma take_none n bs : take n bs = None <-> (length bs < n)%nat.
Proof.
  unfold take. destruct (Nat.leb_spec n (length bs)); split; intros; try discriminate; try lia; auto.
Qed.

Lemma allbytes_app a b : allbytes (a ++ b) <-> allbytes a /\ allbytes b.
Proof. unfold allbytes. apply Forall_app. Qed.

Lemma allbytes_repeat0 n : allbytes (repeat 0 n).
Proof. induction n; cbn; constructor; auto. unfold isbyte; lia. Qed.

Fixpoint list_eqb (a b : bytes) : bool :=
  match a, b with
  | [], [] => true
  | x :: a', y :: b' => (x =? y) && list_eqb a' b'
  | _, _ => false
  end.
Lemma list_eqb_eq a b : list_eqb a b = true <-> a = b.
Proof.
  revert b; induction a as [|x a IH]; intros [|y b]; cbn; split; intros H; try discriminate; auto.
  - apply andb_prop in H as [H1 H2]. apply N.eqb_eq in H1. apply IH in H2. congruence.
  - injection H as -> ->. rewrite N.eqb_refl. apply IH. reflexivity.
Qed.
Lemma list_eqb_refl a : list_eqb a a = true.
Proof. apply list_eqb_eq. reflexivity. Qed.
