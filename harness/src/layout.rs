//! Rust-side mirror of the layout DSL (the data in gen/layouts.rs is regenerated from the source by
//! tools/translate.py) and structured generation of frames from it.
use crate::common::Rng;

#[derive(Debug, Clone, Copy, PartialEq)]
pub enum Custom { Vehicle, Track, RaceLaps, Fuel, SmallType, CimMode, GameVersion, NibHiLo, NibHi }
#[derive(Debug, Clone, Copy)]
pub enum Atom {
    Num { w: usize, max: Option<u64> }, Pad(usize), Enum(&'static [u8]), Flags { w: usize, mask: u64 }, Bool, Char8,
    Count { w: usize, cap: Option<u64> }, Text { n: usize, raw: bool, z: bool }, Dur { w: usize, scale: u64 }, Custom(Custom, usize),
}
#[derive(Debug, Clone, Copy)]
pub enum Tail { None, Vec { elt: &'static [(&'static str, Atom)], padm: usize, padk: usize }, Words, TextEof { max: usize, align: usize, z: bool }, Hand }
#[derive(Debug, Clone, Copy)]
pub struct Kind { pub magic: u8, pub name: &'static str, pub fixed: &'static [(&'static str, Atom)], pub tail: Tail }

pub fn width(a: &Atom) -> usize {
    match a { Atom::Num { w, .. } | Atom::Flags { w, .. } | Atom::Count { w, .. } | Atom::Dur { w, .. } => *w, Atom::Pad(n) => *n, Atom::Enum(_) | Atom::Bool | Atom::Char8 => 1, Atom::Text { n, .. } => *n, Atom::Custom(_, w) => *w }
}
pub fn fixed_width(fs: &[(&str, Atom)]) -> usize { fs.iter().map(|(_, a)| width(a)).sum() }
pub fn le(v: u64, w: usize) -> Vec<u8> { (0..w).map(|i| (v >> (8 * i)) as u8).collect() }

/// how a frame was generated: canonical frames must re-encode to themselves
#[derive(Default, Clone, Debug)]
/// unrepresentable: the frame decodes to a value outside the encoder's domain (a text filling a NUL-terminated field completely):
/// re-encoding is lossy by design, like any over-long text
pub struct Meta { pub canonical: bool, pub invalid: bool, pub unrepresentable: bool, pub rows: usize, pub notes: Vec<&'static str> }

pub const TRACKS: [&str; 8] = ["BL1", "SO1R", "RO10X", "LA2X", "AS7Y", "FE3", "KY2R", "WE5X"];
pub const VERSIONS: [&str; 12] = ["0.7A", "0.6W43", "0.7E15", "0.04K", "1A", "0.7F", "12.5Z9", "0.7D64", "0.7D0", "0.6A0", "0.7E1234", "0.7E10"];
pub const CARS: [&str; 6] = ["XFG", "XRT", "FBM", "BF1", "UF1", "FO8"];
const TEXT_ALPHA: &[u8] = b"abcdefghijklmnopqrstuvwxyzABCDEFGHIJKLMNOPQRSTUVWXYZ0123456789 .,-_!()[]";

/// codepage-stable text: ASCII without carets plus (one in seven) Latin-1 letters 0xC0..=0xFF, which the default codepage maps
/// to one byte each way (so the byte-level model applies) but which are two bytes inside a Rust String
pub fn ascii_text(rng: &mut Rng, len: usize) -> Vec<u8> { (0..len).map(|_| *rng.pick(TEXT_ALPHA)).collect() }
/// exactly len bytes of well-formed UTF-8: ASCII mixed with 2- and 3-byte characters, never cut inside a character
pub fn utf8_text(rng: &mut Rng, len: usize) -> Vec<u8> {
    const CH: [&str; 8] = ["\u{e9}", "\u{fc}", "\u{448}", "\u{11b}", "\u{65e5}", "\u{20ac}", "\u{3b1}", "\u{ff8f}"];
    let mut v: Vec<u8> = vec![];
    while v.len() < len { let c = if rng.chance(1, 3) { rng.pick(&CH).as_bytes().to_vec() } else { vec![*rng.pick(TEXT_ALPHA)] }; if v.len() + c.len() <= len { v.extend(c); } else { v.push(b'x'); } }
    v
}
pub fn stable_text(rng: &mut Rng, len: usize) -> Vec<u8> { (0..len).map(|_| if rng.chance(1, 7) { 0xC0 + rng.below(0x40) as u8 } else { *rng.pick(TEXT_ALPHA) }).collect() }

fn boundary(rng: &mut Rng, w: usize) -> u64 {
    let maxv = if w >= 8 { u64::MAX } else { (1u64 << (8 * w)) - 1 };
    match rng.below(8) { 0 => 0, 1 => 1, 2 => maxv, 3 => maxv - 1, 4 => maxv / 2, 5 => maxv / 2 + 1, _ => rng.next() & maxv }
}

/// dirt: 0 = canonical only; 1 = non-canonical but decodable choices allowed; 2 = invalid choices allowed too
pub fn gen_atom(rng: &mut Rng, a: &Atom, count: u64, dirt: u8, m: &mut Meta) -> Vec<u8> {
    let dirty = |rng: &mut Rng| dirt >= 1 && rng.chance(1, 6);
    let invalid = |rng: &mut Rng| dirt >= 2 && rng.chance(1, 8);
    match a {
        Atom::Num { w, max } => {
            let mut v = boundary(rng, *w);
            if let Some(mx) = max { if dirty(rng) { m.canonical = false; m.notes.push("num>max"); } else { v %= mx + 1; if rng.chance(1, 3) { v = *mx; } } }
            le(v, *w)
        },
        Atom::Pad(n) => if dirty(rng) { m.canonical = false; rng.bytes(*n) } else { vec![0; *n] },
        Atom::Enum(vals) => if invalid(rng) { let v = (0..=255u8).find(|x| !vals.contains(x) && rng.chance(1, 3)).unwrap_or(254); if !vals.contains(&v) { m.invalid = true; m.canonical = false; } vec![v] } else { vec![*rng.pick(vals)] },
        Atom::Flags { w, mask } => {
            let mut v = match rng.below(4) { 0 => 0, 1 => *mask, 2 => { let bits: Vec<u64> = (0..64).filter(|i| mask >> i & 1 == 1).map(|i| 1u64 << i).collect(); *rng.pick(&bits) }, _ => rng.next() & mask };
            if dirty(rng) { v |= rng.next() & !mask & if *w >= 8 { u64::MAX } else { (1u64 << (8 * w)) - 1 }; if v & !mask != 0 { m.canonical = false; } }
            le(v, *w)
        },
        Atom::Bool => if dirty(rng) { m.canonical = false; vec![rng.range(2, 255) as u8] } else { vec![rng.below(2) as u8] },
        Atom::Char8 => vec![rng.byte()],
        Atom::Count { w, .. } => le(count, *w),
        Atom::Text { n, raw, z } => {
            let len = match rng.below(5) { 0 => 0, 1 => *n, 2 => n - 1, _ => rng.below(*n as u64 + 1) as usize };
            // the NUL-terminated writer cuts to n-1 bytes: a full-width text decodes but does not re-encode identically
            if *z && len == *n && len > 0 { m.canonical = false; m.unrepresentable = true; }
            // raw fields (passwords) are not codepage converted: they carry the text's UTF-8 bytes as they are (well-formed UTF-8 is stable there)
            let mut t = if *raw { if rng.chance(1, 2) { utf8_text(rng, len) } else { ascii_text(rng, len) } } else { stable_text(rng, len) }; t.resize(*n, 0);
            if len < *n && dirty(rng) { m.canonical = false; for i in len + 1..*n { t[i] = rng.byte(); } }
            t
        },
        Atom::Dur { w, .. } => le(boundary(rng, *w), *w),
        Atom::Custom(c, w) => match c {
            Custom::Vehicle => if invalid(rng) { m.invalid = true; m.canonical = false; vec![b'Q', b'Q', b'Q', 0] } else { match rng.below(4) { 0 => { let mut v = rng.pick(&CARS).as_bytes().to_vec(); v.push(0); v }, 1 => vec![0; 4], _ => { let mut v = rng.bytes(4); v[3] |= 1; v } } },
            Custom::Track => if invalid(rng) { m.invalid = true; m.canonical = false; vec![b'Z', b'Z', b'9', 0, 0, 0] } else { let mut v = rng.pick(&TRACKS).as_bytes().to_vec(); v.resize(6, 0); v },
            Custom::RaceLaps => { let b = rng.byte(); if b >= 239 { m.canonical = false; } vec![b] },
            Custom::Fuel => vec![*rng.pick(&[0u8, 1, 50, 100, 200, 254, 255])],
            Custom::SmallType => {
                let d = if invalid(rng) { m.invalid = true; m.canonical = false; rng.range(11, 255) as u8 } else { rng.below(11) as u8 };
                let u = boundary(rng, 4);
                let canon = match d { 0 => u == 0, 3 => u <= 3, 4 => u <= 1, 8 => u & !0xFFFFF == 0, 9 | 10 => false, _ => true };
                // Lcs/Lcl masks come from the source; treat them as non-canonical unless zero
                if !(canon || (d >= 9 && u == 0)) { m.canonical = false; }
                let mut v = vec![d]; v.extend(le(u, 4)); v
            },
            Custom::CimMode => {
                let d = rng.below(8) as u8; let s = rng.below(10) as u8; let t = *rng.pick(&[0u8, 0, 1, 255]);
                let ok = match d { 0 => s <= 4, 1 | 2 | 4 | 5 | 6 => true, 3 => s <= 8, _ => false };
                let canon = ok && match d { 0 | 3 => t == 0, 6 => s <= 2, _ => s == 0 && t == 0 };
                if !ok { m.invalid = true; } if !canon { m.canonical = false; }
                vec![d, s, t]
            },
            Custom::GameVersion => if invalid(rng) { m.invalid = true; m.canonical = false; let mut v = b"x.7A".to_vec(); v.resize(8, 0); v } else { let mut v = rng.pick(&VERSIONS).as_bytes().to_vec(); v.resize(8, 0); v },
            Custom::NibHiLo => vec![rng.byte()],
            Custom::NibHi => { let b = rng.byte(); if b & 15 != 0 { if dirt >= 1 { m.canonical = false; vec![b] } else { vec![b & 0xF0] } } else { vec![b] } },
        }.into_iter().take(*w).collect(),
    }
}

pub fn gen_fixed(rng: &mut Rng, fs: &[(&str, Atom)], count: u64, dirt: u8, m: &mut Meta) -> Vec<u8> {
    let mut v = vec![]; for (_, a) in fs { v.extend(gen_atom(rng, a, count, dirt, m)); } v
}

/// one frame of kind k for the mode (None if the kind cannot be framed, e.g. hand-modelled kinds)
pub fn gen_frame(rng: &mut Rng, k: &Kind, compressed: bool, dirt: u8, rows_hint: Option<usize>) -> Option<(Vec<u8>, Meta)> {
    let mut m = Meta { canonical: true, ..Default::default() };
    let base = 2 + fixed_width(k.fixed);
    let maxlen = if compressed { 1020 } else { 252 };
    let (count, tailbytes) = match k.tail {
        Tail::Hand => return None,
        Tail::None => (0u64, vec![]),
        Tail::Vec { elt, padm, padk } => {
            let ew = fixed_width(elt);
            let cap = ((maxlen - base) / ew).min(255);
            let n = rows_hint.unwrap_or_else(|| match rng.below(6) { 0 => 0, 1 => 1, 2 => 2, 3 => cap, 4 => cap.saturating_sub(1), _ => rng.below(cap as u64 + 1) as usize }).min(cap);
            // elements are independent values: equal neighbours (runs of one element, an element repeated right after itself) are as legal as any
            let rep = rng.below(5);   // 0 = every element equal, 1 = each element repeats its predecessor half of the time, else all fresh
            let mut t: Vec<u8> = vec![]; for i in 0..n { if i > 0 && (rep == 0 || (rep == 1 && rng.chance(1, 2))) { let prev = t[t.len() - ew..].to_vec(); t.extend(prev); } else { t.extend(gen_fixed(rng, elt, 0, dirt, &mut m)); } }
            if rep <= 1 && n >= 2 { m.notes.push("equal neighbouring elements"); }
            t.extend(vec![0u8; (n % padm) * padk]);
            m.rows = n; (n as u64, t)
        },
        Tail::Words => {
            let cap = ((maxlen - base) / 4).min(255);
            let n = rows_hint.unwrap_or_else(|| match rng.below(5) { 0 => 0, 1 => 1, 2 => cap.min(120), _ => rng.below(cap.min(130) as u64 + 1) as usize }).min(cap);
            let mut ws: Vec<u32> = (0..n).map(|i| (rng.next() as u32 & 0xFFFF_FF00) | (i as u32 & 0xFF) | 0x0100_0000).collect();
            // ids that look like text: three alphanumeric bytes and a zero (the shape of a built-in car name), built-in names themselves, and id 0
            if n >= 1 && rng.chance(1, 3) {
                const AL: &[u8] = b"ABCDEFGHIJKLMNOPQRSTUVWXYZabcdefghijklmnopqrstuvwxyz0123456789";
                const CARS: &[&[u8; 3]] = &[b"XFG", b"XRG", b"XRT", b"RB4", b"FXO", b"LX4", b"LX6", b"MRT", b"UF1", b"RAC", b"FZ5", b"FOX", b"XFR", b"UFR", b"FO8", b"FXR", b"XRR", b"FZR", b"BF1", b"FBM"];
                let k = 1 + rng.below(3.min(n as u64)) as usize;
                for j in 0..k {
                    let at = rng.below(n as u64) as usize;
                    let w = match (rng.below(4), j) { (0, 0) => 0u32, (1, _) => { let c = CARS[rng.below(CARS.len() as u64) as usize]; u32::from_le_bytes([c[0], c[1], c[2], 0]) }, _ => u32::from_le_bytes([AL[rng.below(62) as usize], AL[rng.below(62) as usize], AL[rng.below(62) as usize], 0]) };
                    if !ws.contains(&w) { ws[at] = w; m.notes.push("text-shaped word"); }
                }
            }
            if dirt >= 1 && n >= 2 && rng.chance(1, 6) { ws[n - 1] = ws[0]; m.canonical = false; m.notes.push("duplicate word"); }
            if n > 120 { m.notes.push("count>cap"); m.canonical = false; }
            m.rows = n; (n as u64, ws.iter().flat_map(|w| w.to_le_bytes()).collect())
        },
        Tail::TextEof { max, z, .. } => {
            let len = rows_hint.unwrap_or_else(|| match rng.below(5) { 0 => 0, 1 => max - 1, 2 => max - 4, _ => rng.below(max as u64) as usize }).min(max - 1);
            let mut t = stable_text(rng, len);
            // canonical aligned form = what the writer emits: NUL-padded up to a multiple of 4 (the terminated writer always adds a NUL first)
            let total = if z { (len + 1 + 3) / 4 * 4 } else { (len + 3) / 4 * 4 }; t.resize(total.min(max), 0);
            m.rows = len; (0, t)
        },
    };
    let mut body = vec![k.magic];
    body.extend(gen_fixed(rng, k.fixed, count, dirt, &mut m));
    body.extend(tailbytes);
    let len = body.len() + 1;
    if len % 4 != 0 || len > maxlen { m.notes.push("unframeable length"); return None; }
    let mut f = vec![if compressed { (len / 4) as u8 } else { len as u8 }]; f.extend(body);
    Some((f, m))
}
