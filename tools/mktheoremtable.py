#!/usr/bin/env python3
"""mktheoremtable.py — regenerates the list of pinned theorems per property in DESIGN.md (between the THEOREM-TABLE markers)
from coq/Props/Cnn.v: theorem name + the comment that precedes it (first sentence)."""
import re, os, glob
ROOT = os.path.dirname(os.path.dirname(os.path.abspath(__file__)))
out = []
for f in sorted(glob.glob(os.path.join(ROOT, 'coq', 'Props', 'C??.v'))):
    src = open(f).read(); pid = os.path.basename(f)[:-2]
    names = []
    for m in re.finditer(r'(?:\(\*((?:[^*]|\*(?!\)))*)\*\)\s*)?Theorem\s+(\w+)', src):
        c = re.sub(r'\s+', ' ', (m.group(1) or '')).strip()
        c = c[:150] + ('…' if len(c) > 150 else '')
        names.append('`%s`%s' % (m.group(2), (' — ' + c) if c else ''))
    out.append('* **%s** (%d): ' % (pid, len(names)) + '; '.join(names))
p = os.path.join(ROOT, 'DESIGN.md'); s = open(p).read()
a = s.index('<!-- THEOREM-TABLE-BEGIN -->'); b = s.index('<!-- THEOREM-TABLE-END -->')
s = s[:a] + '<!-- THEOREM-TABLE-BEGIN -->\n' + '\n'.join(out) + '\n' + s[b:]
open(p, 'w').write(s)
print(sum(len(re.findall(r'`\w+`', l)) for l in out), 'theorems')
