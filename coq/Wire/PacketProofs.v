(* Wire/PacketProofs.v — the generic layout theorems instantiated with the concrete customs and
   lifted through the Packet dispatch and the frame codec, for every kind in the generated
   table. Per-layout side conditions are decidable and closed by vm_compute over the 73 generated
   layouts; the quantification over values / byte strings comes from the generic theorems. *)
Require Import Coq.Strings.String.
Require Import Base.Bytes Wire.Layout Wire.Customs Wire.LayoutProofs Wire.CustomProofs Wire.Packet Wire.PacketChecks.
Require Import Gen.Packets Net.Frame Net.FrameProofs.
Require Import ZifyN ZifyNat ZifyBool.
Ltac Zify.zify_post_hook ::= Z.div_mod_to_equations.
Local Open Scope N_scope.

Lemma find_kind_in magic tab k : find_kind magic tab = Some k -> exists nm, In (magic, nm, k) tab.
Proof.
  induction tab as [|[[m nm] k'] tab IH]; cbn [find_kind]; [discriminate|].
  destruct (N.eqb_spec m magic) as [->|].
  - intros [= ->]. exists nm. left. reflexivity.
  - intros H. destruct (IH H) as [nm' Hin]. exists nm'. right. exact Hin.
Qed.

(* ================= totality (C04) ================= *)
Lemma table_panic_free : forallb kind_panic_free packet_table = true.
Proof. vm_compute. reflexivity. Qed.

Lemma mso_dec_total bs : mso_dec bs <> Panic.
Proof.
  unfold mso_dec. destruct bs as [|a [|b [|c [|d [|e [|f r]]]]]]; try discriminate.
  destruct (negb _); [discriminate|]. destruct (f =? 0); [discriminate|].
  destruct (take _ r) as [[nm msg]|]; discriminate.
Qed.

Theorem parse_total body : parse body <> Panic.
Proof.
  unfold parse. destruct body as [|ty rest]; [discriminate|].
  destruct (find_kind ty packet_table) as [[l|]|] eqn:E; [| |discriminate].
  - destruct (find_kind_in _ _ _ E) as [nm Hin].
    pose proof table_panic_free as H. rewrite forallb_forall in H. specialize (H _ Hin).
    cbn [kind_panic_free snd] in H.
    pose proof (dec_struct_total cwidth cdec cdec_total l rest H) as Ht. unfold dec_l.
    destruct (dec_struct cwidth cdec l rest) as [[[vs tv] r]| |]; [discriminate|discriminate|congruence].
  - pose proof (mso_dec_total rest). destruct (mso_dec rest) as [[[vs tv] r]| |]; [discriminate|discriminate|congruence].
Qed.

Theorem frame_decode_never_panics m buf : frame_decode m buf <> DPanic.
Proof. apply decode_never_panics. exact parse_total. Qed.

(* ================= length (C03) ================= *)
Notation fwidth := (fixed_width cwidth).

Lemma tail_size_mod4 t tv : tail_mod4 t = true -> Nat.modulo (tail_size cwidth t tv) 4 = 0%nat.
Proof.
  destruct t as [|elt pm pk| |mx al z]; destruct tv; cbn [tail_mod4 tail_size]; intros H; try reflexivity.
  - apply orb_prop in H as [H|H].
    + apply andb_prop in H as [He Hp]. apply Nat.eqb_eq in He, Hp. subst pm.
      rewrite Nat.mod_1_r, Nat.mul_0_l, Nat.add_0_r.
      apply Nat.mod_divides in He as [q Hq]; [|lia]. rewrite Hq.
      replace (length rows * (4 * q))%nat with (length rows * q * 4)%nat by lia. apply Nat.mod_mul. lia.
    + apply andb_prop in H as [H Hk]. apply andb_prop in H as [Hp He]. apply Nat.eqb_eq in Hp, He, Hk. subst pm.
      set (n := length rows). set (ew := fwidth elt) in *.
      pose proof (Nat.div_mod n 2 ltac:(lia)) as Hn. pose proof (Nat.mod_upper_bound n 2 ltac:(lia)) as Hr.
      pose proof (Nat.div_mod ew 4 ltac:(lia)) as Hew. rewrite He in Hew.
      pose proof (Nat.div_mod pk 4 ltac:(lia)) as Hpk. rewrite Hk in Hpk.
      set (q := Nat.div n 2) in *. set (r := Nat.modulo n 2) in *.
      set (a := Nat.div ew 4) in *. set (b := Nat.div pk 4) in *.
      assert (r = 0 \/ r = 1)%nat as [Hr0|Hr1] by lia.
      * rewrite Hr0 in *. replace (n * ew + 0 * pk)%nat with ((2 * q * a + q) * 4)%nat by nia. apply Nat.mod_mul. lia.
      * rewrite Hr1 in *. replace (n * ew + 1 * pk)%nat with ((2 * q * a + q + a + b + 1) * 4)%nat by nia.
        apply Nat.mod_mul. lia.
  - replace (4 * length ws)%nat with (length ws * 4)%nat by lia. apply Nat.mod_mul. lia.
  - apply andb_prop in H as [Ha Hm]. apply Nat.eqb_eq in Ha, Hm. subst al. destruct z.
    + destruct (Nat.min_spec mx (round_up (S (Nat.min (length bs) (Nat.pred mx))) 4)) as [[_ ->]|[_ ->]]; [exact Hm|].
      apply round_up_mod. lia.
    + destruct (Nat.min_spec mx (round_up (length bs) 4)) as [[_ ->]|[_ ->]]; [exact Hm|].
      apply round_up_mod. lia.
Qed.

Lemma table_size4 : forallb kind_size4 packet_table = true.
Proof. vm_compute. reflexivity. Qed.

Lemma mso_enc_len vs tv b : mso_enc vs tv = Ok b -> Nat.modulo (2 + length b) 4 = 0%nat.
Proof.
  unfold mso_enc.
  repeat match goal with
         | |- context [match ?x with _ => _ end] => is_var x; destruct x
         end; try discriminate.
  destruct (_ && _); [|discriminate]. intros [= <-].
  cbn [length]. rewrite write_aligned_len by lia.
  destruct (Nat.min_spec 128 (round_up (length (bs ++ bs0)) 4)) as [[_ ->]|[_ ->]]; [reflexivity|].
  pose proof (round_up_mod (length (bs ++ bs0)) 4 ltac:(lia)) as Hm.
  apply Nat.mod_divides in Hm as [q Hq]; [|lia]. rewrite Hq.
  replace (2 + S (S (S (S (S (S (4 * q)))))))%nat with ((2 + q) * 4)%nat by lia. apply Nat.mod_mul. lia.
Qed.

(* every successfully unparsed packet body makes a frame whose length is a multiple of 4 *)
Theorem unparse_len4 p body : unparse p = Ok body -> Nat.modulo (S (length body)) 4 = 0%nat.
Proof.
  destruct p as [ty vs tv]. unfold unparse.
  destruct (find_kind ty packet_table) as [[l|]|] eqn:E; [| |discriminate].
  - destruct (find_kind_in _ _ _ E) as [nm Hin].
    pose proof table_size4 as H. rewrite forallb_forall in H. specialize (H _ Hin).
    cbn [kind_size4 snd] in H. unfold size4 in H.
    apply andb_prop in H as [H Hal]. apply andb_prop in H as [Hf Ht]. apply Nat.eqb_eq in Hf.
    unfold enc_l. destruct (enc_struct cenc l vs tv) as [b| |] eqn:Ee; try discriminate.
    intros [= <-]. cbn [length].
    rewrite (enc_struct_len cwidth cenc cdec cdec_total cenc_len l vs tv b Hal Ee).
    pose proof (tail_size_mod4 (ltail l) tv Ht) as Hts.
    apply Nat.mod_divides in Hf as [q1 Hq1]; [|lia]. apply Nat.mod_divides in Hts as [q2 Hq2]; [|lia].
    replace (S (S (fwidth (fixed l) + tail_size cwidth (ltail l) tv))) with ((q1 + q2) * 4)%nat by lia.
    apply Nat.mod_mul. lia.
  - destruct (mso_enc vs tv) as [b| |] eqn:Ee; try discriminate. intros [= <-]. cbn [length].
    pose proof (mso_enc_len _ _ _ Ee) as H. exact H.
Qed.

(* C03, both modes: a successful encoding is one well-formed frame for the mode, its length is a
   multiple of 4, its size byte is exact, its type byte is the packet's kind *)
Theorem frame_encode_wellformed m p fr :
  frame_encode m p = Ok fr ->
  wf_frame m fr /\ Nat.modulo (length fr) 4 = 0%nat /\
  (exists n body, fr = n :: body /\ unparse p = Ok body /\ (N.to_nat n * mul m = length fr)%nat /\ n < 256) /\
  (forall ty vs tv, p = PV ty vs tv -> nth_error fr 1 = Some ty).
Proof.
  intros He. pose proof (encode_wf _ _ _ _ _ He) as [Hwf _]. split; [exact Hwf|].
  unfold frame_encode, encode in He.
  destruct (unparse p) as [body| |] eqn:Eu; try discriminate.
  destruct (encode_length m (S (length body))) as [n| |] eqn:El; try discriminate.
  injection He as <-. destruct (encode_length_ok _ _ _ El) as [_ [_ [_ [Hn Hlt]]]].
  split; [cbn [length]; eapply unparse_len4; exact Eu|]. split.
  - exists n, body. cbn [length]. auto.
  - intros ty vs tv ->. unfold unparse in Eu.
    destruct (find_kind ty packet_table) as [[l|]|]; try discriminate.
    + destruct (enc_l l vs tv); try discriminate. injection Eu as <-. reflexivity.
    + destruct (mso_enc vs tv); try discriminate. injection Eu as <-. reflexivity.
Qed.

(* refused loudly: whatever does not fit is Err or Panic, never a frame *)
Theorem frame_encode_too_large m p body :
  unparse p = Ok body -> (max_length m < S (length body))%nat -> frame_encode m p = Panic.
Proof.
  intros Hu Hl. unfold frame_encode, encode. rewrite Hu. unfold encode_length.
  destruct (Nat.ltb_spec (S (length body)) min_len); [reflexivity|].
  destruct m.
  - destruct (Nat.ltb_spec (max_length Uncompressed) (S (length body))); [reflexivity|lia].
  - destruct (negb _); [reflexivity|].
    destruct (Nat.ltb_spec (max_length Compressed) (S (length body))); [reflexivity|lia].
Qed.

(* ================= round trip (C01) ================= *)
(* IS_MSO (hand-written codec): request id, connection, player, user type in range; name and message NUL-free
   and together no longer than the 128-byte text *)
Definition mso_indom (vs : list value) (tv : tvalue) : bool :=
  match vs, tv with
  | [VN reqi; VU; VN ucid; VN plid; VN ut; VB name], TVText msg =>
      (reqi <? 256) && (ucid <? 256) && (plid <? 256) && existsb (N.eqb ut) mso_usertypes &&
      nonul name && nonul msg && Nat.leb (length name + length msg) 128
  | _, _ => false
  end.
Definition pindom (p : pval) : bool :=
  let '(PV ty vs tv) := p in
  match find_kind ty packet_table with
  | Some (KLayout l) => sindom cindom l vs tv
  | Some KMso => mso_indom vs tv
  | None => false
  end.

Lemma write_aligned_short mx al bs : (0 < al)%nat -> Nat.modulo mx al = 0%nat -> (length bs <= mx)%nat ->
  write_aligned mx al bs = bs ++ repeat 0 (round_up (length bs) al - length bs).
Proof.
  intros Ha Hm Hl. unfold write_aligned. apply firstn_all2.
  rewrite app_length, repeat_length. pose proof (round_up_ge (length bs) al Ha).
  pose proof (round_up_le_mult _ _ _ Ha Hm Hl). lia.
Qed.
Lemma nonul_app a b : nonul (a ++ b) = nonul a && nonul b.
Proof. unfold nonul. apply forallb_app. Qed.

Theorem mso_roundtrip vs tv b : mso_indom vs tv = true -> mso_enc vs tv = Ok b -> mso_dec b = Ok (vs, tv, []).
Proof.
  unfold mso_indom, mso_enc.
  destruct vs as [|v1 vs]; [discriminate|]. destruct v1 as [reqi| | |]; try discriminate.
  destruct vs as [|v2 vs]; [discriminate|]. destruct v2 as [| | |]; try discriminate.
  destruct vs as [|v3 vs]; [discriminate|]. destruct v3 as [ucid| | |]; try discriminate.
  destruct vs as [|v4 vs]; [discriminate|]. destruct v4 as [plid| | |]; try discriminate.
  destruct vs as [|v5 vs]; [discriminate|]. destruct v5 as [ut| | |]; try discriminate.
  destruct vs as [|v6 vs]; [discriminate|]. destruct v6 as [|name| |]; try discriminate.
  destruct vs as [|v7 vs]; [|discriminate].
  destruct tv as [| | |msg]; try discriminate.
  intros Hd. repeat (apply andb_prop in Hd as [Hd ?]).
  match goal with H : Nat.leb _ 128 = true |- _ => apply Nat.leb_le in H; rename H into Hlen end.
  match goal with H : nonul msg = true |- _ => rename H into Hmsg end.
  match goal with H : nonul name = true |- _ => rename H into Hname end.
  match goal with H : existsb _ mso_usertypes = true |- _ => rename H into Hut end.
  rewrite Hd. repeat match goal with H : (_ <? 256) = true |- _ => rewrite H end. rewrite Hut. cbn [andb].
  intros [= <-]. unfold mso_dec. cbn [app]. rewrite Hut. cbn [negb].
  assert (Hts : N.of_nat (length name) mod 256 = N.of_nat (length name)) by (apply N.mod_small; lia).
  rewrite Hts.
  assert (Hal : (length (name ++ msg) <= 128)%nat) by (rewrite app_length; lia).
  rewrite (write_aligned_short 128 4 (name ++ msg) ltac:(lia) eq_refl Hal).
  destruct (N.of_nat (length name) =? 0) eqn:E0.
  - apply N.eqb_eq in E0. assert (name = []) by (destruct name; [reflexivity|cbn in E0; lia]). subst name. cbn [app].
    rewrite strip_nul_app_zeros by exact Hmsg. reflexivity.
  - rewrite Nat2N.id. rewrite <- app_assoc. rewrite (take_app (length name) name _ eq_refl).
    rewrite (strip_nul_nonul name Hname). rewrite strip_nul_app_zeros by exact Hmsg. reflexivity.
Qed.

Theorem parse_unparse p body : pindom p = true -> unparse p = Ok body -> parse body = Ok p.
Proof.
  destruct p as [ty vs tv]. unfold pindom, unparse, parse.
  destruct (find_kind ty packet_table) as [[l|]|] eqn:E; try discriminate.
  - intros Hd. unfold enc_l. destruct (enc_struct cenc l vs tv) as [b| |] eqn:Ee; try discriminate.
    intros [= <-]. rewrite E. unfold dec_l.
    pose proof (dec_enc_struct cwidth cenc cdec cindom cdec_total cenc_len c_roundtrip l vs tv b [] Hd) as H.
    rewrite app_nil_r in H. rewrite H; [reflexivity| |exact Ee].
    destruct (ltail l); exact I || reflexivity.
  - intros Hd. destruct (mso_enc vs tv) as [b| |] eqn:Ee; try discriminate.
    intros [= <-]. rewrite E. rewrite (mso_roundtrip vs tv b Hd Ee). reflexivity.
Qed.

(* C01, first half, whole frames, both modes: decode (encode p ++ anything) = p, consuming exactly
   the frame *)
Theorem frame_roundtrip m p fr rest :
  pindom p = true -> frame_encode m p = Ok fr -> frame_decode m (fr ++ rest) = Got p rest.
Proof.
  intros Hd He. pose proof (encode_wf _ _ _ _ _ He) as [Hwf _].
  unfold frame_decode. rewrite decode_complete by exact Hwf.
  unfold frame_encode, encode in He.
  destruct (unparse p) as [body| |] eqn:Eu; try discriminate.
  destruct (encode_length m (S (length body))) as [n| |]; try discriminate.
  injection He as <-. cbn [tl]. rewrite (parse_unparse _ _ Hd Eu). reflexivity.
Qed.

(* C01, second half: a frame the encoder produced (from an in-domain packet) decodes to a packet
   that re-encodes to the identical bytes *)
Theorem frame_reencode_identical m p fr p' :
  pindom p = true -> frame_encode m p = Ok fr -> frame_decode m fr = Got p' [] ->
  frame_encode m p' = Ok fr.
Proof.
  intros Hd He Hdec. pose proof (frame_roundtrip m p fr [] Hd He) as H. rewrite app_nil_r in H.
  rewrite H in Hdec. injection Hdec as <-. exact He.
Qed.

(* ================= keep-alive / version on model packets (C07, C09) ================= *)
Theorem p_is_keepalive_iff p : p_is_keepalive p = true <-> p = PV 3 [VN 0; VN 0] TVNone.
Proof.
  split; [|intros ->; reflexivity].
  unfold p_is_keepalive. intros H.
  repeat match type of H with
         | context [match ?x with _ => _ end] => is_var x; destruct x; try discriminate
         end.
  reflexivity.
Qed.

(* non-vacuity: concrete in-domain packets of several shapes *)
Example ex_tiny : pindom (PV 3 [VN 7; VN 3] TVNone) = true. Proof. vm_compute. reflexivity. Qed.
Example ex_tiny_rt : frame_decode Compressed [1; 3; 7; 3; 9] = Got (PV 3 [VN 7; VN 3] TVNone) [9].
Proof. vm_compute. reflexivity. Qed.
Example ex_nlp : pindom (PV 37 [VN 1; VU] (TVRows [[VN 258; VN 3; VN 4; VN 1]])) = true.
Proof. vm_compute. reflexivity. Qed.
Example ex_nlp_frame :
  frame_encode Compressed (PV 37 [VN 1; VU] (TVRows [[VN 258; VN 3; VN 4; VN 1]])) = Ok [3; 37; 1; 1; 2; 1; 3; 0; 4; 1; 0; 0].
Proof. vm_compute. reflexivity. Qed.
Example ex_mst : pindom (PV 13 [VN 0; VU; VB [104; 105]] TVNone) = true. Proof. vm_compute. reflexivity. Qed.
Example ex_mso : pindom (PV 11 [VN 0; VU; VN 1; VN 2; VN 1; VB [74; 252; 32]] (TVText [104; 105])) = true. Proof. vm_compute. reflexivity. Qed.
Example ex_small : pindom (PV 4 [VN 0; VL [VN 1; VN 42949672950]] TVNone) = true. Proof. vm_compute. reflexivity. Qed.
