"""Per-property configuration of the check pipeline."""

TRUSTED_COMMON = [
    'Coq 8.16.1 kernel + vm_compute (no native_compute)',
    'tools/translate.py (regex/tokenizer over Rust declarations; fails closed)',
    'extraction (ExtrOcamlBasic only: bool/option/unit/list/prod/sumbool/sumor, andb/orb inlined) + OCaml 4.13.1 + ocaml/prelude.ml conversions',
    'Rust harness (generators, canonicalisation, independent property oracle) linked against /repo by path',
]

PROPS = {
    'C13': dict(
        gens=['vehicle'], coq_targets=['Props/C13.vo'], coqchk_modules=['Props.C13'], group='core', harness='c13',
        axioms_allowed=[],
        proved=['for every byte list: model read = the InSim v9 rule (zeros=unknown / 3 alnum+NUL = built-in name or error / else mod id)',
                'every decodable 4-byte value re-encodes to the identical bytes (all 2^32, by arithmetic, not enumeration)',
                'error iff unrecognised built-in-shaped name; Unknown iff zeros; Mod iff not built-in-shaped and non-zero; Builtin iff named',
                'printed name = wire name for every built-in; the built-in set is the 20 LFS cars; variant identifiers match names'],
        modelled=['binrw [u8;4] read/write and u32 LE write (validated by correspondence on every case)',
                  'the match arms / write arms / Display arms are REGENERATED from vehicle.rs each run (translator)'],
        trusted=['hand-transcribed list of the 20 LFS built-in cars (Core/Vehicle.v lfs_builtin_cars, harness CARS)'],
        assumptions=['Mod/Unknown Display text ({:06X} / "Unknown") is pinned syntactically by the translator, not modelled'],
        exhaustive_when=lambda tier, st: tier == 'thorough' and any('2^32' in s for s in st.get('exhaustive', [])),
    ),
}

LEVEL_TEXT = {
    'C13': 'Theorems over all byte lists / all 2^32 wire values (case analysis + little-endian arithmetic) about a model whose match arms, write arms and Display arms are regenerated from vehicle.rs on every run; finite table facts by vm_compute; model = code checked on 640k cases (all 62^3 names) and, in the thorough tier, the property oracle on all 2^32 values of the real BinRead/BinWrite.',
}

# properties not (yet) claimed, with the reason (kept current)
NOT_APPLICABLE = {p: 'not yet built in this round (work in progress; see DESIGN.md §7 order of work)' for p in
                  ['C01','C02','C03','C04','C05','C06','C07','C08','C09','C10','C11','C12','C14','C15','C16','C17','C18','C19','C20']}

NET_MODELLED = ['Codec/Mode framing, both Framed read loops and write paths are hand-modelled (Net/Frame.v, Net/Framed.v) and tied by differential correspondence on scripted in-memory transports (real blocking + tokio Framed vs extracted model)',
                'framing constants (255/1020/4/x4, VERSION, buffer sizes) and the Packet magic numbers are REGENERATED from the source (Gen/NetConsts.v)',
                'BytesMut pointer arithmetic, the unsafe spare-capacity slices and allocation reclaim are not modelled: the buffer is an unbounded list and the theorems quantify over every read size >= 1 (slice sizes actually offered are logged in the evidence)',
                'tokio runtime (timer wheel, wakers) is not modelled: the 90 s timeout appears as a transport event']
NET_ASSUME = ['the packet layer never panics (forall b, parse b <> Panic): hypothesis of the session theorem, discharged for the real packet decoder by C04',
              'bytes::BytesMut::chunk_mut() is never empty, so every read offers >= 1 byte']
PROPS.update({
    'C05': dict(gens=['consts'], coq_targets=['Props/C05.vo'], coqchk_modules=['Props.C05'], group='net', harness='c05', axioms_allowed=[],
        proved=['session theorem: for every packet layer, mode, list of complete frames, segmentation into non-empty reads and placement of transient errors/timeouts, the non-transient results are exactly one per frame in order then Disconnected, and the transient results are exactly the transport\'s transient events in order (induction over the script; unbounded)',
                'a complete frame decodes whatever follows it; every strict prefix of a frame yields NeedMore',
                'blocking and tokio are the same model function (identical sequences by construction; by correspondence on both implementations)'],
        modelled=NET_MODELLED, assumptions=NET_ASSUME),
    'C06': dict(gens=['consts'], coq_targets=['Props/C06.vo'], coqchk_modules=['Props.C06'], group='net', harness='c06', axioms_allowed=[],
        proved=['write_all over any acceptance script: bytes on the transport are always a prefix of the frame; success means exactly the whole frame; a fair script (no failure, >= |frame| ready turns) always completes; successive writes give the concatenation of the frames in call order; the unit written is one complete frame for the mode'],
        modelled=NET_MODELLED, assumptions=['std Write::write_all / tokio write_all_buf loop semantics (retry on Interrupted / Pending) are modelled by write_all and validated by correspondence']),
    'C07': dict(gens=['consts'], coq_targets=['Props/C07.vo'], coqchk_modules=['Props.C07'], group='net', harness='c07', axioms_allowed=[],
        proved=['per decoded packet the outgoing trace is [pong; packet], [packet] or a version rejection: at most one reply, written before the packet is returned',
                'a reply is written iff the packet is a keep-alive (and not rejected by the gate)',
                'whole histories under every segmentation: the interleaved write/return trace is the concatenation of the per-frame traces (corollary of the C05 induction)',
                'the reply is the TINY_NONE frame of the mode ([1,3,0,0] / [4,3,0,0])'],
        modelled=NET_MODELLED + ['Packet::maybe_pong is tied by correspondence over every (sub-type, reqi) TINY value and every kind; its source shape is pinned by the translator (gen_maybe_pong_pinned, informational)'],
        assumptions=NET_ASSUME),
    'C09': dict(gens=['consts'], coq_targets=['Props/C09.vo'], coqchk_modules=['Props.C09'], group='net', harness='c09', axioms_allowed=[],
        proved=['a decoded packet is rejected iff verification is on, it is a version packet and its version differs from VERSION; the error carries the value',
                'otherwise it is delivered; VERSION regenerated from lib.rs is 9; position in a history is irrelevant (per-frame expectation inside the C05 session theorem)'],
        modelled=NET_MODELLED + ['Packet::maybe_verify_version tied by correspondence over all 256 values x on/off x both connections'],
        assumptions=NET_ASSUME + ['which connect_* arm applies Builder::verify_version is not covered here (relay arms need a network peer); see DESIGN.md C09']),
})
LEVEL_TEXT.update({
    'C05': 'Induction over the transport script in Coq: unbounded sessions, every segmentation, every placement of transient errors, both modes, any packet layer; the model is tied to the real blocking and tokio Framed by differential runs on scripted transports (all compositions of short streams, sessions far beyond the 6120-byte buffer).',
    'C06': 'Theorems about write_all for every acceptance script (prefix, completeness, fairness, sequencing); tied to the real Framed::write of both connections over scripted transports (all acceptance patterns for short frames, one byte per call for every kind).',
    'C07': 'Per-packet and whole-history theorems (corollary of the C05 induction, which carries the write trace); tied to the real code on every TINY (sub-type, reqi) value, every kind, and all short histories over a 12-frame alphabet, with outgoing bytes captured per read().',
    'C09': 'Gate theorem (iff) for all version values and its embedding in the session theorem; VERSION regenerated from source; tied to the real code on all 256 values x on/off x both connections x positions in histories.',
})
for k in ['C05','C06','C07','C09']: NOT_APPLICABLE.pop(k, None)
