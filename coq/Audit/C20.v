Require Import Base.Bytes Net.Frame Net.FrameProofs Net.Framed Net.FramedProofs Net.Adaptor Net.AdaptorSession Net.Concrete Net.Async Net.AsyncProofs Net.AsyncConvProofs.
Require Import Props.C20.
Local Open Scope N_scope.
Check c20_session_any_partition :
  forall (packet : Type) (parse : bytes -> res packet) (ver_of : packet -> option N)
         (is_keepalive : packet -> bool) (version : N) (m : mode) (verify : bool) (pong : bytes),
  (forall b, parse b <> Panic) ->
  forall items sizes fs fuel,
    no_end items = true -> payload items = concat fs -> Forall (wf_frame m) fs ->
    (weight items <= length sizes)%nat ->
    let es := fst (fst (serve false sizes [] items)) in
    (length fs + length es < fuel)%nat ->
    filter (keep packet) (session packet parse ver_of is_keepalive version m verify pong fuel [] (es ++ [Eof]))
      = concat (map (expected_frame packet parse ver_of is_keepalive version verify pong) fs) ++ [Ret RDisconnected].
Check c20_equals_tcp :
  forall (packet : Type) (parse : bytes -> res packet) (ver_of : packet -> option N)
         (is_keepalive : packet -> bool) (version : N) (m : mode) (verify : bool) (pong : bytes),
  (forall b, parse b <> Panic) ->
  forall items sizes fs fuel tr fuel',
    no_end items = true -> payload items = concat fs -> Forall (wf_frame m) fs ->
    (weight items <= length sizes)%nat ->
    let es := fst (fst (serve false sizes [] items)) in
    (length fs + length es < fuel)%nat ->
    Forall ev_ok tr -> Forall is_data tr -> data_of tr = concat fs -> (length fs + length tr < fuel')%nat ->
    filter (keep packet) (session packet parse ver_of is_keepalive version m verify pong fuel [] (es ++ [Eof]))
    = filter (keep packet) (session packet parse ver_of is_keepalive version m verify pong fuel' [] (tr ++ [Eof])).
Check c20_non_binary_ignored :
  forall (packet : Type) (parse : bytes -> res packet) (ver_of : packet -> option N)
         (is_keepalive : packet -> bool) (version : N) (m : mode) (verify : bool) (pong : bytes),
  (forall b, parse b <> Panic) ->
  forall items sizes sizes' fs fuel fuel',
    no_end items = true -> payload items = concat fs -> Forall (wf_frame m) fs ->
    let clean := filter (fun i => negb (is_skip i)) items in
    (weight items <= length sizes)%nat -> (weight clean <= length sizes')%nat ->
    let es := fst (fst (serve false sizes [] items)) in
    let es' := fst (fst (serve false sizes' [] clean)) in
    (length fs + length es < fuel)%nat -> (length fs + length es' < fuel')%nat ->
    filter (keep packet) (session packet parse ver_of is_keepalive version m verify pong fuel [] (es ++ [Eof]))
    = filter (keep packet) (session packet parse ver_of is_keepalive version m verify pong fuel' [] (es' ++ [Eof])).
Check c20_closure_disconnects :
  forall (packet : Type) (parse : bytes -> res packet) (ver_of : packet -> option N)
         (is_keepalive : packet -> bool) (version : N) (m : mode) (verify : bool) (pong : bytes) buf t tr c,
    aread false [] (IEnd :: t) c = Some (Eof, [], t) /\
    (try_decode packet parse ver_of is_keepalive version m verify pong buf = None ->
     read packet parse ver_of is_keepalive version m verify pong buf (Eof :: tr) = ([Ret RDisconnected], buf, tr)).
Check c20_adaptor_loses_nothing : forall eof sizes buf items,
  no_end items = true -> (eof = true -> no_empty items = true) ->
  let '(es, buf', items') := serve eof sizes buf items in
  Forall chunk_ok es /\ buf ++ payload items = data_of es ++ buf' ++ payload items'.
Check c20_write_is_one_message : forall frame, frame <> [] ->
  fst (awrite frame) = [IBytes frame] /\
  write_all [WAccept (pred (snd (awrite frame)))] frame = (frame, WOk, []).
Check c20_messages_are_whole_frames_under_cancellation_and_writes :
  forall (packet : Type) (parse : bytes -> res packet) (ver_of : packet -> option N)
         (is_keepalive : packet -> bool) (version : N) (m : mode) (verify : bool) (pong : bytes),
  forall n, (length pong <= n)%nat ->
  forall fuel c s rs ws cancels wsched,
    forallb (msg_ev n) ws = true ->
    Inv packet parse ver_of is_keepalive version m verify pong c s ->
    Whole packet pong s -> (pend_p s = None -> pend_w s = []) ->
    Forall (tok_whole packet pong) (aconv packet parse ver_of is_keepalive version m verify pong fuel c s rs ws cancels wsched []).
Check c20_model_state_is_the_struct : state_tied = true.
Print Assumptions c20_session_any_partition.
Print Assumptions c20_equals_tcp.
Print Assumptions c20_non_binary_ignored.
Print Assumptions c20_closure_disconnects.
Print Assumptions c20_adaptor_loses_nothing.
Print Assumptions c20_write_is_one_message.
Print Assumptions c20_messages_are_whole_frames_under_cancellation_and_writes.
Print Assumptions c20_model_state_is_the_struct.
