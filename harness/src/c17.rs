//! C17 — PTH / SMX: parse, write, truncation, hostile counts, allocation, on the real readers.
use std::{alloc::{GlobalAlloc, Layout, System}, io::Cursor, sync::atomic::{AtomicUsize, Ordering}};

use insim_core::binrw::{BinRead, BinWrite};
use insim_pth::Pth;
use insim_smx::Smx;

use crate::common::*;

pub struct Counting;
static CUR: AtomicUsize = AtomicUsize::new(0);
static PEAK: AtomicUsize = AtomicUsize::new(0);
unsafe impl GlobalAlloc for Counting {
    unsafe fn alloc(&self, l: Layout) -> *mut u8 { let p = System.alloc(l); if !p.is_null() { let c = CUR.fetch_add(l.size(), Ordering::Relaxed) + l.size(); PEAK.fetch_max(c, Ordering::Relaxed); } p }
    unsafe fn dealloc(&self, p: *mut u8, l: Layout) { System.dealloc(p, l); CUR.fetch_sub(l.size(), Ordering::Relaxed); }
    unsafe fn realloc(&self, p: *mut u8, l: Layout, n: usize) -> *mut u8 { let q = System.realloc(p, l, n); if !q.is_null() { if n > l.size() { let c = CUR.fetch_add(n - l.size(), Ordering::Relaxed) + n - l.size(); PEAK.fetch_max(c, Ordering::Relaxed); } else { CUR.fetch_sub(l.size() - n, Ordering::Relaxed); } } q }
}
fn peak_during<T>(f: impl FnOnce() -> T) -> (T, usize) { let base = CUR.load(Ordering::Relaxed); PEAK.store(base, Ordering::Relaxed); let r = f(); (r, PEAK.load(Ordering::Relaxed).saturating_sub(base)) }

#[derive(Clone, Copy, PartialEq)]
enum Fmt { Pth, Smx }
fn parse_write(fmt: Fmt, b: &[u8]) -> Option<Result<(Vec<u8>, String, usize), ()>> {
    guard(|| match fmt {
        Fmt::Pth => { let mut c = Cursor::new(b); match Pth::read(&mut c) { Ok(p) => { let pos = c.position() as usize; let mut o = Cursor::new(Vec::new()); p.write(&mut o).map_err(|_| ())?; Ok((o.into_inner(), format!("{:?}", p), pos)) }, Err(_) => Err(()) } },
        Fmt::Smx => { let mut c = Cursor::new(b); match Smx::read(&mut c) { Ok(p) => { let pos = c.position() as usize; let mut o = Cursor::new(Vec::new()); p.write(&mut o).map_err(|_| ())?; Ok((o.into_inner(), format!("{:?}", p), pos)) }, Err(_) => Err(()) } },
    })
}

fn gen_pth(rng: &mut Rng, n: usize) -> Vec<u8> {
    let mut v = b"LFSPTH".to_vec(); v.push(rng.byte()); v.push(rng.byte()); v.extend((n as i32).to_le_bytes()); v.extend((rng.next() as i32).to_le_bytes());
    for _ in 0..n { for k in 0..10 { let w: u32 = match rng.below(9) { 0 => 0x7fc0_0000, 1 => 0xffff_ffff, 2 => 0x7f80_0000, 3 => 0, 4 => 0x8000_0000 /* -0.0 */, 5 => *rng.pick(&[1u32, 0x8000_0001, 0x007f_ffff, 0xff80_0000, 0x7fa0_0000 /* signalling NaN */]), _ => rng.next() as u32 }; let _ = k; v.extend(w.to_le_bytes()); } }
    v
}
fn gen_smx(rng: &mut Rng, nobj: usize, ncp: usize, dirty: bool) -> Vec<u8> {
    let mut v = b"LFSSMX".to_vec(); let mut hd = rng.bytes(6); for h in hd.iter_mut() { if rng.chance(1, 2) { *h = *rng.pick(&[0u8, 1, 2, 3, 4, 255]); } } v.extend(hd); v.extend(if dirty { rng.bytes(4) } else { vec![0; 4] });   // header bytes (versions, dimensions, resolution): small values as likely as any
    // the track name is Latin-1 text: ASCII, or letters above 0xA0 - among them byte pairs that happen to be well-formed UTF-8 ("Ã©", "Â°")
    let tl = rng.below(33) as usize; let mut t = crate::layout::ascii_text(rng, tl); if rng.chance(1, 3) { let mut i = 0; while i + 1 < t.len() { match rng.below(4) { 0 => { t[i] = 0xC3; t[i + 1] = 0xA9; i += 2; }, 1 => { t[i] = 0xC2; t[i + 1] = 0xB0; i += 2; }, 2 => { t[i] = 0xA0 + rng.below(0x60) as u8; i += 1; }, _ => { i += 1; } } } } t.resize(32, 0); if dirty && tl < 30 { t[31] = b'x'; } v.extend(t);
    v.extend(rng.bytes(3)); v.extend(if dirty { rng.bytes(9) } else { vec![0; 9] });
    v.extend((nobj as i32).to_le_bytes());
    for _ in 0..nobj {
        v.extend(rng.bytes(16)); let np = rng.below(5) as usize; let nt = rng.below(5) as usize; v.extend((np as i32).to_le_bytes()); v.extend((nt as i32).to_le_bytes());
        for _ in 0..np { v.extend(rng.bytes(16)); } for _ in 0..nt { v.extend(rng.bytes(6)); v.extend(if dirty { rng.bytes(2) } else { vec![0; 2] }); }
    }
    v.extend((ncp as i32).to_le_bytes()); for _ in 0..ncp { v.extend(rng.bytes(4)); }
    v
}

/// a canonical file in which one count is large (payload bytes are a fixed pattern): which = pth-nodes | smx-objects | smx-points | smx-tris | smx-cps
fn gen_big(which: &str, n: usize) -> (Fmt, Vec<u8>) {
    let pat = |len: usize, salt: usize| -> Vec<u8> { (0..len).map(|i| ((i * 7 + salt) % 251) as u8).collect() };
    if which == "pth-nodes" {
        let mut v = b"LFSPTH".to_vec(); v.extend([0, 0]); v.extend((n as i32).to_le_bytes()); v.extend(0i32.to_le_bytes());
        v.extend(pat(40 * n, 3)); return (Fmt::Pth, v);
    }
    let mut v = b"LFSSMX".to_vec(); v.extend([0, 1, 2, 3, 4, 5]); v.extend([0; 4]);
    let mut t = b"Big".to_vec(); t.resize(32, 0); v.extend(t); v.extend([1, 2, 3]); v.extend([0; 9]);
    let (nobj, np, nt, ncp) = match which { "smx-objects" => (n, 0, 0, 1), "smx-points" => (1, n, 1, 1), "smx-tris" => (1, 3, n, 1), _ => (1, 1, 1, n) };
    v.extend((nobj as i32).to_le_bytes());
    for o in 0..nobj {
        v.extend(pat(16, o)); v.extend((np as i32).to_le_bytes()); v.extend((nt as i32).to_le_bytes());
        v.extend(pat(16 * np, o + 1)); for k in 0..nt { v.extend(pat(6, k)); v.extend([0, 0]); }
    }
    v.extend((ncp as i32).to_le_bytes()); v.extend(pat(4 * ncp, 9));
    (Fmt::Smx, v)
}

pub fn run(a: &Args) {
    let check = |fmt: Fmt, b: &[u8], canonical: bool, st: &mut Stats| -> String {
        let tag = if fmt == Fmt::Pth { "pth" } else { "smx" }; let id = format!("{tag} {}", if b.len() <= 4096 { hex(b) } else { format!("<{} bytes>", b.len()) });
        // allocation is measured around the parse alone; the Debug rendering and the re-written copy are the harness's
        let (_, peak) = peak_during(|| watched("the PTH / SMX parser", || id.clone(), || guard(|| match fmt { Fmt::Pth => Pth::read(&mut Cursor::new(b)).is_ok(), Fmt::Smx => Smx::read(&mut Cursor::new(b)).is_ok() })));
        let r = parse_write(fmt, b);
        if peak > 16 * b.len() + (256 << 10) { st.fail(format!("[C17] parsing a {}-byte {tag} input allocated {peak} bytes", b.len()), id.clone()); }
        match r {
            None => { st.fail(format!("[C17] the {tag} parser (or writer) panics"), id); "P".into() },
            Some(Err(())) => { if canonical { st.fail(format!("[C17] a well-formed {tag} file of {} bytes (magic, consistent counts, complete content) is rejected", b.len()), id.clone()); } "E".into() },
            Some(Ok((w, dbg, pos))) => {
                // an image is the same image wherever it lies in a stream (inside a container, behind a header the caller has already read):
                // parsing it at a non-zero stream position gives the same structure and consumes the same bytes, writing it there gives the same bytes
                if b.len() <= 4096 { for off in [1usize, 3, 4, 6] {
                    let mut pre = vec![0xEEu8; off]; pre.extend_from_slice(b);
                    let at = guard(|| { let mut c = Cursor::new(&pre[..]); c.set_position(off as u64); match fmt { Fmt::Pth => Pth::read(&mut c).ok().map(|p| { let mut o = Cursor::new(vec![0xEEu8; off]); o.set_position(off as u64); let _ = p.write(&mut o); (format!("{:?}", p), c.position() as usize - off, o.into_inner()[off..].to_vec()) }), Fmt::Smx => Smx::read(&mut c).ok().map(|p| { let mut o = Cursor::new(vec![0xEEu8; off]); o.set_position(off as u64); let _ = p.write(&mut o); (format!("{:?}", p), c.position() as usize - off, o.into_inner()[off..].to_vec()) }) } });
                    match at { Some(Some((d2, p2, w2))) if d2 == dbg && p2 == pos && w2 == w => {}, Some(Some((d2, p2, w2))) => { st.fail(format!("[C17] the same {tag} image at stream offset {off}: {}", if d2 != dbg { "parses to a different structure".to_string() } else if p2 != pos { format!("consumes {p2} bytes instead of {pos}") } else { format!("is written as {} bytes that differ from the {} written at offset 0", w2.len(), w.len()) }), id.clone()); break; }, Some(None) => { st.fail(format!("[C17] the same {tag} image at stream offset {off} is rejected"), id.clone()); break; }, None => { st.fail(format!("[C17] the same {tag} image at stream offset {off} makes the parser or writer panic"), id.clone()); break; } }
                } }
                // ... and however the reader hands the bytes over: a reader that returns 1 or 7 bytes per read() call (a pipe, a BufReader at its
                // buffer boundary, a decompressor) gives the same structure
                if b.len() <= 4096 { for k in [1usize, 7] {
                    let d2 = guard(|| { let mut r = Dribble { inner: Cursor::new(b), k }; match fmt { Fmt::Pth => Pth::read(&mut r).ok().map(|p| format!("{:?}", p)), Fmt::Smx => Smx::read(&mut r).ok().map(|p| format!("{:?}", p)) } });
                    match d2 { Some(Some(d2)) if d2 == dbg => {}, Some(Some(_)) => { st.fail(format!("[C17] the same {tag} file read {k} byte(s) at a time parses to a different structure"), id.clone()); break; }, Some(None) => { st.fail(format!("[C17] the same {tag} file read {k} byte(s) at a time is rejected"), id.clone()); break; }, None => { st.fail(format!("[C17] the same {tag} file read {k} byte(s) at a time makes the parser panic"), id.clone()); break; } }
                } }
                if canonical && (pos != b.len() || w != b) { st.fail(format!("[C17] a canonical {tag} file of {} bytes re-writes to {} bytes / differs (consumed {pos})", b.len(), w.len()), id.clone()); }
                match parse_write(fmt, &w) { Some(Ok((w2, dbg2, _))) => { if dbg2 != dbg { st.fail(format!("[C17] parse(write(parse({tag}))) differs from parse"), id.clone()); } if w2 != w { st.fail("[C17] second write differs".into(), id.clone()); } }, _ => st.fail(format!("[C17] a written {tag} file does not parse"), id.clone()) }
                format!("ok:{}", hex(&w))
            },
        }
    };
    // cases named after a shipped file are replayed by re-running the harness and looking the case up (exit 3 = ask the driver to do that)
    if let Some(r) = &a.replay { if r.starts_with('/') { println!("UNSUPPORTED-REPLAY"); std::process::exit(3); } }
    if let Some(r) = &a.replay { if let Some(rest) = r.strip_prefix("big ") { let t: Vec<&str> = rest.split_whitespace().collect(); let (fmt, b) = gen_big(t[0], t[1].parse().unwrap());
        match parse_write(fmt, &b) { Some(Ok((w, _, pos))) if pos == b.len() && w == b => { println!("PASS"); std::process::exit(0) }, other => { println!("FAIL [C17] canonical file `{r}` ({} bytes): {}", b.len(), match other { Some(Ok((w, _, _))) => format!("re-writes to {} bytes / differs", w.len()), Some(Err(())) => "rejected or cannot be written back".into(), None => "panic".into() }); std::process::exit(1) } } } }
    if let Some(r) = &a.replay { let t: Vec<&str> = r.split_whitespace().collect(); let mut st = Stats::default(); let o = check(if t[0] == "pth" { Fmt::Pth } else { Fmt::Smx }, &unhex(t[1]), t.get(2) == Some(&"canonical"), &mut st); if st.failures_total > 0 { println!("FAIL {}", st.failures[0].0.len()); std::process::exit(1) } else { println!("PASS {}", &o[..o.len().min(60)]); return } }
    let mut rng = Rng::new(a.seed);
    let mut st = Stats::default(); let mut out = Out::new(&a.out);
    let nfiles = if a.thorough() { 3000 } else { 300 };
    for i in 0..nfiles {
        let n1 = match i % 7 { 0 => 0, 1 => 1, _ => rng.below(12) as usize }; let n2 = match i % 9 { 0 => 0, _ => rng.below(5) as usize }; let n3 = rng.below(4) as usize;
        let (fmt, b, canonical) = if i % 2 == 0 { (Fmt::Pth, gen_pth(&mut rng, n1), true) } else { let dirty = i % 5 == 0; (Fmt::Smx, gen_smx(&mut rng, n2, n3, dirty), !dirty) };
        let o = check(fmt, &b, canonical, &mut st); st.evaluations += 1; st.distinct_nontrivial += 1;
        let tag = if fmt == Fmt::Pth { "pth" } else { "smx" };
        out.case(&format!("{tag} {}", hex(&b)), &o);
        st.bump(&format!("{tag}:{}", if o == "E" { "rejected" } else { "accepted" }));
        // every truncation point of the small file, and one appended byte
        if b.len() <= 700 || i % 10 == 0 { for k in 0..b.len() { st.evaluations += 1; let o2 = check(fmt, &b[..k], false, &mut st); if o2 != "E" { st.fail(format!("[C17] a {tag} file of {} bytes cut to {k} bytes is accepted", b.len()), format!("{tag} {}", hex(&b[..k]))); } if k % 13 == 0 { out.case(&format!("{tag} {}", hex(&b[..k])), &o2); } } st.bump("all-cut-points"); }
        let mut e = b.clone(); e.push(rng.byte()); let o3 = check(fmt, &e, false, &mut st); out.case(&format!("{tag} {}", hex(&e)), &o3);
    }
    // hostile counts
    for cnt in [-1i32, i32::MIN, i32::MAX, 1 << 30, 1_000_000, 65536, 13] {
        for fmt in [Fmt::Pth, Fmt::Smx] {
            let mut b = if fmt == Fmt::Pth { gen_pth(&mut rng, 2) } else { gen_smx(&mut rng, 2, 1, false) };
            let off = if fmt == Fmt::Pth { 8 } else { 60 };
            b[off..off + 4].copy_from_slice(&cnt.to_le_bytes());
            let o = check(fmt, &b, false, &mut st); st.evaluations += 1; st.distinct_nontrivial += 1;
            if o != "E" { st.fail(format!("[C17] a file announcing {cnt} elements but holding 2 is accepted"), format!("{} {}", if fmt == Fmt::Pth { "pth" } else { "smx" }, hex(&b))); }
            out.case(&format!("{} {}", if fmt == Fmt::Pth { "pth" } else { "smx" }, hex(&b)), &o);
            st.bump("hostile-count");
        }
        // inner SMX counts (points / triangles of the first object; checkpoints)
        let mut b = gen_smx(&mut rng, 1, 1, false); b[80..84].copy_from_slice(&cnt.to_le_bytes()); let o = check(Fmt::Smx, &b, false, &mut st); st.evaluations += 1; if o != "E" { st.fail(format!("[C17] SMX object announcing {cnt} points is accepted"), format!("smx {}", hex(&b))); } out.case(&format!("smx {}", hex(&b)), &o);
        let mut b = gen_smx(&mut rng, 0, 1, false); b[64..68].copy_from_slice(&cnt.to_le_bytes()); let o = check(Fmt::Smx, &b, false, &mut st); st.evaluations += 1; if o != "E" { st.fail(format!("[C17] SMX announcing {cnt} checkpoints is accepted"), format!("smx {}", hex(&b))); } out.case(&format!("smx {}", hex(&b)), &o);
    }
    // counts at and beyond the integer widths a writer might narrow to (255/256, 65535/65536): canonical files must re-write identically
    for which in ["pth-nodes", "smx-objects", "smx-points", "smx-tris", "smx-cps"] {
        for n in [255usize, 256, 257, 32767, 32768, 65535, 65536, 65537, 70001] {
            if !a.thorough() && n > 257 && n != 65536 && n != 32768 { continue; }
            let (fmt, b) = gen_big(which, n);
            // allocation is measured around the parse alone (the Debug rendering and the re-written copy made by the harness are not the
            // parser's): a parsed structure may take a small multiple of the bytes it was read from, never more
            let (_, peak) = peak_during(|| guard(|| match fmt { Fmt::Pth => Pth::read(&mut Cursor::new(&b[..])).is_ok(), Fmt::Smx => Smx::read(&mut Cursor::new(&b[..])).is_ok() }));
            let r = parse_write(fmt, &b); st.evaluations += 1; st.distinct_nontrivial += 1;
            let id = format!("big {which} {n}");
            if peak > 16 * b.len() + (256 << 10) { st.fail(format!("[C17] parsing the {}-byte file `{id}` allocated {peak} bytes", b.len()), id.clone()); }
            match r {
                Some(Ok((w, _, pos))) => if pos != b.len() || w != b { st.fail(format!("[C17] a canonical file with {n} {which} ({} bytes) re-writes to {} bytes / differs", b.len(), w.len()), id.clone()); },
                Some(Err(())) => st.fail(format!("[C17] a canonical file with {n} {which} is rejected or cannot be written back"), id.clone()),
                None => st.fail(format!("[C17] a canonical file with {n} {which} makes the parser or writer panic"), id.clone()),
            }
            st.bump("large-count canonical files");
        }
    }
    // random bytes (with and without the magic)
    for i in 0..(if a.thorough() { 200_000 } else { 20_000 }) { let len = rng.below(200) as usize; let mut b = rng.bytes(len); if i % 2 == 0 && b.len() >= 6 { b[..6].copy_from_slice(if i % 4 == 0 { b"LFSPTH" } else { b"LFSSMX" }); } st.evaluations += 1; let fmt = if i % 4 < 2 { Fmt::Pth } else { Fmt::Smx }; let o = check(fmt, &b, false, &mut st); let coff = if fmt == Fmt::Pth { 8 } else { 60 }; let small = b.len() < coff + 4 || u32::from_le_bytes([b[coff], b[coff + 1], b[coff + 2], b[coff + 3]]) < 50_000; if i % 20 == 0 && small { out.case(&format!("{} {}", if fmt == Fmt::Pth { "pth" } else { "smx" }, hex(&b)), &o); } }
    // the shipped files: canonical re-write, from_file / from_pathbuf, sampled (quick) or all (thorough) cut points
    for (fmt, path) in [(Fmt::Pth, "/repo/insim_pth/tests/AS1.pth"), (Fmt::Smx, "/repo/insim_smx/tests/Autocross_3DH.smx")] {
        let Ok(b) = std::fs::read(path) else { st.notes.push(format!("{path} not found")); continue };
        let o = check(fmt, &b, true, &mut st); st.evaluations += 1; st.distinct_nontrivial += 1;
        if o == "E" { st.fail(format!("[C17] the shipped file {path} is rejected"), path.into()); }
        let okp = guard(|| match fmt { Fmt::Pth => Pth::from_pathbuf(&path.into()).is_ok() && Pth::from_file(&mut std::fs::File::open(path).unwrap()).is_ok(), Fmt::Smx => Smx::from_pathbuf(&path.into()).is_ok() && Smx::from_file(&mut std::fs::File::open(path).unwrap()).is_ok() });
        if okp != Some(true) { st.fail(format!("[C17] from_file / from_pathbuf fail on {path}"), path.into()); }
        // a cut file is parsed up to the cut, so all cut points of an n-byte file cost n^2 / 2 bytes: thorough takes every cut point of
        // the first and last 8 KB and ~40 000 evenly spread ones in between (every one for a file below 48 KB), quick takes 400
        let step = if a.thorough() { (b.len() / 40_000).max(1) } else { (b.len() / 400).max(1) };
        if a.thorough() { let mut k = 0; while k < b.len() { if k >= 8192 && k + 8192 < b.len() { k = b.len() - 8192; } st.evaluations += 1; if check(fmt, &b[..k], false, &mut st) != "E" { st.fail(format!("[C17] {path} cut to {k} bytes is accepted"), format!("{} cut {k}", path)); } k += 1; } }
        let mut k = 0; while k < b.len() { st.evaluations += 1; if check(fmt, &b[..k], false, &mut st) != "E" { st.fail(format!("[C17] {path} cut to {k} bytes is accepted"), format!("{} cut {k}", path)); } k += step; }
        // a truncated temp file through from_pathbuf
        let tmp = std::env::temp_dir().join(format!("vharness_c17_{}", std::process::id())); std::fs::write(&tmp, &b[..b.len() - 1]).unwrap();
        let r = guard(|| match fmt { Fmt::Pth => Pth::from_pathbuf(&tmp).is_ok(), Fmt::Smx => Smx::from_pathbuf(&tmp).is_ok() }); let _ = std::fs::remove_file(&tmp);
        if r != Some(false) { st.fail(format!("[C17] {path} minus its last byte is accepted by from_pathbuf"), path.into()); }
        // loads are independent: after rejected loads (a cut file, a file without the magic, the tail of a cut file) on this thread the
        // good file still loads to the same structure, through from_pathbuf and from_file, and a tail without magic is still rejected
        {
            let dbg_of = |pb: &std::path::PathBuf| -> Option<String> { guard(|| match fmt { Fmt::Pth => Pth::from_pathbuf(pb).ok().map(|p| format!("{:?}", p)), Fmt::Smx => Smx::from_pathbuf(pb).ok().map(|p| format!("{:?}", p)) }).flatten() };
            let good: std::path::PathBuf = path.into();
            let want = dbg_of(&good);
            let t = |name: &str, bytes: &[u8]| -> std::path::PathBuf { let p = std::env::temp_dir().join(format!("vharness_c17_{}_{name}", std::process::id())); std::fs::write(&p, bytes).unwrap(); p };
            let half = b.len() / 2;
            let cases: Vec<(&str, std::path::PathBuf)> = vec![("cut", t("cut", &b[..half])), ("nomagic", t("nomagic", &b[6..])), ("tail", t("tail", &b[half..])), ("empty", t("empty", &[]))];
            for (name, pth) in &cases {
                st.evaluations += 2;
                if dbg_of(pth).is_some() { st.fail(format!("[C17] the {name} part of {path} is accepted as a file (after earlier loads on the same thread)"), format!("{path} seq {name}")); }
                let again = dbg_of(&good);
                if again != want { st.fail(format!("[C17] after a rejected load ({name}) the intact file {path} loads differently / is rejected"), format!("{path} seq {name}")); }
                let viaf = guard(|| { let mut f = std::fs::File::open(path).unwrap(); match fmt { Fmt::Pth => Pth::from_file(&mut f).ok().map(|p| format!("{:?}", p)), Fmt::Smx => Smx::from_file(&mut f).ok().map(|p| format!("{:?}", p)) } }).flatten();
                if viaf != want { st.fail(format!("[C17] after a rejected load ({name}) from_file on the intact {path} differs"), format!("{path} seq {name}")); }
            }
            for (_, pth) in &cases { let _ = std::fs::remove_file(pth); }
            // every prefix of up to 96 bytes (the header, the counts, the first element) through the file API, which may do its own
            // checks before parsing: rejected, never a panic
            for k in 0..96usize.min(b.len()) {
                let pth = t("prefix", &b[..k]); st.evaluations += 1;
                let r = guard(|| match fmt { Fmt::Pth => Pth::from_pathbuf(&pth).is_ok(), Fmt::Smx => Smx::from_pathbuf(&pth).is_ok() });
                let r2 = guard(|| { let mut f = std::fs::File::open(&pth).unwrap(); match fmt { Fmt::Pth => Pth::from_file(&mut f).is_ok(), Fmt::Smx => Smx::from_file(&mut f).is_ok() } });
                let _ = std::fs::remove_file(&pth);
                if r != Some(false) || r2 != Some(false) { st.fail(format!("[C17] the first {k} bytes of {path} through from_pathbuf / from_file: {}", if r.is_none() || r2.is_none() { "panic" } else { "accepted" }), format!("{path} prefix {k}")); }
            }
            // the same PATH holding a different file of the same length a moment later: what is loaded is what the file holds now
            { let mut b2 = b.to_vec(); let at = b2.len() - 2; b2[at] ^= 0x5a;
              let want2 = match parse_write(fmt, &b2) { Some(Ok((_, d, _))) => Some(d), _ => None };
              let p1 = t("rewrite", &b); let first = dbg_of(&p1); std::fs::write(&p1, &b2).unwrap(); let second = dbg_of(&p1); let _ = std::fs::remove_file(&p1);
              st.evaluations += 2;
              if first != want { st.fail(format!("[C17] {path} copied to a temporary path loads differently"), format!("{path} rewrite 1")); }
              if second != want2 { st.fail(format!("[C17] a path rewritten with a different file of the same length ({} bytes, one payload byte changed) still loads as the earlier file / differently from its content", b2.len()), format!("{path} rewrite 2")); } }
            st.bump("load sequences: rejected file then intact file (from_pathbuf / from_file)");
        }
        if a.thorough() { st.exhaustive.push(format!("every cut point of the first and last 8 KB of {path} ({} bytes){}", b.len(), if step == 1 { " and of everything in between" } else { " and evenly spread ones in between" })); }
    }
    st.rule = "real Pth / Smx BinRead + BinWrite under catch_unwind and a counting global allocator: generated files (0..n nodes / objects / points / triangles / checkpoints, NaN and all-ones payloads, canonical and dirty pads/text), every truncation point of small files, an appended byte, hostile counts (negative, 2^31-1, 2^30, larger than the content) in every count field, random bytes with and without the magic, the two shipped files (canonical re-write, from_file, from_pathbuf, cut points); peak allocation <= 16 x input + 256 KB".into();
    st.sample("pth 4c4653505448 0000 ffffffff 00000000 (count -1) -> E".into());
    out.finish(&st);
}
