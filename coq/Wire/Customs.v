(* Wire/Customs.v — hand-written models of the hand-written BinRead/BinWrite impls and helper
   pairs (vehicle.rs, track.rs, racelaps.rs, lap.rs Fuel/Fuel200, small.rs, cim.rs, ver.rs game
   version, contact.rs nibbles). Each is a pair of total functions with an explicit three-valued
   result. Tied to the code by differential correspondence. No proofs here. *)
Require Import Coq.Strings.String.
Require Import Base.Bytes Wire.Layout Core.VehicleDefs Core.Vehicle Gen.TrackTab Gen.Packets.
Local Open Scope N_scope.

Definition cwidth (c : custom) : nat :=
  match c with
  | CVehicle => 4 | CTrack => 6 | CRaceLaps => 1 | CFuel => 1 | CSmallType => 5 | CCimMode => 3
  | CGameVersion => 8 | CNibHiLo => 1 | CNibHi => 1
  end.

(* ---- Track: value = variant index ---- *)
Fixpoint track_find (bs : list N) (arms : list (list N * N)) : option N :=
  match arms with [] => None | (p, i) :: t => if list_eqb p bs then Some i else track_find bs t end.
Definition track_read (bs : list N) : res N :=
  match track_find bs track_read_arms with Some i => Ok i | None => Err end.
Definition track_write (i : N) : res (list N) :=
  match assoc i track_write_tab with Some bs => Ok bs | None => Panic end.

(* ---- RaceLaps (racelaps.rs): value = VL [tag; n], tag 0 Practice / 1 Laps n / 2 Hours n ---- *)
Definition racelaps_of_u8 (v : N) : N * N :=
  if v =? 0 then (0, 0)
  else if v <=? 99 then (1, v)
  else if v <=? 190 then (1, (v - 100) * 10 + 100)
  else if v <=? 238 then (2, v - 190)
  else (0, 0).
Definition racelaps_to_u8 (tag n : N) : N :=
  (if tag =? 1 then
     (if (1 <=? n) && (n <=? 99) then n
      else if (100 <=? n) && (n <=? 1000) then (n - 100) / 10 + 100
      else 0)
   else if tag =? 2 then (if (1 <=? n) && (n <=? 48) then n + 190 else 0)
   else 0) mod 256.

(* ---- Small (small.rs): value = VL [discriminant; payload] ; durations in ms ---- *)
Definition u32max : N := 4294967296.
Definition is_cs (d : N) : bool := (d =? 1) || (d =? 2) || (d =? 5) || (d =? 6).
Definition small_dec (d uval : N) : res (N * N) :=
  if d =? 0 then Ok (0, 0)
  else if is_cs d then Ok (d, uval * 10)
  else if d =? 3 then Ok (3, if (1 <=? uval) && (uval <=? 3) then uval else 0)   (* VtnAction::from(u32) *)
  else if d =? 4 then Ok (4, if uval =? 0 then 0 else 1)
  else if d =? 7 then Ok (7, uval)
  else if d =? 8 then Ok (8, N.land uval gen_mask_Plc)
  else if d =? 9 then Ok (9, N.land uval gen_mask_LcsFlags)
  else if d =? 10 then Ok (10, N.land uval gen_mask_LclFlags)
  else Err.
Definition small_enc (d x : N) : res (N * N) :=
  if d =? 0 then Ok (0, 0)
  else if is_cs d then (if x / 10 <? u32max then Ok (d, x / 10) else Err)
  else if d =? 7 then (if x <? u32max then Ok (7, x) else Err)
  else if d =? 3 then (if x <=? 3 then Ok (3, x) else Panic)
  else if d =? 4 then (if x <=? 1 then Ok (4, x) else Panic)
  else if (d =? 8) || (d =? 9) || (d =? 10) then (if x <? u32max then Ok (d, x) else Panic)
  else Panic.

(* ---- CimMode (cim.rs): value = VL [mode; submode; seltype] ---- *)
Definition is_plain_mode (d : N) : bool := (d =? 1) || (d =? 2) || (d =? 4) || (d =? 5).
Definition cim_dec (d s t : N) : res (N * N * N) :=
  if d =? 0 then (if s <=? 4 then Ok (0, s, 0) else Err)
  else if is_plain_mode d then Ok (d, 0, 0)
  else if d =? 3 then (if s <=? 8 then Ok (3, s, 0) else Err)
  else if d =? 6 then Ok (6, (if (s =? 1) || (s =? 2) then s else 0), t)
  else Err.
Definition cim_ok (d s t : N) : bool :=
  if d =? 0 then (s <=? 4) && (t =? 0)
  else if is_plain_mode d then (s =? 0) && (t =? 0)
  else if d =? 3 then (s <=? 8) && (t =? 0)
  else if d =? 6 then (s <=? 2) && (t <? 256)
  else false.

(* ---- game version on the wire (ver.rs + game_version.rs FromStr), at the byte level.
   Value = the text with trailing NULs trimmed. Accepted texts: "" | major | major letter |
   major letter digits+, major = ASCII digits with at most one '.', at least one digit. *)
Definition is_digit (b : N) : bool := (48 <=? b) && (b <=? 57).
Definition is_alpha (b : N) : bool := ((65 <=? b) && (b <=? 90)) || ((97 <=? b) && (b <=? 122)).
Fixpoint trim_nul_end (bs : list N) : list N :=
  match bs with
  | [] => []
  | b :: t => match trim_nul_end t with
              | [] => if b =? 0 then [] else [b]
              | t' => b :: t'
              end
  end.
Fixpoint span (p : N -> bool) (bs : list N) : list N * list N :=
  match bs with
  | [] => ([], [])
  | b :: t => if p b then let '(a, r) := span p t in (b :: a, r) else ([], bs)
  end.
Definition count_occ_b (x : N) (l : list N) : nat := length (filter (N.eqb x) l).
Definition major_ok (m : list N) : bool :=
  Nat.leb (count_occ_b 46 m) 1 && existsb is_digit m.
Definition gv_accepts (s : list N) : bool :=
  forallb (fun b => b <? 128) s &&
  match s with
  | [] => true
  | _ =>
    let '(mj, r1) := span (fun b => is_digit b || (b =? 46)) s in
    major_ok mj &&
    match r1 with
    | [] => true
    | c :: r2 =>
        is_alpha c &&
        match r2 with
        | [] => true
        | _ => let '(pt, r3) := span is_digit r2 in
               negb (Nat.eqb (length pt) 0) && match r3 with [] => true | _ => false end
        end
    end
  end.

Definition as_n (v : value) : option N := match v with VN n => Some n | _ => None end.

Definition cenc (c : custom) (v : value) : res (list N) :=
  match c, v with
  | CVehicle, VB bs =>
      if Nat.eqb (length bs) 4 then
        match vehicle_read bs with Ok _ => Ok bs | _ => Panic end
      else Panic
  | CTrack, VN i => track_write i
  | CRaceLaps, VL [VN tag; VN n] => Ok [racelaps_to_u8 tag n]
  | CFuel, VL [VN tag; VN n] =>
      match tag with 0 => Ok [255] | 1 => if n <? 256 then Ok [n] else Panic | _ => Panic end
  | CSmallType, VL [VN d; VN x] =>
      match small_enc d x with Ok (d', u) => Ok (d' :: le_enc 4 u) | Err => Err | Panic => Panic end
  | CCimMode, VL [VN d; VN s; VN t] =>
      if (d <? 256) && (s <? 256) && (t <? 256) then Ok [d; s; t] else Panic
  | CGameVersion, VB bs =>
      (* write_game_version (ver.rs, since e6ae0cc): a text that does not fit the 8 bytes or that the reader would not
         accept is refused, never cut *)
      if Nat.leb (length bs) 8 && gv_accepts bs then Ok (write_fixed 8 bs) else Err
  | CNibHiLo, VL [VN h; VN l] =>
      if (h <? 256) && (l <? 256) then (if (15 <? h) || (15 <? l) then Err else Ok [h * 16 + l]) else Panic
  | CNibHi, VN g => if g <? 256 then (if 15 <? g then Err else Ok [g * 16]) else Panic
  | _, _ => Panic
  end.

Definition cdec (c : custom) (bs : list N) : res value :=
  match c with
  | CVehicle => match vehicle_read bs with Ok _ => Ok (VB bs) | Err => Err | Panic => Panic end
  | CTrack => match track_read bs with Ok i => Ok (VN i) | Err => Err | Panic => Panic end
  | CRaceLaps => let '(tag, n) := racelaps_of_u8 (le_dec bs) in Ok (VL [VN tag; VN n])
  | CFuel => let b := le_dec bs in Ok (VL (if b =? 255 then [VN 0; VN 0] else [VN 1; VN b]))
  | CSmallType =>
      match bs with
      | d :: u => match small_dec d (le_dec u) with
                  | Ok (d', x) => Ok (VL [VN d'; VN x]) | Err => Err | Panic => Panic end
      | [] => Err
      end
  | CCimMode =>
      match bs with
      | [d; s; t] => match cim_dec d s t with
                     | Ok (d', s', t') => Ok (VL [VN d'; VN s'; VN t']) | Err => Err | Panic => Panic end
      | _ => Err
      end
  | CGameVersion =>
      let s := trim_nul_end bs in if gv_accepts s then Ok (VB s) else Err
  | CNibHiLo => let b := le_dec bs in Ok (VL [VN (b / 16); VN (b mod 16)])
  | CNibHi => Ok (VN (le_dec bs / 16))
  end.
