(* Net/AsyncResults.v — what the read() calls of a tokio conversation return.
   For EVERY readiness pattern of both transport halves (not-ready turns anywhere on the read half, partial
   accepts and not-ready turns on the write half), EVERY schedule of dropped read() futures and EVERY schedule
   of caller writes in between, the sequence of results is a prefix of — and, once the stream has ended, equal
   to — the results of the plain connection model (Net/Framed.v [session]) reading the same bytes; a keep-alive
   whose reply is still outstanding is the next result.  No received byte is lost, duplicated or reordered.
   Axiom-free. *)
Require Import Base.Bytes Net.Frame Net.Framed Net.FramedProofs Net.Async Net.AsyncProofs Net.AsyncConvProofs.
Require Import Lia.
Local Open Scope N_scope.

Section Results.
  Variable packet : Type.
  Variable parse : bytes -> res packet.
  Variable ver_of : packet -> option N.
  Variable is_keepalive : packet -> bool.
  Variable version : N.
  Variable m : mode.
  Variable verify : bool.
  Variable pong : bytes.

  Notation fstate := (fstate packet).
  Notation out := (out packet).
  Notation rres := (rres packet).
  Notation read := (read packet parse ver_of is_keepalive version m verify pong).
  Notation session := (session packet parse ver_of is_keepalive version m verify pong).
  Notation try_decode := (try_decode packet parse ver_of is_keepalive version m verify pong).
  Notation deliver := (deliver packet ver_of is_keepalive version verify pong).
  Notation deliverK := (deliverK packet is_keepalive pong).
  Notation after_decode := (after_decode packet parse ver_of is_keepalive version m verify pong).
  Notation read_loop := (read_loop packet parse ver_of is_keepalive version m verify pong).
  Notation poll_from := (poll_from packet parse ver_of is_keepalive version m verify pong).
  Notation aconv := (aconv packet parse ver_of is_keepalive version m verify pong).
  Notation Inv := (Inv packet parse ver_of is_keepalive version m verify pong).
  Notation user_writes := (user_writes packet).
  Notation ctok := (ctok packet).

  Fixpoint strip (rs : list arev) : list rev :=
    match rs with [] => [] | AEv e :: t => e :: strip t | APend :: t => strip t end.
  Definition rets (l : list out) : list rres :=
    flat_map (fun o => match o with Ret r => [r] | Wrote _ => [] end) l.
  Definition results (l : list ctok) : list rres :=
    flat_map (fun t => match t with TR r => [r] | _ => [] end) l.
  Definition held (s : fstate) : list rres := match pend_p s with Some p => [RPacket p] | None => [] end.
  Definition prefix {A} (a b : list A) : Prop := exists c, a ++ c = b.

  Lemma prefix_refl {A} (a : list A) : prefix a a.
  Proof. exists []. apply app_nil_r. Qed.
  Lemma prefix_nil {A} (a : list A) : prefix [] a.
  Proof. exists a. reflexivity. Qed.
  Lemma prefix_trans {A} (a b c : list A) : prefix a b -> prefix b c -> prefix a c.
  Proof. intros [x Hx] [y Hy]. exists (x ++ y). rewrite app_assoc, Hx. exact Hy. Qed.
  Lemma prefix_app {A} (a b c : list A) : prefix b c -> prefix (a ++ b) (a ++ c).
  Proof. intros [x Hx]. exists x. rewrite <- app_assoc, Hx. reflexivity. Qed.
  Lemma prefix_cons {A} (x : A) (b c : list A) : prefix b c -> prefix (x :: b) (x :: c).
  Proof. apply (prefix_app [x]). Qed.

  Lemma rets_app a b : rets (a ++ b) = rets a ++ rets b.
  Proof. apply flat_map_app. Qed.
  Lemma results_app a b : results (a ++ b) = results a ++ results b.
  Proof. apply flat_map_app. Qed.
  Lemma results_tw b : results (tw packet b) = [].
  Proof. destruct b; reflexivity. Qed.

  (* the connection model is monotone in its fuel *)
  Lemma session_mono : forall f buf tr, prefix (session f buf tr) (session (S f) buf tr).
  Proof.
    induction f as [|f IH]; intros buf tr; [apply prefix_nil|].
    change (session (S (S f)) buf tr) with (let '(o, b, tr') := read buf tr in if existsb (is_final packet) o then o else o ++ session (S f) b tr').
    change (session (S f) buf tr) with (let '(o, b, tr') := read buf tr in if existsb (is_final packet) o then o else o ++ session f b tr').
    destruct (read buf tr) as [[o b] tr']. destruct (existsb (is_final packet) o); [apply prefix_refl|].
    apply prefix_app. apply IH.
  Qed.
  Lemma rets_prefix a b : prefix a b -> prefix (rets a) (rets b).
  Proof. intros [c Hc]. exists (rets c). rewrite <- rets_app, Hc. reflexivity. Qed.

  Lemma rets_no_final o : rets o = [] -> existsb (is_final packet) o = false.
  Proof. induction o as [|[b|r] o IH]; cbn; [reflexivity| |discriminate]. exact IH. Qed.
  Lemma rets_one_final o r : rets o = [r] -> existsb (is_final packet) o = is_final packet (Ret r).
  Proof.
    induction o as [|[b|r'] o IH]; cbn [rets flat_map app existsb]; [discriminate| |].
    - intros H. cbn [is_final]. apply IH. exact H.
    - intros H. inversion H; subst. rewrite (rets_no_final o H2). apply orb_false_r.
  Qed.

  Lemma rets_deliver p :
    rets (deliver p) = match (if verify then ver_of p else None) with
                       | Some v => if v =? version then [RPacket p] else [RBadVersion v]
                       | None => [RPacket p]
                       end.
  Proof.
    unfold Framed.deliver. destruct (if verify then ver_of p else None) as [v|]; [destruct (v =? version)|];
      destruct (is_keepalive p); reflexivity.
  Qed.

  (* ---- the decode step: same decision; either a result, or a keep-alive held back behind its reply ---- *)
  Definition step_rel (po : pout packet) (s' : fstate) (o : list out) : Prop :=
    match po with
    | PReady r => pend_p s' = None /\ rets o = [r]
    | PPending Top => exists p, pend_p s' = Some p /\ rets o = [RPacket p]
    | PPending InRead => False
    end.

  Lemma deliverK_sim p rest ws wr po s' ws' w :
    forallb no_fail ws = true -> deliverK p rest ws wr = (po, s', ws', w) ->
    forallb no_fail ws' = true /\ fbuf s' = rest /\
    match po with
    | PReady r => pend_p s' = None /\ r = RPacket p
    | PPending Top => pend_p s' = Some p
    | PPending InRead => False
    end.
  Proof.
    intros Hn. unfold Async.deliverK. destruct (is_keepalive p).
    - destruct (flush pong ws) as [[[r pw] ws0] w2] eqn:Ef. destruct (flush_no_fail _ _ _ _ _ _ Hn Ef) as [Hn' Hnf].
      destruct r; intros H; inversion H; subst; cbn; auto. exfalso. eapply Hnf. reflexivity.
    - intros H; inversion H; subst; cbn; auto.
  Qed.

  Lemma decode_sim buf ws wr : forallb no_fail ws = true ->
    match try_decode buf with
    | None => after_decode buf ws wr = None
    | Some (o, b) => exists po s' ws' w, after_decode buf ws wr = Some (po, s', ws', w) /\ fbuf s' = b /\
                                         forallb no_fail ws' = true /\ step_rel po s' o
    end.
  Proof.
    intros Hn. unfold Framed.try_decode, Async.after_decode. destruct buf as [|x t]; [reflexivity|].
    destruct (decode packet parse m (x :: t)) as [|p rest|rest| |].
    - reflexivity.
    - assert (HK : forall po s' ws' w, deliverK p rest ws wr = (po, s', ws', w) ->
                 rets (deliver p) = [RPacket p] ->
                 exists po0 s0 ws0 w0, Some (deliverK p rest ws wr) = Some (po0, s0, ws0, w0) /\ fbuf s0 = rest /\
                                       forallb no_fail ws0 = true /\ step_rel po0 s0 (deliver p)).
      { intros po s' ws' w HE Hr. destruct (deliverK_sim _ _ _ _ _ _ _ _ Hn HE) as [Hn' [Hb Hpo]].
        exists po, s', ws', w. rewrite HE. split; [reflexivity|]. split; [exact Hb|]. split; [exact Hn'|].
        destruct po as [[|]|r]; cbn [step_rel]; [exists p; auto|contradiction|].
        destruct Hpo as [Hp ->]. auto. }
      pose proof (rets_deliver p) as Hr.
      destruct (deliverK p rest ws wr) as [[[po s'] ws'] w] eqn:HE.
      destruct (if verify then ver_of p else None) as [v|].
      + destruct (v =? version).
        * eapply HK; [reflexivity|exact Hr].
        * exists (PReady (RBadVersion v)), (mkF rest [] None), ws, wr. cbn. auto.
      + eapply HK; [reflexivity|exact Hr].
    - exists (PReady RDecodeErr), (mkF rest [] None), ws, wr. cbn. auto.
    - exists (PReady RFrameErr), (mkF (x :: t) [] None), ws, wr. cbn. auto.
    - exists (PReady RPanic), (mkF (x :: t) [] None), ws, wr. cbn. auto.
  Qed.

  (* ---- one turn of the read loop against one read() of the connection model ---- *)
  Definition loop_rel (buf : bytes) (rs : list arev) (po : pout packet) (s' : fstate) (rs' : list arev) : Prop :=
    match po with
    | PPending InRead =>
        pend_p s' = None /\ read buf (strip rs ++ [Eof]) = read (fbuf s') (strip rs' ++ [Eof])
    | _ =>
        exists o tr', read buf (strip rs ++ [Eof]) = (o, fbuf s', tr') /\ step_rel po s' o /\
                      (existsb (is_final packet) o = false -> tr' = strip rs' ++ [Eof])
    end.

  Lemma read_loop_sim : forall rs buf ws wr po s' rs' ws' w,
    forallb no_fail ws = true ->
    read_loop false buf rs ws wr = (po, s', rs', ws', w) ->
    forallb no_fail ws' = true /\ loop_rel buf rs po s' rs'.
  Proof.
    induction rs as [|e rs IH]; intros buf ws wr po s' rs' ws' w Hn H; cbn [Async.read_loop] in H;
      pose proof (decode_sim buf ws wr Hn) as Hd; destruct (try_decode buf) as [[o b]|] eqn:Et.
    - destruct Hd as [po0 [s0 [ws0 [w0 [Ha [Hb [Hn0 Hrel]]]]]]]. rewrite Ha in H. injection H as ? ? ? ? ?; subst po0 s0 ws0 w0 rs'. subst b.
      split; [exact Hn0|]. unfold loop_rel.
      assert (G : exists o0 tr', read buf (strip [] ++ [Eof]) = (o0, fbuf s', tr') /\ step_rel po s' o0 /\
                                 (existsb (is_final packet) o0 = false -> tr' = strip [] ++ [Eof])).
      { exists o, [Eof]. cbn [strip app]. rewrite (read_unfold packet parse ver_of is_keepalive version m verify pong), Et. split; [reflexivity|]. split; [exact Hrel|reflexivity]. }
      destruct po as [[|]|r]; [exact G|cbn in Hrel; contradiction|exact G].
    - rewrite Hd in H. injection H as ? ? ? ? ?; subst po s' rs' ws' w. split; [exact Hn|]. unfold loop_rel.
      exists [Ret RDisconnected], []. cbn [strip app fbuf]. rewrite (read_unfold packet parse ver_of is_keepalive version m verify pong), Et. cbn. split; [reflexivity|]. split; [auto|discriminate].
    - destruct Hd as [po0 [s0 [ws0 [w0 [Ha [Hb [Hn0 Hrel]]]]]]]. rewrite Ha in H. injection H as ? ? ? ? ?; subst po0 s0 ws0 w0 rs'. subst b.
      split; [exact Hn0|]. unfold loop_rel.
      assert (G : exists o0 tr', read buf (strip (e :: rs) ++ [Eof]) = (o0, fbuf s', tr') /\ step_rel po s' o0 /\
                                 (existsb (is_final packet) o0 = false -> tr' = strip (e :: rs) ++ [Eof])).
      { exists o, (strip (e :: rs) ++ [Eof]). rewrite (read_unfold packet parse ver_of is_keepalive version m verify pong), Et. split; [reflexivity|]. split; [exact Hrel|reflexivity]. }
      destruct po as [[|]|r]; [exact G|cbn in Hrel; contradiction|exact G].
    - rewrite Hd in H. destruct e as [[[|x bs]|c| |]|].
      + injection H as ? ? ? ? ?; subst po s' rs' ws' w. split; [exact Hn|]. unfold loop_rel. exists [Ret RDisconnected], (strip rs ++ [Eof]).
        cbn [strip app fbuf]. rewrite (read_unfold packet parse ver_of is_keepalive version m verify pong), Et. cbn. split; [reflexivity|]. split; [auto|discriminate].
      + destruct (IH _ _ _ _ _ _ _ _ Hn H) as [Hn' Hl]. split; [exact Hn'|].
        unfold loop_rel in *. cbn [strip app]. rewrite (read_unfold packet parse ver_of is_keepalive version m verify pong), Et. exact Hl.
      + injection H as ? ? ? ? ?; subst po s' rs' ws' w. split; [exact Hn|]. unfold loop_rel. exists [Ret (RIo c)], (strip rs ++ [Eof]).
        cbn [strip app fbuf]. rewrite (read_unfold packet parse ver_of is_keepalive version m verify pong), Et. cbn. split; [reflexivity|]. split; [auto|reflexivity].
      + injection H as ? ? ? ? ?; subst po s' rs' ws' w. split; [exact Hn|]. unfold loop_rel. exists [Ret RTimeout], (strip rs ++ [Eof]).
        cbn [strip app fbuf]. rewrite (read_unfold packet parse ver_of is_keepalive version m verify pong), Et. cbn. split; [reflexivity|]. split; [auto|reflexivity].
      + injection H as ? ? ? ? ?; subst po s' rs' ws' w. split; [exact Hn|]. unfold loop_rel. exists [Ret RDisconnected], (strip rs ++ [Eof]).
        cbn [strip app fbuf]. rewrite (read_unfold packet parse ver_of is_keepalive version m verify pong), Et. cbn. split; [reflexivity|]. split; [auto|discriminate].
      + injection H as ? ? ? ? ?; subst po s' rs' ws' w. split; [exact Hn|]. unfold loop_rel. cbn [strip fbuf pend_p]. auto.
  Qed.

  Lemma user_writes_keeps : forall frs s ws toks s' ws',
    forallb no_fail ws = true -> user_writes frs s ws = Some (toks, s', ws') ->
    forallb no_fail ws' = true /\ fbuf s' = fbuf s /\ pend_p s' = pend_p s /\ results toks = [].
  Proof.
    induction frs as [|fr t IH]; intros s ws toks s' ws' Hn H; cbn [Async.user_writes] in H.
    - inversion H; subst. auto.
    - destruct (drain (pend_w s) ws) as [ws1|] eqn:E1; [|discriminate].
      destruct (drain fr ws1) as [ws2|] eqn:E2; [|discriminate].
      destruct (user_writes t (mkF (fbuf s) [] (pend_p s)) ws2) as [[[toks0 s0] ws0]|] eqn:E3; [|discriminate].
      inversion H; subst. clear H.
      pose proof (drain_no_fail _ _ _ Hn E1) as Hn1. pose proof (drain_no_fail _ _ _ Hn1 E2) as Hn2.
      destruct (IH _ _ _ _ _ Hn2 E3) as [Hn' [Hb [Hp Hr]]]. cbn [fbuf pend_p] in *. auto.
  Qed.

  Notation sref := (fun f (s : fstate) rs => held s ++ rets (session f (fbuf s) (strip rs ++ [Eof]))).

  Lemma sref_mono f s rs : prefix (sref f s rs) (sref (S f) s rs).
  Proof. apply prefix_app. apply rets_prefix. apply session_mono. Qed.

  (* what follows a poll that stayed pending: carry on, or drop the future (and maybe write) and start again *)
  Lemma pending_cont f c' s1 rs1 ws1 cancels wsched accw :
    (forall c s rs ws cancels wsched acc, forallb no_fail ws = true -> Inv c s ->
        prefix (results (aconv f c s rs ws cancels wsched acc)) (sref f s rs)) ->
    forallb no_fail ws1 = true -> Inv c' s1 ->
    prefix (results
      (match cancels with
       | true :: cs =>
           match wsched with
           | (f1 :: ft) :: wt =>
               match user_writes (f1 :: ft) s1 ws1 with
               | Some (toks, s'', ws'') => tw packet accw ++ toks ++ aconv f Top s'' rs1 ws'' cs wt []
               | None => tw packet accw
               end
           | _ => aconv f Top s1 rs1 ws1 cs (tl wsched) accw
           end
       | _ => aconv f c' s1 rs1 ws1 (tl cancels) wsched accw
       end)) (sref f s1 rs1).
  Proof.
    intros IH Hn HI.
    destruct cancels as [|[|] cs]; try (apply IH; assumption).
    destruct wsched as [|[|f1 ft] wt]; try (apply IH; [assumption|exact I]).
    destruct (user_writes (f1 :: ft) s1 ws1) as [[[toks s''] ws'']|] eqn:EU.
    - destruct (user_writes_keeps _ _ _ _ _ _ Hn EU) as [Hn' [Hb [Hp Hr]]].
      rewrite !results_app, results_tw, Hr. cbn [app].
      pose proof (IH Top s'' rs1 ws'' cs wt [] Hn' I) as H. unfold held in *. rewrite Hb, Hp in H. exact H.
    - rewrite results_tw. apply prefix_nil.
  Qed.

  (* ---- the results of any conversation ---- *)
  Theorem aconv_results : forall fuel c s rs ws cancels wsched acc,
    forallb no_fail ws = true -> Inv c s ->
    prefix (results (aconv fuel c s rs ws cancels wsched acc)) (sref fuel s rs).
  Proof.
    induction fuel as [|f IH]; intros c s rs ws cancels wsched acc Hn HI; [apply prefix_nil|].
    cbn [Async.aconv].
    destruct (poll_from c s rs ws) as [[[[po s1] rs1] ws1] w] eqn:E.
    pose proof E as E'. rewrite (poll_resume_eq_fresh _ _ _ _ _ _ _ _ c s rs ws HI) in E'.
    assert (HI1 : forall c', po = PPending c' -> Inv c' s1).
    { intros c' ->. eapply poll_pending_inv; eassumption. }
    unfold Async.poll_from in E'.
    destruct (flush (pend_w s) ws) as [[[fr pw] ws0] w0] eqn:Ef.
    destruct (flush_no_fail _ _ _ _ _ _ Hn Ef) as [Hn0 Hnf].
    (* the tail after a result *)
    assert (Hafter : forall r s2 rs2 ws2, forallb no_fail ws2 = true -> is_final packet (Ret r) = false ->
              prefix (results (match user_writes (hd [] wsched) s2 ws2 with
                               | Some (toks, s'', ws'') => toks ++ aconv f Top s'' rs2 ws'' cancels (tl wsched) []
                               | None => []
                               end)) (sref f s2 rs2)).
    { intros r s2 rs2 ws2 Hn2 _.
      destruct (user_writes (hd [] wsched) s2 ws2) as [[[toks s''] ws'']|] eqn:EU; [|apply prefix_nil].
      destruct (user_writes_keeps _ _ _ _ _ _ Hn2 EU) as [Hn' [Hb [Hp Hr]]].
      rewrite results_app, Hr. cbn [app].
      pose proof (IH Top s'' rs2 ws'' cancels (tl wsched) [] Hn' I) as H. unfold held in *. rewrite Hb, Hp in H. exact H. }
    destruct fr.
    - (* the outstanding reply (if any) is complete *)
      destruct (pend_p s) as [p|] eqn:Epp.
      + (* the held-back keep-alive is returned *)
        injection E' as ? ? ? ? ?; subst po s1 rs1 ws1 w.
        rewrite results_app, results_tw. cbn [app results flat_map is_final].
        unfold held at 1. rewrite Epp. cbn [app]. apply prefix_cons.
        eapply prefix_trans; [|apply rets_prefix; apply session_mono].
        pose proof (Hafter (RPacket p) (mkF (fbuf s) [] None) rs ws0 Hn0 eq_refl) as H. cbn [held pend_p fbuf app] in H. exact H.
      + (* the read loop *)
        destruct (read_loop_sim _ _ _ _ _ _ _ _ _ Hn0 E') as [Hn1 Hl].
        unfold held at 1. rewrite Epp. cbn [app].
        change (session (S f) (fbuf s) (strip rs ++ [Eof])) with
          (let '(o, b, tr') := read (fbuf s) (strip rs ++ [Eof]) in if existsb (is_final packet) o then o else o ++ session f b tr').
        destruct po as [[|]|r].
        * (* a keep-alive is held back behind its reply *)
          destruct Hl as [o [tr' [Hr [[p [Hp Ho]] Htr]]]]. rewrite Hr.
          pose proof (rets_one_final o _ Ho) as Hf. cbn [is_final] in Hf. rewrite Hf, (Htr Hf), rets_app, Ho.
          pose proof (pending_cont f Top s1 rs1 ws1 cancels wsched (acc ++ w) IH Hn1 I) as H.
          unfold held in H. rewrite Hp in H. exact H.
        * (* waiting for data *)
          destruct Hl as [Hp Hr]. rewrite Hr.
          pose proof (pending_cont f InRead s1 rs1 ws1 cancels wsched (acc ++ w) IH Hn1 (HI1 InRead eq_refl)) as H.
          eapply prefix_trans; [exact H|]. unfold held. rewrite Hp. cbn [app].
          apply rets_prefix. apply (session_mono f (fbuf s1) (strip rs1 ++ [Eof])).
        * (* a result *)
          destruct Hl as [o [tr' [Hr [[Hp Ho] Htr]]]]. rewrite Hr.
          rewrite results_app, results_tw. cbn [app results flat_map].
          rewrite (rets_one_final o r Ho).
          destruct (is_final packet (Ret r)) eqn:Efin.
          -- rewrite Ho. apply prefix_refl.
          -- rewrite (Htr (eq_trans (rets_one_final o r Ho) Efin)), rets_app, Ho. cbn [app]. apply prefix_cons.
             pose proof (Hafter r s1 rs1 ws1 Hn1 Efin) as H. unfold held in H. rewrite Hp in H. exact H.
    - (* the outstanding reply is still not written: the future stays pending at the top *)
      injection E' as ? ? ? ? ?; subst po s1 rs1 ws1 w.
      pose proof (pending_cont f Top (mkF (fbuf s) pw (pend_p s)) rs ws0 cancels wsched (acc ++ w0) IH Hn0 I) as H.
      eapply prefix_trans; [exact H|]. cbn [held pend_p fbuf]. apply (sref_mono f s rs).
    - exfalso. eapply Hnf. reflexivity.
  Qed.

  (* once the stream has ended the results are all there: a final result occurs only at the end of the model's run *)
  Lemma session_final_last : forall f buf tr pre x post,
    session f buf tr = pre ++ x :: post -> is_final packet x = true -> post = [].
  Proof.
    induction f as [|f IH]; intros buf tr pre x post H Hx; [destruct pre; discriminate|].
    change (session (S f) buf tr) with (let '(o, b, tr') := read buf tr in if existsb (is_final packet) o then o else o ++ session f b tr') in H.
    destruct (read buf tr) as [[o b] tr'] eqn:Er.
    assert (Ho : forall pre0 y post0, o = pre0 ++ y :: post0 -> is_final packet y = true -> post0 = []).
    { clear -Er. intros pre0 y post0 Ho Hy.
      (* a read returns its result last *)
      revert buf Er. induction tr as [|e tr IHt]; intros buf Er; rewrite (read_unfold packet parse ver_of is_keepalive version m verify pong) in Er;
        unfold Framed.try_decode in Er.
      all: destruct buf as [|b0 bt].
      all: try (destruct (decode packet parse m (b0 :: bt)) as [|p rest|rest| |]).
      all: try (injection Er as <- _ _).
      all: try (unfold Framed.deliver in Ho; destruct (if verify then ver_of p else None) as [v|]; [destruct (v =? version)|]; destruct (is_keepalive p); cbn [app] in Ho).
      all: try (destruct pre0 as [|a [|a2 [|a3 pre0]]]; cbn [app] in Ho; try discriminate; injection Ho as; subst; try reflexivity; try discriminate).
      all: try (destruct e as [[|x bs]|c| |]; try (injection Er as <- _ _);
                try (destruct pre0 as [|a [|a2 pre0]]; cbn [app] in Ho; try discriminate; injection Ho as; subst; try reflexivity; try discriminate)).
      all: try (eapply IHt; eassumption). }
    destruct (existsb (is_final packet) o) eqn:Ef.
    - subst o. eapply Ho; [reflexivity|exact Hx].
    - (* x lies in the continuation *)
      assert (Hsplit : exists pre2, pre = o ++ pre2 /\ session f b tr' = pre2 ++ x :: post).
      { clear IH Ho Er. revert pre H. induction o as [|y o IHo]; intros pre H.
        - exists pre. auto.
        - cbn [existsb] in Ef. apply orb_false_iff in Ef as [Hy Ef]. destruct pre as [|z pre].
          + cbn [app] in H. injection H as -> _. congruence.
          + cbn [app] in H. injection H as -> H. destruct (IHo Ef pre H) as [pre2 [-> H2]]. exists pre2. auto. }
      destruct Hsplit as [pre2 [_ H2]]. eapply IH; eassumption.
  Qed.

  Lemma rets_split : forall l pre x post, rets l = pre ++ x :: post ->
    exists pre' post', l = pre' ++ Ret x :: post' /\ rets post' = post.
  Proof.
    induction l as [|[b|r] l IH]; intros pre x post H; cbn [rets flat_map app] in H.
    - destruct pre; discriminate.
    - destruct (IH pre x post H) as [pre' [post' [-> Hp]]]. exists (Wrote b :: pre'), post'. auto.
    - destruct pre as [|y pre]; cbn [app] in H.
      + injection H as -> H. exists [], l. auto.
      + injection H as -> H. destruct (IH pre x post H) as [pre' [post' [-> Hp]]]. exists (Ret y :: pre'), post'. auto.
  Qed.

  (* when a conversation has seen the end of the stream (or any other final result), it has returned everything:
     the results ARE those of the connection model, not just a prefix *)
  Theorem aconv_results_complete : forall fuel c s rs ws cancels wsched acc pre x,
    forallb no_fail ws = true -> Inv c s ->
    results (aconv fuel c s rs ws cancels wsched acc) = pre ++ [x] -> is_final packet (Ret x) = true ->
    results (aconv fuel c s rs ws cancels wsched acc) = held s ++ rets (session fuel (fbuf s) (strip rs ++ [Eof])).
  Proof.
    intros fuel c s rs ws cancels wsched acc pre x Hn HI Hres Hx.
    destruct (aconv_results fuel c s rs ws cancels wsched acc Hn HI) as [rest Hrest].
    rewrite Hres in *. rewrite <- app_assoc in Hrest. cbn [app] in Hrest.
    enough (rest = []) as -> by (rewrite <- Hrest; reflexivity).
    unfold held in Hrest. destruct (pend_p s) as [p|].
    - destruct pre as [|y pre]; cbn [app] in Hrest.
      + injection Hrest as -> _. discriminate.
      + injection Hrest as _ Hrest. symmetry in Hrest.
        destruct (rets_split _ _ _ _ Hrest) as [pre' [post' [Hs Hp]]].
        rewrite (session_final_last _ _ _ _ _ _ Hs Hx) in Hp. symmetry; exact Hp.
    - cbn [app] in Hrest. symmetry in Hrest.
      destruct (rets_split _ _ _ _ Hrest) as [pre' [post' [Hs Hp]]].
      rewrite (session_final_last _ _ _ _ _ _ Hs Hx) in Hp. symmetry; exact Hp.
  Qed.
End Results.
