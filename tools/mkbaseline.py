#!/usr/bin/env python3
"""mkbaseline.py: store what the translator produces for the CURRENT /repo under baseline/ (committed).
When a later run cannot translate some source file, translate.py puts these files in place of the missing output so that the
model and the harness still build and the SEARCH FOR A FAILING INPUT can run (against the model of the last source that could
be translated).  The refusal itself is still reported: a check never passes on baseline files."""
import os, sys, json, shutil, subprocess, importlib
sys.path.insert(0, os.path.dirname(os.path.abspath(__file__)))
import translate
ROOT = os.path.dirname(os.path.dirname(os.path.abspath(__file__)))
def main():
    repo = os.environ.get('VERIF_REPO', '/repo')
    base = os.path.join(ROOT, 'baseline'); shutil.rmtree(base, ignore_errors=True)
    os.makedirs(os.path.join(base, 'coq')); os.makedirs(os.path.join(base, 'harness'))
    man = {'repo_commit': subprocess.run(['git', '-C', repo, 'rev-parse', 'HEAD'], capture_output=True, text=True).stdout.strip(), 'generators': {}}
    for n, (modname, outs) in translate.GENERATORS.items():
        files, info = importlib.import_module(modname).generate(repo)
        h = info.pop('_harness', {}) if isinstance(info, dict) else {}
        for fn, text in files.items(): open(os.path.join(base, 'coq', fn), 'w', encoding='utf-8').write(text)
        for fn, text in h.items(): open(os.path.join(base, 'harness', fn), 'w', encoding='utf-8').write(text)
        man['generators'][n] = {'coq': sorted(files), 'harness': sorted(h)}
    json.dump(man, open(os.path.join(base, 'manifest.json'), 'w'), indent=1)
    print('baseline: %d generators at %s' % (len(man['generators']), man['repo_commit'][:7]))
if __name__ == '__main__': main()
