Require Import ExtrOcamlBasic.
Require Import Base.Bytes Files.Parser Gen.FilesTab Files.Formats.
Extraction Language OCaml.
(* parse then write: (code, bytes): 0 ok / 1 error / 2 panic *)
Definition x_pth (bs : list N) : N * list N := match parse_pth bs with Ok f => (0%N, w_pth f) | Err => (1%N, []) | Panic => (2%N, []) end.
Definition x_smx (bs : list N) : N * list N := match parse_smx bs with Ok f => (0%N, w_smx f) | Err => (1%N, []) | Panic => (2%N, []) end.
Definition x_keep (n : nat) : res nat := Ok n.
Extraction "model.ml" x_pth x_smx x_keep.
