(* Text/EscapeProofs.v — C12: unescape . escape = id, escaped output is reserved-free, strip
   removes exactly the colour tokens and is idempotent. All strings, by induction with one
   character of look-ahead. Finite table facts by vm_compute. *)
Require Import Coq.Strings.String.
Require Import Base.Bytes Gen.TextTab Text.Escape.
Local Open Scope N_scope.

(* ---- table facts (10 entries each) ---- *)
Definition tab_inverse : bool :=
  forallb (fun '(a, b) => match lookup b gen_unescape_tab with Some a' => a' =? a | None => false end) gen_escape_tab &&
  forallb (fun '(a, b) => negb (a =? caret) && negb (b =? caret) && negb (is_colour b) && negb (is_colour a)) gen_escape_tab &&
  negb (is_colour caret) &&
  (* escape letters are not themselves reserved, reserved chars are not escape letters *)
  forallb (fun '(a, b) => negb (reserved b)) gen_escape_tab.
Lemma tab_inverse_ok : tab_inverse = true. Proof. vm_compute. reflexivity. Qed.

Lemma lookup_in k tab v : lookup k tab = Some v -> In (k, v) tab.
Proof.
  induction tab as [|[a b] tab IH]; cbn [lookup]; [discriminate|].
  destruct (N.eqb_spec k a) as [->|]; [intros [= ->]; left; reflexivity|]. intros H. right. auto.
Qed.

Lemma escape_entry c d : lookup c gen_escape_tab = Some d ->
  lookup d gen_unescape_tab = Some c /\ is_caret d = false /\ is_colour d = false /\ reserved d = false /\ is_caret c = false.
Proof.
  intros H. apply lookup_in in H. pose proof tab_inverse_ok as T. unfold tab_inverse in T.
  apply andb_prop in T as [T T4]. apply andb_prop in T as [T T3]. apply andb_prop in T as [T1 T2].
  rewrite forallb_forall in T1, T2, T4. specialize (T1 _ H). specialize (T2 _ H). specialize (T4 _ H).
  cbn beta iota in T1, T2, T4.
  destruct (lookup d gen_unescape_tab) as [a'|]; [|discriminate]. apply N.eqb_eq in T1. subst a'.
  apply andb_prop in T2 as [T2 _]. apply andb_prop in T2 as [T2 Tc]. apply andb_prop in T2 as [Ta Tb].
  apply negb_true_iff in Ta, Tb, Tc, T4. unfold is_caret. repeat split; auto.
Qed.

Lemma caret_not_colour : is_colour caret = false.
Proof. vm_compute. reflexivity. Qed.

(* ---- unescape . escape = id ---- *)
Lemma is_caret_caret : is_caret caret = true. Proof. apply N.eqb_refl. Qed.
Lemma try_escape_caret : try_escape caret = Some caret. Proof. unfold try_escape. rewrite is_caret_caret. reflexivity. Qed.
Lemma try_unescape_caret : try_unescape caret = Some caret. Proof. unfold try_unescape. rewrite is_caret_caret. reflexivity. Qed.
Lemma colour_not_caret d : is_colour d = true -> is_caret d = false.
Proof. intros H. destruct (is_caret d) eqn:E; [|reflexivity]. apply N.eqb_eq in E. subst d. rewrite caret_not_colour in H. discriminate. Qed.
Lemma colour_not_unescapable d : is_colour d = true -> try_unescape d = None.
Proof.
  intros H. unfold try_unescape. rewrite (colour_not_caret d H).
  destruct (lookup d gen_unescape_tab) as [k|] eqn:Hk; [|reflexivity].
  exfalso. apply lookup_in in Hk.
  assert (forallb (fun '(a, b) => negb (is_colour a)) gen_unescape_tab = true) as T by (vm_compute; reflexivity).
  rewrite forallb_forall in T. specialize (T _ Hk). cbn beta iota in T. rewrite H in T. discriminate.
Qed.

Lemma unesc_plain i t : is_caret i = false -> unesc (i :: t) = i :: unesc t.
Proof. intros H. cbn [unesc]. rewrite H. reflexivity. Qed.
Lemma unesc_pair j t' k : try_unescape j = Some k -> unesc (caret :: j :: t') = k :: unesc t'.
Proof. intros H. cbn [unesc]. rewrite is_caret_caret, H. reflexivity. Qed.
Lemma unesc_caret_other j t' : try_unescape j = None -> unesc (caret :: j :: t') = caret :: unesc (j :: t').
Proof. intros H. cbn [unesc]. rewrite is_caret_caret, H. reflexivity. Qed.

Lemma esc_plain c t : is_caret c = false ->
  esc (c :: t) = match lookup c gen_escape_tab with Some d => caret :: d :: esc t | None => c :: esc t end.
Proof. intros H. cbn [esc]. unfold try_escape. rewrite H. reflexivity. Qed.
Lemma esc_colour d t' : is_colour d = true -> esc (caret :: d :: t') = caret :: d :: esc t'.
Proof. intros H. cbn [esc]. rewrite is_caret_caret, H. reflexivity. Qed.
Lemma esc_caret_end : esc [caret] = [caret; caret].
Proof. cbn [esc]. rewrite is_caret_caret, try_escape_caret. reflexivity. Qed.
Lemma esc_caret_other d t' : is_colour d = false -> esc (caret :: d :: t') = caret :: caret :: esc (d :: t').
Proof. intros H. cbn [esc]. rewrite is_caret_caret, H, try_escape_caret. reflexivity. Qed.

Lemma unesc_esc_len : forall n s, (length s <= n)%nat -> unesc (esc s) = s.
Proof.
  induction n as [|n IH]; intros s Hl.
  - destruct s; [reflexivity|cbn in Hl; lia].
  - destruct s as [|c t]; [reflexivity|]. cbn [length] in Hl.
    destruct (is_caret c) eqn:Hc.
    + apply N.eqb_eq in Hc. subst c. destruct t as [|d t'].
      * rewrite esc_caret_end. rewrite (unesc_pair _ _ _ try_unescape_caret). reflexivity.
      * cbn [length] in Hl. destruct (is_colour d) eqn:Hd.
        -- rewrite (esc_colour _ _ Hd). rewrite (unesc_caret_other _ _ (colour_not_unescapable _ Hd)).
           rewrite (unesc_plain _ _ (colour_not_caret _ Hd)). rewrite IH by lia. reflexivity.
        -- rewrite (esc_caret_other _ _ Hd). rewrite (unesc_pair _ _ _ try_unescape_caret).
           rewrite IH by (cbn [length]; lia). reflexivity.
    + rewrite (esc_plain _ _ Hc). destruct (lookup c gen_escape_tab) as [d|] eqn:He.
      * destruct (escape_entry _ _ He) as [Hu [Hcd _]].
        assert (try_unescape d = Some c) as Hud by (unfold try_unescape; rewrite Hcd; exact Hu).
        rewrite (unesc_pair _ _ _ Hud). rewrite IH by lia. reflexivity.
      * rewrite (unesc_plain _ _ Hc). rewrite IH by lia. reflexivity.
Qed.

Theorem unesc_esc s : unesc (esc s) = s.
Proof. apply (unesc_esc_len (length s)). lia. Qed.

(* the fast paths do not change the functions *)
Lemma esc_noop s : existsb (fun c => match try_escape c with Some _ => true | None => false end) s = false -> esc s = s.
Proof.
  induction s as [|c t IH]; cbn [existsb]; [reflexivity|].
  intros H. apply orb_false_iff in H as [Hc Ht].
  assert (is_caret c = false) as Hnc.
  { destruct (is_caret c) eqn:E; [|reflexivity]. unfold try_escape in Hc. rewrite E in Hc. discriminate. }
  rewrite (esc_plain _ _ Hnc). unfold try_escape in Hc. rewrite Hnc in Hc.
  destruct (lookup c gen_escape_tab); [discriminate|]. f_equal. apply IH. exact Ht.
Qed.
Lemma unesc_noop s : existsb is_caret s = false -> unesc s = s.
Proof.
  induction s as [|c t IH]; cbn [existsb]; [reflexivity|].
  intros H. apply orb_false_iff in H as [Hc Ht]. rewrite (unesc_plain _ _ Hc). f_equal. apply IH. exact Ht.
Qed.
Lemma strp_noop s : existsb is_caret s = false -> strp s = s.
Proof.
  induction s as [|c t IH]; cbn [existsb strp]; [reflexivity|].
  intros H. apply orb_false_iff in H as [Hc Ht]. rewrite Hc. f_equal. apply IH. exact Ht.
Qed.

Theorem escape_is_esc s : escape s = esc s.
Proof. unfold escape. destruct (existsb _ s) eqn:E; [reflexivity|]. symmetry. apply esc_noop. exact E. Qed.
Theorem unescape_is_unesc s : unescape s = unesc s.
Proof. unfold unescape. destruct (existsb _ s) eqn:E; [reflexivity|]. symmetry. apply unesc_noop. exact E. Qed.
Theorem strip_is_strp s : strip s = strp s.
Proof. unfold strip. destruct (existsb _ s) eqn:E; [reflexivity|]. symmetry. apply strp_noop. exact E. Qed.

Theorem unescape_escape s : unescape (escape s) = s.
Proof. rewrite escape_is_esc, unescape_is_unesc. apply unesc_esc. Qed.

(* ---- escaped output holds no reserved character in raw form ---- *)
Lemma colour_not_reserved d : is_colour d = true -> reserved d = false.
Proof.
  intros H. unfold reserved. destruct (lookup d gen_escape_tab) as [k|] eqn:Hk; [|reflexivity].
  exfalso. apply lookup_in in Hk.
  assert (forallb (fun '(a, b) => negb (is_colour a)) gen_escape_tab = true) as T by (vm_compute; reflexivity).
  rewrite forallb_forall in T. specialize (T _ Hk). cbn beta iota in T. rewrite H in T. discriminate.
Qed.

Lemma esc_reserved_free_len : forall n s, (length s <= n)%nat -> existsb reserved (esc s) = false.
Proof.
  assert (Hrc : reserved caret = false) by (vm_compute; reflexivity).
  induction n as [|n IH]; intros s Hl.
  - destruct s; [reflexivity|cbn in Hl; lia].
  - destruct s as [|c t]; [reflexivity|]. cbn [length] in Hl.
    destruct (is_caret c) eqn:Hc.
    + apply N.eqb_eq in Hc. subst c. destruct t as [|d t'].
      * rewrite esc_caret_end. cbn [existsb]. rewrite Hrc. reflexivity.
      * cbn [length] in Hl. destruct (is_colour d) eqn:Hd.
        -- rewrite (esc_colour _ _ Hd). cbn [existsb]. rewrite Hrc, (colour_not_reserved _ Hd). cbn [orb]. apply IH. lia.
        -- rewrite (esc_caret_other _ _ Hd). cbn [existsb]. rewrite Hrc. cbn [orb]. apply IH. cbn [length]. lia.
    + rewrite (esc_plain _ _ Hc). destruct (lookup c gen_escape_tab) as [d|] eqn:He.
      * destruct (escape_entry _ _ He) as [_ [_ [_ [Hrd _]]]].
        cbn [existsb]. rewrite Hrc, Hrd. cbn [orb]. apply IH. lia.
      * cbn [existsb]. unfold reserved at 1. rewrite He. cbn [orb]. apply IH. lia.
Qed.

Theorem escape_reserved_free s : existsb reserved (escape s) = false.
Proof. rewrite escape_is_esc. apply (esc_reserved_free_len (length s)). lia. Qed.

(* ---- strip: token-level specification ---- *)
(* tokens: escaped caret "^^", colour "^d", any other single character *)
Inductive token := TEsc | TColour (d : N) | TChar (c : N).
Fixpoint tokens_len (n : nat) (s : list N) : list token :=
  match n with
  | O => []
  | S n' =>
    match s with
    | [] => []
    | i :: t =>
        if is_caret i then
          match t with
          | j :: t' => if is_caret j then TEsc :: tokens_len n' t'
                       else if is_colour j then TColour j :: tokens_len n' t'
                       else TChar i :: tokens_len n' t
          | [] => [TChar i]
          end
        else TChar i :: tokens_len n' t
    end
  end.
Definition tokens (s : list N) : list token := tokens_len (length s) s.
Definition render (keep_colours : bool) (tk : token) : list N :=
  match tk with
  | TEsc => [caret; caret]
  | TColour d => if keep_colours then [caret; d] else []
  | TChar c => [c]
  end.

Lemma strp_tokens_len : forall n s, (length s <= n)%nat ->
  strp s = concat (map (render false) (tokens_len n s)) /\ s = concat (map (render true) (tokens_len n s)).
Proof.
  induction n as [|n IH]; intros s Hl.
  - destruct s; [split; reflexivity|cbn in Hl; lia].
  - destruct s as [|i t]; [split; reflexivity|]. cbn [length] in Hl. cbn [strp tokens_len].
    destruct (is_caret i) eqn:Hi.
    + destruct t as [|j t']; [split; reflexivity|].
      destruct (is_caret j) eqn:Hj.
      * apply N.eqb_eq in Hi, Hj. subst i j. destruct (IH t' ltac:(cbn [length] in Hl; lia)) as [H1 H2].
        cbn [map concat render app]. split; [rewrite H1; reflexivity|rewrite H2 at 1; reflexivity].
      * destruct (is_colour j) eqn:Hcj.
        -- apply N.eqb_eq in Hi. subst i. destruct (IH t' ltac:(cbn [length] in Hl; lia)) as [H1 H2].
           cbn [map concat render app]. split; [exact H1|rewrite H2 at 1; reflexivity].
        -- destruct (IH (j :: t') ltac:(lia)) as [H1 H2].
           cbn [map concat render app]. split; [rewrite H1; reflexivity|rewrite H2 at 1; reflexivity].
    + destruct (IH t ltac:(lia)) as [H1 H2].
      cbn [map concat render app]. split; [rewrite H1; reflexivity|rewrite H2 at 1; reflexivity].
Qed.

(* strip = the text with exactly the colour tokens deleted; the text itself = all tokens rendered *)
Theorem strip_spec s :
  strip s = concat (map (render false) (tokens s)) /\ s = concat (map (render true) (tokens s)).
Proof. rewrite strip_is_strp. apply strp_tokens_len. unfold tokens. lia. Qed.

Lemma strp_plain i t : is_caret i = false -> strp (i :: t) = i :: strp t.
Proof. intros H. cbn [strp]. rewrite H. reflexivity. Qed.
Lemma strp_caret_other i j t' : is_caret i = true -> is_caret j = false -> is_colour j = false ->
  strp (i :: j :: t') = i :: strp (j :: t').
Proof. intros Hi Hj Hc. cbn [strp]. rewrite Hi, Hj, Hc. reflexivity. Qed.
Lemma strp_esc i j t' : is_caret i = true -> is_caret j = true -> strp (i :: j :: t') = i :: j :: strp t'.
Proof. intros Hi Hj. cbn [strp]. rewrite Hi, Hj. reflexivity. Qed.
Lemma strp_colour i j t' : is_caret i = true -> is_caret j = false -> is_colour j = true -> strp (i :: j :: t') = strp t'.
Proof. intros Hi Hj Hc. cbn [strp]. rewrite Hi, Hj, Hc. reflexivity. Qed.

Lemma strp_idem_len : forall n s, (length s <= n)%nat -> strp (strp s) = strp s.
Proof.
  induction n as [|n IH]; intros s Hl.
  - destruct s; [reflexivity|cbn in Hl; lia].
  - destruct s as [|i t]; [reflexivity|]. cbn [length] in Hl.
    destruct (is_caret i) eqn:Hi.
    + destruct t as [|j t'].
      * cbn [strp]. rewrite Hi. cbn [strp]. rewrite Hi. reflexivity.
      * cbn [length] in Hl. destruct (is_caret j) eqn:Hj.
        -- rewrite (strp_esc _ _ _ Hi Hj). rewrite (strp_esc _ _ _ Hi Hj). rewrite IH by lia. reflexivity.
        -- destruct (is_colour j) eqn:Hcj.
           ++ rewrite (strp_colour _ _ _ Hi Hj Hcj). apply IH. lia.
           ++ rewrite (strp_caret_other _ _ _ Hi Hj Hcj). rewrite (strp_plain _ _ Hj).
              rewrite (strp_caret_other _ _ _ Hi Hj Hcj). rewrite (strp_plain _ _ Hj). rewrite IH by lia. reflexivity.
    + rewrite (strp_plain _ _ Hi). rewrite (strp_plain _ _ Hi). rewrite IH by lia. reflexivity.
Qed.

Theorem strip_idempotent s : strip (strip s) = strip s.
Proof. rewrite !strip_is_strp. apply (strp_idem_len (length s)). lia. Qed.

(* escaped carets survive stripping: a string made of "^^" tokens and plain characters is unchanged *)
Theorem strip_keeps_escaped_carets s :
  (forall d, ~ In (TColour d) (tokens s)) -> strip s = s.
Proof.
  intros H. destruct (strip_spec s) as [H1 H2]. rewrite H1. rewrite H2 at 2.
  f_equal. apply map_ext_in. intros tk Hin. destruct tk as [|d|c]; try reflexivity.
  exfalso. exact (H d Hin).
Qed.
