Require Import Base.Bytes Net.Frame Net.FrameProofs Net.Framed Net.FramedProofs Net.Async Net.NoHoldBack Net.Concrete Gen.NetConsts.
Require Import Props.C05.
Local Open Scope N_scope.
Check c05_session_independent_of_segmentation :
  forall (packet : Type) (parse : bytes -> res packet) (ver_of : packet -> option N)
         (is_keepalive : packet -> bool) (version : N) (m : mode) (verify : bool) (pong : bytes),
  (forall b, parse b <> Panic) ->
  forall fuel fs tr buf,
    Forall (wf_frame m) fs -> Forall ev_ok tr -> buf ++ data_of tr = concat fs ->
    (length fs + length tr < fuel)%nat ->
    filter (keep packet) (session packet parse ver_of is_keepalive version m verify pong fuel buf (tr ++ [Eof]))
      = concat (map (expected_frame packet parse ver_of is_keepalive version verify pong) fs) ++ [Ret RDisconnected]
    /\ filter (is_transient packet) (session packet parse ver_of is_keepalive version m verify pong fuel buf (tr ++ [Eof]))
      = concat (map (transient_of packet) tr).
Check c05_stream_ending_inside_a_frame :
  forall (packet : Type) (parse : bytes -> res packet) (ver_of : packet -> option N)
         (is_keepalive : packet -> bool) (version : N) (m : mode) (verify : bool) (pong : bytes),
  (forall b, parse b <> Panic) ->
  forall g k, wf_frame m g -> (k < length g)%nat ->
  forall fuel fs tr buf,
    Forall (wf_frame m) fs -> Forall ev_ok tr -> buf ++ data_of tr = concat fs ++ firstn k g ->
    (length fs + length tr < fuel)%nat ->
    filter (keep packet) (session packet parse ver_of is_keepalive version m verify pong fuel buf (tr ++ [Eof]))
      = concat (map (expected_frame packet parse ver_of is_keepalive version verify pong) fs) ++ [Ret RDisconnected]
    /\ filter (is_transient packet) (session packet parse ver_of is_keepalive version m verify pong fuel buf (tr ++ [Eof]))
      = concat (map (transient_of packet) tr).
Check c05_complete_frame_decodes :
  forall (packet : Type) (parse : bytes -> res packet) m f rest, wf_frame m f ->
  decode packet parse m (f ++ rest) =
  match parse (tl f) with Ok p => Got p rest | Err => Bad rest | Panic => DPanic end.
Check c05_strict_prefix_needs_more :
  forall (packet : Type) (parse : bytes -> res packet) m f k, wf_frame m f -> (k < length f)%nat ->
  decode packet parse m (firstn k f) = NeedMore.
Check c05_constants_tied : consts_tied = true.
Check c05_model_state_is_the_struct : state_tied = true.
Check c05_buffered_frame_is_served_without_more_input :
  forall (packet : Type) (parse : bytes -> res packet) (ver_of : packet -> option N)
         (is_keepalive : packet -> bool) (version : N) (m : mode) (verify : bool) (pong : bytes),
  (forall b, parse b <> Panic) ->
  forall f rest tr, wf_frame m f ->
    read packet parse ver_of is_keepalive version m verify pong (f ++ rest) tr
      = (expected_frame packet parse ver_of is_keepalive version verify pong f, rest, tr).
Check c05_buffered_frame_is_served_without_more_input_async :
  forall (packet : Type) (parse : bytes -> res packet) (ver_of : packet -> option N)
         (is_keepalive : packet -> bool) (version : N) (m : mode) (verify : bool) (pong : bytes),
  (forall b, parse b <> Panic) ->
  forall f rest (s : fstate packet) rs ws, wf_frame m f ->
    fbuf s = f ++ rest -> pend_w s = [] -> pend_p s = None ->
    let '(o, s', rs', ws', w) := poll_from packet parse ver_of is_keepalive version m verify pong Top s rs ws in
    rs' = rs /\ o <> PPending InRead.
Print Assumptions c05_session_independent_of_segmentation.
Print Assumptions c05_stream_ending_inside_a_frame.
Print Assumptions c05_complete_frame_decodes.
Print Assumptions c05_strict_prefix_needs_more.
Print Assumptions c05_constants_tied.
Print Assumptions c05_model_state_is_the_struct.
Print Assumptions c05_buffered_frame_is_served_without_more_input.
Print Assumptions c05_buffered_frame_is_served_without_more_input_async.
