Require Import Base.Bytes Net.Frame Net.FrameProofs Net.Framed Net.FramedProofs Props.C06.
Check c06_delivered_is_prefix : forall ws buf d r ws',
  write_all ws buf = (d, r, ws') -> exists rest, buf = d ++ rest /\ (r = WOk -> rest = []).
Check c06_success_means_whole_frame : forall ws buf d ws', write_all ws buf = (d, WOk, ws') -> d = buf.
Check c06_completes_under_fair_transport : forall ws buf,
  forallb no_fail ws = true -> (length buf <= length (filter accepts ws))%nat ->
  exists ws', write_all ws buf = (buf, WOk, ws').
Check c06_sequence_contiguous_in_order : forall frames ws d, write_seq ws frames = (d, true) -> d = concat frames.
Check c06_written_unit_is_one_frame : forall packet unparse m (p : packet) fr,
  encode packet unparse m p = Ok fr -> wf_frame m fr /\ (Nat.modulo (length fr) (mul m) = 0)%nat.
Print Assumptions c06_delivered_is_prefix.
Print Assumptions c06_success_means_whole_frame.
Print Assumptions c06_completes_under_fair_transport.
Print Assumptions c06_sequence_contiguous_in_order.
Print Assumptions c06_written_unit_is_one_frame.
