Require Import ExtrOcamlBasic.
Require Import Base.Bytes Net.Frame Net.Framed Net.Adaptor Net.Async Net.Concrete.
Extraction Language OCaml.
Definition x_decode m tab buf := decode tpacket (tparse tab) m buf.
Extraction "model.ml" run_session write_all reply_then_return x_decode pong_frame encode_length decode_length announced run_adaptor run_adaptor_session awrite run_async run_conv run_aconv.
