//! C14 (track table) and C15 (time / race-length conversions) on the real code.
use std::{collections::HashMap, io::Cursor, time::Duration};

use insim::insim::{Isi, Obh, RaceLaps, Small, SmallType};
use insim_core::{binrw::{BinRead, BinWrite}, track::Track};

use crate::{common::*, wire::*};

fn tread(b: [u8; 6]) -> Option<Option<Track>> { guard(|| Track::read_le(&mut Cursor::new(b)).ok()) }
fn twrite(t: &Track) -> Option<Vec<u8>> { guard(|| { let mut c = Cursor::new(Vec::new()); t.write_le(&mut c).ok().map(|_| c.into_inner()) }).flatten() }
fn lic_num(t: &Track) -> u8 { match format!("{}", t.license()).as_str() { "Demo" => 0, "S1" => 1, "S2" => 2, _ => 3 } }

pub fn run_c14(a: &Args) {
    let mut areas: HashMap<String, u8> = HashMap::new();
    let check = |b: [u8; 6], st: &mut Stats, areas: &mut HashMap<String, u8>| -> String {
        match tread(b) {
            None => { st.fail("[C14] Track decoding panics".into(), hex(&b)); "P".into() },
            Some(None) => "E".into(),
            Some(Some(t)) => {
                let code = t.code();
                let mut want = code.as_bytes().to_vec(); want.resize(6, 0);
                if want != b { st.fail(format!("[C14] {} decodes to {code}, whose NUL-padded code is {}", hex(&b), hex(&want)), hex(&b)); }
                match twrite(&t) { Some(w) if w == b => {}, w => st.fail(format!("[C14] {code} re-encodes to {:?}", w.map(|x| hex(&x))), hex(&b)) }
                let last = code.chars().last().unwrap_or(' ');
                if t.is_reverse() != (last == 'R' || last == 'Y') { st.fail(format!("[C14] {code} is_reverse = {}", t.is_reverse()), hex(&b)); }
                if t.is_open() != (last == 'X' || last == 'Y') { st.fail(format!("[C14] {code} is_open = {}", t.is_open()), hex(&b)); }
                if t.is_open() && t.distance_mile().is_some() { st.fail(format!("[C14] open configuration {code} has a lap distance"), hex(&b)); }
                // the same through the other accessor: both agree on whether there is a distance, and on the distance itself
                match (t.distance_mile(), t.distance_km()) {
                    (None, None) => {},
                    (Some(mi), Some(km)) => { if t.is_open() { st.fail(format!("[C14] open configuration {code} has a lap distance in km"), hex(&b)); } if (km - mi * 1.609_344).abs() > 0.02 { st.fail(format!("[C14] {code}: {mi} miles but {km} km"), hex(&b)); } },
                    (mi, km) => st.fail(format!("[C14] {code}: distance_mile() = {:?} but distance_km() = {:?}", mi, km), hex(&b)),
                }
                if format!("{}", t) != code { st.fail(format!("[C14] {code} prints as {}", t), hex(&b)); }
                let l = lic_num(&t);
                let area = code.chars().take(2).collect::<String>();
                if let Some(prev) = areas.insert(area.clone(), l) { if prev != l { st.fail(format!("[C14] area {area} requires two different licences ({prev} and {l})"), hex(&b)); } }
                let flags = t.is_reverse() as u32 + 2 * t.is_open() as u32 + 4 * t.distance_mile().is_some() as u32 + 8 * l as u32;
                format!("T {} {}", hex(code.as_bytes()), flags)
            },
        }
    };
    if let Some(r) = &a.replay { if let Some(rest) = r.strip_prefix("tframe ") {
        let t: Vec<&str> = rest.split_whitespace().collect(); let compressed = t[0] == "C"; let o: usize = t[1].parse().unwrap(); let g = unhex(t[2]);
        let b = &g[o..o + 6]; let valid = crate::gen::tracks::TRACK_CODES.iter().any(|k| { let mut w = k.as_bytes().to_vec(); w.resize(6, 0); w == b });
        let ok = match decode_buf(compressed, &g) { Dec::Got(p, _) => { let same = matches!(encode_p(compressed, &p), Enc::Ok(e) if e == g); println!("track bytes {} (valid wire form: {valid}): the packet decodes and re-encodes {}", hex(b), if same { "identically" } else { "differently" }); valid && same }, Dec::Bad(_) => { println!("track bytes {} (valid wire form: {valid}): decode error", hex(b)); !valid }, d => { println!("{}", cls_string(&d)); false } };
        if ok { println!("PASS"); std::process::exit(0) } else { println!("FAIL [C14] a packet's track field does not follow the table"); std::process::exit(1) } } }
    if let Some(r) = &a.replay { let b = unhex(r); let mut st = Stats::default(); let o = check([b[0], b[1], b[2], b[3], b[4], b[5]], &mut st, &mut areas); if st.failures_total > 0 { println!("FAIL {}", st.failures[0].1); std::process::exit(1) } else { println!("PASS {o}"); return } }
    let mut rng = Rng::new(a.seed);
    let mut st = Stats::default(); let mut out = Out::new(&a.out);
    let mut ok = 0u64; let mut decodable: Vec<[u8; 6]> = vec![];
    // every string of the shape letter letter digit [digit] [letter], NUL-padded (exhaustive)
    for l1 in b'A'..=b'Z' { for l2 in b'A'..=b'Z' { for d1 in b'0'..=b'9' { for d2 in 0..=10u8 { for l3 in 0..=26u8 {
        let mut v = vec![l1, l2, d1]; if d2 > 0 { v.push(b'0' + d2 - 1); } if l3 > 0 { v.push(b'A' + l3 - 1); } v.resize(6, 0);
        let b = [v[0], v[1], v[2], v[3], v[4], v[5]];
        let o = check(b, &mut st, &mut areas); st.evaluations += 1;
        if o != "E" { ok += 1; decodable.push(b); out.case(&format!("tread {}", hex(&b)), &o); } else if (l3 + d2 + d1) % 37 == 0 { out.case(&format!("tread {}", hex(&b)), &o); }
    } } } } }
    st.exhaustive.push("all 2 007 720 strings letter letter digit [digit] [letter], NUL-padded".into());
    // neighbours of valid codes: lowercase, dirty padding, shifted
    let valid: Vec<[u8; 6]> = crate::layout::TRACKS.iter().map(|c| { let mut v = c.as_bytes().to_vec(); v.resize(6, 0); [v[0], v[1], v[2], v[3], v[4], v[5]] }).collect();
    let mut valid = valid; for d in &decodable { if !valid.contains(d) { valid.push(*d); } }
    for v in &valid { for i in 0..6 { for x in 0..=255u8 { let mut b = *v; b[i] = x; let o = check(b, &mut st, &mut areas); st.evaluations += 1; out.case(&format!("tread {}", hex(&b)), &o); } } }
    for _ in 0..(if a.thorough() { 10_000_000 } else { 200_000 }) { let r = rng.bytes(6); let b = [r[0], r[1], r[2], r[3], r[4], r[5]]; let o = check(b, &mut st, &mut areas); st.evaluations += 1; if o != "E" { out.case(&format!("tread {}", hex(&b)), &o); } }
    // every short code the library prints (Track::code(), regenerated list) is a wire form: NUL-padded it decodes to the configuration
    // that prints that code (check() also requires the re-encoding to be identical)
    for c in crate::gen::tracks::TRACK_CODES.iter() {
        let mut v = c.as_bytes().to_vec(); v.resize(6, 0); let b = [v[0], v[1], v[2], v[3], v[4], v[5]];
        st.evaluations += 1;
        match tread(b) { Some(Some(t)) => if t.code() != *c { st.fail(format!("[C14] the wire form of {c} decodes to {}", t.code()), hex(&b)); }, Some(None) => st.fail(format!("[C14] the wire form of configuration {c} (its short code NUL-padded) does not decode"), hex(&b)), None => st.fail("[C14] Track decoding panics".into(), hex(&b)) }
    }
    // ... and however the WRITER takes them (1, 4 or 5 bytes per write() call): all six bytes, or an error - never a shortened field with Ok
    for c in crate::gen::tracks::TRACK_CODES.iter() { for k in [1usize, 4, 5] {
        let mut v = c.as_bytes().to_vec(); v.resize(6, 0); st.evaluations += 1;
        let Some(Some(t)) = tread([v[0], v[1], v[2], v[3], v[4], v[5]]) else { continue };
        let r = guard(|| { let mut w = DribbleW { inner: Cursor::new(Vec::new()), k }; t.write_le(&mut w).ok().map(|_| w.inner.into_inner()) });
        match r { Some(Some(b)) if b == v => {}, Some(None) => {}, other => st.fail(format!("[C14] {c} written to a writer that takes {k} byte(s) per call: Ok with the bytes {:?} instead of {}", other.map(|x| x.map(|y| hex(&y))), hex(&v)), format!("dribblew {k} {c}")) }
    } }
    // a configuration is its 6 bytes however the reader hands them over (1, 3 or 4 bytes per read() call)
    for c in crate::gen::tracks::TRACK_CODES.iter() { for k in [1usize, 3, 4] {
        let mut v = c.as_bytes().to_vec(); v.resize(6, 0); st.evaluations += 1;
        let whole = tread([v[0], v[1], v[2], v[3], v[4], v[5]]).flatten().map(|t| t.code().to_string());
        let part = guard(|| Track::read_le(&mut Dribble { inner: Cursor::new(v.clone()), k }).ok()).flatten().map(|t| t.code().to_string());
        if whole != part { st.fail(format!("[C14] the wire form of {c} read {k} byte(s) at a time decodes to {:?}, in one piece to {:?}", part, whole), format!("dribble {k} {c}")); }
    } }
    // distinct configurations are distinct VALUES: equality tells all of them apart (a host list or statistics keyed by track)
    {
        let all: Vec<(String, Track)> = crate::gen::tracks::TRACK_CODES.iter().filter_map(|c| { let mut v = c.as_bytes().to_vec(); v.resize(6, 0); tread([v[0], v[1], v[2], v[3], v[4], v[5]]).flatten().map(|t| (c.to_string(), t)) }).collect();
        st.evaluations += (all.len() * all.len()) as u64;
        'eq: for (i, (ci, ti)) in all.iter().enumerate() { for (j, (cj, tj)) in all.iter().enumerate() { if (i == j) != (ti == tj) { st.fail(format!("[C14] configurations {ci} and {cj} compare {}", if ti == tj { "equal" } else { "unequal" }), format!("treq {ci} {cj}")); break 'eq; } } }
    }
    // the same table where the track travels: every Track[6] field of every packet kind (IS_STA, IS_RST, the relay host list
    // elements): a field holding the NUL-padded short code of a configuration decodes and re-encodes identically; every other
    // value - zeros, lower case, a known code with bytes after its NUL, a near miss - makes the packet a decode error
    {
        use crate::{gen::layouts::KINDS, layout::{gen_frame, width, fixed_width, Atom, Tail, Custom}};
        let codes = crate::gen::tracks::TRACK_CODES;
        let pad6 = |c: &str| -> [u8; 6] { let mut v = c.as_bytes().to_vec(); v.resize(6, 0); [v[0], v[1], v[2], v[3], v[4], v[5]] };
        let is_code = |b: &[u8; 6]| codes.iter().any(|k| pad6(k) == *b);
        let mut samples: Vec<([u8; 6], bool)> = vec![([0; 6], false)];
        for (i, c) in codes.iter().enumerate() {
            let b = pad6(c); samples.push((b, true));
            if i % 7 == 0 {
                let mut l = b; l[0] = l[0].to_ascii_lowercase(); samples.push((l, is_code(&l)));
                let mut g = b; g[5] = b'X'; samples.push((g, is_code(&g)));
                let mut n = b; n[2] = b'9'; samples.push((n, is_code(&n)));
            }
        }
        let mut nslots = 0u64;
        for compressed in [true, false] { for k in KINDS.iter() {
            let Some(f) = crate::wire::stable_frame(&mut rng, k, compressed, Some(2)) else { continue };
            let mut slots: Vec<(usize, String)> = vec![]; let mut off = 2;
            for (name, at) in k.fixed { if matches!(at, Atom::Custom(Custom::Track, _)) { slots.push((off, name.to_string())); } off += width(at); }
            if let Tail::Vec { elt, .. } = k.tail { let ew = fixed_width(elt); let mut eo = 0; for (name, at) in elt { if matches!(at, Atom::Custom(Custom::Track, _)) { for e in 0..2 { slots.push((2 + fixed_width(k.fixed) + e * ew + eo, format!("[{e}].{name}"))); } } eo += width(at); } }
            if slots.is_empty() { continue; }
            // the track field means the same whatever the packet's OTHER fields hold: the base frame, and the base frame with each defined bit
            // of each of its flag fields set on its own
            let mut bases: Vec<Vec<u8>> = vec![f.clone()]; { let mut fo = 2; for (_, at) in k.fixed { if let Atom::Flags { w, mask } = at { for bit in 0..(8 * *w) { if (mask >> bit) & 1 == 1 { let mut g = f.clone(); let v: u64 = 1 << bit; for i in 0..*w { if fo + i < g.len() { g[fo + i] = (v >> (8 * i)) as u8; } } bases.push(g); } } } fo += width(at); } }
            for (o, name) in slots { if o + 6 > f.len() { continue; } nslots += 1;
                for (bi, f) in bases.iter().enumerate() { for (b, valid) in samples.iter() {
                    if bi > 0 && *valid && b[0] != 0 && st.evaluations % 5 != 0 { continue; }   // the full set of valid codes on the base frame only
                    let mut g = f.clone(); g[o..o + 6].copy_from_slice(b); st.evaluations += 1;
                    let id = format!("tframe {} {o} {}", if compressed { "C" } else { "U" }, hex(&g));
                    match decode_buf(compressed, &g) {
                        Dec::Got(p, _) => { if !*valid { st.fail(format!("[C14] {}.{name}: the 6 bytes {} are not the wire form of any configuration but the packet decodes: {}", k.name, hex(b), format!("{:?}", p).chars().take(110).collect::<String>()), id.clone()); }
                            match encode_p(compressed, &p) { Enc::Ok(e) if e == g => {}, _ => st.fail(format!("[C14] {}.{name}: track {} does not re-encode to the identical bytes", k.name, hex(b)), id.clone()) } },
                        Dec::Bad(_) => if *valid { st.fail(format!("[C14] {}.{name}: the wire form {} of a configuration makes the packet undecodable", k.name, hex(b)), id.clone()); },
                        d => st.fail(format!("[C14] {}.{name}: decoder outcome {}", k.name, cls_string(&d)), id.clone()),
                    }
                } }
            }
        } }
        st.notes.push(format!("track fields inside packets: {nslots} (kinds x fields x modes), {} values each", samples.len()));
    }
    st.add("decodable", ok);
    if ok != 154 { st.fail(format!("[C14] {ok} shaped strings decode, the table has 154 configurations"), "-".into()); }
    st.distinct_nontrivial = ok + 6 * 256 * valid.len() as u64;
    st.rule = "real Track BinRead/BinWrite/code/is_reverse/is_open/distance/license on every string of the shape letter letter digit[digit][letter] (exhaustive), every single-byte variation (6 positions x 256 values) of every decodable code, random 6-byte values; non-trivial = decodable or a one-byte neighbour of a valid code".into();
    st.sample("tread 424c31520000 -> T 424c3152 (BL1R) flags reverse".into());
    out.finish(&st);
}

pub fn run_c15(a: &Args) {
    let mut rng = Rng::new(a.seed);
    let mut st = Stats::default(); let mut out = Out::new(&a.out);
    if let Some(r) = &a.replay {
        let t: Vec<&str> = r.split_whitespace().collect();
        let ok = match t[0] {
            "rlenc" => { let n: usize = t[2].parse().unwrap(); let v = if t[1] == "1" { RaceLaps::Laps(n) } else { RaceLaps::Hours(n) }; let b: u8 = v.into(); let back = RaceLaps::from(b); let good = b == 0 || match (t[1], back) { ("1", RaceLaps::Laps(m)) => m == n || (n >= 100 && n <= 1000 && m == n - n % 10), ("2", RaceLaps::Hours(m)) => m == n, _ => false }; println!("{:?} -> {b} -> {:?}", v, back); good },
            "dur" => { let ki: usize = t[1].parse().unwrap(); let idx: usize = t[2].parse().unwrap(); let msw: u128 = t[3].parse().unwrap(); let ns: u32 = t.get(4).and_then(|x| x.parse().ok()).unwrap_or(0); let ms: u64 = msw.min(u64::MAX as u128) as u64;
                let d0 = crate::gen::kinds::default_packets().into_iter().find(|d| format!("{:?}", d).starts_with(crate::gen::layouts::KINDS.get(ki).map(|k| k.name).unwrap_or("?"))).expect("kind");
                let mut p = d0.clone(); let (off, w, scale, fname) = crate::gen::glue::set_dur(&mut p, idx, Duration::new((msw / 1000).min(u64::MAX as u128) as u64, (msw % 1000) as u32 * 1_000_000 + ns)).expect("field");
                let fits = msw / (scale as u128) < (1u128 << (8 * w));
                match encode_p(true, &p) { Enc::Ok(b) => { let wv = (0..w).fold(0u64, |a, i| a | (b[off + i] as u64) << (8 * i)); println!(".{fname} = {msw} ms + {ns} ns encodes as {wv} x {scale} ms (fits: {fits})"); fits && wv as u128 == msw / scale as u128 }, Enc::Err => { println!(".{fname} = {msw} ms + {ns} ns is refused (fits: {fits})"); !fits }, Enc::Panic => { println!("panic"); false } } },
            "smallns" => { let subt: u8 = t[1].parse().unwrap(); let ms: u64 = t[2].parse().unwrap(); let ns: u32 = t[3].parse().unwrap();
                let d = Duration::new(ms / 1000, (ms % 1000) as u32 * 1_000_000 + ns);
                let st_ = match subt { 1 => SmallType::Ssp(d), 2 => SmallType::Ssg(d), 5 => SmallType::Stp(d), 6 => SmallType::Rtp(d), _ => SmallType::Nli(d) };
                let scale: u64 = if subt == 7 { 1 } else { 10 }; let fits = ms / scale <= u32::MAX as u64;
                match encode_p(true, &insim::Packet::Small(Small { subt: st_, ..Default::default() })) { Enc::Ok(b) => { let w = u32::from_le_bytes([b[4], b[5], b[6], b[7]]) as u64; println!("{ms} ms + {ns} ns encodes as {w} x {scale} ms"); fits && w == ms / scale }, Enc::Err => !fits, Enc::Panic => false } },
            "frame" => { let res = roundtrip("C15", t[1] == "C", &unhex(t[2]), None, &mut st); println!("{res}"); st.failures_total == 0 && res == format!("ok:{}", t[2]) },
            "isi" | "obh" | "lap" | "csc" => {
                let ms: u64 = t[1].parse().unwrap(); let d = Duration::from_millis(ms);
                let (p, scale, w, off): (insim::Packet, u64, usize, usize) = match t[0] {
                    "isi" => (insim::Packet::Isi(Isi { interval: d, ..Default::default() }), 1, 2, 10),
                    "obh" => (insim::Packet::Obh(Obh { time: d, ..Default::default() }), 10, 2, 6),
                    "lap" => (insim::Packet::Lap(insim::insim::Lap { ltime: d, ..Default::default() }), 1, 4, 4),
                    _ => (insim::Packet::Csc(insim::insim::Csc { time: d, ..Default::default() }), 10, 4, 8),
                };
                let fits = ms / scale < (1u64 << (8 * w));
                match encode_p(true, &p) {
                    Enc::Ok(b) => { let v = (0..w).fold(0u64, |a, i| a | (b[off + i] as u64) << (8 * i)); println!("{ms} ms encodes as {v} x {scale} ms"); fits && v == ms / scale },
                    Enc::Err => { println!("{ms} ms is refused"); !fits },
                    Enc::Panic => { println!("{ms} ms panics"); false },
                }
            },
            _ => false,
        };
        if ok { println!("PASS"); return } else { println!("FAIL"); std::process::exit(1) }
    }
    // 1. all 256 race-length bytes through RaceLaps (inside a real Rst-free conversion) and re-encoding
    for b in 0..=255u8 {
        st.evaluations += 1; st.distinct_nontrivial += 1;
        let v = RaceLaps::from(b); let back: u8 = v.into();
        let (tag, n) = match v { RaceLaps::Practice => (0, 0), RaceLaps::Laps(n) => (1, n), RaceLaps::Hours(n) => (2, n), _ => (9, 0) };
        if (b <= 238 && back != b) || (b > 238 && back != 0) { st.fail(format!("[C15] race-length byte {b} decodes to {:?} which re-encodes to {back}", v), format!("rldec {b}")); }
        out.case(&format!("rldec {b}"), &format!("{tag} {n}"));
    }
    st.exhaustive.push("all 256 race-length bytes".into());
    // encode side: every lap / hour count up to and beyond the range
    for tag in [1u8, 2] { for n in (0..1300usize).chain([4096, 65535, 65536, 1 << 20, usize::MAX / 2]) {
        st.evaluations += 1; st.distinct_nontrivial += 1;
        let v = if tag == 1 { RaceLaps::Laps(n) } else { RaceLaps::Hours(n) };
        let b = match guard(|| { let b: u8 = v.into(); b }) { Some(b) => b, None => { st.fail(format!("[C15] encoding {:?} panics", v), format!("rlenc {tag} {n}")); continue } };
        let back = RaceLaps::from(b);
        let good = b == 0 || match (tag, back) { (1, RaceLaps::Laps(m)) => m == n || (n >= 100 && n <= 1000 && m == n - n % 10), (2, RaceLaps::Hours(m)) => m == n, _ => false };
        if !good { st.fail(format!("[C15] {:?} encodes to {b}, which is {:?}", v, back), format!("rlenc {tag} {n}")); }
        if n < (1 << 40) { out.case(&format!("rlenc {tag} {n}"), &format!("{b}")); }
    } }
    // 2. all 65 536 values of 16-bit time fields through real packets (Obh: 1/100 s; Isi: 1 ms), both directions
    for compressed in [true] { for v in 0..=65535u32 {
        st.evaluations += 1;
        let mut f = vec![6u8, 51, 0, 1, 0, 0, (v & 255) as u8, (v >> 8) as u8]; f.resize(24, 0);
        let res = roundtrip("C15", compressed, &f, None, &mut st);
        if res != format!("ok:{}", hex(&f)) { st.fail(format!("[C15] Obh with time word {v} re-encodes as {res}"), format!("frame C {}", hex(&f))); }
        if let Dec::Got(insim::Packet::Obh(o), _) = decode_buf(compressed, &f) { if o.time != Duration::from_millis(v as u64 * 10) { st.fail(format!("[C15] Obh time word {v} decodes to {:?}", o.time), format!("frame C {}", hex(&f))); } } else { st.fail("[C15] Obh frame does not decode".into(), format!("frame C {}", hex(&f))); }
        if v % 16 == 0 { out.case(&format!("rt C {}", hex(&f)), &res); }
        // encode side: a duration of v ms + remainder floors to the resolution
        let extra = rng.below(10);
        let o = Obh { time: Duration::from_millis(v as u64 * 10 + extra), ..Default::default() };
        match encode_p(compressed, &insim::Packet::Obh(o)) { Enc::Ok(b) => { let w = b[6] as u32 | (b[7] as u32) << 8; if w != v { st.fail(format!("[C15] Obh time {} ms encodes as {w}, floor is {v}", v as u64 * 10 + extra), format!("obh {}", v as u64 * 10 + extra)); } }, _ => st.fail(format!("[C15] Obh time {} ms is refused", v * 10), format!("obh {v}")) }
        let i = Isi { interval: Duration::from_millis(v as u64), ..Default::default() };
        match encode_p(compressed, &insim::Packet::Isi(i)) { Enc::Ok(b) => { let w = b[10] as u32 | (b[11] as u32) << 8; if w != v { st.fail(format!("[C15] Isi interval {v} ms encodes as {w}"), format!("isi {v}")); } }, _ => st.fail(format!("[C15] Isi interval {v} ms is refused"), format!("isi {v}")) }
    } }
    st.exhaustive.push("all 65536 values of a 16-bit 10 ms field (Obh.time) and a 16-bit 1 ms field (Isi.interval)".into());
    st.distinct_nontrivial += 65536;
    // beyond the range: must be refused, never wrapped
    for ms in [65536u64, 65537, 655360, 655359, 655361, 1 << 32, u64::MAX / 4] {
        st.evaluations += 2;
        let o = Obh { time: Duration::from_millis(ms), ..Default::default() };
        let fits = ms / 10 <= 65535;
        match encode_p(true, &insim::Packet::Obh(o)) { Enc::Ok(b) => { let w = b[6] as u64 | (b[7] as u64) << 8; if !fits || w != ms / 10 { st.fail(format!("[C15] Obh time {ms} ms is out of range but was encoded as {w}"), format!("obh {ms}")); } }, Enc::Err => if fits { st.fail(format!("[C15] Obh time {ms} ms refused"), format!("obh {ms}")); }, Enc::Panic => st.fail(format!("[C15] Obh time {ms} ms panics"), format!("obh {ms}")) }
        let i = Isi { interval: Duration::from_millis(ms), ..Default::default() };
        match encode_p(true, &insim::Packet::Isi(i)) { Enc::Ok(_) => st.fail(format!("[C15] Isi interval {ms} ms is out of range but was encoded"), format!("isi {ms}")), Enc::Err => {}, Enc::Panic => st.fail(format!("[C15] Isi interval {ms} ms panics"), format!("isi {ms}")) }
    }
    // 32-bit fields beyond their range (u32 x 1 ms: Lap.ltime; u32 x 10 ms: Csc.time): refused, never wrapped modulo 2^32
    let p32: u64 = 1 << 32;
    for ms in [p32 - 1, p32, p32 + 83_456, 2 * p32 + 5, 10 * p32 - 10, 10 * p32 - 1, 10 * p32, 10 * p32 + 50, 11 * p32, 1u64 << 40, (1u64 << 42) + 12_340, u64::MAX / 4] {
        for (name, scale, off) in [("lap", 1u64, 4usize), ("csc", 10u64, 8usize)] {
            st.evaluations += 1;
            let d = Duration::from_millis(ms);
            let p = if name == "lap" { insim::Packet::Lap(insim::insim::Lap { ltime: d, ..Default::default() }) } else { insim::Packet::Csc(insim::insim::Csc { time: d, ..Default::default() }) };
            let fits = ms / scale < p32;
            match encode_p(true, &p) {
                Enc::Ok(b) => { let w = u32::from_le_bytes([b[off], b[off + 1], b[off + 2], b[off + 3]]) as u64; if !fits { st.fail(format!("[C15] {name} time {ms} ms is out of range but was encoded as {w} x {scale} ms"), format!("{name} {ms}")); } else if w != ms / scale { st.fail(format!("[C15] {name} time {ms} ms encodes as {w}, floor is {}", ms / scale), format!("{name} {ms}")); } },
                Enc::Err => if fits { st.fail(format!("[C15] {name} time {ms} ms refused although it fits"), format!("{name} {ms}")); },
                Enc::Panic => st.fail(format!("[C15] {name} time {ms} ms panics"), format!("{name} {ms}")),
            }
        }
    }
    // 3. boundary-biased 32-bit time fields: Small (hand-written, both scales), Lap (u32 x 1), Csc (u32 x 10)
    let n32 = if a.thorough() { 2_000_000 } else { 40_000 };
    for i in 0..n32 {
        let v: u32 = match i % 8 { 0 => i as u32, 1 => u32::MAX - i as u32, 2 => 429_496_729u32.wrapping_add(i as u32 % 64).wrapping_sub(32), 3 => (1u32 << 31).wrapping_add(i as u32 % 64).wrapping_sub(32), _ => rng.next() as u32 };
        for subt in [1u8, 2, 5, 6, 7] {
            st.evaluations += 1;
            let mut f = vec![2u8, 4, 0, subt]; f.extend(v.to_le_bytes());
            let res = roundtrip("C15", true, &f, None, &mut st);
            if res != format!("ok:{}", hex(&f)) { st.fail(format!("[C15] Small sub-type {subt} wire value {v} re-encodes as {res}"), format!("frame C {}", hex(&f))); }
            if i % 64 == 0 { out.case(&format!("rt C {}", hex(&f)), &res); }
        }
        st.distinct_nontrivial += 1;
        if i % 4 == 0 {
            let mut lap = vec![5u8, 24, 0, 1]; lap.extend(v.to_le_bytes()); lap.extend((v ^ 0x5555).to_le_bytes()); lap.resize(20, 0); lap[19] = 255;
            let res = roundtrip("C15", true, &lap, None, &mut st); st.evaluations += 1;
            if res != format!("ok:{}", hex(&lap)) { st.fail(format!("[C15] Lap with time {v} re-encodes as {res}"), format!("frame C {}", hex(&lap))); }
            if i % 256 == 0 { out.case(&format!("rt C {}", hex(&lap)), &res); }
        }
    }
    // 4. every time field of every kind (regenerated layouts): a dictionary of wire values - small numbers, whole seconds / minutes /
    //    hours / days in the field's unit, powers of two and ten and their neighbours, the top of the range - substituted into a
    //    canonical frame of the kind: the frame must decode and re-encode to the same bytes (both modes)
    {
        use crate::{gen::layouts::KINDS, layout::{gen_frame, width, fixed_width, Atom, Tail}};
        let mut dict: Vec<u64> = (0..=300u64).collect();
        for k in 1..=7200u64 { dict.push(k * 1000); dict.push(k * 100); }
        for k in 1..=2880u64 { dict.push(k * 60_000); dict.push(k * 6_000); }
        for k in 1..=1200u64 { dict.push(k * 3_600_000); dict.push(k * 360_000); }
        for k in 1..=49u64 { dict.push(k * 86_400_000); dict.push(k * 8_640_000); }
        for e in 0..=32u32 { let p = 1u64 << e; dict.extend([p.wrapping_sub(1), p, p + 1]); }
        for e in 0..=9u32 { let p = 10u64.pow(e); dict.extend([p - 1, p, p + 1, 6 * p, 36 * p]); }
        for d in 0..=64u64 { dict.push(u32::MAX as u64 - d); dict.push(u16::MAX as u64 - d); }
        dict.sort(); dict.dedup();
        let mut fields = 0u64; let mut wide_seen = 0usize;
        for compressed in [true, false] { for k in KINDS.iter() {
            for base_no in 0..4 {
            let Some(f) = crate::wire::stable_frame(&mut rng, k, compressed, Some(1)) else { continue };
            // (offset, width) of every duration atom: fixed part, then the first tail element
            let mut slots: Vec<(usize, usize, String)> = vec![]; let mut off = 2;
            for (name, at) in k.fixed { if let Atom::Dur { w, .. } = at { slots.push((off, *w, name.to_string())); } off += width(at); }
            if let Tail::Vec { elt, .. } = k.tail { let mut eo = 2 + fixed_width(k.fixed); for (name, at) in elt { if let Atom::Dur { w, .. } = at { slots.push((eo, *w, format!("[0].{name}"))); } eo += width(at); } }
            for (o, w, name) in slots {
                if o + w > f.len() { continue; }
                fields += 1;
                // the first base frame takes the whole dictionary; three more frames with other values in the OTHER fields take the small part
                for v in dict.iter().filter(|v| **v < (1u64 << (8 * w)) && (base_no == 0 || **v <= 300 || **v >= (1u64 << (8 * w)) - 66)) {
                    let mut g = f.clone(); g[o..o + w].copy_from_slice(&v.to_le_bytes()[..w]);
                    st.evaluations += 1;
                    let res = roundtrip("C15", compressed, &g, None, &mut st);
                    if res != format!("ok:{}", hex(&g)) { st.fail(format!("[C15] {}.{name}: wire value {v} re-encodes as {res}", k.name), format!("frame {} {}", crate::net::mode_tag(compressed), hex(&g))); }
                }
                // thorough: every 256th value (2^24 of them, offset by the seed) of ONE 32-bit field per run (rotating with the seed), and
                // every 4096th value (2^20) of each of the others.  (A decode + re-encode of a frame through the guarded long-lived codec
                // costs 5-20 us depending on the kind: the full 2^32 range of a single field would take the better part of an hour on 16
                // cores, so the exhaustive part of C15 is the 16-bit fields and the dictionary.)
                if a.thorough() && w == 4 && compressed && base_no == 0 {
                    let full = (wide_seen as u64) == a.seed % 16; wide_seen += 1;
                    let (step, start): (u64, u64) = if full { (256, a.seed % 256) } else { (4096, a.seed % 4096) };
                    let base = f.clone(); let kname = k.name;
                    let hs: Vec<_> = (0..16u64).map(|t| { let base = base.clone(); std::thread::spawn(move || {
                        let mut bad: Vec<u32> = vec![]; let lo = t << 28; let hi = (t + 1) << 28; let mut g = base.clone();
                        let mut v = lo + start;
                        while v < hi { g[o..o + 4].copy_from_slice(&(v as u32).to_le_bytes());
                            let ok = match decode_buf(true, &g) { Dec::Got(p, _) => matches!(encode_p(true, &p), Enc::Ok(e) if e == g), _ => false };
                            if !ok && bad.len() < 4 { bad.push(v as u32); } v += step; }
                        bad }) }).collect();
                    for h in hs { for v in h.join().unwrap_or_default() { let mut g = base.clone(); g[o..o + 4].copy_from_slice(&v.to_le_bytes()); st.fail(format!("[C15] {kname}.{name}: wire value {v} does not round-trip"), format!("frame C {}", hex(&g))); } }
                    if full { st.evaluations += 1u64 << 24; st.bump("32-bit time field swept at every 256th value (2^24 values)"); st.notes.push(format!("every 256th of the 2^32 wire values of {kname}.{name} (offset {})", a.seed % 256)); }
                    else { st.evaluations += 1u64 << 20; st.bump("32-bit time fields swept at every 4096th value (2^20 values each)"); }
                }
            }
        } }
        }
        st.notes.push(format!("time fields swept with the {}-value dictionary: {} (kinds x fields x modes)", dict.len(), fields));
    }
    // 5. encode side of every top-level time field of every kind (typed setter generated from the source): in-range durations
    //    with a sub-resolution remainder encode as floor(ms / resolution) in exactly the field's bytes; a duration whose
    //    quotient does not fit the field is refused - never wrapped, saturated or reduced
    {
        let defaults = crate::gen::kinds::default_packets();
        let mut nf = 0u64;
        for d0 in defaults.iter() { for idx in 0..crate::gen::glue::dur_fields(d0) {
            let mut probe = d0.clone();
            let Some((off, w, scale, fname)) = crate::gen::glue::set_dur(&mut probe, idx, Duration::ZERO) else { continue };
            nf += 1;
            let top: u128 = 1u128 << (8 * w);
            let mut vals: Vec<u128> = vec![0, 1, 9, 10, 11, 999, 1000, 59_999, 60_000, 3_599_999, 3_600_000, 86_400_000];
            for q in [top - 1, top, top + 1, 2 * top - 1, 2 * top, 2 * top + 77, 10 * top, 10 * top + 5, 256 * top + 3, 65_536 * top + 1234] { for r in [0u128, 1, scale as u128 - 1] { vals.push(q * scale as u128 + r.min(scale as u128 - 1)); vals.push((q * scale as u128).saturating_sub(1 + r)); } }
            for _ in 0..40 { let q = (rng.next() as u128) % top; vals.push(q * scale as u128 + (rng.below(scale) as u128)); let big = top + (rng.next() as u128 % (1u128 << 40)); vals.push(big * scale as u128 + rng.below(scale) as u128); }
            // (milliseconds, extra nanoseconds below one millisecond): the sub-millisecond part must be dropped, never rounded up
            let mut cases: Vec<(u128, u32)> = vals.iter().map(|v| (*v, 0u32)).collect();
            for v in [0u128, 9, 10, 40, 199, 289, 1999, (top - 1) * scale as u128, (top - 1) * scale as u128 + scale as u128 - 1, top * scale as u128 - 1] { for ns in [1u32, 499_999, 500_000, 999_999] { cases.push((v, ns)); } }
            // far beyond the field and beyond 2^64 ms (where 64-bit millisecond arithmetic wraps)
            for secs in [u64::MAX / 1000 + 1, 18_446_744_073_709_552, u64::MAX / 2, u64::MAX] { cases.push(((secs as u128) * 1000 + 384, 0)); }
            for (ms, ns) in cases {
                let d = Duration::new((ms / 1000).min(u64::MAX as u128) as u64, (ms % 1000) as u32 * 1_000_000 + ns);
                let mut p = d0.clone(); let _ = crate::gen::glue::set_dur(&mut p, idx, d);
                st.evaluations += 1;
                let fits = ms / (scale as u128) < top;
                let id = format!("dur {} {idx} {ms} {ns}", crate::gen::layouts::KINDS.iter().position(|k| format!("{:?}", d0).starts_with(k.name)).unwrap_or(999));
                for compressed in [true, false] {
                    match encode_p(compressed, &p) {
                        Enc::Ok(b) => {
                            let wv = (0..w).fold(0u128, |a, i| a | (b[off + i] as u128) << (8 * i));
                            if !fits { st.fail(format!("[C15] {:?}.{fname} = {ms} ms does not fit {w} bytes x {scale} ms but was encoded as {wv}", std::mem::discriminant(d0)), id.clone()); }
                            else if wv != ms / scale as u128 { st.fail(format!("[C15] .{fname} = {ms} ms encodes as {wv}, floor(ms / {scale}) is {}", ms / scale as u128), id.clone()); }
                        },
                        Enc::Err => if fits { st.fail(format!("[C15] .{fname} = {ms} ms fits {w} bytes x {scale} ms but is refused"), id.clone()); },
                        Enc::Panic => st.fail(format!("[C15] .{fname} = {ms} ms makes the encoder panic"), id.clone()),
                    }
                }
            }
        } }
        st.notes.push(format!("time fields exercised on the encode side through generated typed setters: {nf}"));
    }
    // Small (hand-written writer): the sub-millisecond part is dropped, never rounded up; all five time sub-types
    for (ms, ns) in [(40u64, 500_000u32), (40, 499_999), (40, 999_999), (9, 500_000), (19, 999_999), (1999, 999_999), (289, 999_992), (0, 999_999), (4_294_967_295, 999_999), (42_949_672_959, 999_999)] {
        for subt in [1u8, 2, 5, 6, 7] {
            st.evaluations += 1;
            let d = Duration::new(ms / 1000, (ms % 1000) as u32 * 1_000_000 + ns);
            let st_ = match subt { 1 => SmallType::Ssp(d), 2 => SmallType::Ssg(d), 5 => SmallType::Stp(d), 6 => SmallType::Rtp(d), _ => SmallType::Nli(d) };
            let scale: u64 = if subt == 7 { 1 } else { 10 };
            let fits = ms / scale <= u32::MAX as u64;
            let id = format!("smallns {subt} {ms} {ns}");
            match encode_p(true, &insim::Packet::Small(Small { subt: st_, ..Default::default() })) {
                Enc::Ok(b) => { let w = u32::from_le_bytes([b[4], b[5], b[6], b[7]]) as u64; if !fits || w != ms / scale { st.fail(format!("[C15] Small sub-type {subt}: {ms} ms + {ns} ns encodes as {w}, floor({ms} / {scale}) is {}", ms / scale), id); } },
                Enc::Err => if fits { st.fail(format!("[C15] Small sub-type {subt}: {ms} ms + {ns} ns fits but is refused"), id); },
                Enc::Panic => st.fail(format!("[C15] Small sub-type {subt}: {ms} ms + {ns} ns makes the encoder panic"), id),
            }
        }
    }
    // Small encode side beyond the range: refused
    for (ms, subt) in [(42_949_672_950u128, 1u8), (42_949_672_960, 1), (42_949_672_959, 1), (4_294_967_295, 7), (4_294_967_296, 7), (u64::MAX as u128, 2)] {
        st.evaluations += 1;
        let d = Duration::from_millis(ms.min(u64::MAX as u128) as u64);
        let p = Small { subt: if subt == 7 { SmallType::Nli(d) } else if subt == 1 { SmallType::Ssp(d) } else { SmallType::Ssg(d) }, ..Default::default() };
        let scale = if subt == 7 { 1 } else { 10 };
        let fits = ms / scale <= u32::MAX as u128;
        match encode_p(true, &insim::Packet::Small(p)) { Enc::Ok(b) => { let w = u32::from_le_bytes([b[4], b[5], b[6], b[7]]) as u128; if !fits || w != ms / scale { st.fail(format!("[C15] Small sub-type {subt} duration {ms} ms encoded as {w}"), format!("small {subt} {ms}")); } }, Enc::Err => if fits { st.fail(format!("[C15] Small duration {ms} ms refused"), format!("small {subt} {ms}")); }, Enc::Panic => st.fail(format!("[C15] Small duration {ms} ms panics"), format!("small {subt} {ms}")) }
    }
    // a race-length byte means the same whatever the packet's OTHER fields say (race in progress or qualifying, any view, any wind): every
    // enumeration field of the packet at every one of its values, around race-length bytes of each class
    { use crate::{gen::layouts::KINDS, layout::{width, Atom, Custom}};
      for compressed in [true, false] { for k in KINDS.iter() {
        let mut rl: Vec<usize> = vec![]; let mut enums: Vec<(usize, &'static [u8])> = vec![]; let mut off = 2;
        for (_, at) in k.fixed { match at { Atom::Custom(Custom::RaceLaps, _) => rl.push(off), Atom::Enum(vs) => enums.push((off, vs)), _ => {} } off += width(at); }
        if rl.is_empty() { continue; }
        let Some(f) = crate::wire::stable_frame(&mut rng, k, compressed, Some(0)) else { continue };
        for ro in &rl { for (eo, vs) in &enums { for v in vs.iter() { for b in [0u8, 1, 50, 99, 100, 150, 190, 191, 215, 238] {
            let mut g = f.clone(); if *eo >= g.len() || *ro >= g.len() { continue; } g[*eo] = *v; g[*ro] = b; st.evaluations += 1;
            let id = format!("rlctx {} {}", if compressed { "C" } else { "U" }, crate::common::hex(&g));
            match crate::wire::decode_buf(compressed, &g) {
                crate::wire::Dec::Got(p, _) => match encode_p(compressed, &p) { Enc::Ok(e) if e == g => {}, Enc::Ok(e) => st.fail(format!("[C15] {}: race-length byte {b} with the enumeration field at offset {eo} = {v} re-encodes as {}", k.name, e.get(*ro).copied().unwrap_or(0)), id), _ => st.fail(format!("[C15] {}: race-length byte {b} with the enumeration field at offset {eo} = {v}: the decoded packet does not encode", k.name), id) },
                d => st.fail(format!("[C15] {}: race-length byte {b} with the enumeration field at offset {eo} = {v} is not decoded: {}", k.name, crate::wire::cls_string(&d)), id),
            }
        } } } }
      } } }
    // the same rule through the builder: an IS_ISI interval beyond the 16-bit millisecond field is refused when the handshake packet is
    // encoded - never sent as a different interval
    for ms in [0u64, 1, 999, 65_534, 65_535, 65_536, 65_537, 70_000, 131_071, 3_600_000, 4_294_967_296] { for extra_ns in [0u32, 1, 999_999] {
        st.evaluations += 1;
        let d = std::time::Duration::from_millis(ms) + std::time::Duration::from_nanos(extra_ns as u64);
        let id = format!("builderinterval {ms} {extra_ns}");
        match crate::common::guard(|| insim::builder::Builder::new().isi_interval(d).isi()) {
            None => st.fail(format!("[C15] Builder::isi panics for an interval of {d:?}"), id),
            Some(isi) => match encode_p(true, &insim::Packet::Isi(isi)) {
                Enc::Ok(b) => { let w = u16::from_le_bytes([b[10], b[11]]) as u64; if ms > 65_535 || w != ms { st.fail(format!("[C15] an IS_ISI interval of {d:?} set through the builder is sent as {w} ms"), id); } },
                Enc::Err => if ms <= 65_535 { st.fail(format!("[C15] an IS_ISI interval of {d:?} set through the builder is refused"), id); },
                Enc::Panic => st.fail(format!("[C15] an IS_ISI interval of {d:?} set through the builder makes the encoder panic"), id),
            },
        }
    } }
    st.rule = "real conversions: all 256 race-length bytes both ways, lap/hour counts 0..1300 and far beyond, all 65536 values of a 10 ms and a 1 ms 16-bit time field through real packets (decode, re-encode, and encode with a sub-resolution remainder), boundary-biased 32-bit values through Small (hand-written) and Lap, out-of-range durations on the encode side; distinct values counted".into();
    st.sample("rlenc 2 67 -> 0 (practice), rlenc 1 199 -> 109 (190 laps)".into());
    out.finish(&st);
}
