(* Files/FormatsProofs.v — C17: the PTH and SMX parsers are total, reject every strict prefix of
   what they consumed, read only what they consume; parse . write = id on well-formed structures
   (hence parse . write . parse = parse); the number of elements delivered is bounded by the
   input length. Any number of nodes / objects / points / triangles / checkpoints, any payload. *)
Require Import Base.Bytes Files.Parser Gen.FilesTab Wire.Layout Wire.LayoutProofs Files.Formats.
Local Open Scope N_scope.

(* ---------------- goodness by construction ---------------- *)
Lemma good_rec fs : good (p_rec fs).
Proof.
  induction fs as [|[k w] fs IH]; cbn [p_rec]; [apply good_ret|].
  apply good_bind; [apply good_take|]. intros chunk.
  destruct k.
  - apply good_bind; [exact IH|]. intros [vs cs]. apply good_ret.
  - apply good_bind; [exact IH|]. intros [vs cs]. apply good_ret.
  - apply good_bind; [exact IH|]. intros [vs cs]. apply good_ret.
  - destruct (le_dec chunk <? i32_limit); [|apply good_fail].
    apply good_bind; [exact IH|]. intros [vs cs]. apply good_ret.
Qed.
Lemma good_plain fs : good (p_plain fs).
Proof. apply good_bind; [apply good_rec|]. intros [vs cs]. apply good_ret. Qed.
Lemma good_count : good p_count.
Proof. apply good_bind; [apply good_take|]. intros c. destruct (le_dec c <? i32_limit); [apply good_ret|apply good_fail]. Qed.
Lemma good_magic m : good (p_magic m).
Proof. apply good_bind; [apply good_take|]. intros c. destruct (list_eqb c m); [apply good_ret|apply good_fail]. Qed.
Lemma good_object : good p_object.
Proof.
  apply good_bind; [apply good_plain|]. intros hv. apply good_bind; [apply good_count|]. intros np.
  apply good_bind; [apply good_count|]. intros nt. apply good_bind; [apply good_repeat, good_plain|]. intros pts.
  apply good_bind; [apply good_repeat, good_plain|]. intros tris. apply good_ret.
Qed.
Theorem good_pth : good p_pth.
Proof.
  apply good_bind; [apply good_magic|]. intros _. apply good_bind; [apply good_rec|]. intros [hv cs].
  apply good_bind; [apply good_repeat, good_plain|]. intros nodes. apply good_ret.
Qed.
Theorem good_smx : good p_smx.
Proof.
  apply good_bind; [apply good_magic|]. intros _. apply good_bind; [apply good_plain|]. intros hv.
  apply good_bind; [apply good_count|]. intros no. apply good_bind; [apply good_repeat, good_object|]. intros objs.
  apply good_bind; [apply good_count|]. intros nc. apply good_bind; [apply good_repeat, good_plain|]. intros cps.
  apply good_ret.
Qed.

(* ---------------- round trip ---------------- *)
Definition field_ok (k : fkind) (w : nat) (v : list N) : bool :=
  match k with
  | KNum => Nat.eqb (length v) w
  | KPad | KCount => match v with [] => true | _ => false end
  | KText => Nat.leb (length v) w && nonul v
  end.
Fixpoint wf_rec (fs : list (fkind * nat)) (vs : fval) (cs : list nat) : bool :=
  match fs, vs with
  | [], [] => match cs with [] => true | _ => false end
  | (KCount, w) :: fs', v :: vs' =>
      match cs with
      | c :: cs' => field_ok KCount w v && Nat.eqb w 4 && (N.of_nat c <? i32_limit) && wf_rec fs' vs' cs'
      | [] => false
      end
  | (k, w) :: fs', v :: vs' => field_ok k w v && wf_rec fs' vs' cs
  | _, _ => false
  end.

Lemma i32_small c : N.of_nat c <? i32_limit = true -> N.of_nat c < 256 ^ N.of_nat 4.
Proof. intros H. apply N.ltb_lt in H. unfold i32_limit in H. change (256 ^ N.of_nat 4) with 4294967296. lia. Qed.

Lemma rec_roundtrip fs : forall vs cs t, wf_rec fs vs cs = true ->
  p_rec fs (w_rec fs vs cs ++ t) = Ok ((vs, cs), t).
Proof.
  induction fs as [|[k w] fs IH]; intros vs cs t; destruct vs as [|v vs]; cbn [wf_rec]; try discriminate.
  - destruct cs; [|discriminate]. intros _. reflexivity.
  - destruct k; discriminate.
  - destruct k.
    + (* KNum *)
      intros H. apply andb_prop in H as [Hf Hr]. cbn [field_ok] in Hf. apply Nat.eqb_eq in Hf.
      cbn [w_rec p_rec]. unfold p_bind at 1, p_take. rewrite <- app_assoc, take_app by exact Hf.
      unfold p_bind. rewrite (IH _ _ _ Hr). reflexivity.
    + (* KPad *)
      intros H. apply andb_prop in H as [Hf Hr]. cbn [field_ok] in Hf. destruct v; [|discriminate].
      cbn [w_rec p_rec]. unfold p_bind at 1, p_take. rewrite <- app_assoc, take_app by apply repeat_length.
      unfold p_bind. rewrite (IH _ _ _ Hr). reflexivity.
    + (* KText *)
      intros H. apply andb_prop in H as [Hf Hr]. cbn [field_ok] in Hf. apply andb_prop in Hf as [Hl Hz].
      apply Nat.leb_le in Hl.
      cbn [w_rec p_rec]. unfold p_bind at 1, p_take. rewrite <- app_assoc, take_app by apply write_fixed_len.
      unfold p_bind. rewrite (IH _ _ _ Hr). rewrite write_fixed_short by exact Hl.
      rewrite strip_nul_app_zeros by exact Hz. reflexivity.
    + (* KCount *)
      destruct cs as [|c cs]; [discriminate|]. intros H.
      apply andb_prop in H as [H Hr]. apply andb_prop in H as [H Hc]. apply andb_prop in H as [Hf Hw].
      cbn [field_ok] in Hf. destruct v; [|discriminate]. apply Nat.eqb_eq in Hw. subst w.
      cbn [w_rec p_rec]. unfold p_bind at 1, p_take. rewrite <- app_assoc, take_app by apply le_enc_len.
      rewrite le_dec_enc by (apply i32_small; exact Hc). rewrite Hc.
      unfold p_bind. rewrite (IH _ _ _ Hr). rewrite Nat2N.id. reflexivity.
Qed.

Lemma plain_roundtrip fs vs t : wf_rec fs vs [] = true -> p_plain fs (w_rec fs vs [] ++ t) = Ok (vs, t).
Proof. intros H. unfold p_plain, p_bind. rewrite (rec_roundtrip _ _ _ _ H). reflexivity. Qed.

Lemma repeat_roundtrip {A} (p : parser A) (w : A -> list N) (ok : A -> bool) :
  (forall a t, ok a = true -> p (w a ++ t) = Ok (a, t)) ->
  forall l t, forallb ok l = true -> p_repeat (length l) p (concat (map w l) ++ t) = Ok (l, t).
Proof.
  intros Hp. induction l as [|a l IH]; intros t; cbn [forallb length p_repeat map concat]; [reflexivity|].
  intros H. apply andb_prop in H as [Ha Hl]. unfold p_bind at 1. rewrite <- app_assoc, (Hp _ _ Ha).
  unfold p_bind. rewrite (IH _ Hl). reflexivity.
Qed.

Lemma count_roundtrip n t : N.of_nat n <? i32_limit = true -> p_count (w_count n ++ t) = Ok (n, t).
Proof.
  intros H. unfold p_count, w_count, p_bind, p_take. rewrite take_app by apply le_enc_len.
  rewrite le_dec_enc by (apply i32_small; exact H). rewrite H, Nat2N.id. reflexivity.
Qed.

Lemma magic_roundtrip m t : p_magic m (m ++ t) = Ok (tt, t).
Proof. unfold p_magic, p_bind, p_take. rewrite take_app by reflexivity. rewrite list_eqb_refl. reflexivity. Qed.

Definition countable (n : nat) : bool := N.of_nat n <? i32_limit.
Definition wf_pth (f : pth) : bool :=
  wf_rec gen_pth_head (pth_head f) [length (pth_nodes f)] && forallb (fun n => wf_rec gen_pth_node n []) (pth_nodes f).
Definition wf_object (o : object) : bool :=
  wf_rec gen_smx_object_head (o_head o) [] && countable (length (o_points o)) && countable (length (o_tris o))
  && forallb (fun p => wf_rec gen_smx_point p []) (o_points o) && forallb (fun t => wf_rec gen_smx_triangle t []) (o_tris o).
Definition wf_smx (f : smx) : bool :=
  wf_rec gen_smx_head (s_head f) [] && countable (length (s_objects f)) && forallb wf_object (s_objects f)
  && countable (length (s_checkpoints f)) && forallb (fun c => wf_rec gen_smx_checkpoint c []) (s_checkpoints f).

Theorem pth_roundtrip f t : wf_pth f = true -> p_pth (w_pth f ++ t) = Ok (f, t).
Proof.
  unfold wf_pth. intros H. apply andb_prop in H as [Hh Hn]. destruct f as [hv nodes]. cbn [pth_head pth_nodes] in *.
  unfold p_pth, w_pth. cbn [pth_head pth_nodes].
  unfold p_bind at 1. rewrite <- !app_assoc, magic_roundtrip.
  unfold p_bind at 1. rewrite (rec_roundtrip _ _ _ _ Hh). cbn [hd].
  unfold p_bind. rewrite (repeat_roundtrip (p_plain gen_pth_node) (fun n => w_rec gen_pth_node n []) (fun n => wf_rec gen_pth_node n [])); [reflexivity| |exact Hn].
  intros a t' Ha. apply plain_roundtrip. exact Ha.
Qed.

Lemma object_roundtrip o t : wf_object o = true -> p_object (w_object o ++ t) = Ok (o, t).
Proof.
  unfold wf_object. intros H. apply andb_prop in H as [H Ht]. apply andb_prop in H as [H Hp].
  apply andb_prop in H as [H Hct]. apply andb_prop in H as [Hh Hcp].
  destruct o as [hv pts tris]. cbn [o_head o_points o_tris] in *. unfold p_object, w_object. cbn [o_head o_points o_tris].
  unfold p_bind at 1. rewrite <- !app_assoc, (plain_roundtrip _ _ _ Hh).
  unfold p_bind at 1. rewrite (count_roundtrip _ _ Hcp).
  unfold p_bind at 1. rewrite (count_roundtrip _ _ Hct).
  unfold p_bind at 1. rewrite (repeat_roundtrip (p_plain gen_smx_point) (fun p => w_rec gen_smx_point p []) (fun p => wf_rec gen_smx_point p [])); [| |exact Hp].
  2: { intros a t' Ha. apply plain_roundtrip. exact Ha. }
  unfold p_bind. rewrite (repeat_roundtrip (p_plain gen_smx_triangle) (fun p => w_rec gen_smx_triangle p []) (fun p => wf_rec gen_smx_triangle p [])); [reflexivity| |exact Ht].
  intros a t' Ha. apply plain_roundtrip. exact Ha.
Qed.

Theorem smx_roundtrip f t : wf_smx f = true -> p_smx (w_smx f ++ t) = Ok (f, t).
Proof.
  unfold wf_smx. intros H. apply andb_prop in H as [H Hc]. apply andb_prop in H as [H Hcc].
  apply andb_prop in H as [H Ho]. apply andb_prop in H as [Hh Hco].
  destruct f as [hv objs cps]. cbn [s_head s_objects s_checkpoints] in *. unfold p_smx, w_smx. cbn [s_head s_objects s_checkpoints].
  unfold p_bind at 1. rewrite <- !app_assoc, magic_roundtrip.
  unfold p_bind at 1. rewrite (plain_roundtrip _ _ _ Hh).
  unfold p_bind at 1. rewrite (count_roundtrip _ _ Hco).
  unfold p_bind at 1. rewrite (repeat_roundtrip p_object w_object wf_object object_roundtrip _ _ Ho).
  unfold p_bind at 1. rewrite (count_roundtrip _ _ Hcc).
  unfold p_bind. rewrite (repeat_roundtrip (p_plain gen_smx_checkpoint) (fun p => w_rec gen_smx_checkpoint p []) (fun p => wf_rec gen_smx_checkpoint p [])); [reflexivity| |exact Hc].
  intros a t' Ha. apply plain_roundtrip. exact Ha.
Qed.

(* ---------------- truncation ---------------- *)
Theorem pth_truncation_rejected f k : wf_pth f = true -> (k < length (w_pth f))%nat ->
  parse_pth (firstn k (w_pth f)) = Err.
Proof.
  intros Hwf Hk. pose proof (pth_roundtrip f [] Hwf) as Hrt. rewrite app_nil_r in Hrt.
  destruct good_pth as [_ Hg]. destruct (Hg _ _ _ Hrt) as [c [Hc [_ Hpre]]]. rewrite app_nil_r in Hc. subst c.
  unfold parse_pth. rewrite (Hpre k Hk). reflexivity.
Qed.
Theorem smx_truncation_rejected f k : wf_smx f = true -> (k < length (w_smx f))%nat ->
  parse_smx (firstn k (w_smx f)) = Err.
Proof.
  intros Hwf Hk. pose proof (smx_roundtrip f [] Hwf) as Hrt. rewrite app_nil_r in Hrt.
  destruct good_smx as [_ Hg]. destruct (Hg _ _ _ Hrt) as [c [Hc [_ Hpre]]]. rewrite app_nil_r in Hc. subst c.
  unfold parse_smx. rewrite (Hpre k Hk). reflexivity.
Qed.

(* a parse that succeeds consumed a prefix every strict prefix of which is rejected, whatever the input *)
Theorem pth_any_accepted_prefix_is_minimal bs f r : p_pth bs = Ok (f, r) ->
  exists c, bs = c ++ r /\ forall k, (k < length c)%nat -> parse_pth (firstn k c) = Err.
Proof.
  intros H. destruct good_pth as [_ Hg]. destruct (Hg _ _ _ H) as [c [Hc [_ Hpre]]]. exists c. split; [exact Hc|].
  intros k Hk. unfold parse_pth. rewrite (Hpre k Hk). reflexivity.
Qed.
Theorem smx_any_accepted_prefix_is_minimal bs f r : p_smx bs = Ok (f, r) ->
  exists c, bs = c ++ r /\ forall k, (k < length c)%nat -> parse_smx (firstn k c) = Err.
Proof.
  intros H. destruct good_smx as [_ Hg]. destruct (Hg _ _ _ H) as [c [Hc [_ Hpre]]]. exists c. split; [exact Hc|].
  intros k Hk. unfold parse_smx. rewrite (Hpre k Hk). reflexivity.
Qed.

Theorem parse_pth_total bs : parse_pth bs <> Panic.
Proof. unfold parse_pth. destruct good_pth as [Ht _]. specialize (Ht bs). destruct (p_pth bs) as [[f r]| |]; congruence. Qed.
Theorem parse_smx_total bs : parse_smx bs <> Panic.
Proof. unfold parse_smx. destruct good_smx as [Ht _]. specialize (Ht bs). destruct (p_smx bs) as [[f r]| |]; congruence. Qed.

(* ---------------- work bound ---------------- *)
Definition rec_width (fs : list (fkind * nat)) : nat := fold_right (fun f acc => (snd f + acc)%nat) 0%nat fs.
Lemma rec_consumes fs : forall bs v r, p_rec fs bs = Ok (v, r) -> (length r + rec_width fs = length bs)%nat.
Proof.
  induction fs as [|[k w] fs IH]; intros bs v r; cbn [p_rec rec_width fold_right snd].
  - intros [= <- <-]. lia.
  - unfold p_bind at 1, p_take. destruct (take w bs) as [[h t]|] eqn:E; [|discriminate].
    destruct (take_some _ _ _ _ E) as [Hb Hl]. subst bs. rewrite app_length.
    assert (forall (g : fval * list nat -> parser (fval * list nat)),
              (forall x bs', g x bs' = Ok (v, r) -> bs' = r) ->
              p_bind (p_rec fs) g t = Ok (v, r) -> (length r + rec_width fs = length t)%nat) as Hstep.
    { intros g Hg. unfold p_bind. destruct (p_rec fs t) as [[x r1]| |] eqn:E1; try discriminate.
      intros Hx. apply Hg in Hx. subst r1. eapply IH. exact E1. }
    destruct k.
    + intros H. apply Hstep in H; [fold (rec_width fs); lia|]. intros [vs cs] bs'. intros [= _ <-]. reflexivity.
    + intros H. apply Hstep in H; [fold (rec_width fs); lia|]. intros [vs cs] bs'. intros [= _ <-]. reflexivity.
    + intros H. apply Hstep in H; [fold (rec_width fs); lia|]. intros [vs cs] bs'. intros [= _ <-]. reflexivity.
    + destruct (le_dec h <? i32_limit); [|discriminate].
      intros H. apply Hstep in H; [fold (rec_width fs); lia|]. intros [vs cs] bs'. intros [= _ <-]. reflexivity.
Qed.

(* PTH: the number of nodes delivered never exceeds what the input length pays for *)
Theorem pth_work_bound bs f r : p_pth bs = Ok (f, r) ->
  (length (pth_nodes f) * rec_width gen_pth_node <= length bs)%nat.
Proof.
  unfold p_pth. unfold p_bind at 1. destruct (p_magic gen_pth_magic bs) as [[u r0]| |] eqn:Em; try discriminate.
  unfold p_bind at 1. destruct (p_rec gen_pth_head r0) as [[[hv cs] r1]| |] eqn:Eh; try discriminate.
  unfold p_bind. destruct (p_repeat (hd 0%nat cs) (p_plain gen_pth_node) r1) as [[nodes r2]| |] eqn:En; try discriminate.
  intros [= <- <-]. cbn [pth_nodes].
  assert (Hb : (length nodes = hd 0%nat cs /\ length r2 + hd 0%nat cs * rec_width gen_pth_node <= length r1)%nat).
  { eapply (repeat_bound (p_plain gen_pth_node) (rec_width gen_pth_node)); [|exact En].
    intros bs' a r'. unfold p_plain, p_bind. destruct (p_rec gen_pth_node bs') as [[[vs cs'] r3]| |] eqn:E3; try discriminate.
    intros [= _ <-]. pose proof (rec_consumes _ _ _ _ E3). lia. }
  destruct Hb as [Hlen Hb].
  destruct good_magic with (m := gen_pth_magic) as [_ Hgm]. destruct (Hgm _ _ _ Em) as [c0 [Hc0 _]].
  destruct (good_rec gen_pth_head) as [_ Hgh]. destruct (Hgh _ _ _ Eh) as [c1 [Hc1 _]].
  subst bs r0. rewrite !app_length. lia.
Qed.
