(* core group: vehicle, track, durations, race laps, game version *)
let show_vehicle v = match v with
  | Builtin i -> Printf.sprintf "B %d" (int_of_n i)
  | Mod id -> Printf.sprintf "M %d" (int_of_n id)
  | Unknown -> "U"

let handle (toks : Stdlib.String.t list) : Stdlib.String.t =
  match toks with
  | ["vread"; h] -> show_res show_vehicle (vehicle_read (bytes_of_hex h))
  | ["vspec"; h] -> show_res show_vehicle (spec_read (bytes_of_hex h))
  | ["vwrite"; "B"; i] -> show_res hex_of_bytes (vehicle_write (Builtin (n_of_int (int_of_string i))))
  | ["vwrite"; "M"; i] -> show_res hex_of_bytes (vehicle_write (Mod (n_of_int (int_of_string i))))
  | ["vwrite"; "U"] -> show_res hex_of_bytes (vehicle_write Unknown)
  | ["vdisplay"; i] -> (match vehicle_display (n_of_int (int_of_string i)) with Some b -> hex_of_bytes b | None -> "none")
  | _ -> "?bad-op"

let () = main handle
