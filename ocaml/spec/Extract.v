Require Import ExtrOcamlBasic.
Require Import Coq.Strings.String.
Require Import Base.Bytes Wire.Layout Spec.Defs Spec.InSimV9.
Extraction Language OCaml.
Definition x_flat (s : sstruct) : list flat := flatten (ss_items s).
Definition x_elt (l : list sfield) : list flat := map (flat_field "" "") l.
Definition x_unused (r : res N) : res N := bind r (fun x => Ok x).
Extraction "model.ml" structs tables opaque_defaults x_flat x_elt norm x_unused.
