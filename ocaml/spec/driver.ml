(* spec group: dumps the transcribed specification (Spec/InSimV9.v) as text for the Rust harness *)
let rec str (s : string) : Stdlib.String.t =
  match s with
  | EmptyString -> ""
  | String (Ascii (b0, b1, b2, b3, b4, b5, b6, b7), t) ->
      let bit b k = if b then 1 lsl k else 0 in
      let c = bit b0 0 + bit b1 1 + bit b2 2 + bit b3 3 + bit b4 4 + bit b5 5 + bit b6 6 + bit b7 7 in
      Stdlib.String.make 1 (Stdlib.Char.chr c) ^ str t
let clean s = Stdlib.String.map (fun c -> if c = ' ' || c = ',' || c = ';' || c = '|' then '_' else c) (if s = "" then "-" else s)
let kind k = match k with
  | SNum w -> Printf.sprintf "n%d" (int_of_nat w)
  | SSpare n -> Printf.sprintf "sp%d" (int_of_nat n)
  | SText n -> Printf.sprintf "t%d" (int_of_nat n)
  | SEnum t -> "e:" ^ str t
  | SFlags (w, t) -> Printf.sprintf "f%d:%s" (int_of_nat w) (str t)
  | STime (w, u) -> Printf.sprintf "d%d:%d" (int_of_nat w) (int_of_n u)
  | SCount -> "c"
  | SBool -> "b"
  | SOpaque w -> Printf.sprintf "o%d" (int_of_nat w)
let leaf spath = match Stdlib.List.rev (Stdlib.String.split_on_char '.' spath) with x :: _ -> x | [] -> spath
let field (f : ((string * sk) * tag) * string) =
  let (((cname, k), t), spath) = f in
  let sp = str spath in
  let def = match k with
    | SOpaque _ -> (match Stdlib.List.find_opt (fun (n, _) -> str n = leaf sp) opaque_defaults with
                    | Some (_, bs) -> hex_of_bytes bs | None -> "?")
    | _ -> "-" in
  Printf.sprintf "%s,%s,%s,%s,%s" (clean sp) (clean (str cname)) (kind k) (match t with Asserted -> "A" | Unasserted -> "U") def
let fields l = Stdlib.String.concat ";" (Stdlib.List.map field l)
let tail t = match t with
  | STNone -> "none"
  | STArray (elt, maxn, padm, padk) -> Printf.sprintf "arr:%d:%d:%d:%s" (int_of_nat maxn) (int_of_nat padm) (int_of_nat padk) (fields (x_elt elt))
  | STText (mx, al) -> Printf.sprintf "text:%d:%d" (int_of_nat mx) (int_of_nat al)
  | STWords mx -> Printf.sprintf "words:%d" (int_of_nat mx)
let () =
  Stdlib.List.iter (fun s ->
    Printf.printf "S %s %s %d %d | %s | %s\n" (str s.ss_name) (str s.ss_code) (int_of_n s.ss_type) (int_of_nat s.ss_base) (fields (x_flat s)) (tail s.ss_tail)) structs;
  Stdlib.List.iter (fun t ->
    Printf.printf "T %s %s | %s\n" (str t.st_name) (clean (str t.st_prefix))
      (Stdlib.String.concat ";" (Stdlib.List.map (fun e ->
         Printf.sprintf "%s,%s,%d,%d,%s,%d" (clean (str e.se_name)) (clean (str e.se_code)) (int_of_n e.se_val) (if e.se_reserved then 1 else 0)
           (match e.se_tag with Asserted -> "A" | Unasserted -> "U") (if e.se_named then 1 else 0)) t.st_entries))) tables
