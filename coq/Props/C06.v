(* Props/C06.v — writes reach the transport complete, contiguous and in order. *)
Require Import Base.Bytes Net.Frame Net.FrameProofs Net.Framed Net.FramedProofs.
Local Open Scope N_scope.

(* whatever the acceptance pattern (any k >= 1 bytes per call, any number of not-ready turns),
   what reached the transport is a prefix of the frame; success means the exact whole frame *)
Theorem c06_delivered_is_prefix : forall ws buf d r ws',
  write_all ws buf = (d, r, ws') -> exists rest, buf = d ++ rest /\ (r = WOk -> rest = []).
Proof. exact write_all_prefix. Qed.

Theorem c06_success_means_whole_frame : forall ws buf d ws',
  write_all ws buf = (d, WOk, ws') -> d = buf.
Proof. exact write_all_complete. Qed.

(* fairness: without transport failure, |frame| ready turns always suffice *)
Theorem c06_completes_under_fair_transport : forall ws buf,
  forallb no_fail ws = true -> (length buf <= length (filter accepts ws))%nat ->
  exists ws', write_all ws buf = (buf, WOk, ws').
Proof. exact write_all_fair. Qed.

(* successive writes: the transport sees the concatenation of the frames in call order *)
Theorem c06_sequence_contiguous_in_order : forall frames ws d,
  write_seq ws frames = (d, true) -> d = concat frames.
Proof. exact write_seq_contiguous. Qed.

(* what is handed to write_all is one complete frame for the mode *)
Theorem c06_written_unit_is_one_frame : forall packet unparse m (p : packet) fr,
  encode packet unparse m p = Ok fr -> wf_frame m fr /\ (Nat.modulo (length fr) (mul m) = 0)%nat.
Proof. exact encode_wf. Qed.

Example c06_example :
  write_all [WPending; WAccept 0; WPending; WAccept 1; WAccept 9] [1;3;0;0] = ([1;3;0;0], WOk, []).
Proof. vm_compute. reflexivity. Qed.
