(* Text/CodepageProofs.v — C10 (and the C12 composition) over the codepage model. The table
   oracle is constrained only by named Section hypotheses; everything else is proved for all
   strings. *)
Require Import Coq.Strings.String.
Require Import Base.Bytes Gen.TextTab Text.Escape Text.EscapeProofs Text.Codepage.
Local Open Scope N_scope.

(* LFS's assignment of Windows codepages to marker letters (hand transcription of the LFS
   documentation; encoding_rs names: 932 = SHIFT_JIS, 936 = GBK, 949 = EUC_KR, 950 = BIG5) *)
Definition lfs_assignment : list (N * string) :=
  [(76, "WINDOWS_1252"); (71, "WINDOWS_1253"); (67, "WINDOWS_1251"); (69, "WINDOWS_1250");
   (84, "WINDOWS_1254"); (66, "WINDOWS_1257"); (74, "SHIFT_JIS"); (83, "GBK"); (75, "EUC_KR");
   (72, "BIG5"); (56, "WINDOWS_1252")]%string.
Fixpoint slookup (k : N) (tab : list (N * string)) : option string :=
  match tab with [] => None | (a, b) :: t => if k =? a then Some b else slookup k t end.
Definition assignment_ok : bool :=
  forallb (fun '(l, nm) => match slookup l gen_codepage_tab with Some nm' => String.eqb nm nm' | None => false end) lfs_assignment &&
  forallb (fun '(l, _) => match slookup l lfs_assignment with Some _ => true | None => false end) gen_codepage_tab &&
  forallb (fun l => match slookup l gen_codepage_tab with Some _ => true | None => false end) gen_codepage_letters &&
  forallb is_letter gen_search_order && is_letter gen_default_codepage && is_letter gen_propagate_letter &&
  negb (existsb (N.eqb gen_propagate_letter) gen_search_order) && negb gen_decode_sniffs_bom.
Lemma assignment_holds : assignment_ok = true. Proof. vm_compute. reflexivity. Qed.

Section Proofs.
  Variable enc : N -> N -> option (list N).
  Variable dec : N -> list N -> list N.
  Notation enc_from := (enc_from enc).
  Notation state_after := (state_after enc).
  Notation to_lossy_bytes := (to_lossy_bytes enc).
  Notation dls := (dls dec).
  Notation to_lossy_string := (to_lossy_string dec).

  (* ---- pure ASCII passes through byte for byte ---- *)
  Lemma enc_from_ascii s : forall cur after, forallb is_ascii s = true -> enc_from cur after s = s.
  Proof.
    induction s as [|c t IH]; intros cur after; cbn [forallb Codepage.enc_from]; [reflexivity|].
    intros H. apply andb_prop in H as [Hc Ht]. rewrite Hc, (IH _ _ Ht). reflexivity.
  Qed.
  Theorem ascii_passthrough_bytes s : forallb is_ascii s = true -> to_lossy_bytes s = s.
  Proof. intros H. unfold Codepage.to_lossy_bytes. rewrite H. reflexivity. Qed.

  (* the fast path is not observable *)
  Theorem to_lossy_bytes_is_enc_from s : to_lossy_bytes s = enc_from gen_default_codepage false s.
  Proof.
    unfold Codepage.to_lossy_bytes. destruct (forallb is_ascii s) eqn:E; [|reflexivity].
    symmetry. apply enc_from_ascii. exact E.
  Qed.

  (* ---- a character no codepage has becomes '?', neighbours untouched ---- *)
  Lemma enc_from_app a : forall cur after b,
    enc_from cur after (a ++ b) =
    enc_from cur after a ++ enc_from (fst (state_after cur after a)) (snd (state_after cur after a)) b.
  Proof.
    induction a as [|c t IH]; intros cur after b; cbn [app Codepage.enc_from Codepage.state_after fst snd]; [reflexivity|].
    destruct (is_ascii c); [rewrite IH; reflexivity|].
    destruct (enc cur c) as [w|]; [rewrite IH, app_assoc; reflexivity|].
    destruct (search enc gen_search_order cur c) as [[k w]|].
    - rewrite IH. cbn [app]. rewrite app_assoc. reflexivity.
    - rewrite IH. reflexivity.
  Qed.

  Definition unrepresentable (c : N) : Prop :=
    is_ascii c = false /\ forall l, enc l c = None.

  Lemma search_none cands cur c : (forall l, enc l c = None) -> search enc cands cur c = None.
  Proof. intros H. induction cands as [|k t IH]; cbn [search]; [reflexivity|]. rewrite (H k). destruct (k =? cur); exact IH. Qed.

  (* the bytes produced for the neighbours a and b are the same with or without c between them
     (when a does not end in a caret; a trailing caret belongs to a marker the text itself starts) *)
  Theorem unrepresentable_is_qmark cur after a c b : unrepresentable c ->
    enc_from cur after (a ++ c :: b) =
      enc_from cur after a ++ qmark :: enc_from (fst (state_after cur after a)) false b /\
    (snd (state_after cur after a) = false ->
     enc_from cur after (a ++ b) = enc_from cur after a ++ enc_from (fst (state_after cur after a)) false b).
  Proof.
    intros [Hna Hno]. split.
    - rewrite enc_from_app. f_equal. cbn [Codepage.enc_from]. rewrite Hna, (Hno _), (search_none _ _ _ Hno). reflexivity.
    - intros Hs. rewrite enc_from_app, Hs. reflexivity.
  Qed.

  (* ---- decoding text without marker pairs is one decode in the default codepage ---- *)
  Fixpoint no_marker (bs : list N) : bool :=
    match bs with
    | [] => true
    | b :: t => match t with
                | l :: _ => negb (is_caret b && is_letter l) && no_marker t
                | [] => true
                end
    end.

  Lemma dls_no_marker bs : forall cur acc, no_marker bs = true -> dls cur acc bs = dec cur (rev acc ++ bs).
  Proof.
    induction bs as [|b t IH]; intros cur acc; cbn [Codepage.dls no_marker].
    - intros _. rewrite app_nil_r. reflexivity.
    - destruct t as [|l t'].
      + intros _. cbn [rev]. reflexivity.
      + intros H. apply andb_prop in H as [Hm Hr]. apply negb_true_iff in Hm. rewrite Hm.
        rewrite (IH cur (b :: acc) Hr). cbn [rev]. rewrite <- app_assoc. reflexivity.
  Qed.

  Hypothesis dec_ascii : forall l bs, forallb is_ascii bs = true -> dec l bs = bs.

  Theorem ascii_passthrough_string bs : forallb is_ascii bs = true -> no_marker bs = true ->
    to_lossy_string bs = bs.
  Proof.
    intros Ha Hm. unfold Codepage.to_lossy_string. destruct bs as [|b t]; [reflexivity|].
    rewrite (dls_no_marker _ _ _ Hm). cbn [rev app]. apply dec_ascii. exact Ha.
  Qed.

  (* ---- C12 composition: escaped ASCII text without carets survives the wire path ---- *)
  Definition esc_letters_ok : bool :=
    forallb (fun '(a, b) => is_ascii b && negb (is_letter b)) gen_escape_tab && is_ascii caret && negb (is_letter caret).
  Lemma esc_letters_hold : esc_letters_ok = true. Proof. vm_compute. reflexivity. Qed.

  Lemma esc_plain_shape s : forallb is_ascii s = true -> existsb is_caret s = false ->
    forallb is_ascii (esc s) = true /\ no_marker (esc s) = true /\
    (match esc s with b :: _ => is_caret b = false \/ True | [] => True end).
  Proof.
    pose proof esc_letters_hold as T. unfold esc_letters_ok in T.
    apply andb_prop in T as [T Tnl]. apply andb_prop in T as [T Tca]. rewrite forallb_forall in T.
    induction s as [|c t IH]; [intros _ _; repeat split|].
    cbn [forallb existsb]. intros Ha Hc. apply andb_prop in Ha as [Hac Hat]. apply orb_false_iff in Hc as [Hcc Hct].
    destruct (IH Hat Hct) as [H1 [H2 _]].
    rewrite (esc_plain _ _ Hcc). destruct (lookup c gen_escape_tab) as [d|] eqn:He.
    - apply lookup_in in He. specialize (T _ He). cbn beta iota in T. apply andb_prop in T as [Tad Tnd].
      apply negb_true_iff in Tnd.
      split; [cbn [forallb]; rewrite Tca, Tad, H1; reflexivity|]. split; [|right; exact I].
      cbn [no_marker]. rewrite Tnd, andb_false_r. cbn [negb andb].
      destruct (esc t) as [|x r] eqn:Ee; [reflexivity|].
      (* d is an escape letter, not a caret: (d, x) is no marker *)
      assert (is_caret d = false) as Hcd.
      { destruct (is_caret d) eqn:E; [|reflexivity]. apply N.eqb_eq in E. subst d.
        pose proof tab_inverse_ok as TI. unfold tab_inverse in TI.
        apply andb_prop in TI as [TI _]. apply andb_prop in TI as [TI _]. apply andb_prop in TI as [_ TI].
        rewrite forallb_forall in TI. specialize (TI _ He). cbn beta iota in TI.
        apply andb_prop in TI as [TI _]. apply andb_prop in TI as [TI _]. apply andb_prop in TI as [_ TI].
        rewrite N.eqb_refl in TI. discriminate. }
      rewrite Hcd. cbn [andb negb]. exact H2.
    - split; [cbn [forallb]; rewrite Hac, H1; reflexivity|]. split; [|left; exact Hcc].
      cbn [no_marker]. destruct (esc t) as [|x r] eqn:Ee; [reflexivity|]. rewrite Hcc. cbn [andb negb]. exact H2.
  Qed.

  Theorem escaped_ascii_survives_wire s : forallb is_ascii s = true -> existsb is_caret s = false ->
    unescape (to_lossy_string (to_lossy_bytes (escape s))) = s.
  Proof.
    intros Ha Hc. rewrite escape_is_esc. destruct (esc_plain_shape s Ha Hc) as [H1 [H2 _]].
    rewrite (ascii_passthrough_bytes _ H1), (ascii_passthrough_string _ H1 H2).
    rewrite unescape_is_unesc. apply unesc_esc.
  Qed.

  (* ... but a caret followed by a codepage letter does not (the decoder's marker scan ignores
     the escaping): witness "^L" *)
  Theorem caret_marker_refuted :
    exists s, forallb is_ascii s = true /\ unescape (to_lossy_string (to_lossy_bytes (escape s))) <> s.
  Proof.
    exists [94; 76]. split; [reflexivity|].
    assert (escape [94; 76] = [94; 94; 76]) as -> by (vm_compute; reflexivity).
    rewrite ascii_passthrough_bytes by reflexivity.
    assert (to_lossy_string [94; 94; 76] = [94]) as ->.
    { unfold Codepage.to_lossy_string. cbn [Codepage.dls].
      change (is_caret 94 && is_letter 94) with false. cbv iota.
      change (is_caret 94 && is_letter 76) with true. cbv iota.
      change (76 =? gen_propagate_letter) with false. cbv iota. cbn [rev app].
      rewrite !dec_ascii by reflexivity. reflexivity. }
    vm_compute. discriminate.
  Qed.
End Proofs.
