(* Core/RaceLapsGenProofs.v — the hand-written RaceLaps model of Wire/Customs.v (the one the C15 theorems are about and the
   differential runs execute) IS the translation of racelaps.rs: for every byte, and for every lap / hour count. *)
Require Import Base.Bytes Core.ExprDefs Gen.RaceLapsTab Core.RaceLapsGen Wire.Customs.
Require Import Lia ZifyN ZifyBool.
Ltac Zify.zify_post_hook ::= Z.div_mod_to_equations.
Local Open Scope N_scope.

Theorem rl_dec_is_model b : rl_dec b = racelaps_of_u8 b.
Proof.
  unfold rl_dec, racelaps_of_u8, pick4, gen_racelaps_dec_arms, gen_racelaps_dec_default.
  cbn [map pick fst snd].
  destruct ((0 <=? b) && (b <=? 0)) eqn:E0.
  { assert (b = 0) by lia. subst b. reflexivity. }
  destruct (N.eqb_spec b 0) as [->|Hn0]; [discriminate|].
  destruct ((1 <=? b) && (b <=? 99)) eqn:E1.
  { destruct (N.leb_spec b 99); [reflexivity|lia]. }
  destruct (N.leb_spec b 99); [lia|].
  destruct ((100 <=? b) && (b <=? 190)) eqn:E2.
  { destruct (N.leb_spec b 190); [reflexivity|lia]. }
  destruct (N.leb_spec b 190); [lia|].
  destruct ((191 <=? b) && (b <=? 238)) eqn:E3.
  { destruct (N.leb_spec b 238); [reflexivity|lia]. }
  destruct (N.leb_spec b 238); [lia|]. reflexivity.
Qed.

Theorem rl_enc_is_model tag n : rl_enc tag n = racelaps_to_u8 tag n.
Proof.
  unfold rl_enc, racelaps_to_u8, gen_racelaps_enc_laps, gen_racelaps_enc_laps_default,
         gen_racelaps_enc_hours, gen_racelaps_enc_hours_default.
  cbn [pick].
  destruct (tag =? 1).
  - destruct ((1 <=? n) && (n <=? 99)); [reflexivity|].
    destruct ((100 <=? n) && (n <=? 1000)); reflexivity.
  - destruct (tag =? 2); [|reflexivity].
    destruct ((1 <=? n) && (n <=? 48)); reflexivity.
Qed.
