(* Net/Concrete.v — the connection model instantiated for execution (correspondence runs):
   the packet layer is a table supplied per run by the harness, which decodes every frame in
   isolation with the real Codec and reports its class. No proofs here. *)
Require Import Base.Bytes Net.Frame Net.Framed Gen.NetConsts.
Local Open Scope N_scope.

Inductive pclass := CKeep | CVer (v : N) | COther | CErr.
(* (representative index of the frame among those with an equal decoded packet, class) *)
Definition tpacket := (N * pclass)%type.

Fixpoint tlookup (body : bytes) (tab : list (bytes * tpacket)) : option tpacket :=
  match tab with
  | [] => None
  | (b, c) :: t => if list_eqb b body then Some c else tlookup body t
  end.

Definition tparse (tab : list (bytes * tpacket)) (body : bytes) : res tpacket :=
  match tlookup body tab with
  | Some (_, CErr) => Err
  | Some c => Ok c
  | None => Err
  end.

Definition t_ver_of (p : tpacket) : option N := match snd p with CVer v => Some v | _ => None end.
Definition t_is_keepalive (p : tpacket) : bool := match snd p with CKeep => true | _ => false end.

(* TINY_NONE with request id 0: type 3, reqi 0, subt 0, framed for the mode *)
Definition tiny_none_body : bytes := [3; 0; 0].
Definition pong_frame (m : mode) : bytes :=
  match encode_length m (S (length tiny_none_body)) with Ok n => n :: tiny_none_body | _ => [] end.

Definition run_session (m : mode) (verify : bool) (tab : list (bytes * tpacket)) (tr : list rev)
  : list (out tpacket) :=
  session tpacket (tparse tab) t_ver_of t_is_keepalive gen_version m verify (pong_frame m)
          (length tab + length tr + 8) [] tr.

(* the hand-written constants of Net/Frame.v against the ones regenerated from the source *)
Definition consts_tied : bool :=
  Nat.eqb (max_length Uncompressed) gen_max_uncompressed &&
  Nat.eqb (max_length Compressed) gen_max_compressed &&
  Nat.eqb min_len gen_min_len && Nat.eqb (mul Compressed) gen_compressed_mul &&
  Nat.eqb (mul Uncompressed) 1 && Nat.eqb gen_max_size_packet (max_length Compressed).

(* ---- adaptors (UDP / WebSocket) for execution ---- *)
Require Import Net.Adaptor.
Definition scratch_of (o : option nat) : nat := match o with Some n => n | None => max_length Compressed end.
(* UDP: datagrams cut to the scratch size; an empty datagram is end of stream; WebSocket: items as given *)
Definition run_adaptor (udp : bool) (scratch : nat) (items : list item) (sizes : list nat) : list rev * list N * list item :=
  let its := if udp then flat_map (fun i => match i with IBytes d => [IBytes (firstn scratch d)] | x => [x] end) items else items in
  serve udp sizes [] its.
Definition run_adaptor_session (m : mode) (verify : bool) (tab : list (bytes * tpacket))
           (udp : bool) (scratch : nat) (items : list item) (sizes : list nat) : list (out tpacket) :=
  let '(es, _, _) := run_adaptor udp scratch items sizes in
  session tpacket (tparse tab) t_ver_of t_is_keepalive gen_version m verify (pong_frame m)
          (length tab + length es + 8) [] es.
(* the scratch arrays recognised in the source hold a maximum-size datagram *)
Definition udp_scratch_ok : bool :=
  match gen_udp_scratch_blocking with Some n => Nat.leb (max_length Compressed) n | None => true end &&
  match gen_udp_scratch_tokio with Some n => Nat.leb (max_length Compressed) n | None => true end.

(* ---- the async read future under polling and cancellation (C19) ---- *)
Require Import Net.Async.
Definition run_async (m : mode) (verify : bool) (tab : list (bytes * tpacket)) (rs : list arev) (ws : list wev)
           (cancels : list bool) : list (out tpacket) :=
  asession tpacket (tparse tab) t_ver_of t_is_keepalive gen_version m verify (pong_frame m)
           (2 * (length tab + length rs + length ws) + 16) Top (init_state tpacket) rs ws cancels [].

(* ---- conversations: the caller's write() / handshake() calls between its reads (C06/C07/C09/C18/C19/C20) ---- *)
Definition run_conv (m : mode) (verify : bool) (tab : list (bytes * tpacket)) (tr : list rev) (ops : list uop)
  : list (bool * out tpacket) :=
  conv tpacket (tparse tab) t_ver_of t_is_keepalive gen_version m verify (pong_frame m) ops [] tr.
Definition run_aconv (m : mode) (verify : bool) (tab : list (bytes * tpacket)) (rs : list arev) (ws : list wev)
           (cancels : list bool) (wsched : list (list bytes)) : list (ctok tpacket) :=
  aconv tpacket (tparse tab) t_ver_of t_is_keepalive gen_version m verify (pong_frame m)
        (2 * (length tab + length rs + length ws) + 16) Top (init_state tpacket) rs ws cancels wsched [].

(* ---- the models' state against the connection structs (field names regenerated from the source) ----
   Net/Framed.v: the state of a connection is its receive buffer (and the immutable transport, codec and
   verification flag).  Net/Async.v [fstate]: the tokio connection additionally keeps the outstanding
   keep-alive reply and the packet that asked for it.  A further field would be state the models lack.  The codec
   (Net/Frame.v encode / decode) is a pure function of the size mode: Codec has that one field. *)
Require Import Coq.Strings.String Coq.Strings.Ascii.
Definition name_bytes (s : string) : bytes := map (fun a => N_of_ascii a) (list_ascii_of_string s).
Fixpoint names_eqb (a : list bytes) (b : list string) : bool :=
  match a, b with
  | [], [] => true
  | x :: a', y :: b' => list_eqb x (name_bytes y) && names_eqb a' b'
  | _, _ => false
  end.
Definition state_tied : bool :=
  names_eqb gen_framed_fields_blocking ["inner"; "codec"; "buffer"; "verify_version"]%string &&
  names_eqb gen_framed_fields_tokio ["inner"; "codec"; "buffer"; "verify_version"; "pending_reply"; "pending_packet"]%string &&
  names_eqb gen_codec_fields ["mode"]%string.
