Require Import Coq.Strings.String.
Require Import Props.C12.
Require Import Base.Bytes Gen.TextTab Text.Escape Text.EscapeProofs Text.Codepage Text.CodepageProofs Text.CodepageRoundtrip Text.WireComposition.
Local Open Scope N_scope.
Check c12_unescape_escape : forall s, unescape (escape s) = s.
Check c12_escaped_is_reserved_free : forall s, existsb reserved (escape s) = false.
Check c12_strip_removes_exactly_colours : forall s,
  strip s = concat (map (render false) (tokens s)) /\ s = concat (map (render true) (tokens s)).
Check c12_strip_idempotent : forall s, strip (strip s) = strip s.
Check c12_strip_keeps_text_without_colours : forall s,
  (forall d, ~ In (TColour d) (tokens s)) -> strip s = s.
Check c12_fast_paths : forall s, escape s = esc s /\ unescape s = unesc s /\ strip s = strp s.
Check c12_wire_composition : forall enc dec,
  (forall l c w, enc l c = Some w -> exists b1, 128 <= b1 /\ (w = [b1] \/ exists b2, w = [b1; b2])) ->
  (forall l, dec l [] = []) ->
  (forall l b r, is_ascii b = true -> dec l (b :: r) = b :: dec l r) ->
  (forall l c w r, enc l c = Some w -> dec l (w ++ r) = c :: dec l r) ->
  (forall l c b1 b2, enc l c = Some [b1; b2] -> lead l b1 = true) ->
  (forall l c b1, enc l c = Some [b1] -> lead l b1 = false) ->
  (forall bs, dec gen_propagate_letter bs = dec gen_default_codepage bs) ->
  forall s, Forall (encodable enc) s ->
  unescape (to_lossy_string dec (to_lossy_bytes enc (escape s))) = s.
Check c12_tables : tab_inverse = true.
Print Assumptions c12_unescape_escape.
Print Assumptions c12_escaped_is_reserved_free.
Print Assumptions c12_strip_removes_exactly_colours.
Print Assumptions c12_strip_idempotent.
Print Assumptions c12_strip_keeps_text_without_colours.
Print Assumptions c12_fast_paths.
Print Assumptions c12_wire_composition.
Print Assumptions c12_tables.
