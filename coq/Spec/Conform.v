(* Spec/Conform.v — the generated layouts, packet type numbers and enum / flag tables checked against the
   transcribed specification.  Everything here is a computation over finite data regenerated from the
   source; the results are lifted to all values by Spec/ConformProofs.v.  No proofs here. *)
Require Import Coq.Strings.String.
Require Import Base.Bytes Wire.Layout Wire.Customs Gen.Packets Wire.Packet Spec.Defs Spec.InSimV9.
Local Open Scope N_scope.

Fixpoint find_spec (ty : N) (l : list sstruct) : option sstruct :=
  match l with [] => None | s :: r => if ss_type s =? ty then Some s else find_spec ty r end.
Fixpoint assoc {A} (k : string) (l : list (string * A)) : option A :=
  match l with [] => None | (k', x) :: r => if String.eqb k k' then Some x else assoc k r end.

Definition code_table (ty : string) : option (list (string * N)) :=
  match assoc ty enum_tables with
  | Some t => Some t
  | None => match assoc ty flag_tables with
            | Some (_, t) => Some t
            | None => if String.eqb ty "PlcAllowedCarsSet" then Some plc_consts else None
            end
  end.

(* problems of one packet type of the implementation *)
Definition kind_problems (entry : N * string * pkind) : list string :=
  let '(ty, var, k) := entry in
  match find_spec ty structs with
  | None => [append "packet type without a specification struct: " var]
  | Some s =>
      (if String.eqb (ss_code s) var then [] else [append (ss_name s) (append ": this type number is carried by " var)]) ++
      match k with
      | KLayout l => struct_problems cwidth tables s l
      | KMso => []     (* hand-written codec: covered by the reference-frame runs, see DESIGN.md C02 *)
      end
  end.

Definition missing_types : list string :=
  flat_map (fun s => match find_kind (ss_type s) packet_table with Some _ => [] | None => [append (ss_name s) ": no packet with this type number"] end) structs.

(* (specification table, implementation type) pairs: through the fields that use them *)
Definition table_of (k : sk) : option string := match k with SEnum t => Some t | SFlags _ t => Some t | _ => None end.
Definition links_of (s : sstruct) : list (string * string) :=
  match assoc (ss_code s) field_types with
  | None => []
  | Some fts =>
      let nfts := map (fun ft => (norm (fst ft), snd ft)) fts in
      let fixed_links := flat_map (fun fl => let '(cname, k, _, _) := fl in
                            match table_of k, assoc cname nfts with Some t, Some cty => [(t, cty)] | _, _ => [] end) (flatten (ss_items s)) in
      let tail_links := match ss_tail s with
                        | STArray elt _ _ _ => flat_map (fun fl => match table_of (sf_kind fl), assoc (norm (append "tail" (code_of fl))) nfts with
                                                                  | Some t, Some cty => [(t, cty)] | _, _ => [] end) elt
                        | _ => []
                        end in
      fixed_links ++ tail_links
  end.
Definition pair_eqb (a b : string * string) : bool := String.eqb (fst a) (fst b) && String.eqb (snd a) (snd b).
Fixpoint dedup (l : list (string * string)) : list (string * string) :=
  match l with [] => [] | x :: r => if existsb (pair_eqb x) r then dedup r else x :: dedup r end.
Definition all_links : list (string * string) := dedup (flat_map links_of structs ++ extra_links).

Definition link_problems (lk : string * string) : list string :=
  match find_table (fst lk) tables, code_table (snd lk) with
  | Some t, Some c => table_problems t c
  | None, _ => [append "unknown specification table " (fst lk)]
  | Some _, None => if String.eqb (snd lk) "spclose" then [] else [append "no implementation table " (snd lk)]
  end.

Definition all_problems : list string :=
  flat_map kind_problems packet_table ++ missing_types ++ flat_map link_problems all_links.
Definition conforms_all : bool := match all_problems with [] => true | _ => false end.

(* every table of the transcription is linked to an implementation table (else it would be checked against nothing) *)
Definition unlinked_tables : list string :=
  flat_map (fun t => if existsb (fun lk => String.eqb (fst lk) (st_name t)) all_links then [] else [st_name t]) tables.
