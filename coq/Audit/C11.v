Require Import Coq.Strings.String.
Require Import Base.Bytes Wire.Layout Wire.LayoutProofs Props.C11.
Local Open Scope N_scope.
Check c11_fixed_exact_width : forall n bs,
  length (write_fixed n bs) = n /\ write_fixed n bs = firstn n bs ++ repeat 0 (n - length (firstn n bs)).
Check c11_aligned_width : forall mx al bs, (0 < al)%nat -> Nat.modulo mx al = 0%nat ->
  length (write_aligned mx al bs) = Nat.min mx (round_up (length bs) al) /\
  Nat.modulo (length (write_aligned mx al bs)) al = 0%nat /\
  (length (write_aligned mx al bs) <= mx)%nat /\
  write_aligned mx al bs = firstn mx (bs ++ repeat 0 (round_up (length bs) al - length bs)).
Check c11_decode_stops_at_first_nul : forall a b, nonul a = true -> strip_nul (a ++ 0 :: b) = a.
Check c11_strip_idempotent : forall bs, strip_nul (strip_nul bs) = strip_nul bs.
Check c11_fixed_read_back : forall n bs, (length bs <= n)%nat -> nonul bs = true -> strip_nul (write_fixed n bs) = bs.
Check c11_fixed_terminated_outside_known_class : forall n bs,
  ~ known_class_full_width n bs -> last (write_fixed n bs) 1 = 0.
Check c11_fixed_terminator_refuted :
  exists bs, known_class_full_width 64 bs /\ nonul bs = true /\ last (write_fixed 64 bs) 1 <> 0.
Check c11_aligned_terminator_refuted : exists bs, nonul bs = true /\ last (write_aligned 128 4 bs) 1 <> 0.
Check c11_aligned_terminated_outside_known_class : forall mx al bs,
  (0 < al)%nat -> Nat.modulo mx al = 0%nat -> (length bs < mx)%nat -> Nat.modulo (length bs) al <> 0%nat ->
  last (write_aligned mx al bs) 1 = 0.
Print Assumptions c11_fixed_exact_width.
Print Assumptions c11_aligned_width.
Print Assumptions c11_decode_stops_at_first_nul.
Print Assumptions c11_strip_idempotent.
Print Assumptions c11_fixed_read_back.
Print Assumptions c11_fixed_terminated_outside_known_class.
Print Assumptions c11_fixed_terminator_refuted.
Print Assumptions c11_aligned_terminator_refuted.
Print Assumptions c11_aligned_terminated_outside_known_class.
