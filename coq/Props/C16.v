(* Props/C16.v — game versions parse totally, print re-parseably and order consistently. *)
Require Import Base.Bytes Core.GameVersion Core.GameVersionProofs.
Local Open Scope N_scope.

(* totality / termination: [parse] is a total structurally recursive Gallina function over the
   character list (each phase consumes its run or returns an error): it cannot loop or panic. The
   statements below are about its results. *)

(* what is assumed of the three std oracles (validated by the harness on every run) *)
Definition oracles_ok (is_numeric : N -> bool) (parse_f32 : list N -> option N) (print_f32 : N -> list N)
  (parse_usize : list N -> option N) (print_usize : N -> list N) : Prop :=
  (forall c, c < 128 -> is_numeric c = is_digit c) /\
  (forall x, x < inf_bits -> print_f32 x <> [] /\ forallb (fun c => is_digit c || (c =? dot)) (print_f32 x) = true) /\
  (forall x, x < inf_bits -> parse_f32 (print_f32 x) = Some x) /\
  (forall p, print_usize p <> [] /\ forallb is_digit (print_usize p) = true) /\
  (forall p, parse_usize (print_usize p) = Some p) /\
  parse_usize [] = None.

(* whatever parses, with a finite number, prints to a text that parses back to an equal version *)
Theorem c16_print_reparses_equal :
  forall is_numeric parse_f32 print_f32 parse_usize print_usize,
  oracles_ok is_numeric parse_f32 print_f32 parse_usize print_usize ->
  forall s v, parse is_numeric parse_f32 parse_usize s = POk v -> v_major v < inf_bits ->
  exists v', parse is_numeric parse_f32 parse_usize (print print_f32 print_usize v) = POk v' /\ veq v v' = true.
Proof. intros n pf prf pu pru [H1 [H2 [H3 [H4 [H5 H6]]]]]. exact (parse_print_parse n pf prf pu pru H1 H2 H3 H4 H5 H6). Qed.

(* the letter is case-insensitive, and every parsed version carries an upper-case ASCII letter *)
Theorem c16_case_insensitive :
  forall is_numeric parse_f32 print_f32 parse_usize print_usize,
  oracles_ok is_numeric parse_f32 print_f32 parse_usize print_usize ->
  forall mj c rest, forallb (num_or_dot is_numeric) mj = true -> is_alpha c = true ->
  parse is_numeric parse_f32 parse_usize (mj ++ to_upper c :: rest) = parse is_numeric parse_f32 parse_usize (mj ++ c :: rest).
Proof. intros n pf prf pu pru [H1 [H2 [H3 [H4 [H5 H6]]]]]. exact (parse_case_insensitive n pf prf pu pru H1 H2 H3 H4 H5). Qed.
Theorem c16_parsed_letter_is_upper_ascii :
  forall is_numeric parse_f32 print_f32 parse_usize print_usize,
  oracles_ok is_numeric parse_f32 print_f32 parse_usize print_usize ->
  forall s v, parse is_numeric parse_f32 parse_usize s = POk v ->
  is_alpha (v_minor v) = true /\ to_upper (v_minor v) = v_minor v.
Proof. intros n pf prf pu pru [H1 [H2 [H3 [H4 [H5 H6]]]]]. exact (parsed_version_shape n pf prf pu pru H1 H2 H3 H4 H5 H6). Qed.

(* comparison is a total order consistent with equality: (number, letter, revision or 0) *)
Theorem c16_order_reflexive : forall a, vcmp a a = Eq. Proof. exact vcmp_refl. Qed.
Theorem c16_order_consistent_with_eq : forall a b, vcmp a b = Eq <-> veq a b = true. Proof. exact vcmp_eq_iff. Qed.
Theorem c16_order_antisymmetric : forall a b, vcmp a b = CompOpp (vcmp b a). Proof. exact vcmp_antisym. Qed.
Theorem c16_order_transitive : forall a b c, vcmp a b = Lt -> vcmp b c = Lt -> vcmp a c = Lt. Proof. exact vcmp_lt_trans. Qed.
Theorem c16_order_total : forall a b, vcmp a b = Lt \/ veq a b = true \/ vcmp b a = Lt. Proof. exact vcmp_total. Qed.
(* a missing revision counts as 0 *)
Theorem c16_missing_revision_is_zero : forall m c,
  veq {| v_major := m; v_minor := c; v_patch := None |} {| v_major := m; v_minor := c; v_patch := Some 0 |} = true.
Proof. intros. unfold veq, patch0. cbn. rewrite !N.eqb_refl. reflexivity. Qed.
