(* Props/C11.v — text fields always occupy their exact wire width and terminate correctly.
   Text is bytes here (the codepage layer is C10); all lengths, all byte contents. *)
Require Import Coq.Strings.String.
Require Import Base.Bytes Wire.Layout Wire.LayoutProofs.
Local Open Scope N_scope.

(* fixed-width field: exactly N bytes = the text truncated to N, then NUL padding *)
Theorem c11_fixed_exact_width : forall n bs,
  length (write_fixed n bs) = n /\
  write_fixed n bs = firstn n bs ++ repeat 0 (n - length (firstn n bs)).
Proof. intros. split; [apply write_fixed_len|reflexivity]. Qed.

(* variable-width field: NUL-padded to a multiple of the alignment, never above the maximum *)
Theorem c11_aligned_width : forall mx al bs, (0 < al)%nat -> Nat.modulo mx al = 0%nat ->
  length (write_aligned mx al bs) = Nat.min mx (round_up (length bs) al) /\
  Nat.modulo (length (write_aligned mx al bs)) al = 0%nat /\
  (length (write_aligned mx al bs) <= mx)%nat /\
  write_aligned mx al bs = firstn mx (bs ++ repeat 0 (round_up (length bs) al - length bs)).
Proof.
  intros mx al bs Ha Hm. rewrite write_aligned_len by exact Ha. repeat split.
  - destruct (Nat.min_spec mx (round_up (length bs) al)) as [[_ ->]|[_ ->]]; [exact Hm|apply round_up_mod; exact Ha].
  - apply Nat.le_min_l.
Qed.

(* decoding stops at the first NUL, and is idempotent *)
Lemma strip_nul_first_nul a b : nonul a = true -> strip_nul (a ++ 0 :: b) = a.
Proof.
  induction a as [|x a IH]; cbn [nonul forallb app strip_nul]; [reflexivity|].
  intros H. apply andb_prop in H as [Hx Ha]. apply negb_true_iff in Hx. rewrite Hx. f_equal. apply IH. exact Ha.
Qed.
Theorem c11_decode_stops_at_first_nul : forall a b, nonul a = true -> strip_nul (a ++ 0 :: b) = a.
Proof. exact strip_nul_first_nul. Qed.

Lemma strip_nul_nonul_out bs : nonul (strip_nul bs) = true.
Proof.
  induction bs as [|b t IH]; cbn [strip_nul]; [reflexivity|].
  destruct (b =? 0) eqn:E; [reflexivity|]. cbn [nonul forallb]. rewrite E. cbn [negb andb]. exact IH.
Qed.
Theorem c11_strip_idempotent : forall bs, strip_nul (strip_nul bs) = strip_nul bs.
Proof. intros. apply strip_nul_nonul. apply strip_nul_nonul_out. Qed.

(* what is written is read back: text shorter than / equal to the width survives *)
Theorem c11_fixed_read_back : forall n bs, (length bs <= n)%nat -> nonul bs = true ->
  strip_nul (write_fixed n bs) = bs.
Proof. intros. rewrite write_fixed_short by assumption. apply strip_nul_app_zeros. assumption. Qed.

(* termination of the fixed-width writer: outside the known class (the text reaches the width)
   the field ends in NUL ... *)
Definition known_class_full_width (n : nat) (bs : list N) : Prop := (n <= length bs)%nat.
Theorem c11_fixed_terminated_outside_known_class : forall n bs,
  ~ known_class_full_width n bs -> last (write_fixed n bs) 1 = 0.
Proof.
  unfold known_class_full_width. intros n bs H. rewrite write_fixed_short by lia.
  assert (exists k, (n - length bs = S k)%nat) as [k ->] by (exists (n - length bs - 1)%nat; lia).
  replace (repeat 0 (S k)) with (repeat 0 k ++ [0]) by (rewrite <- repeat_cons; reflexivity).
  rewrite app_assoc. apply last_last.
Qed.
(* ... and inside it, it does not (the MST/MSX/MSL finding): machine-checked witness *)
Theorem c11_fixed_terminator_refuted :
  exists bs, known_class_full_width 64 bs /\ nonul bs = true /\ last (write_fixed 64 bs) 1 <> 0.
Proof. exists (repeat 65 64). unfold known_class_full_width. vm_compute. repeat split; try discriminate. lia. Qed.
(* aligned writer (MTC): a text whose length is a multiple of 4 gets no terminator *)
Theorem c11_aligned_terminator_refuted :
  exists bs, nonul bs = true /\ last (write_aligned 128 4 bs) 1 <> 0.
Proof. exists [65; 65; 65; 65; 65; 65; 65; 65]. vm_compute. split; [reflexivity|discriminate]. Qed.
Theorem c11_aligned_terminated_outside_known_class : forall mx al bs,
  (0 < al)%nat -> Nat.modulo mx al = 0%nat -> (length bs < mx)%nat -> Nat.modulo (length bs) al <> 0%nat ->
  last (write_aligned mx al bs) 1 = 0.
Proof.
  intros mx al bs Ha Hm Hl Hr. unfold write_aligned.
  pose proof (round_up_ge (length bs) al Ha) as Hge.
  pose proof (round_up_mod (length bs) al Ha) as Hrm.
  pose proof (round_up_le_mult (length bs) al mx Ha Hm ltac:(lia)) as Hle.
  assert (round_up (length bs) al <> length bs) by congruence.
  rewrite firstn_all2 by (rewrite app_length, repeat_length; lia).
  assert (exists k, (round_up (length bs) al - length bs = S k)%nat) as [k ->]
    by (exists (round_up (length bs) al - length bs - 1)%nat; lia).
  replace (repeat 0 (S k)) with (repeat 0 k ++ [0]) by (rewrite <- repeat_cons; reflexivity).
  rewrite app_assoc. apply last_last.
Qed.
