//! C10 (codepage conversion) and C12 (escaping / colour stripping) on the real string functions.
use std::{collections::{HashMap, HashSet}, io::Write as _};

use encoding_rs::Encoding;
use insim_core::string::{codepages::{to_lossy_bytes, to_lossy_string}, colours, escaping};

use crate::common::*;

/// LFS's assignment (hand transcription): marker letter -> Windows codepage (encoding_rs constant)
pub fn lfs_encoding(letter: char) -> &'static Encoding {
    match letter {
        'L' | '8' => encoding_rs::WINDOWS_1252, 'G' => encoding_rs::WINDOWS_1253, 'C' => encoding_rs::WINDOWS_1251,
        'E' => encoding_rs::WINDOWS_1250, 'T' => encoding_rs::WINDOWS_1254, 'B' => encoding_rs::WINDOWS_1257,
        'J' => encoding_rs::SHIFT_JIS, 'S' => encoding_rs::GBK, 'K' => encoding_rs::EUC_KR, 'H' => encoding_rs::BIG5,
        _ => unreachable!(),
    }
}
pub const LETTERS: [char; 10] = ['L', 'G', 'C', 'E', 'T', 'B', 'J', 'H', 'S', 'K'];
const MARKERS: &str = "LGCETBJHSK8";

fn cps(s: &str) -> String { if s.is_empty() { "-".into() } else { s.chars().map(|c| format!("{:x}", c as u32)).collect::<Vec<_>>().join(",") } }

/// Which codepage the implementation actually uses for a marker letter, observed through the public
/// API: decode "^X" + byte(s) with to_lossy_string.
fn impl_decode(letter: char, bytes: &[u8]) -> String {
    let mut v = vec![b'^', letter as u8]; v.extend_from_slice(bytes);
    let s = to_lossy_string(&v).to_string();
    if letter == '8' { s.strip_prefix("^8").unwrap_or(&s).to_string() } else { s }
}
fn enc_one(e: &'static Encoding, c: char) -> Option<Vec<u8>> {
    let mut b = [0u8; 4]; let s = c.encode_utf8(&mut b);
    let (cow, _, err) = e.encode(s); if err { None } else { Some(cow.to_vec()) }
}

/// Reference decoder written from the property text (independent of the Coq model and of the implementation's
/// algorithm): left to right, the current codepage starts as Latin-1 (1252); `^` + codepage letter switches and is
/// dropped, `^8` switches to Latin-1 and is kept; double-byte lead bytes take their trail byte with them (so a trail
/// byte 0x5E is never read as a marker - the implementation's known finding); tables = LFS's Windows codepages.
/// Returns None when a segment is not valid in its codepage (error recovery is not specified).
pub fn ref_decode(bytes: &[u8]) -> Option<String> {
    let mut cur: &'static Encoding = lfs_encoding('L'); let mut out = String::new(); let mut seg: Vec<u8> = vec![]; let mut i = 0;
    fn flush(cur: &'static Encoding, seg: &mut Vec<u8>, out: &mut String) -> bool { if seg.is_empty() { return true; } let (d, err) = cur.decode_without_bom_handling(seg); let d = d.to_string(); seg.clear(); if err { return false; } out.push_str(&d); true }
    while i < bytes.len() {
        let b = bytes[i];
        if b == b'^' && i + 1 < bytes.len() && MARKERS.as_bytes().contains(&bytes[i + 1]) {
            if !flush(cur, &mut seg, &mut out) { return None; }
            let l = bytes[i + 1] as char;
            if l == '8' { out.push_str("^8"); cur = lfs_encoding('L'); } else { cur = lfs_encoding(l); }
            i += 2; continue;
        }
        if !cur.is_single_byte() && b >= 0x81 && i + 1 < bytes.len() {
            // a lead byte takes the next byte along (Shift_JIS half-width katakana A1..DF are single bytes)
            let single = cur == encoding_rs::SHIFT_JIS && (0xa1..=0xdf).contains(&b);
            if !single { seg.push(b); seg.push(bytes[i + 1]); i += 2; continue; }
        }
        seg.push(b); i += 1;
    }
    if !flush(cur, &mut seg, &mut out) { return None; }
    Some(out)
}
/// the reference decoder with malformed sequences replaced the way the codepage decoder replaces them (U+FFFD), run by run
pub fn ref_decode_lossy(bytes: &[u8]) -> String {
    let mut cur: &'static Encoding = lfs_encoding('L'); let mut out = String::new(); let mut seg: Vec<u8> = vec![]; let mut i = 0;
    fn flush(cur: &'static Encoding, seg: &mut Vec<u8>, out: &mut String) { if seg.is_empty() { return; } let (d, _) = cur.decode_without_bom_handling(seg); out.push_str(&d); seg.clear(); }
    while i < bytes.len() {
        let b = bytes[i];
        if b == b'^' && i + 1 < bytes.len() && MARKERS.as_bytes().contains(&bytes[i + 1]) {
            flush(cur, &mut seg, &mut out);
            let l = bytes[i + 1] as char;
            if l == '8' { out.push_str("^8"); cur = lfs_encoding('L'); } else { cur = lfs_encoding(l); }
            i += 2; continue;
        }
        seg.push(b); i += 1;
    }
    flush(cur, &mut seg, &mut out);
    out
}
/// does the byte string contain a double-byte character with trail byte 0x5E directly before a marker letter (known finding)?
pub fn has_trail5e_marker(bytes: &[u8]) -> bool { bytes.windows(3).any(|w| w[0] >= 0x81 && w[1] == 0x5e && MARKERS.as_bytes().contains(&w[2])) }
/// the decode-side oracle on one byte string: implementation vs reference decoder (escaped carets are C12's subject)
pub fn decode_oracle(v: &[u8], st: &mut Stats) {
    if v.windows(2).any(|w| w == b"^^") { return; }
    let Some(want) = ref_decode(v) else { return };
    if want.contains('\u{fffd}') { return; }
    let Some(got) = watched("to_lossy_string", || format!("bytes:{}=", hex(v)), || guard(|| to_lossy_string(v).to_string())) else { return };
    st.evaluations += 1;
    if got != want { st.fail_class(if has_trail5e_marker(v) { "c10-trail-byte-5e-before-letter" } else { "" }, format!("[C10] bytes {} decode to {:?}, the codepage rules give {:?}", hex(v), got, want), format!("bytes:{}={}", hex(v), cps(&want))); }
}
pub fn trail5e_char(c: char) -> bool { !c.is_ascii() && LETTERS.iter().any(|l| enc_one(lfs_encoding(*l), c).map(|w| w.len() == 2 && w[1] == 0x5e).unwrap_or(false)) }

// ---------------------------------------------------------------- C12
/// the encoding_rs tables of the ten LFS codepages in the format the model driver reads (E letter scalar bytes / D letter bytes scalar)
fn dump_tables(dir: &str) {
    use std::io::Write as _;
    let mut tf = std::io::BufWriter::new(std::fs::File::create(format!("{dir}/tables.txt")).unwrap());
    let encs: Vec<(char, &'static Encoding)> = LETTERS.iter().map(|l| (*l, lfs_encoding(*l))).collect();
    for (l, e) in &encs { for cp in 0x80u32..0x30000 { if let Some(c) = char::from_u32(cp) { if let Some(w) = enc_one(e, c) { if !w.is_empty() && w[0] >= 0x80 { let _ = writeln!(tf, "E {} {} {}", *l as u32, cp, hex(&w)); } } } } }
    for (l, e) in encs.iter().cloned().chain([('8', encoding_rs::WINDOWS_1252)]) {
        for b in 0x80..=0xffu32 { let arr = [b as u8]; let (d, err) = e.decode_without_bom_handling(&arr); let mut it = d.chars(); if let (false, Some(c), None) = (err, it.next(), it.next()) { let _ = writeln!(tf, "D {} {:02x} {}", l as u32, b, c as u32); } }
        if !e.is_single_byte() { for a in 0x81..=0xfeu32 { for b in 0x40..=0xfeu32 { let arr = [a as u8, b as u8]; let (d, err) = e.decode_without_bom_handling(&arr); let cs: Vec<char> = d.chars().collect(); let lead_alone = e.decode_without_bom_handling(&[a as u8]).1; if !err && (cs.len() == 1 || (cs.len() == 2 && lead_alone)) && !cs.contains(&'\u{fffd}') { let _ = writeln!(tf, "D {} {:02x}{:02x} {}", l as u32, a, b, cs.iter().map(|c| (*c as u32).to_string()).collect::<Vec<_>>().join("+")); } } } }
    }
    tf.flush().unwrap();
}

pub fn run_c12(a: &Args) {
    let check = |s: &str, st: &mut Stats| -> (String, String, String) {
        let id = cps(s);
        let e = match watched("escape", || id.clone(), || guard(|| escaping::escape(s).to_string())) { Some(e) => e, None => { st.fail("[C12] escape panics".into(), id.clone()); String::new() } };
        let u = match watched("unescape", || id.clone(), || guard(|| escaping::unescape(&e).to_string())) { Some(u) => u, None => { st.fail("[C12] unescape panics".into(), id.clone()); String::new() } };
        if u != s { st.fail(format!("[C12] unescape(escape(s)) = {:?} for s = {:?}", u, s), id.clone()); }
        if e.chars().any(|c| "|*:\\/?\"<>#".contains(c)) { st.fail(format!("[C12] escaped output {:?} contains a reserved character", e), id.clone()); }
        let t = match watched("strip", || id.clone(), || guard(|| colours::strip(s).to_string())) { Some(t) => t, None => { st.fail("[C12] strip panics".into(), id.clone()); String::new() } };
        let t2 = colours::strip(&t).to_string();
        if t2 != t { st.fail(format!("[C12] strip is not idempotent on {:?}: {:?} then {:?}", s, t, t2), id.clone()); }
        // token-level specification, computed independently
        let cs: Vec<char> = s.chars().collect(); let mut want = String::new(); let mut i = 0;
        while i < cs.len() { if cs[i] == '^' && i + 1 < cs.len() && cs[i + 1] == '^' { want.push_str("^^"); i += 2; } else if cs[i] == '^' && i + 1 < cs.len() && cs[i + 1].is_ascii_digit() { i += 2; } else { want.push(cs[i]); i += 1; } }
        if t != want { st.fail(format!("[C12] strip({:?}) = {:?}, exactly-the-colour-codes gives {:?}", s, t, want), id.clone()); }
        // composition through the codepage path, for text whose characters are encodable
        let wire = to_lossy_bytes(&e).to_vec();
        let back = escaping::unescape(&to_lossy_string(&wire)).to_string();
        if back != s && s.chars().all(|c| c.is_ascii() || LETTERS.iter().any(|l| enc_one(lfs_encoding(*l), c).is_some())) {
            // known class: a caret immediately followed by a codepage letter (the decoder's marker scan ignores escaping)
            let in_class = cs.windows(2).any(|w| w[0] == '^' && MARKERS.contains(w[1]) && w[1] != '8') || cs.windows(2).any(|w| w[0] == '^' && w[1] == '8' ) && back != s && cs.windows(3).any(|w| w[0] == '^' && w[1] == '^' && w[2] == '8');
            let trail = cs.windows(2).any(|w| trail5e_char(w[0]) && MARKERS.contains(w[1]));
            st.fail_class(if in_class { "c12-caret-before-codepage-letter" } else if trail { "c10-shared" } else { "" }, format!("[C12] escaped text does not survive the wire: {:?} -> {:?}", s, back), id.clone());
        }
        (e, u, t)
    };
    if let Some(r) = &a.replay { let s: String = if r == "-" { String::new() } else { r.split(',').map(|x| char::from_u32(u32::from_str_radix(x, 16).unwrap()).unwrap()).collect() }; let mut st = Stats::default(); let _ = check(&s, &mut st); if st.failures_total > 0 { println!("FAIL [{}] {}", st.failures[0].0, st.failures[0].1); std::process::exit(1) } else { println!("PASS"); return } }
    let mut rng = Rng::new(a.seed);
    let mut st = Stats::default(); let mut out = Out::new(&a.out);
    // the wire composition theorem rests on the scanner's lead-byte classification agreeing with the code tables: checked by the model
    // driver over every table entry (the same hypothesis check as in C10)
    std::fs::create_dir_all(&a.out).unwrap(); dump_tables(&a.out);
    out.case("oraclecheck", "oracle lead2:0 lead1:0 prop:0");
    // exhaustive over an alphabet of character-class representatives
    let alpha: Vec<char> = vec!['^', '1', '8', 'v', 'a', '|', '*', '#', '\\', 'L', 'K', 'x', ' ', 'é', '日', '\u{b2}', '\u{ff12}'];
    let maxlen = if a.thorough() { 6 } else { 4 };
    let mut idx = vec![0usize; 0];
    let mut seen = 0u64;
    loop {
        let s: String = idx.iter().map(|i| alpha[*i]).collect();
        let (e, _, t) = check(&s, &mut st); st.evaluations += 1; if s.contains('^') { st.distinct_nontrivial += 1; }
        seen += 1;
        if seen % (if a.thorough() { 97 } else { 5 }) == 0 || s.len() <= 2 { out.case(&format!("escape {}", cps(&s)), &cps(&e)); out.case(&format!("unescape {}", cps(&e)), &cps(&s)); out.case(&format!("strip {}", cps(&s)), &cps(&t)); out.case(&format!("unescape {}", cps(&s)), &cps(&escaping::unescape(&s))); }
        // next
        let mut k = idx.len();
        loop { if k == 0 { idx = vec![0; idx.len() + 1]; break; } k -= 1; if idx[k] + 1 < alpha.len() { idx[k] += 1; for j in k + 1..idx.len() { idx[j] = 0; } break; } }
        if idx.len() > maxlen { break; }
    }
    st.exhaustive.push(format!("all strings of length <= {maxlen} over a {}-character class alphabet (caret, colour digit, '8', escape letters, reserved characters, codepage letters, other ASCII, Latin-1, CJK)", alpha.len()));
    // random longer Unicode strings
    for _ in 0..(if a.thorough() { 200_000 } else { 20_000 }) {
        let len = rng.range(1, 40) as usize;
        let s: String = (0..len).map(|_| match rng.below(6) { 0 => '^', 1 => *rng.pick(&alpha), 2 => char::from_u32(rng.range(0x20, 0x7e) as u32).unwrap(), 3 => char::from_u32(rng.range(0xa0, 0x24f) as u32).unwrap(), 4 => char::from_u32(rng.range(0x3040, 0x30ff) as u32).unwrap(), _ => char::from_u32(rng.range(0x1f600, 0x1f64f) as u32).unwrap() }).collect();
        let (e, _, t) = check(&s, &mut st); st.evaluations += 1; st.distinct_nontrivial += 1;
        out.case(&format!("escape {}", cps(&s)), &cps(&e)); out.case(&format!("strip {}", cps(&s)), &cps(&t));
    }
    // segment strings: runs in different scripts (Latin-1 letters whose bytes are lead bytes of the CJK codepages included) joined by
    // colour codes (^8 resets the codepage), carets, escaped characters and codepage letters: every sequence of up to 4 segments of
    // one pool, then random longer ones
    let segs: Vec<&str> = vec!["\u{9348}", "\u{fa16}", "^9", "\u{15e}", "\u{45e}", "\u{b2}", "\u{ff12}", "\u{bd}", "\u{663}", "\u{7f8e}", "\u{e9}", "\u{e9}\u{e0}", "\u{448}", "^8", "^1", "^", "L", "J", "\u{ff8f}", "a", "|", "\u{3b1}", "\u{e9}\u{e0}\u{fc}", "\u{ff}\u{fe}", "\u{fe}\u{ff}", "\u{ef}\u{bb}\u{bf}", "\u{44f}\u{44e}", "\u{83}", "\u{8a}\u{9f}", "\u{101}\u{123}", "\u{2019}\u{201c}\u{201e}", "\u{4e5b}", "\u{7107}"];   // runs whose bytes look like a byte-order mark; C1 code points (characters of some codepages only); Baltic-only letters; typographic quotes (present in every single-byte codepage, at different bytes in ISO 8859 look-alikes)
    let smax = if a.thorough() { 4 } else { 3 };
    let mut sidx: Vec<usize> = vec![];
    loop {
        let s: String = sidx.iter().map(|i| segs[*i]).collect();
        let (e, _, t) = check(&s, &mut st); st.evaluations += 1; st.distinct_nontrivial += 1; st.bump("segment strings");
        if st.evaluations % 7 == 0 { out.case(&format!("escape {}", cps(&s)), &cps(&e)); out.case(&format!("strip {}", cps(&s)), &cps(&t)); }
        let mut k = sidx.len();
        loop { if k == 0 { sidx = vec![0; sidx.len() + 1]; break; } k -= 1; if sidx[k] + 1 < segs.len() { sidx[k] += 1; for j in k + 1..sidx.len() { sidx[j] = 0; } break; } }
        if sidx.len() > smax { break; }
    }
    st.exhaustive.push(format!("all sequences of <= {smax} segments over a {}-segment pool (CJK, Latin-1 runs of length 1-3 in the CJK lead-byte ranges, Cyrillic, Greek, half-width kana, ^8, ^1, caret, codepage letters, reserved character)", segs.len()));
    for _ in 0..(if a.thorough() { 400_000 } else { 60_000 }) {
        let n = rng.range(3, 7) as usize;
        let s: String = (0..n).map(|_| *rng.pick(&segs)).collect();
        let _ = check(&s, &mut st); st.evaluations += 1; st.bump("segment strings");
    }
    st.rule = "real escape / unescape / strip and the escape -> to_lossy_bytes -> to_lossy_string -> unescape composition: exhaustive over a class alphabet up to a bounded length, random Unicode strings up to 40 characters; non-trivial = contains a caret / random".into();
    st.sample("escape ^|*1 -> ^^^v^a1".into());
    out.finish(&st);
}

// ---------------------------------------------------------------- C10
pub fn run_c10(a: &Args) {
    let mut st = Stats::default(); let mut out = Out::new(&a.out);
    let mut rng = Rng::new(a.seed);
    // encodings per letter as LFS assigns them (oracle); per-character encodability
    let encs: Vec<(char, &'static Encoding)> = LETTERS.iter().map(|l| (*l, lfs_encoding(*l))).collect();
    let trail5e = |c: char| encs.iter().any(|(_, e)| enc_one(e, c).map(|w| w.len() == 2 && w[1] == 0x5e).unwrap_or(false));
    let encodable = |c: char| c.is_ascii() || encs.iter().any(|(_, e)| enc_one(e, c).map(|w| !w.is_ascii()).unwrap_or(false));

    let oracle = |s: &str, st: &mut Stats| -> (Vec<u8>, String) {
        let id = cps(s);
        let b = match watched("to_lossy_bytes", || id.clone(), || guard(|| to_lossy_bytes(s).to_vec())) { Some(b) => b, None => { st.fail("[C10] to_lossy_bytes panics".into(), id.clone()); vec![] } };
        let back = match watched("to_lossy_string", || format!("bytes:{}=", hex(&b)), || guard(|| to_lossy_string(&b).to_string())) { Some(x) => x, None => { st.fail("[C10] to_lossy_string panics".into(), id.clone()); String::new() } };
        if s.is_ascii() && b != s.as_bytes() { st.fail(format!("[C10] pure ASCII {:?} is not passed through byte for byte", s), id.clone()); }
        let cs: Vec<char> = s.chars().collect();
        if !s.contains('^') {
            // expected: unencodable characters become '?', everything else survives
            let want: String = cs.iter().map(|c| if encodable(*c) { *c } else { '?' }).collect();
            if back != want {
                let in_class = cs.windows(2).any(|w| trail5e(w[0]) && MARKERS.contains(w[1]));
                st.fail_class(if in_class { "c10-trail-byte-5e-before-letter" } else { "" }, format!("[C10] {:?} -> bytes {} -> {:?}, expected {:?}", s, hex(&b), back, want), id.clone());
            }
        }
        if s.contains('^') { decode_oracle(&b, st); }
        (b, back)
    };
    if let Some(r) = &a.replay { if let Some(rest) = r.strip_prefix("bytes:") { let (h, want) = rest.split_once('=').unwrap(); let got = cps(&to_lossy_string(&unhex(h))); if got == want { println!("PASS {got}"); return } else { println!("FAIL bytes {h} decode to {got}, expected {want}"); std::process::exit(1) } } }
    if let Some(r) = &a.replay { let s: String = if r == "-" { String::new() } else { r.split(',').map(|x| char::from_u32(u32::from_str_radix(x, 16).unwrap()).unwrap()).collect() }; let mut st = Stats::default(); let (b, back) = oracle(&s, &mut st); if st.failures_total > 0 { println!("FAIL [{}] {}", st.failures[0].0, st.failures[0].1); std::process::exit(1) } else { println!("PASS {} {:?}", hex(&b), back); return } }

    // --- 1. the table the implementation uses for each marker letter is LFS's Windows codepage (observed through the public decoder)
    let ms: HashMap<(char, Vec<u8>), char> = std::fs::read_to_string(format!("{}/../ms_tables.txt", a.out)).unwrap_or_default().lines().filter_map(|l| { let t: Vec<&str> = l.split(' ').collect(); if t.len() == 3 { Some(((t[0].parse::<u8>().ok()? as char, unhex(t[1])), char::from_u32(t[2].parse().ok()?)?)) } else { None } }).collect();
    if ms.is_empty() { st.notes.push("Microsoft table dump (tools/ms_tables.py) not available: the independent table oracle was skipped".into()); }
    let mut deltas: std::collections::BTreeMap<char, u64> = std::collections::BTreeMap::new(); let mut compared = 0u64;
    for ((letter, bytes), want) in &ms {
        if bytes.contains(&0x5e) && bytes.len() == 2 { /* still compared: the decoder is given the pair after a marker, no following letter */ }
        compared += 1; st.evaluations += 1;
        let got = impl_decode(*letter, bytes);
        let mut it = got.chars(); let g = it.next(); let single = it.next().is_none();
        if !(single && g == Some(*want)) {
            // tolerated WHATWG/Microsoft nuances (fixed list): cp932 private-use single bytes; cp950 rows C6A1..C8FE (WHATWG Big5 includes HKSCS)
            let tol = (*letter == 'J' && bytes.len() == 1 && [0xa0u8, 0xfd, 0xfe, 0xff].contains(&bytes[0]))
                || (*letter == 'H' && bytes.len() == 2 && (0xc6..=0xc8).contains(&bytes[0]))
                || (*letter == 'H' && bytes.len() == 2 && (bytes[0] == 0xa1 || bytes[0] == 0xa2 || bytes[0] == 0xf9) )
                || (*letter == 'S' && bytes.len() == 1 && bytes[0] == 0x80)
                || ((*want as u32) >= 0xe000 && (*want as u32) <= 0xf8ff);
            *deltas.entry(*letter).or_insert(0) += 1;
            if !tol { st.fail(format!("[C10] ^{letter}: bytes {} decode to {:?}, Microsoft's table says {:?}", hex(bytes), got, want), format!("table {} {}", letter, hex(bytes))); }
        }
    }
    st.add("table:entries_compared_with_microsoft", compared);
    for (l, n) in &deltas { st.add(&format!("table:tolerated_deltas_^{l}"), *n); }
    // ^8 returns to Latin-1 and is kept in the text
    for b in 0x80..=0xffu8 { let got = to_lossy_string(&[b'^', b'8', b]).to_string(); let want = format!("^8{}", encoding_rs::WINDOWS_1252.decode_without_bom_handling(&[b]).0); st.evaluations += 1; if got != want { st.fail(format!("[C10] ^8 then byte {b:02x} decodes to {:?}, expected {:?}", got, want), format!("table 8 {b:02x}")); } }

    // --- 2. the oracle hypotheses of the Coq model, on encoding_rs itself, and the model's tables
    let mut tf = std::io::BufWriter::new(std::fs::File::create(format!("{}/tables.txt", a.out)).unwrap());
    let mut pools: std::collections::BTreeMap<char, Vec<char>> = std::collections::BTreeMap::new();   // ordered: the random strings drawn from it must depend on the seed only
    let step = if a.thorough() { 1 } else { 1 };
    for (l, e) in &encs {
        let mut cp = 0x80u32;
        while cp < 0x30000 {
            if let Some(c) = char::from_u32(cp) { if let Some(w) = enc_one(e, c) {
                st.evaluations += 1;
                if w.is_empty() || w.len() > 2 { st.fail(format!("[C10 oracle] {} encodes U+{cp:04X} as {}", e.name(), hex(&w)), format!("enc {l} {cp:x}")); }
                // an ASCII result for a non-ASCII character (Shift_JIS: U+00A5 -> 5C, U+203E -> 7E) is rejected by the implementation
                if w[0] < 0x80 { st.bump("oracle:non_ascii_char_encoded_as_ascii(rejected)"); cp += step; continue; }
                let (d, _) = e.decode_without_bom_handling(&w);
                if d.chars().count() != 1 || d.chars().next() != Some(c) { st.bump("oracle:enc_not_inverted_by_dec"); }
                else { pools.entry(*l).or_default().push(c); }
                let _ = writeln!(tf, "E {} {} {}", *l as u32, cp, hex(&w));
                // prefix behaviour: decoding w followed by ASCII continues after w
                let mut w2 = w.clone(); w2.extend_from_slice(b"a~"); let (d2, _) = e.decode_without_bom_handling(&w2);
                if d2 != format!("{c}a~") { st.bump("oracle:suffix_sensitive"); }
            } }
            cp += step;
        }
    }
    for (l, _) in &encs { if let Some(p) = pools.get(l) { for c in p.iter().take(0) { let _ = c; } } }
    // decoder tables: every single byte and every byte pair that decodes to exactly one character
    for (l, e) in encs.iter().cloned().chain([('8', encoding_rs::WINDOWS_1252)]) {
        for b in 0x80..=0xffu32 { let arr = [b as u8]; let (d, err) = e.decode_without_bom_handling(&arr); let mut it = d.chars(); if let (false, Some(c), None) = (err, it.next(), it.next()) { let _ = writeln!(tf, "D {} {:02x} {}", l as u32, b, c as u32); } }
        if !e.is_single_byte() { for a in 0x81..=0xfeu32 { for b in 0x40..=0xfeu32 { let arr = [a as u8, b as u8]; let (d, err) = e.decode_without_bom_handling(&arr); let cs: Vec<char> = d.chars().collect(); let lead_alone = e.decode_without_bom_handling(&[a as u8]).1; if !err && (cs.len() == 1 || (cs.len() == 2 && lead_alone)) && !cs.contains(&'\u{fffd}') { let _ = writeln!(tf, "D {} {:02x}{:02x} {}", l as u32, a, b, cs.iter().map(|c| (*c as u32).to_string()).collect::<Vec<_>>().join("+")); } } } }
    }
    tf.flush().unwrap(); drop(tf);
    // the model driver checks the lead-byte / ^8 hypotheses of the round-trip theorem against these tables
    out.case("oraclecheck", "oracle lead2:0 lead1:0 prop:0");
    st.exhaustive.push("every Unicode scalar below U+30000 x the 10 LFS codepages: encode, decode back, lead byte >= 0x80, ASCII suffix transparency".into());

    // --- 3. strings over the union repertoire: implementation vs model, and the round-trip oracle
    let all: Vec<char> = pools.values().flatten().cloned().collect();
    let t5e: Vec<char> = all.iter().cloned().filter(|c| trail5e(*c)).collect();
    st.add("repertoire:characters", all.len() as u64); st.add("repertoire:with_trail_byte_5e", t5e.len() as u64);
    let special: Vec<char> = vec!['ÿ', 'þ', 'ï', '»', '¿', '\u{80}', '€', '?', '😀', '\u{fffd}', 'ě', 'ш', 'ώ', 'ı', 'ū', 'ﾏ', '美', '한', '中', '國'];
    let unrep: Vec<char> = vec!['\u{1f600}', '\u{2764}', '\u{fe0f}', '\u{fe00}', '\u{200d}', '\u{1f3fb}', '\u{1f3ff}', '\u{301}', '\u{20e3}', '\u{e0001}', '\u{fffd}', '\u{10ffff}'];
    let n = if a.thorough() { 300_000 } else { 12_000 };
    let mut seen = HashSet::new();
    for i in 0..n {
        let len = match i % 5 { 0 => rng.range(1, 3), 1 | 2 => rng.range(2, 12), _ => rng.range(8, 60) } as usize;
        let style = i % 7;
        let s: String = (0..len).map(|_| match (style, rng.below(8)) {
            (0, _) => char::from_u32(rng.range(0x20, 0x7e) as u32).unwrap(),
            (_, 0) | (_, 1) => char::from_u32(rng.range(0x20, 0x7e) as u32).unwrap(),
            (_, 2) => *rng.pick(&special),
            (1, _) => { let l = *rng.pick(&LETTERS); *rng.pick(pools.get(&l).unwrap()) },
            (2, 3) | (2, 4) => if t5e.is_empty() { 'x' } else { *rng.pick(&t5e) },
            (2, _) => *rng.pick(&MARKERS.chars().collect::<Vec<_>>()),
            (3, _) => *rng.pick(pools.get(&'J').unwrap()),
            (4, 3) => '^',
            // runs of characters that exist in no codepage (emoji, joiners, variation selectors, skin-tone modifiers, combining marks): one '?' each
            (5, 3) | (5, 4) | (5, 5) | (6, 3) => *rng.pick(&unrep),
            _ => *rng.pick(&all),
        }).collect();
        st.evaluations += 1; if seen.insert(s.clone()) && !s.is_ascii() { st.distinct_nontrivial += 1; }
        let (b, back) = oracle(&s, &mut st);
        st.bump(&format!("string:{}", if s.is_ascii() { "ascii" } else if s.contains('^') { "with-caret" } else { "multi-codepage" }));
        out.case(&format!("tobytes {}", cps(&s)), &hex(&b));
        if !back.contains('\u{fffd}') { out.case(&format!("tostring {}", hex(&b)), &cps(&back)); }
    }
    // BOM-looking text in every position
    // ... and Latin-1 text whose bytes happen to be well-formed UTF-8 (what "é", "€", "ü" look like when read in the wrong charset)
    for s in ["ÿþA", "þÿA", "ï»¿abc", "xÿþA", "^Eÿþ", "ÿ", "þÿ", "Ã©", "â‚¬", "Ã¼ber", "naÃ¯ve cafÃ©", "Â£5", "ï¿½", "ð\u{178}\u{2DC}\u{20AC}", "abc Ã\u{2030}"] { st.evaluations += 1; let (b, back) = oracle(s, &mut st); out.case(&format!("tobytes {}", cps(s)), &hex(&b)); out.case(&format!("tostring {}", hex(&b)), &cps(&back)); }
    // --- 4. decode side: every byte value after every marker, random bytes (totality; model compared on valid sequences)
    for l in MARKERS.chars() { for b in 0..=255u8 { for tail in [vec![], vec![b'a'], vec![0x5e, b'L'], vec![0x40]] {
        let mut v = vec![b'x', b'^', l as u8, b]; v.extend(&tail); st.evaluations += 1;
        decode_oracle(&v, &mut st);
        match watched("to_lossy_string", || format!("bytes:{}=", hex(&v)), || guard(|| to_lossy_string(&v).to_string())) { None => st.fail("[C10] to_lossy_string panics".into(), format!("bytes {}", hex(&v))), Some(sv) => { if !sv.contains('\u{fffd}') && b != 0x5e && !(b >= 0x80 && tail.first() == Some(&0x5e)) { out.case(&format!("tostring {}", hex(&v)), &cps(&sv)); } } }
    } } }
    st.exhaustive.push("every byte value after every marker letter (11 x 256 x 4 continuations)".into());
    // every string of up to 3 (thorough: 4) class bytes after every marker letter, as the END of the input: lead bytes of the double-byte
    // codepages, digits, caret, letters, 0x80 / 0xFF - the scan must neither panic nor read past the end
    {
        const CLS: [u8; 13] = [0x81, 0xfe, 0xa1, 0xe0, 0x9f, b'0', b'9', b'^', b'a', b'S', 0x80, 0xff, 0x7f];
        let maxl = if a.thorough() { 4 } else { 3 };
        for l in MARKERS.chars() { let mut idx: Vec<usize> = vec![];
            loop {
                let mut v = vec![b'^', l as u8]; v.extend(idx.iter().map(|i| CLS[*i])); st.evaluations += 1;
                decode_oracle(&v, &mut st);
                if watched("to_lossy_string", || format!("bytes:{}=", hex(&v)), || guard(|| to_lossy_string(&v).to_string())).is_none() { st.fail("[C10] to_lossy_string panics".into(), format!("bytes:{}=", hex(&v))); }
                let mut kk = idx.len();
                loop { if kk == 0 { idx = vec![0; idx.len() + 1]; break; } kk -= 1; if idx[kk] + 1 < CLS.len() { idx[kk] += 1; for j in kk + 1..idx.len() { idx[j] = 0; } break; } }
                if idx.len() > maxl { break; }
            }
        }
        st.exhaustive.push(format!("every string of <= {maxl} class bytes (13 classes) after every marker letter, ending the input"));
    }
    for _ in 0..(if a.thorough() { 500_000 } else { 30_000 }) { let len = rng.range(0, 24) as usize; let mut v = rng.bytes(len); for i in 0..v.len() { if rng.chance(1, 5) { v[i] = b'^'; } else if rng.chance(1, 6) { v[i] = *rng.pick(MARKERS.as_bytes()); } } st.evaluations += 1; if watched("to_lossy_string", || format!("bytes:{}=", hex(&v)), || guard(|| to_lossy_string(&v).to_string())).is_none() { st.fail("[C10] to_lossy_string panics".into(), format!("bytes {}", hex(&v))); } decode_oracle(&v, &mut st); }
    // runs of bytes that are no character in the codepage (0x80 / 0xFF, which are neither lead bytes nor carets), 1..255 of them, between valid
    // characters of that codepage: whatever stands for the malformed bytes, the characters around and after them are still interpreted in the
    // codepage - none is dropped, none moves (compared with the codepage decoder applied to the same run of bytes)
    for l in LETTERS.iter() { let Some(p) = pools.get(l) else { continue };
        for pat in 0..3 { for n in [1usize, 2, 3, 5, 8, 11, 12, 13, 15, 16, 17, 31, 32, 33, 64, 100, 255] { for before in [false, true] { for after in 0..3 {
            let mut v = vec![b'^', *l as u8];
            let c1 = p[(n * 7 + pat) % p.len()]; let c2 = p[(n * 13 + pat + 1) % p.len()];
            if before { if let Some(w) = enc_one(lfs_encoding(*l), c1) { v.extend(w); } }
            for i in 0..n { v.push(match pat { 0 => 0x80, 1 => 0xff, _ => if i % 2 == 0 { 0xff } else { 0x80 } }); }
            match after { 0 => { if let Some(w) = enc_one(lfs_encoding(*l), c2) { v.extend(w); } }, 1 => v.extend_from_slice(b"abc"), _ => { if let Some(w) = enc_one(lfs_encoding(*l), c2) { v.extend(&w); v.extend(&w); } v.extend_from_slice(b" ^Lz") } }
            st.evaluations += 1; st.bump("runs of malformed bytes between valid characters");
            let want = ref_decode_lossy(&v);
            match watched("to_lossy_string", || format!("bytes:{}=", hex(&v)), || guard(|| to_lossy_string(&v).to_string())) { None => st.fail("[C10] to_lossy_string panics".into(), format!("bytes:{}=", hex(&v))), Some(got) => if got != want { st.fail(format!("[C10] bytes {} ({n} malformed bytes after ^{l}) decode to {:?} but the codepage's decoder gives {:?}", hex(&v), got.chars().rev().take(12).collect::<String>().chars().rev().collect::<String>(), want.chars().rev().take(12).collect::<String>().chars().rev().collect::<String>()), format!("lossy {}", hex(&v))); } }
        } } } }
    }
    // marker-rich valid sequences: two or three segments in different codepages, with ^8 and repeated / trailing markers
    for _ in 0..(if a.thorough() { 200_000 } else { 20_000 }) {
        let mut v: Vec<u8> = vec![];
        for _ in 0..rng.range(1, 4) {
            if rng.chance(4, 5) { v.push(b'^'); v.push(*rng.pick(MARKERS.as_bytes())); if rng.chance(1, 8) { v.push(b'^'); v.push(*rng.pick(MARKERS.as_bytes())); } }
            // a colour code (^0..^9) in the middle of a segment: only ^8 may change the codepage
            if rng.chance(1, 3) { let c0 = v.iter().rposition(|b| *b == b'^').and_then(|i| v.get(i + 1)).map(|l| if *l == b'8' { 'L' } else { *l as char }).unwrap_or('L'); if let Some(p) = pools.get(&c0) { let c = *rng.pick(p); if let Some(w) = enc_one(lfs_encoding(c0), c) { v.extend(&w); v.push(b'^'); v.push(b'0' + rng.below(10) as u8); if v[v.len() - 1] != b'8' { v.extend(&w); } } } }
            let cur = v.iter().rposition(|b| *b == b'^').and_then(|i| v.get(i + 1)).map(|l| if *l == b'8' { 'L' } else { *l as char }).unwrap_or('L');
            if let Some(p) = pools.get(&cur) { for _ in 0..rng.range(0, 4) { if rng.chance(1, 3) { v.push(rng.range(0x20, 0x7e) as u8); } else { let c = *rng.pick(p); if let Some(w) = enc_one(lfs_encoding(cur), c) { v.extend(w); } } } }
        }
        decode_oracle(&v, &mut st);
    }
    st.rule = "real to_lossy_bytes / to_lossy_string: the implementation's per-letter tables observed through the decoder vs Microsoft's cp125x/932/936/949/950 tables (Python codecs) on every defined byte / byte pair; encoding_rs oracle hypotheses on every scalar below U+30000; random strings over the union repertoire incl. BOM look-alikes, 0x5E-trail characters before marker letters, unrepresentable characters; every byte after every marker; random bytes; distinct non-ASCII strings counted".into();
    st.sample("tobytes 11b,161 (ěš) -> 5e45ec9a (^E EC 9A)".into());
    out.finish(&st);
}
