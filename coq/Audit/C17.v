Require Import Base.Bytes Files.Parser Gen.FilesTab Wire.Layout Files.Formats Files.FormatsProofs Props.C17.
Check c17_pth_total : forall bs, parse_pth bs <> Panic.
Check c17_smx_total : forall bs, parse_smx bs <> Panic.
Check c17_pth_roundtrip : forall f t, wf_pth f = true -> p_pth (w_pth f ++ t) = Ok (f, t).
Check c17_smx_roundtrip : forall f t, wf_smx f = true -> p_smx (w_smx f ++ t) = Ok (f, t).
Check c17_pth_truncation_rejected : forall f k, wf_pth f = true -> (k < length (w_pth f))%nat -> parse_pth (firstn k (w_pth f)) = Err.
Check c17_smx_truncation_rejected : forall f k, wf_smx f = true -> (k < length (w_smx f))%nat -> parse_smx (firstn k (w_smx f)) = Err.
Check c17_pth_accepted_prefix_minimal : forall bs f r, p_pth bs = Ok (f, r) ->
  exists c, bs = c ++ r /\ forall k, (k < length c)%nat -> parse_pth (firstn k c) = Err.
Check c17_smx_accepted_prefix_minimal : forall bs f r, p_smx bs = Ok (f, r) ->
  exists c, bs = c ++ r /\ forall k, (k < length c)%nat -> parse_smx (firstn k c) = Err.
Check c17_pth_work_bound : forall bs f r, p_pth bs = Ok (f, r) -> (length (pth_nodes f) * rec_width gen_pth_node <= length bs)%nat.
Print Assumptions c17_pth_total.
Print Assumptions c17_smx_total.
Print Assumptions c17_pth_roundtrip.
Print Assumptions c17_smx_roundtrip.
Print Assumptions c17_pth_truncation_rejected.
Print Assumptions c17_smx_truncation_rejected.
Print Assumptions c17_pth_accepted_prefix_minimal.
Print Assumptions c17_smx_accepted_prefix_minimal.
Print Assumptions c17_pth_work_bound.
