(* Builder/BuilderProofs.v — C18: for ALL setter sequences the ISI carries, per field, the last
   value set or the documented default; each flag setter changes exactly its bit. *)
Require Import Coq.Strings.String.
Require Import Base.Bytes Gen.BuilderTab Gen.NetConsts Net.Frame Builder.Builder.
Local Open Scope N_scope.

(* last value an op sequence assigns to a field, if any *)
Fixpoint last_some {A} (f : op -> option A) (ops : list op) : option A :=
  match ops with
  | [] => None
  | o :: t => match last_some f t with Some v => Some v | None => f o end
  end.
Lemma last_some_app {A} (f : op -> option A) a b :
  last_some f (a ++ b) = match last_some f b with Some v => Some v | None => last_some f a end.
Proof. induction a as [|o a IH]; cbn [app last_some]; [destruct (last_some f b); reflexivity|]. rewrite IH. destruct (last_some f b); reflexivity. Qed.

Definition sets_reqi o := match o with OReqi r => Some r | _ => None end.
Definition sets_admin o := match o with OAdmin a => Some a | _ => None end.
Definition sets_prefix o := match o with OPrefix a => Some a | _ => None end.
Definition sets_iname o := match o with OIname a => Some a | _ => None end.
Definition sets_interval o := match o with OInterval a => Some a | _ => None end.
Definition sets_mode o := match o with OMode m => Some m | _ => None end.
Definition sets_verify o := match o with OVerify v => Some v | _ => None end.
Definition sets_proto o := match o with OTcp => Some Tcp | OUdp _ => Some Udp | ORelay => Some Relay | _ => None end.
Definition sets_local o := match o with OUdp l => Some l | _ => None end.

(* generic: a projection only written by ops for which [f] is Some *)
Lemma fold_field {A} (proj : builder -> A) (f : op -> option A)
  (Hstep : forall b o, proj (apply b o) = match f o with Some v => v | None => proj b end) :
  forall ops b, proj (fold_left apply ops b) = match last_some f ops with Some v => v | None => proj b end.
Proof.
  intros ops. induction ops as [|o t IH] using rev_ind; intros b; [reflexivity|].
  rewrite fold_left_app, last_some_app. cbn [fold_left last_some]. rewrite Hstep, IH.
  destruct (f o); reflexivity.
Qed.

Theorem reqi_last_or_default ops : b_reqi (build ops) = match last_some sets_reqi ops with Some v => v | None => 0 end.
Proof. apply (fold_field b_reqi sets_reqi). intros b o. destruct o; reflexivity. Qed.
Theorem admin_last_or_default ops : b_admin (build ops) = match last_some sets_admin ops with Some v => v | None => None end.
Proof. apply (fold_field b_admin sets_admin). intros b o. destruct o; reflexivity. Qed.
Theorem prefix_last_or_default ops : b_prefix (build ops) = match last_some sets_prefix ops with Some v => v | None => None end.
Proof. apply (fold_field b_prefix sets_prefix). intros b o. destruct o; reflexivity. Qed.
Theorem iname_last_or_default ops : b_iname (build ops) = match last_some sets_iname ops with Some v => v | None => None end.
Proof. apply (fold_field b_iname sets_iname). intros b o. destruct o; reflexivity. Qed.
Theorem interval_last_or_default ops : b_interval (build ops) = match last_some sets_interval ops with Some v => v | None => None end.
Proof. apply (fold_field b_interval sets_interval). intros b o. destruct o; reflexivity. Qed.
Theorem mode_last_or_default ops : b_mode (build ops) = match last_some sets_mode ops with Some v => v | None => Compressed end.
Proof. apply (fold_field b_mode sets_mode). intros b o. destruct o; reflexivity. Qed.
Theorem verify_last_or_default ops : b_verify (build ops) = match last_some sets_verify ops with Some v => v | None => true end.
Proof. apply (fold_field b_verify sets_verify). intros b o. destruct o; reflexivity. Qed.
Theorem proto_last_or_default ops : b_proto (build ops) = match last_some sets_proto ops with Some v => v | None => Tcp end.
Proof. apply (fold_field b_proto sets_proto). intros b o. destruct o; reflexivity. Qed.
Theorem local_last_or_default ops : b_udp_local (build ops) = match last_some sets_local ops with Some v => v | None => None end.
Proof. apply (fold_field b_udp_local sets_local). intros b o. destruct o; reflexivity. Qed.

(* ---- flags: each bit is decided by the last op that touches it ---- *)
(* what an op does to bit position k: Some v = forces it to v *)
Definition touches (k : N) (o : op) : option bool :=
  match o with
  | OFlags f => Some (N.testbit f k)
  | OFlag i e => if N.testbit (setter_bit i) k then Some e else None
  | _ => None
  end.

Lemma set_flag_bit flags bit e k :
  N.testbit (set_flag flags bit e) k = if N.testbit bit k then e else N.testbit flags k.
Proof.
  unfold set_flag. destruct e.
  - rewrite N.lor_spec. destruct (N.testbit bit k); [apply orb_true_r|apply orb_false_r].
  - rewrite N.ldiff_spec. destruct (N.testbit bit k); cbn [negb]; [apply andb_false_r|apply andb_true_r].
Qed.

Theorem flags_bit_last_or_default ops k :
  N.testbit (b_flags (build ops)) k = match last_some (touches k) ops with Some v => v | None => false end.
Proof.
  change false with (N.testbit (b_flags default_builder) k). unfold build.
  apply (fold_field (fun b => N.testbit (b_flags b) k) (touches k)).
  intros b o. destruct o; try reflexivity. cbn [apply b_flags touches]. rewrite set_flag_bit.
  destruct (N.testbit (setter_bit i) k); reflexivity.
Qed.

(* each of the setters regenerated from the source owns exactly one bit, all distinct, and it is the
   bit of the IsiFlags constant of the same name *)
Definition single_bit (b : N) : bool := existsb (fun k => b =? 2 ^ k) [0;1;2;3;4;5;6;7;8;9;10;11;12;13;14;15].
Fixpoint nodup_n (l : list N) : bool := match l with [] => true | x :: t => negb (existsb (N.eqb x) t) && nodup_n t end.
Fixpoint upper (s : string) : string :=
  match s with
  | EmptyString => EmptyString
  | String c t =>
      let n := Ascii.nat_of_ascii c in
      String (if (Nat.leb 97 n && Nat.leb n 122)%bool then Ascii.ascii_of_nat (n - 32) else c) (upper t)
  end.
Fixpoint sfind (k : string) (tab : list (string * N)) : option N :=
  match tab with [] => None | (a, b) :: t => if String.eqb k a then Some b else sfind k t end.
Definition setters_ok : bool :=
  forallb (fun '(nm, b) => single_bit b &&
            match sfind (upper (substring 9 (String.length nm - 9) nm)) gen_isi_flag_consts with Some c => c =? b | None => false end)
          gen_flag_setters &&
  nodup_n (map snd gen_flag_setters) && Nat.eqb (length gen_flag_setters) (length gen_isi_flag_consts)
  && gen_isi_shape_pinned && gen_isi_version_is_VERSION.
Lemma setters_hold : setters_ok = true. Proof. vm_compute. reflexivity. Qed.

(* ---- isi(): every field from the last setting or its default; udp port only for UDP ---- *)
Theorem isi_fields ops :
  let i := isi_of (build ops) in
  i_reqi i = match last_some sets_reqi ops with Some v => v | None => 0 end /\
  i_admin i = match last_some sets_admin ops with Some (Some a) => a | _ => [] end /\
  i_iname i = match last_some sets_iname ops with Some (Some n) => n | _ => gen_default_iname end /\
  i_prefix i = match last_some sets_prefix ops with Some (Some p) => p | _ => 0 end /\
  i_interval i = match last_some sets_interval ops with Some (Some d) => d | _ => 0 end /\
  i_version i = gen_version /\
  i_udpport i = match last_some sets_proto ops with
                | Some Udp => match last_some sets_local ops with Some (Some p) => p | _ => 0 end
                | _ => 0 end /\
  (forall k, N.testbit (i_flags i) k = match last_some (touches k) ops with Some v => v | None => false end).
Proof.
  cbv zeta. unfold isi_of. cbn [i_reqi i_admin i_iname i_prefix i_interval i_version i_udpport i_flags].
  rewrite reqi_last_or_default, admin_last_or_default, iname_last_or_default, prefix_last_or_default,
          interval_last_or_default, proto_last_or_default, local_last_or_default.
  repeat split.
  - destruct (last_some sets_admin ops) as [[a|]|]; reflexivity.
  - destruct (last_some sets_iname ops) as [[a|]|]; reflexivity.
  - destruct (last_some sets_prefix ops) as [[a|]|]; reflexivity.
  - destruct (last_some sets_interval ops) as [[a|]|]; reflexivity.
  - destruct (last_some sets_proto ops) as [[| |]|]; try reflexivity.
    destruct (last_some sets_local ops) as [[a|]|]; reflexivity.
  - intros k. apply flags_bit_last_or_default.
Qed.

(* a setter outside the handshake's footprint (relay_select_host, the relay passwords, connect_timeout, tcp_nodelay, relay_websocket)
   can be dropped from any call sequence without changing the configuration the handshake is built from *)
Lemma build_app ops1 ops2 : build (ops1 ++ ops2) = fold_left apply ops2 (build ops1).
Proof. unfold build. apply fold_left_app. Qed.
Theorem other_setter_is_invisible ops1 ops2 : build (ops1 ++ OOther :: ops2) = build (ops1 ++ ops2).
Proof. rewrite !build_app. reflexivity. Qed.
