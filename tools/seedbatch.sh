#!/bin/sh
# seedbatch.sh <suffix> <ids...> : evaluate /tmp/mut/<id><suffix>/OUT with seedtest.py, demo command = first line of README.txt
suf=$1; shift
for p in "$@"; do
  d=/tmp/mut/${p}${suf}
  cmd=$(head -1 $d/OUT/README.txt | sed 's/^ *//; s/`//g; s/^\$ //; s/^cd [^ ]* && //')
  name=$(python3 -c "import json,re; m=json.load(open('$d/OUT/meta.json')); s=re.sub(r'[^a-z0-9]+','-',(m.get('summary') or 'x').lower())[:48].strip('-'); print('$p$suf-'+s)")
  echo "=== $p: $cmd"
  python3 /verif/tools/seedtest.py "$name" $d "$cmd" 2>&1 | tail -3 | cut -c1-420
done
