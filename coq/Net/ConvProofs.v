(* Net/ConvProofs.v — conversations on a connection (Net/Framed.v [conv]): the caller's write() calls,
   handshake() included, neither change what its read() calls do (results, keep-alive replies, version
   gate) nor are changed by them: the connection has no state that a write could touch. *)
Require Import Base.Bytes Net.Frame Net.Framed.
Local Open Scope N_scope.

Section ConvProofs.
  Variable packet : Type.
  Variable parse : bytes -> res packet.
  Variable ver_of : packet -> option N.
  Variable is_keepalive : packet -> bool.
  Variable version : N.
  Variable m : mode.
  Variable verify : bool.
  Variable pong : bytes.

  Notation out := (out packet).
  Notation read := (read packet parse ver_of is_keepalive version m verify pong).
  Notation session := (session packet parse ver_of is_keepalive version m verify pong).
  Notation conv := (conv packet parse ver_of is_keepalive version m verify pong).

  Fixpoint reads (ops : list uop) : nat :=
    match ops with [] => O | URead :: t => S (reads t) | UWrite _ :: t => reads t end.
  Fixpoint frames_of (ops : list uop) : list bytes :=
    match ops with [] => [] | URead :: t => frames_of t | UWrite f :: t => f :: frames_of t end.
  Definition from_read (x : bool * out) : bool := negb (fst x).
  Definition from_write (x : bool * out) : bool := fst x.

  Lemma filter_read_false (o : list out) : filter from_read (map (pair false) o) = map (pair false) o.
  Proof. induction o as [|x o IH]; [reflexivity|]. cbn. rewrite IH. reflexivity. Qed.
  Lemma filter_write_false (o : list out) : filter from_write (map (pair false) o) = [].
  Proof. induction o as [|x o IH]; [reflexivity|]. cbn. exact IH. Qed.
  Lemma map_snd_pair (o : list out) : map snd (map (pair false) o) = o.
  Proof. induction o as [|x o IH]; [reflexivity|]. cbn. rewrite IH. reflexivity. Qed.

  (* what the read() calls of a conversation do is the session of that many reads of the same transport *)
  Theorem conv_reads : forall ops buf tr,
    map snd (filter from_read (conv ops buf tr)) = session (reads ops) buf tr.
  Proof.
    induction ops as [|[|f] t IH]; intros buf tr; [reflexivity| |].
    - cbn [Framed.conv reads Framed.session].
      destruct (read buf tr) as [[o b] tr'].
      rewrite filter_app, map_app, filter_read_false, map_snd_pair.
      destruct (existsb (is_final packet) o); [apply app_nil_r|]. f_equal. apply IH.
    - cbn [Framed.conv reads filter from_read fst negb]. apply IH.
  Qed.

  (* what its write() calls put on the wire is their frames, whole, in call order (all of them unless
     a read() ended the conversation first) *)
  Theorem conv_writes : forall ops buf tr,
    exists rest, map snd (filter from_write (conv ops buf tr)) ++ rest = map Wrote (frames_of ops).
  Proof.
    induction ops as [|[|f] t IH]; intros buf tr; [exists []; reflexivity| |].
    - cbn [Framed.conv frames_of].
      destruct (read buf tr) as [[o b] tr'].
      rewrite filter_app, filter_write_false. cbn [app].
      destruct (existsb (is_final packet) o); [eexists; reflexivity|]. apply IH.
    - cbn [Framed.conv frames_of filter from_write fst map snd]. destruct (IH buf tr) as [rest Hr].
      exists rest. cbn [app]. f_equal. exact Hr.
  Qed.
End ConvProofs.
