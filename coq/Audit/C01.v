Require Import Coq.Strings.String Net.Concrete.
Require Import Props.C01.
Require Import Base.Bytes Wire.Layout Wire.Customs Wire.LayoutProofs Wire.CustomProofs Wire.Packet Wire.PacketProofs.
Require Import Gen.Packets Net.Frame.
Local Open Scope N_scope.
Check c01_decode_encode : forall m p fr rest,
  pindom p = true -> frame_encode m p = Ok fr -> frame_decode m (fr ++ rest) = Got p rest.
Check c01_reencode_identical : forall m p fr p',
  pindom p = true -> frame_encode m p = Ok fr -> frame_decode m fr = Got p' [] ->
  frame_encode m p' = Ok fr.
Check c01_parse_unparse : forall p body,
  pindom p = true -> unparse p = Ok body -> parse body = Ok p.
Check c01_layout_roundtrip :
  forall cwidth cenc cdec cindom,
  (forall c bs, cdec c bs <> Panic) ->
  (forall c v b, cenc c v = Ok b -> length b = cwidth c) ->
  (forall c v b, cindom c v = true -> cenc c v = Ok b -> cdec c b = Ok v) ->
  forall l vs tv b rest,
  sindom cindom l vs tv = true -> rest_ok (ltail l) rest -> enc_struct cenc l vs tv = Ok b ->
  dec_struct cwidth cdec l (b ++ rest) = Ok (vs, tv, rest).
Check c01_customs_roundtrip : forall c v b, cindom c v = true -> cenc c v = Ok b -> cdec c b = Ok v.
Check c01_codec_is_stateless_like_the_model : state_tied = true.
Print Assumptions c01_decode_encode.
Print Assumptions c01_reencode_identical.
Print Assumptions c01_parse_unparse.
Print Assumptions c01_layout_roundtrip.
Print Assumptions c01_customs_roundtrip.
Print Assumptions c01_codec_is_stateless_like_the_model.
