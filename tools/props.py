"""Per-property configuration of the check pipeline."""

TRUSTED_COMMON = [
    'Coq 8.16.1 kernel + vm_compute (no native_compute)',
    'tools/translate.py (regex/tokenizer over Rust declarations; fails closed)',
    'extraction (ExtrOcamlBasic only: bool/option/unit/list/prod/sumbool/sumor, andb/orb inlined) + OCaml 4.13.1 + ocaml/prelude.ml conversions',
    'Rust harness (generators, canonicalisation, independent property oracle) linked against /repo by path',
]

PROPS = {
    'C13': dict(
        gens=['vehicle'], coq_targets=['Props/C13.vo'], coqchk_modules=['Props.C13'], group='core', harness='c13',
        axioms_allowed=[],
        proved=['for every byte list: model read = the InSim v9 rule (zeros=unknown / 3 alnum+NUL = built-in name or error / else mod id)',
                'every decodable 4-byte value re-encodes to the identical bytes (all 2^32, by arithmetic, not enumeration)',
                'error iff unrecognised built-in-shaped name; Unknown iff zeros; Mod iff not built-in-shaped and non-zero; Builtin iff named',
                'printed name = wire name for every built-in; the built-in set is the 20 LFS cars; variant identifiers match names'],
        modelled=['binrw [u8;4] read/write and u32 LE write (validated by correspondence on every case)',
                  'the match arms / write arms / Display arms are REGENERATED from vehicle.rs each run (translator)'],
        trusted=['hand-transcribed list of the 20 LFS built-in cars (Core/Vehicle.v lfs_builtin_cars, harness CARS)'],
        assumptions=['Mod/Unknown Display text ({:06X} / "Unknown") is pinned syntactically by the translator, not modelled'],
        exhaustive_when=lambda tier, st: tier == 'thorough' and any('2^32' in s for s in st.get('exhaustive', [])),
    ),
}

LEVEL_TEXT = {
    'C13': 'Theorems over all byte lists / all 2^32 wire values (case analysis + little-endian arithmetic) about a model whose match arms, write arms and Display arms are regenerated from vehicle.rs on every run; finite table facts by vm_compute; model = code checked on 640k cases (all 62^3 names) and, in the thorough tier, the property oracle on all 2^32 values of the real BinRead/BinWrite.',
}

# properties not (yet) claimed, with the reason (kept current)
NOT_APPLICABLE = {p: 'not yet built in this round (work in progress; see DESIGN.md §7 order of work)' for p in
                  ['C01','C02','C03','C04','C05','C06','C07','C08','C09','C10','C11','C12','C14','C15','C16','C17','C18','C19','C20']}

NET_MODELLED = ['Codec/Mode framing, both Framed read loops and write paths are hand-modelled (Net/Frame.v, Net/Framed.v) and tied by differential correspondence on scripted in-memory transports (real blocking + tokio Framed vs extracted model)',
                'framing constants (255/1020/4/x4, VERSION, buffer sizes) and the Packet magic numbers are REGENERATED from the source (Gen/NetConsts.v)',
                'BytesMut pointer arithmetic, the unsafe spare-capacity slices and allocation reclaim are not modelled: the buffer is an unbounded list and the theorems quantify over every read size >= 1 (slice sizes actually offered are logged in the evidence)',
                'tokio runtime (timer wheel, wakers) is not modelled: the 90 s timeout appears as a transport event']
NET_ASSUME = ['the packet layer never panics (forall b, parse b <> Panic): hypothesis of the session theorem, discharged for the real packet decoder by C04',
              'bytes::BytesMut::chunk_mut() is never empty, so every read offers >= 1 byte']
PROPS.update({
    'C05': dict(gens=['consts'], coq_targets=['Props/C05.vo'], coqchk_modules=['Props.C05'], group='net', harness='c05', axioms_allowed=[],
        proved=['session theorem: for every packet layer, mode, list of complete frames, segmentation into non-empty reads and placement of transient errors/timeouts, the non-transient results are exactly one per frame in order then Disconnected, and the transient results are exactly the transport\'s transient events in order (induction over the script; unbounded)',
                'a complete frame decodes whatever follows it; every strict prefix of a frame yields NeedMore',
                'blocking and tokio are the same model function (identical sequences by construction; by correspondence on both implementations)'],
        modelled=NET_MODELLED, assumptions=NET_ASSUME),
    'C06': dict(gens=['consts'], coq_targets=['Props/C06.vo'], coqchk_modules=['Props.C06'], group='net', harness='c06', axioms_allowed=[],
        proved=['write_all over any acceptance script: bytes on the transport are always a prefix of the frame; success means exactly the whole frame; a fair script (no failure, >= |frame| ready turns) always completes; successive writes give the concatenation of the frames in call order; the unit written is one complete frame for the mode',
                'conversations: what the write() calls of any conversation put on the wire is their frames, whole and in call order (conv_writes); on tokio, under every schedule of dropped read() futures and caller writes, a write() first completes an outstanding keep-alive reply and then sends its frame, so the wire carries whole frames only (aconv_ok) and caller frames leave in call order (aconv_user_frames)'],
        modelled=NET_MODELLED + ['conversations: the caller\'s write() / handshake() calls interleaved with its reads are part of the model (Net/Framed.v conv for both connections; Net/Async.v aconv for tokio with read() futures dropped at any pending poll; write() = finish the outstanding reply, then write_all of the frame, polled to completion) and are tied by differential runs of the same conversations on the real connections (harness/src/conv.rs); dropping a write() future is outside the property and the model', 'the fields of both Framed structs and of Codec are REGENERATED (Gen/NetConsts.v) and state_tied = true is a pinned theorem: a new field is state the models lack', 'the WebSocket adaptor under back-pressure is exercised for real (loopback peer with 4 KB socket buffers that does not read until a write stalls), not modelled'], assumptions=['std Write::write_all / tokio write_all_buf loop semantics (retry on Interrupted / Pending) are modelled by write_all and validated by correspondence']),
    'C07': dict(gens=['consts'], coq_targets=['Props/C07.vo'], coqchk_modules=['Props.C07'], group='net', harness='c07', axioms_allowed=[],
        proved=['per decoded packet the outgoing trace is [pong; packet], [packet] or a version rejection: at most one reply, written before the packet is returned',
                'a reply is written iff the packet is a keep-alive (and not rejected by the gate)',
                'whole histories under every segmentation: the interleaved write/return trace is the concatenation of the per-frame traces (corollary of the C05 induction)',
                'the reply is the TINY_NONE frame of the mode ([1,3,0,0] / [4,3,0,0])',
                'conversations: the caller\'s writes (handshake included) do not change what the reads do - the reads of a conversation are the session of that many reads (conv_reads); on tokio under dropped futures and caller writes a keep-alive is returned only after its whole reply is on the wire and reply bytes are written for nothing else (aconv_ok)',
                'the models\' state is exactly the fields of the connection structs (state_tied, regenerated field names)'],
        modelled=NET_MODELLED + ['conversations: the caller\'s write() / handshake() calls interleaved with its reads are part of the model (Net/Framed.v conv for both connections; Net/Async.v aconv for tokio with read() futures dropped at any pending poll; write() = finish the outstanding reply, then write_all of the frame, polled to completion) and are tied by differential runs of the same conversations on the real connections (harness/src/conv.rs); dropping a write() future is outside the property and the model', 'the fields of both Framed structs and of Codec are REGENERATED (Gen/NetConsts.v) and state_tied = true is a pinned theorem: a new field is state the models lack', 'what counts as a keep-alive is decided from the frame bytes in the harness oracle (type 3, request id 0, sub-type 0), independently of the decoder', 'Packet::maybe_pong is tied by correspondence over every (sub-type, reqi) TINY value and every kind; its source shape is pinned by the translator (gen_maybe_pong_pinned, informational)'],
        assumptions=NET_ASSUME),
    'C09': dict(gens=['consts'], coq_targets=['Props/C09.vo'], coqchk_modules=['Props.C09'], group='net', harness='c09', axioms_allowed=[],
        proved=['a decoded packet is rejected iff verification is on, it is a version packet and its version differs from VERSION; the error carries the value',
                'otherwise it is delivered; VERSION regenerated from lib.rs is 9; position in a history is irrelevant (per-frame expectation inside the C05 session theorem)',
                'conversations: caller writes - in particular a handshake() whose ISI asks for another InSim version - do not change the gate (conv_reads); the models\' state is exactly the fields of the connection structs (state_tied)'],
        modelled=NET_MODELLED + ['conversations: the caller\'s write() / handshake() calls interleaved with its reads are part of the model (Net/Framed.v conv for both connections; Net/Async.v aconv for tokio with read() futures dropped at any pending poll; write() = finish the outstanding reply, then write_all of the frame, polled to completion) and are tied by differential runs of the same conversations on the real connections (harness/src/conv.rs); dropping a write() future is outside the property and the model', 'the fields of both Framed structs and of Codec are REGENERATED (Gen/NetConsts.v) and state_tied = true is a pinned theorem: a new field is state the models lack', 'IS_VER frames with every plain version text up to the full 8 bytes of the field are classified from their bytes in the harness oracle', 'Packet::maybe_verify_version tied by correspondence over all 256 values x on/off x both connections'],
        assumptions=NET_ASSUME + ['which connect_* arm applies Builder::verify_version is not covered here (relay arms need a network peer); see DESIGN.md C09']),
})
LEVEL_TEXT.update({
    'C05': 'Induction over the transport script in Coq: unbounded sessions, every segmentation, every placement of transient errors, both modes, any packet layer; the model is tied to the real blocking and tokio Framed by differential runs on scripted transports (all compositions of short streams, sessions far beyond the 6120-byte buffer).',
    'C06': 'Theorems about write_all for every acceptance script (prefix, completeness, fairness, sequencing); tied to the real Framed::write of both connections over scripted transports (all acceptance patterns for short frames, one byte per call for every kind).',
    'C07': 'Per-packet and whole-history theorems (corollary of the C05 induction, which carries the write trace); tied to the real code on every TINY (sub-type, reqi) value, every kind, and all short histories over a 12-frame alphabet, with outgoing bytes captured per read().',
    'C09': 'Gate theorem (iff) for all version values and its embedding in the session theorem; VERSION regenerated from source; tied to the real code on all 256 values x on/off x both connections x positions in histories.',
})
for k in ['C05','C06','C07','C09']: NOT_APPLICABLE.pop(k, None)

WIRE_MODELLED = ['binrw-derived code is modelled, not verified: the layout DSL semantics (field order, little-endian integers, pad = zeros / seek, repr enums reject unknown discriminants, from_bits_truncate, calc/count, until_eof) is validated for all 73 kinds by correspondence (real Codec vs extracted model) on structured frames',
                 'the 72 declarative layouts, Packet magic numbers, enum/flag tables, PlcAllowedCarsSet tables and flag masks are REGENERATED from the Rust declarations on every run (tools/gen_packets.py, fail-closed grammar)',
                 'hand-written BinRead/BinWrite impls (Vehicle, Track, RaceLaps, Fuel, SmallType, CimMode, game version, ConInfo nibbles, Mso) are hand-modelled in Wire/Customs.v / Wire/Packet.v and tied by correspondence only',
                 'text fields are modelled at the byte level; the codepage layer (String <-> bytes) is C10; generated text is codepage-stable ASCII']
PROPS.update({
    'C01': dict(gens=['vehicle', 'track', 'consts', 'packets'], coq_targets=['Props/C01.vo'], coqchk_modules=['Props.C01'], group='wire', harness='c01', axioms_allowed=[],
        proved=['for every kind in the generated table, both modes, every in-domain value: decode (encode p ++ rest) = p with exactly the frame consumed (generic layout theorem T2, proved once by induction over layouts, + customs on explicit domains + Codec framing)',
                'a frame the encoder produced from an in-domain packet decodes to a packet that re-encodes to the identical bytes',
                'per-custom round trips on explicit decidable domains (race laps, fuel, Small incl. all 2^32 wire values by arithmetic, CIM, game version text, nibbles, vehicle, track)'],
        modelled=WIRE_MODELLED, assumptions=['IS_MSO (hand-written codec) is inside the theorem since mso_roundtrip (domain: bytes in range, user type listed, name and message NUL-free and together at most 128 bytes); its text is bytes here (the name/message split across codepage conversion is exercised by the correspondence with Latin-1 names)',
                                            'in-domain = pindom (decidable): integers in range, enumerants listed, flags within the mask, bool 0/1, char < 256, durations multiples of the scale within range, NUL-free text no longer than the field, element count fits the count byte and the cap']),
    'C03': dict(gens=['vehicle', 'track', 'consts', 'packets'], coq_targets=['Props/C03.vo'], coqchk_modules=['Props.C03'], group='wire', harness='c03', axioms_allowed=[],
        proved=['every successful encoding, any value, both modes: complete frame for the mode, length multiple of 4 (generic length theorem T1 + decidable per-layout size conditions checked on all 73 generated layouts), exact size byte, type byte = kind',
                'too large for the mode => refused (Panic), never emitted; encode_length Ok n implies n*mul = len, n < 256',
                'in-domain packets: own output decodes completely to the same packet; a packet decoded from an encoder-produced frame never aborts the encoder',
                'the codec of the source keeps no state between calls, like the model (a pure function of the size mode): Codec has the mode as its only field (regenerated, state_tied)'],
        modelled=WIRE_MODELLED + ['every encode / decode of a run goes through ONE long-lived Codec per size mode, and sequences of encodable and refused packets of every kind on one codec are compared call by call with a fresh codec'], assumptions=['count byte = number of elements and decoded-from-arbitrary-frames never aborts are checked on the implementation (every count 0..255, generated dirty frames), proved only for in-domain values (c03_decoded_never_aborts_partial)']),
    'C04': dict(gens=['vehicle', 'track', 'consts', 'packets'], coq_targets=['Props/C04.vo'], coqchk_modules=['Props.C04'], group='wire', harness='c04', axioms_allowed=[],
        proved=['for every byte buffer and both modes the decoder never panics (generic totality theorem T6 over all generated layouts + customs + Mso + framing)',
                'outcome classification: need-more / exactly the announced frame removed (4 <= n <= limit, n <= buffer) / framing error only for impossible lengths',
                'bytes after the announced frame neither influence the result nor are consumed; what is removed is a well-formed frame'],
        modelled=WIRE_MODELLED),
    'C11': dict(gens=['vehicle', 'track', 'consts', 'packets'], coq_targets=['Props/C11.vo'], coqchk_modules=['Props.C11'], group='wire', harness='c11', axioms_allowed=[],
        proved=['fixed-width writer: exactly N bytes = text truncated to N then NUL padding (all N, all byte strings)',
                'aligned writer: length = min(max, round_up(len, align)), multiple of the alignment, never above the maximum',
                'decoding stops at the first NUL; strip idempotent; written text shorter than the width is read back',
                'terminating NUL: the four free-text packets sent to LFS (MST, MSX, MSL, MTC) use the NUL-terminated writer (checked on the regenerated layouts) and that writer ends in NUL for EVERY text, at exact width / multiple of 4 / never above the maximum (c11_terminated_fixed, c11_terminated_aligned); the plain writer terminates iff the text is shorter than the field (kept with witnesses: the defect repaired by 62eca23)'],
        modelled=WIRE_MODELLED + ['which writer each text field uses, with which width, is regenerated from the source (AText n / TTextEof max align in Gen/Packets.v)']),
})
LEVEL_TEXT.update({
    'C01': 'One generic round-trip theorem proved by induction over a deep-embedded layout DSL, instantiated for all 73 kinds by layouts REGENERATED from the Rust declarations on every run, lifted through the Packet dispatch and the Codec framing model; unbounded in field values, element counts and text. The DSL semantics and the hand models are tied to the real Codec by differential runs on structured frames of every kind.',
    'C03': 'Generic length theorem + decidable per-layout size conditions (vm_compute over the 73 regenerated layouts) give: every successful encoding in either mode is one well-formed frame with exact size/type bytes and a length that is a multiple of 4; oversize is refused. Tied to the real encoder on every element count 0..255 and every text length 0..2N+2.',
    'C04': 'Totality theorem over all byte buffers (generic T6 + framing case analysis): never panics, removes exactly the announced frame, reads nothing beyond it. Tied to the real decoder on all 65536 headers x 2 modes, every enum byte value in every enum position, mutations of valid frames of every kind.',
    'C11': 'Theorems about the two text writers and the NUL-stripping reader for all widths, alignments and byte strings; the terminator clause is proved outside / refuted inside an explicit known class. Tied to the real encoder on every text field of every kind at lengths 0..2N incl. multi-codepage text.',
})
for k in ['C01','C03','C04','C11']: NOT_APPLICABLE.pop(k, None)

PROPS.update({
    'C14': dict(gens=['vehicle', 'track', 'consts', 'packets'], coq_targets=['Props/C14.vo'], coqchk_modules=['Props.C14'], group='wire', harness='c14', axioms_allowed=[],
        proved=['for each of the 154 configurations (finite, stated): wire form = short code NUL-padded to 6 bytes and decoding it returns the configuration',
                'for ALL byte strings: decode bs = i -> bs = encode i (no other value decodes to a configuration)',
                'reversed <-> code ends R/Y; open <-> code ends X/Y; open => no lap distance; one licence per two-letter area; variant identifiers = codes; tables complete'],
        modelled=['all seven tables (variants, read arms, write arms, code, licence, distance, reverse set, open set) are REGENERATED from track.rs on every run; Display = code() is pinned syntactically',
                  'lookup semantics of the generated match (first matching 6-byte pattern, wildcard = NoVariantMatch) tied by correspondence on the exhaustive shaped space']),
    'C15': dict(gens=['vehicle', 'track', 'consts', 'packets', 'racelaps'], coq_targets=['Props/C15.vo'], coqchk_modules=['Props.C15'], group='wire', harness='c15', axioms_allowed=[],
        proved=['scaled time fields, any width and scale: every wire value decodes to a duration that re-encodes to the same wire value; encoding = floor(ms/scale) or an error when it does not fit; the encoded value is exactly floor(ms/scale)',
                'the time fields of the 73 regenerated layouts are 16/32-bit with 1 ms or 10 ms resolution',
                'race-length byte: 0..238 re-encode exactly, 239..255 are practice; for ALL lap/hour counts the encoded byte is practice, the same count, or (100..1000 laps) the count rounded down to 10 - never another value',
                'Small (hand-written): all 2^32 wire values of the 1/100 s and 1 ms sub-types round-trip, durations beyond the range are refused'],
        modelled=WIRE_MODELLED, assumptions=['std::time::Duration::as_millis / from_millis are exact integer conversions (trusted)']),
})
LEVEL_TEXT.update({
    'C14': 'Finite table facts by vm_compute over tables regenerated from track.rs, plus a uniqueness theorem over all byte strings; the real Track code is swept over the whole shaped space (2 007 720 strings) and compared with the model.',
    'C15': 'Arithmetic theorems over N (no enumeration) for scaled durations of any width/scale, RaceLaps for all counts, and the Small conversions for all 2^32 values; the real conversions are run exhaustively over all 256 race-length bytes and all 65536 values of both 16-bit time resolutions, and boundary-biased over 32-bit fields.',
})
for k in ['C14','C15']: NOT_APPLICABLE.pop(k, None)

TEXT_MODELLED = ['escape / unescape / strip / to_lossy_bytes / to_lossy_string are hand-modelled (Text/Escape.v, Text/Codepage.v) and tied by differential correspondence (real functions vs extracted model, the model run over encoding_rs\' own tables dumped by the harness)',
                 'the escape table, colour digits, marker character, codepage letters, search order, default codepage, propagated letter, letter -> encoding_rs constant and whether the decoder sniffs BOMs are REGENERATED from the source (Gen/TextTab.v)']
PROPS.update({
    'C10': dict(gens=['text'], coq_targets=['Props/C10.vo'], coqchk_modules=['Props.C10'], group='text', harness='c10', axioms_allowed=[],
        pre=['python3 tools/ms_tables.py work/ms_tables.txt'],
        proved=['round trip for ALL strings the encoder handles - every non-ASCII character in some codepage; carets allowed (escaped carets, colours incl. ^8, any caret not spelling a codepage marker) - by induction over the string with the encoder state and the decoder\'s left-to-right scan, any number and order of codepage switches; no condition on trail bytes (the former known class is inside the theorem since 68d499a)',
                'every caret-free string of encodable characters is in that domain; pure ASCII passes through byte for byte both ways; an unrepresentable character becomes ? and its neighbours are encoded exactly as without it; the fast path is unobservable',
                'the regenerated letter -> codepage table is LFS\'s assignment (1252 1253 1251 1250 1254 1257 932 936 949 950, ^8 = 1252 kept in text); no BOM sniffing; lead bytes regenerated from is_double_byte_lead are never ASCII and ^8 shares the default codepage\'s'],
        modelled=TEXT_MODELLED + ['encoding_rs code tables are an ORACLE (Section hypotheses enc_shape, dec_nil, dec_ascii_cons, dec_enc_app, enc_two_lead, enc_one_nolead, dec_prop), validated on every Unicode scalar below U+30000 x 10 codepages each run (the lead-byte and ^8 hypotheses by the model driver over the dumped tables: oraclecheck); the implementation\'s per-letter tables are compared with Microsoft\'s cp125x/932/936/949/950 tables (Python codecs) on all 62 984 defined entries, with a fixed tolerance list (cp932: 4 private-use single bytes; cp950: 250 pairs in rows C6A1-C8FE where WHATWG Big5 includes HKSCS)',
                                  'an independent reference decoder written from the property text (left to right, DBCS-aware, LFS tables) is compared with the implementation on marker-rich byte strings'],
        assumptions=['totality of the Rust functions is tested (every byte after every marker, random bytes), the Gallina model is total by construction',
                     'a lone (unescaped) caret directly before a character that needs a codepage switch is outside the round-trip domain: the bytes ^ ^X are by LFS\'s rules an escaped caret followed by X']),
    'C12': dict(gens=['text'], coq_targets=['Props/C12.vo'], coqchk_modules=['Props.C12'], group='text', harness='c12', axioms_allowed=[],
        proved=['unescape (escape s) = s for every string; escaped output contains no reserved character; strip = exactly the colour tokens removed (token-level specification), idempotent, escaped carets untouched; fast paths unobservable',
                'wire composition at FULL strength (c12_wire_composition): escape -> to_lossy_bytes -> to_lossy_string -> unescape is the identity on every string whose non-ASCII characters exist in some codepage - carets, reserved characters, colours incl. ^8, carets before codepage letters, 0x5E trail bytes (the two former known findings, repaired by 68d499a, are inside the theorem)'],
        modelled=TEXT_MODELLED),
})
LEVEL_TEXT.update({
    'C10': 'Round-trip theorem by induction over the string with the encoder state (all lengths, all switch orders) over an oracle for the code tables constrained by four named hypotheses; table assignment checked on the regenerated letter table. The oracle hypotheses and the tables themselves are validated exhaustively against encoding_rs and Microsoft\'s tables on every run; algorithm tied by correspondence on strings over the union repertoire.',
    'C12': 'Theorems for all strings (induction with one character of look-ahead) about models whose tables are regenerated from the source; tied to the real functions exhaustively over a class alphabet and on random Unicode strings; the wire composition is proved where it holds and refuted with a witness where it does not.',
})
for k in ['C10','C12']: NOT_APPLICABLE.pop(k, None)

PROPS.update({
    'C18': dict(gens=['vehicle', 'track', 'consts', 'packets', 'builder'], coq_targets=['Props/C18.vo'], coqchk_modules=['Props.C18'], group='wire', extra_groups=['net'], harness='c18', axioms_allowed=[],
        proved=['for ALL setter sequences (induction over the call list): every ISI field is the last value set or its documented default; UDP port only for UDP and 0 without a local address; every flag bit is decided by the last call touching it; a flag setter changes exactly its bit; mode / protocol = last set or default',
                'the ten flag setters regenerated from builder.rs each own one distinct bit = the IsiFlags constant of the same name; isi() has the pinned source shape; version = VERSION',
                'the ISI as a model packet: in the wire domain its frame in the configured mode decodes back to exactly that ISI and is one well-formed frame (C01/C03 instantiated)',
                'every setter of the source assigns exactly the fields the model\'s setter changes (regenerated footprints, footprints_tied): relay() touches the protocol only, the size mode is written by mode() alone'],
        modelled=['handshake() on both connections is part of the conversation model (a write of the ISI frame: Net/Framed.v conv) and runs in conversations with ISI versions 0/8/9/10 and request ids 0/1/3/200 on the real blocking and tokio Framed',
                  'Builder is hand-modelled as a record with one function per setter (Builder/Builder.v), tied by correspondence on every short call sequence and random long ones; flag setters, IsiFlags constants, defaults and DEFAULT_INAME are REGENERATED from the source',
                  'connect_blocking / connect_async are exercised for real against loopback TCP / UDP peers (not modelled): the peer must receive exactly the ISI frame and nothing else; the relay arms need a network peer and are not exercised'],
        assumptions=['socket setup (bind/connect/timeouts) is the OS\'s; isi() totality is checked under catch_unwind on every explored configuration']),
})
LEVEL_TEXT.update({
    'C18': 'Theorems over all builder call sequences (induction over the op list, generic last-set-or-default lemma) about a model whose flag setters and defaults are regenerated from the source, composed with the C01/C03 frame theorems for the handshake frame; tied to the real Builder exhaustively over short call sequences and to the real connect functions over loopback sockets.',
})
NOT_APPLICABLE.pop('C18', None)

PROPS.update({
    'C17': dict(gens=['files'], coq_targets=['Props/C17.vo'], coqchk_modules=['Props.C17'], group='files', harness='c17', axioms_allowed=[],
        proved=['both parsers are total (never panic) on every byte string',
                'parse (write f ++ t) = (f, t) for every well-formed structure: any number of nodes / objects / points / triangles / checkpoints, any numeric payload (raw bit images, NaN included); hence parse . write . parse = parse',
                'every strict prefix of a written file is rejected (all cut points, all files), and for ANY accepted input the consumed prefix is minimal: no strict prefix of it is accepted (prefix rejection by construction of the parser combinators)',
                'negative / >= 2^31 counts are errors; the input pays for everything delivered: nodes x 40 <= input length'],
        modelled=['the PTH / SMX readers and writers are hand-modelled with take-only parser combinators (Files/Parser.v, Files/Formats.v); the flat field lists of every record (widths, pads, text), the magic numbers and the nesting order (which count drives which vector) are REGENERATED from the binrw declarations (Gen/FilesTab.v)',
                  'pads are read as `take` (binrw seeks): same observable outcome because every pad is followed by a read in both formats',
                  'real allocation is outside the model: a counting global allocator in the harness checks peak allocation <= 16 x input + 256 KB on every parse (support, not proof)',
                  'the canonical-file clause (written bytes identical to the bytes read) is proved via the round trip for files the writer produced and checked on the implementation for generated canonical files and the two shipped files; the SMX track text is bytes here (codepage layer = C10)'],
        assumptions=['the model driver reports OCaml Stack_overflow (unary materialisation of a count > ~10^5) as the error outcome: inputs of the correspondence runs are a few KB, so such a parse necessarily fails']),
})
LEVEL_TEXT.update({
    'C17': 'Parser-combinator model whose combinators are proved once to be total, local and prefix-rejecting; the two formats inherit these by construction for every input, plus explicit round-trip and work-bound theorems; record layouts regenerated from the source. Tied to the real readers on generated files, every cut point of small files, hostile counts in every count field, random bytes and the two shipped files, under a counting allocator.',
})
NOT_APPLICABLE.pop('C17', None)

PROPS.update({
    'C16': dict(gens=['vehicle'], coq_targets=['Props/C16.vo'], coqchk_modules=['Props.C16'], group='core', harness='c16', axioms_allowed=[],
        proved=['parse is a total structurally recursive function over the character list (cannot loop or panic)',
                'whatever parses with a finite number prints to a text that parses back to an equal version; the letter is case-insensitive; every parsed version has an upper-case ASCII letter (under the named std-oracle hypotheses)',
                'comparison is reflexive, consistent with equality, antisymmetric, transitive and total: lexicographic (number, letter, revision or 0); a missing revision equals revision 0'],
        modelled=['GameVersion FromStr / Display / PartialEq / Ord are hand-modelled (Core/GameVersion.v) and tied by correspondence (real code vs extracted model, the std oracles answered per case by the harness)',
                  'std oracles (Section hypotheses, validated each run): char::is_numeric = is_ascii_digit on ASCII; f32 Display of a non-negative finite value is digits with at most one dot and FromStr inverts it; usize Display/FromStr round trip; the empty string does not parse',
                  'f32::partial_cmp on the parser\'s domain (non-negative, not NaN) is modelled as the unsigned order of the IEEE-754 bit patterns, validated on adjacent bit patterns (all 2^31 in the thorough tier); no Flocq / real-number axioms are used'],
        assumptions=['the 8-byte wire form of the version (Ver packet) is covered by C01/C04 (CGameVersion custom) at the byte level']),
})
LEVEL_TEXT.update({
    'C16': 'Theorems about a Gallina model of the three-phase parser, the printer and the order, over named hypotheses on the std oracles (float / integer text conversion, Unicode numeric class) that the harness validates on every run (exhaustively over all non-negative f32 in the thorough tier); tied to the real GameVersion exhaustively over a class alphabet, on known versions, random strings and random triples for the order.',
})
NOT_APPLICABLE.pop('C16', None)

ADAPTOR_MODELLED = ['the buffering transport adaptors (blocking + tokio UdpStream, WebsocketStream) are ONE hand-written model (Net/Adaptor.v: pull the next datagram / binary message into the adaptor buffer, serve the caller\'s slice from it; non-binary messages skipped; end of stream = 0 bytes), composed in Coq with the Framed session model of C05 (Net/AdaptorSession.v)',
                    'tied to the real adaptors by differential runs: the adaptor\'s own Read/AsyncRead is driven with scripted slice sizes over real loopback sockets and its chunk sequence compared with the model\'s, and whole Framed sessions are compared with the model\'s session trace']
PROPS.update({
    'C08': dict(gens=['consts'], coq_targets=['Props/C08.vo'], coqchk_modules=['Props.C08'], group='net', harness='c08', axioms_allowed=[],
        proved=['session theorem over the adaptor: for every packet layer, mode, sequence of datagrams each holding >= 1 complete frames and fitting the scratch array, and EVERY sequence of slice sizes offered by the connection (i.e. whatever its receive buffer\'s spare capacity after any amount of traffic), the results are exactly one per frame, in order, then Disconnected (induction over the slice sizes + the C05 induction; unbounded)',
                'the adaptor alone never loses, duplicates or reorders a byte (delivered ++ buffered ++ pending = payload, invariant for all slice sizes) and is drained by enough reads',
                'the scratch arrays regenerated from both udp.rs hold a 1020-byte datagram; receiving straight into a smaller slice is refuted with a witness (the defect fixed by ca34db9)',
                'a write hands the whole frame to the socket in one call: one datagram = one frame, write_all finishes at once'],
        modelled=NET_MODELLED + ADAPTOR_MODELLED + ['the scratch array sizes are REGENERATED from blocking_impl/udp.rs and tokio_impl/udp.rs when the `let mut x = [0u8; N]` shape is recognised (otherwise only the 1020-byte datagrams of the correspondence runs cover truncation)'],
        assumptions=NET_ASSUME + ['kernel socket buffers, datagram loss / reordering by the OS are outside the model (loopback with flow control in the harness: at most 100 datagrams / 40 KB unread)',
                                  'UdpSocket::recv into a buffer smaller than the datagram discards the rest (datagram semantics; modelled by firstn)']),
})
LEVEL_TEXT.update({
    'C08': 'Composition theorem in Coq (adaptor invariant by induction over the slice sizes + the C05 session induction): every datagram sequence, every slice-size sequence, unbounded sessions, both modes; one model for both adaptors, tied to the real blocking and tokio UdpStream over loopback sockets at adaptor level (scripted slice sizes incl. the 120-byte slices that exposed the original defect) and at session level (up to 900 frames / > 60 KB per session).',
})
NOT_APPLICABLE.pop('C08', None)

PROPS.update({
    'C20': dict(gens=['consts'], coq_targets=['Props/C20.vo'], coqchk_modules=['Props.C20'], group='net', harness='c20', axioms_allowed=[],
        proved=['for every packet layer, list of complete frames, EVERY distribution of the byte stream over binary messages (one/several/split frames, any message size), any interleaving of non-binary and empty binary messages and every slice-size sequence: one result per frame in order, then Disconnected (composition of the adaptor invariant with the C05 session induction; unbounded)',
                'this is literally the TCP session of the same stream under any TCP segmentation (c20_equals_tcp); removing the non-binary messages changes nothing (c20_non_binary_ignored)',
                'closure: the adaptor reports end of stream and a read that has no complete frame returns Disconnected; the adaptor never loses/duplicates/reorders a byte for any slice sizes',
                'a write hands the whole frame over as one binary message and reports it fully written (write_all finishes at once)',
                'under dropped read() futures and caller writes in between, on a transport that takes a whole buffer or nothing (WebsocketStream::poll_write): every burst of reply bytes is the whole reply frame and every write() sends the whole outstanding reply or nothing and then its own frame - a message never carries part of a frame or two frames (aconv_messages_whole)'],
        modelled=NET_MODELLED + ADAPTOR_MODELLED + ['cancelled conversations with caller writes (Net/Async.v aconv) are run on the real tokio Framed over a scripted message transport whose accepted write calls are recorded one by one; back-pressure on the real adaptor (loopback peer with 4 KB socket buffers that does not read until a write stalls) is exercised, not modelled',
                                                    'tungstenite (WebSocket framing, masking, fragmentation, automatic pong, close handshake) and TLS are not modelled: a message is an item of the adaptor\'s input; they run for real in the correspondence (loopback tokio-tungstenite server)'],
        assumptions=NET_ASSUME + ['closure = WebSocket close handshake (or an already-closed stream): tokio-tungstenite then ends the message stream; a TCP connection dropped WITHOUT a close handshake surfaces as an I/O error (observed, recorded in the evidence notes), which the property text does not cover',
                                  'connect_to_lfsworld_relay_ws dials the constant relay address and cannot run offline; the adaptor is attached to a loopback server through the public From<WebSocketStream<MaybeTlsStream<TcpStream>>>']),
})
LEVEL_TEXT.update({
    'C20': 'Composition theorem in Coq (adaptor invariant for all slice sizes + the C05 session induction) for every partition of the stream into binary messages with arbitrary interleaved non-binary messages, stated both absolutely and as equality with the TCP session; tied to the real WebsocketStream on a loopback tokio-tungstenite server at adaptor level (scripted slice sizes, messages up to 66 KB) and at session level (six partition styles, up to 700 frames, noise messages, close handshake), and for writes.',
})
NOT_APPLICABLE.pop('C20', None)

PROPS.update({
    'C19': dict(gens=['consts'], coq_targets=['Props/C19.vo'], coqchk_modules=['Props.C19'], group='net', harness='c19', axioms_allowed=[],
        proved=['cancel_safe: for every packet layer, mode, transport script (any segmentation, transient errors, not-ready turns on both halves) and EVERY choice of pending polls at which the future is dropped, any number of times, the session - results, order, outgoing bytes between results - equals the uninterrupted session (induction over the poll sequence; unbounded)',
                'the reason, as a lemma: resuming a suspended future and polling a fresh one are the same step from every state a suspension can leave (invariant Inv, proved preserved by every pending poll): all progress is committed to the connection inside one poll',
                'outgoing side under any cancellation schedule: between two results exactly one whole keep-alive reply is written, before the keep-alive is returned, and nothing else; no result is returned while a reply is half written',
                'the pre-repair design (reply + packet held by the future) is refuted: after one accepted byte the connection state no longer mentions the packet',
                'RESULTS in full generality (aconv_results, aconv_results_complete): for every readiness pattern of both transport halves, every schedule of dropped futures and every schedule of caller writes in between, the results returned are a prefix of - and after a final result equal to - those of the plain connection model (Net/Framed.v session, the model of C05/C07/C09) on the same bytes, preceded by the keep-alive held back behind its reply',
                'with caller writes: without writes a conversation is the session above (aconv_no_writes); with writes no partial frame is ever left on the outgoing side and the keep-alive whose reply a write() completed is still the next result (aconv_ok); the model\'s state is exactly the fields of the tokio Framed struct (state_tied)'],
        modelled=NET_MODELLED + ['the tokio Framed::read future is hand-modelled as a small-step function poll_from : pc -> state -> scripts -> (Pending pc | Ready result) (Net/Async.v): state that survives a drop = receive buffer + pending reply + its packet; dropping = forgetting pc',
                                 'tied to the real future by polling it by hand (futures_util::poll!) on a scripted AsyncRead/AsyncWrite under a paused-clock runtime and dropping it at chosen pending polls: the trace of every such run is compared with the model\'s, and with the uninterrupted run of the real code'],
        assumptions=NET_ASSUME + ['the tokio runtime itself (timer wheel, wakers, select! fairness) is not modelled; a dropped read restarts the 90 s timeout (time is not modelled)',
                                  'tokio AsyncReadExt::read / AsyncWriteExt::write_buf commit their progress within the poll that makes it (documented cancel safety of both), as modelled',
                                  'the UDP and WebSocket adaptors keep undelivered bytes in their own buffers (C08/C20) and their poll_write sends a whole frame or nothing, so the same argument applies; they are exercised in C08/C20, not here']),
})
LEVEL_TEXT.update({
    'C19': 'Theorems over a small-step model of the read future: equality of every cancelled session with the uninterrupted one for all scripts and all cancellation schedules (induction, with the suspension invariant), plus the whole-reply invariant on the outgoing side; tied to the real tokio future by manual polling and dropping at chosen pending polls (all 2^n schedules of short scripts, random long sessions), compared with the model and with the uninterrupted real run.',
})
NOT_APPLICABLE.pop('C19', None)

PROPS.update({
    'C02': dict(gens=['vehicle', 'track', 'consts', 'packets'], coq_targets=['Props/C02.vo'], coqchk_modules=['Props.C02'], group='wire', extra_groups=['spec'], harness='c02', axioms_allowed=[],
        pre=['mkdir -p work && ocaml/_build/spec/driver > work/c02_spec.txt'],
        proved=['conforms_all = true: for all 73 packet types the layouts REGENERATED from the Rust declarations agree with the transcribed specification field by field (width hence offset, kind, integer width, spare bytes, text width, time unit, enumeration / flag set, name), tail by tail, type number by type number; every specification enumerant / flag bit exists in the implementation table under its name and no specification name carries another value',
                'lifted to EVERY value by the generic slice theorem (induction over the layout): in any successfully encoded frame bytes 0, 1, 2 are the size byte, the type and the request id, and the i-th field occupies exactly [2 + widths before it, + its width) in its representation: little-endian integers / flags / times (byte k = digit k in base 256), one byte per listed enumerant, zero spare bytes, truncated NUL-padded text',
                'decoding direction: a frame produced by the conforming encoder from in-domain values decodes to exactly those values (C01)',
                'the check is not vacuous: a deviating layout (spare bytes on the wrong side of UCID) and a shifted flag table are rejected (c02_check_can_fail); run against the ORIGINAL tree it reports exactly the seven layout / table defects that were repaired (Iii, Axm, Plc x2, Pit flags, LCL extra, Uco time, Nlp padding)'],
        modelled=WIRE_MODELLED + ['Spec/InSimV9.v is a hand transcription of InSim.txt (InSim 9) and the InSim-Relay documentation written from the transcriber\'s knowledge of the documents - they are NOT in the sandbox; entries the transcriber is not sure of are tagged Unasserted and create no obligation (IS_RST Timing; IS_RIP CTime / TTime unit; start-light indices 150 / 151); fields whose content is another property\'s subject are compared by width only (game version C16, track C14, vehicle C13, race laps / fuel C15, IS_SMALL value, IS_CIM modes, CON nibbles)',
                                  'IS_MSO (hand-written codec) and the SMALL_ sub-type numbers are outside the layout comparison; they are covered by the reference-frame runs',
                                  'reference frames are built from the DUMPED transcription by a table-driven encoder in the harness (not from the implementation), decoded by the real Codec, observed through the packet\'s public fields (Debug output: numbers, variant names, flag names, text, durations), and re-encoded'],
        assumptions=['signedness of char / short / int fields is not compared (values are compared modulo 2^(8 width)); IPv4 byte order in IS_NCI / IS_IPB is not asserted',
                     'name comparison is modulo case, underscores and the documented prefix, with explicit aliases where the implementation chose another identifier']),
})
LEVEL_TEXT.update({
    'C02': 'Decidable conformance of the 73 layouts, type numbers and enum / flag tables regenerated from the source against an independent Coq transcription of the specification (vm_compute over finite data), lifted by generic theorems to every value: exact byte offsets, widths, little-endian order, zero spare bytes, enumerant values, bit positions, bytes 0-2. Tied to the real Codec by reference frames built from the dumped transcription (every enumerant, single flag bit, boundary integer, text, array size, both modes): decoded, observed through the public fields, re-encoded byte for byte; the same frames go through the wire model.',
})
NOT_APPLICABLE.pop('C02', None)

# ---- model-side diagnosis evaluated when a proof obligation breaks (names the offending kinds / fields) ----
_WIRE_DIAG = '''Require Import Coq.Strings.String.
Require Import Base.Bytes Wire.Layout Wire.Customs Wire.LayoutProofs Wire.Packet Wire.PacketChecks Gen.Packets.
Local Open Scope string_scope.
Eval vm_compute in ("kinds whose layout can panic on decode", offenders kind_panic_free).
Eval vm_compute in ("kinds whose encoded length is not always a multiple of 4", offenders kind_size4).
'''
for _p in ('C01', 'C03', 'C04', 'C11'): PROPS[_p]['diag'] = _WIRE_DIAG
PROPS['C02']['diag'] = '''Require Import Coq.Strings.String.
Require Import Spec.Conform.
Local Open Scope string_scope.
Eval vm_compute in ("deviations from the transcribed specification", all_problems).
'''
