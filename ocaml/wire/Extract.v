Require Import ExtrOcamlBasic.
Require Import Coq.Strings.String.
Require Import Base.Bytes Wire.Layout Wire.Customs Wire.Packet Net.Frame Gen.Packets.
Extraction Language OCaml.
Local Open Scope N_scope.
(* decode a whole frame then re-encode: (code, bytes): 0 ok / 1 decode error / 2 decode panic / 3 encode error / 4 encode panic *)
Definition x_rt (m : mode) (frame : list N) : N * list N :=
  match frame with
  | [] => (1, [])
  | _ :: body =>
      match parse body with
      | Err => (1, []) | Panic => (2, [])
      | Ok p => match frame_encode m p with Ok b => (0, b) | Err => (3, []) | Panic => (4, []) end
      end
  end.
(* Codec::decode on an arbitrary buffer: (class, bytes removed): 0 need / 1 got / 2 bad / 3 frame error / 4 panic *)
Definition x_cls (m : mode) (buf : list N) : N * nat :=
  match frame_decode m buf with
  | NeedMore => (0, O)
  | Got _ rest => (1, (length buf - length rest)%nat)
  | Bad rest => (2, (length buf - length rest)%nat)
  | FrameErr => (3, O)
  | DPanic => (4, O)
  end.
(* typed mutations used by the C03 / C11 runs: decode a base frame, change the value, encode *)
Definition enc_code (m : mode) (p : pval) : N * list N :=
  match frame_encode m p with Ok b => (0, b) | Err => (3, []) | Panic => (4, []) end.
Definition x_vecrep (m : mode) (frame : list N) (k : nat) : N * list N :=
  match frame with
  | [] => (1, [])
  | _ :: body =>
      match parse body with
      | Ok (PV ty vs (TVRows rows)) =>
          let rows' := if Nat.leb k (length rows) then firstn k rows
                       else rows ++ repeat (last rows []) (k - length rows) in
          enc_code m (PV ty vs (TVRows rows'))
      | Ok _ => (1, []) | Err => (1, []) | Panic => (2, [])
      end
  end.
Fixpoint set_text_fixed (fs : list (string * atom)) (vs : list value) (idx : nat) (bs : list N)
  : option (list value) :=
  match fs, vs with
  | (_, AText _ _) :: fs', v :: vs' =>
      match idx with
      | O => Some (VB bs :: vs')
      | S i => match set_text_fixed fs' vs' i bs with Some r => Some (v :: r) | None => None end
      end
  | _ :: fs', v :: vs' => match set_text_fixed fs' vs' idx bs with Some r => Some (v :: r) | None => None end
  | _, _ => None
  end.
Definition x_settext (m : mode) (frame : list N) (idx : nat) (bs : list N) : N * list N :=
  match frame with
  | [] => (1, [])
  | _ :: body =>
      match parse body with
      | Ok (PV ty vs tv) =>
          match find_kind ty packet_table with
          | Some (KLayout l) =>
              match set_text_fixed (fixed l) vs idx bs with
              | Some vs' => enc_code m (PV ty vs' tv)
              | None => match tv with TVText _ => enc_code m (PV ty vs (TVText bs)) | _ => (1, []) end
              end
          | Some KMso => enc_code m (PV ty vs (TVText bs))
          | None => (1, [])
          end
      | Err => (1, []) | Panic => (2, [])
      end
  end.
Require Import Gen.TrackTab Core.Vehicle.
Definition x_tread (bs : list N) : option (list N) :=
  match track_read bs with Ok i => assoc i track_code_tab | _ => None end.
Definition x_rldec (b : N) : N * N := racelaps_of_u8 b.
Definition x_rlenc (tag n : N) : N := racelaps_to_u8 tag n.
Definition x_tflags (bs : list N) : N :=
  match track_read bs with
  | Ok i => (if existsb (N.eqb i) track_reverse_set then 1 else 0) + (if existsb (N.eqb i) track_open_set then 2 else 0)
            + (match assoc i track_distance_tab with Some true => 4 | _ => 0 end)
            + 8 * (match assoc i track_license_tab with Some l => l | None => 9 end)
  | _ => 255
  end.
Require Import Builder.Builder Props.C18.
Definition x_handshake (ops : list op) : mode * (N * list N) :=
  let b := build ops in (b_mode b, enc_code (b_mode b) (isi_pval (isi_of b))).
Extraction "model.ml" x_rt x_cls x_vecrep x_settext x_tread x_rldec x_rlenc x_tflags x_handshake.
