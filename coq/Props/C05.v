(* Props/C05.v — stream reassembly is independent of segmentation and session length. *)
Require Import Base.Bytes Net.Frame Net.FrameProofs Net.Framed Net.FramedProofs Net.Async Net.NoHoldBack Net.Concrete Gen.NetConsts.
Local Open Scope N_scope.

(* For every packet layer that never panics (C04), every mode, every list of complete frames,
   every way the transport cuts the concatenated stream into non-empty reads, every placement
   of transient read errors / timeouts: successive reads return exactly one result per frame,
   in order (the packet, an error for an undecodable frame, or the version rejection), then
   Disconnected; every transient event surfaces once, in order, and loses nothing.
   The blocking and the tokio connection are this same function. *)
Theorem c05_session_independent_of_segmentation :
  forall (packet : Type) (parse : bytes -> res packet) (ver_of : packet -> option N)
         (is_keepalive : packet -> bool) (version : N) (m : mode) (verify : bool) (pong : bytes),
  (forall b, parse b <> Panic) ->
  forall fuel fs tr buf,
    Forall (wf_frame m) fs -> Forall ev_ok tr -> buf ++ data_of tr = concat fs ->
    (length fs + length tr < fuel)%nat ->
    filter (keep packet) (session packet parse ver_of is_keepalive version m verify pong fuel buf (tr ++ [Eof]))
      = concat (map (expected_frame packet parse ver_of is_keepalive version verify pong) fs) ++ [Ret RDisconnected]
    /\ filter (is_transient packet) (session packet parse ver_of is_keepalive version m verify pong fuel buf (tr ++ [Eof]))
      = concat (map (transient_of packet) tr).
Proof. exact session_frames. Qed.

(* ... and when the stream ends INSIDE a frame (the peer went away in mid-frame; g = the unfinished frame, k < |g| bytes of it
   arrived): the same - every complete frame gives its one result, the unfinished one gives none, then Disconnected *)
Theorem c05_stream_ending_inside_a_frame :
  forall (packet : Type) (parse : bytes -> res packet) (ver_of : packet -> option N)
         (is_keepalive : packet -> bool) (version : N) (m : mode) (verify : bool) (pong : bytes),
  (forall b, parse b <> Panic) ->
  forall g k, wf_frame m g -> (k < length g)%nat ->
  forall fuel fs tr buf,
    Forall (wf_frame m) fs -> Forall ev_ok tr -> buf ++ data_of tr = concat fs ++ firstn k g ->
    (length fs + length tr < fuel)%nat ->
    filter (keep packet) (session packet parse ver_of is_keepalive version m verify pong fuel buf (tr ++ [Eof]))
      = concat (map (expected_frame packet parse ver_of is_keepalive version verify pong) fs) ++ [Ret RDisconnected]
    /\ filter (is_transient packet) (session packet parse ver_of is_keepalive version m verify pong fuel buf (tr ++ [Eof]))
      = concat (map (transient_of packet) tr).
Proof. exact session_frames_then_partial. Qed.

(* a complete frame at the head of the buffer decodes whatever follows it; a strict prefix asks for more *)
Theorem c05_complete_frame_decodes :
  forall (packet : Type) (parse : bytes -> res packet) m f rest, wf_frame m f ->
  decode packet parse m (f ++ rest) =
  match parse (tl f) with Ok p => Got p rest | Err => Bad rest | Panic => DPanic end.
Proof. exact decode_complete. Qed.

Theorem c05_strict_prefix_needs_more :
  forall (packet : Type) (parse : bytes -> res packet) m f k, wf_frame m f -> (k < length f)%nat ->
  decode packet parse m (firstn k f) = NeedMore.
Proof. exact decode_prefix. Qed.

(* the model's framing constants are the source's *)
Theorem c05_constants_tied : consts_tied = true.
Proof. vm_compute. reflexivity. Qed.

(* the connection structs of the source have exactly the fields the models carry as state (regenerated field
   names): receive buffer + verification flag; the tokio one also the outstanding reply and its packet *)
Theorem c05_model_state_is_the_struct : state_tied = true.
Proof. vm_compute. reflexivity. Qed.


(* non-vacuity: a two-frame session split in the middle of a frame, with a transient error *)
Example c05_example :
  run_session Compressed true [([3;0;0], (0, CKeep)); ([3;1;2], (1, COther))]
    [Data [1;3;0]; RdErr 7; Data [0;1;3]; Data [1;2]; Eof]
  = [Ret (RIo 7); Wrote [1;3;0;0]; Ret (RPacket (0, CKeep)); Ret (RPacket (1, COther)); Ret RDisconnected].
Proof. vm_compute. reflexivity. Qed.

(* no packet waits for more traffic: a frame that is completely in the receive buffer is delivered by the next read() with
   no further input from the transport (a peer that sends nothing more until its packets have been read is not kept waiting).
   Blocking connection: the result is the frame's own, the rest of the buffer stays, the transport script is untouched ... *)
Theorem c05_buffered_frame_is_served_without_more_input :
  forall (packet : Type) (parse : bytes -> res packet) (ver_of : packet -> option N)
         (is_keepalive : packet -> bool) (version : N) (m : mode) (verify : bool) (pong : bytes),
  (forall b, parse b <> Panic) ->
  forall f rest tr, wf_frame m f ->
    read packet parse ver_of is_keepalive version m verify pong (f ++ rest) tr
      = (expected_frame packet parse ver_of is_keepalive version verify pong f, rest, tr).
Proof. exact read_serves_buffered_frame. Qed.

(* ... tokio connection: a fresh read() with nothing parked does not touch the read half and does not suspend in the transport
   read - it completes, or waits for the WRITE half to take a keep-alive reply *)
Theorem c05_buffered_frame_is_served_without_more_input_async :
  forall (packet : Type) (parse : bytes -> res packet) (ver_of : packet -> option N)
         (is_keepalive : packet -> bool) (version : N) (m : mode) (verify : bool) (pong : bytes),
  (forall b, parse b <> Panic) ->
  forall f rest (s : fstate packet) rs ws, wf_frame m f ->
    fbuf s = f ++ rest -> pend_w s = [] -> pend_p s = None ->
    let '(o, s', rs', ws', w) := poll_from packet parse ver_of is_keepalive version m verify pong Top s rs ws in
    rs' = rs /\ o <> PPending InRead.
Proof. exact poll_serves_buffered_frame. Qed.

