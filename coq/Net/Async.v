(* Net/Async.v — small-step model of the tokio Framed::read future (tokio_impl/framed.rs) under
   polling and cancellation.  One [poll_from] = one poll of the future: it runs until the
   transport reports not-ready on the read half (APend) or on the write half (WPending), or
   until the read completes.  The connection state that survives a dropped future is [fstate]:
   the receive buffer, the keep-alive reply not yet completely written, and the packet that
   asked for it.  The future's own state is only the program counter [pc].
   Dropping the future = forgetting [pc] (a fresh read() starts at [Top]).
   Time is not modelled: the 90 s timeout is the transport event [Elapsed], as in Net/Framed.v.
   No proofs here. *)
Require Import Base.Bytes Net.Frame Net.Framed.
Local Open Scope N_scope.

Inductive arev := AEv (e : rev) | APend.          (* read half: an event of Net/Framed.v, or not ready *)

Inductive fres := FDone | FPend | FFail (e : N).

(* the write_buf loop of flush_pending_reply over the write script; an exhausted script = a
   transport that takes everything.  Returns (outcome, reply bytes still unwritten, script, bytes written) *)
Fixpoint flush (pw : bytes) (ws : list wev) {struct ws} : fres * bytes * list wev * bytes :=
  match pw with
  | [] => (FDone, [], ws, [])
  | _ =>
    match ws with
    | [] => (FDone, [], [], pw)
    | WAccept k :: ws' =>
        let n := Nat.min (S k) (length pw) in
        let '(r, pw', ws'', wr) := flush (skipn n pw) ws' in
        (r, pw', ws'', firstn n pw ++ wr)
    | WPending :: ws' => (FPend, pw, ws', [])
    | WFail e :: ws' => (FFail e, pw, ws', [])
    end
  end.

(* Framed::write polled to completion over the same script: not-ready turns are waited out; the whole of
   [pw] is written (so the bytes written are [pw] itself); None = the transport failed.  Returns the rest
   of the script. *)
Fixpoint drain (pw : bytes) (ws : list wev) {struct ws} : option (list wev) :=
  match pw with
  | [] => Some ws
  | _ =>
    match ws with
    | [] => Some []
    | WAccept k :: ws' => drain (skipn (Nat.min (S k) (length pw)) pw) ws'
    | WPending :: ws' => drain pw ws'
    | WFail _ :: _ => None
    end
  end.

Inductive pc := Top | InRead.      (* suspended inside flush_pending_reply resumes exactly like Top: the loop has no local state *)

Section Async.
  Variable packet : Type.
  Variable parse : bytes -> res packet.
  Variable ver_of : packet -> option N.
  Variable is_keepalive : packet -> bool.
  Variable version : N.
  Variable m : mode.
  Variable verify : bool.
  Variable pong : bytes.

  Record fstate := mkF { fbuf : bytes; pend_w : bytes; pend_p : option packet }.

  Inductive pout := PPending (c : pc) | PReady (r : rres packet).
  Definition presult := (pout * fstate * list arev * list wev * bytes)%type.

  (* a packet has been decoded and passed the gate *)
  Definition deliverK (p : packet) (rest : bytes) (ws : list wev) (wr : bytes) : pout * fstate * list wev * bytes :=
    if is_keepalive p then
      match flush pong ws with
      | (FDone, _, ws', w2) => (PReady (RPacket p), mkF rest [] None, ws', wr ++ w2)
      | (FPend, pw, ws', w2) => (PPending Top, mkF rest pw (Some p), ws', wr ++ w2)
      | (FFail e, pw, ws', w2) => (PReady (RIo e), mkF rest pw (Some p), ws', wr ++ w2)
      end
    else (PReady (RPacket p), mkF rest [] None, ws, wr).

  (* the decode step of one loop turn: None = no complete frame, go and read *)
  Definition after_decode (buf : bytes) (ws : list wev) (wr : bytes) : option (pout * fstate * list wev * bytes) :=
    match buf with
    | [] => None
    | _ =>
      match decode packet parse m buf with
      | NeedMore => None
      | FrameErr => Some (PReady RFrameErr, mkF buf [] None, ws, wr)
      | DPanic => Some (PReady RPanic, mkF buf [] None, ws, wr)
      | Bad rest => Some (PReady RDecodeErr, mkF rest [] None, ws, wr)
      | Got p rest =>
          match (if verify then ver_of p else None) with
          | Some v => if v =? version then Some (deliverK p rest ws wr)
                      else Some (PReady (RBadVersion v), mkF rest [] None, ws, wr)
          | None => Some (deliverK p rest ws wr)
          end
      end
    end.

  (* the loop from the decode step on; [skip] = resumed inside read_buf, the transport read is polled first *)
  Fixpoint read_loop (skip : bool) (buf : bytes) (rs : list arev) (ws : list wev) (wr : bytes) {struct rs} : presult :=
    match (if skip then None else after_decode buf ws wr) with
    | Some (o, s, ws', wr') => (o, s, rs, ws', wr')
    | None =>
      match rs with
      | [] => (PReady RDisconnected, mkF buf [] None, [], ws, wr)
      | APend :: rs' => (PPending InRead, mkF buf [] None, rs', ws, wr)
      | AEv (Data []) :: rs' => (PReady RDisconnected, mkF buf [] None, rs', ws, wr)
      | AEv (Data bs) :: rs' => read_loop false (buf ++ bs) rs' ws wr
      | AEv (RdErr e) :: rs' => (PReady (RIo e), mkF buf [] None, rs', ws, wr)
      | AEv Elapsed :: rs' => (PReady RTimeout, mkF buf [] None, rs', ws, wr)
      | AEv Eof :: rs' => (PReady RDisconnected, mkF buf [] None, rs', ws, wr)
      end
    end.

  (* one poll of a read future whose program counter is c *)
  Definition poll_from (c : pc) (s : fstate) (rs : list arev) (ws : list wev) : presult :=
    match c with
    | InRead => read_loop true (fbuf s) rs ws []
    | Top =>
        match flush (pend_w s) ws with
        | (FPend, pw, ws', w) => (PPending Top, mkF (fbuf s) pw (pend_p s), rs, ws', w)
        | (FFail e, pw, ws', w) => (PReady (RIo e), mkF (fbuf s) pw (pend_p s), rs, ws', w)
        | (FDone, _, ws', w) =>
            match pend_p s with
            | Some p => (PReady (RPacket p), mkF (fbuf s) [] None, rs, ws', w)
            | None => read_loop false (fbuf s) rs ws' w
            end
        end
    end.

  (* a session: read() is called again and again; whenever a poll returns Pending the caller may drop
     the future (cancels: true = drop, as a select! loop does when another branch fires) and start a new
     read().  Outgoing bytes are accumulated until the next result.  *)
  Fixpoint asession (fuel : nat) (c : pc) (s : fstate) (rs : list arev) (ws : list wev)
           (cancels : list bool) (acc : bytes) : list (out packet) :=
    match fuel with
    | O => []
    | S f =>
      let '(o, s', rs', ws', w) := poll_from c s rs ws in
      match o with
      | PPending c' =>
          match cancels with
          | true :: cs => asession f Top s' rs' ws' cs (acc ++ w)
          | false :: cs => asession f c' s' rs' ws' cs (acc ++ w)
          | [] => asession f c' s' rs' ws' [] (acc ++ w)
          end
      | PReady r =>
          (match acc ++ w with [] => [] | b => [Wrote b] end) ++ Ret r ::
          (if is_final packet (Ret r) then [] else asession f Top s' rs' ws' cancels [])
      end
    end.

  Definition init_state : fstate := mkF [] [] None.

  (* ---- conversations: between two read() calls the caller also calls write().
          Framed::write = encode, finish an outstanding keep-alive reply (flush_pending_reply), then
          write_all_buf of the frame.  The caller's packets are given by their frames.
          Tokens: TW = reply bytes written by read() since the last token, TR = a result,
          TU pre fr = one write(): the rest [pre] of an outstanding reply, then the frame [fr]. ---- *)
  Inductive ctok := TW (b : bytes) | TR (r : rres packet) | TU (pre fr : bytes).
  Definition tw (b : bytes) : list ctok := match b with [] => [] | _ => [TW b] end.

  Fixpoint user_writes (frs : list bytes) (s : fstate) (ws : list wev) : option (list ctok * fstate * list wev) :=
    match frs with
    | [] => Some ([], s, ws)
    | fr :: t =>
      match drain (pend_w s) ws with
      | None => None
      | Some ws1 =>
        match drain fr ws1 with
        | None => None
        | Some ws2 =>
          match user_writes t (mkF (fbuf s) [] (pend_p s)) ws2 with
          | Some (toks, s', ws') => Some (TU (pend_w s) fr :: toks, s', ws')
          | None => None
          end
        end
      end
    end.

  (* wsched: the frames the caller writes before each new read() (one entry is consumed whenever a read()
     starts: after a result and after a dropped future) *)
  Fixpoint aconv (fuel : nat) (c : pc) (s : fstate) (rs : list arev) (ws : list wev)
           (cancels : list bool) (wsched : list (list bytes)) (acc : bytes) : list ctok :=
    match fuel with
    | O => []
    | S f =>
      let '(o, s', rs', ws', w) := poll_from c s rs ws in
      match o with
      | PPending c' =>
          match cancels with
          | true :: cs =>
              match wsched with
              | (f1 :: ft) :: wt =>
                  match user_writes (f1 :: ft) s' ws' with
                  | Some (toks, s'', ws'') => tw (acc ++ w) ++ toks ++ aconv f Top s'' rs' ws'' cs wt []
                  | None => tw (acc ++ w)
                  end
              | _ => aconv f Top s' rs' ws' cs (tl wsched) (acc ++ w)
              end
          | _ => aconv f c' s' rs' ws' (tl cancels) wsched (acc ++ w)
          end
      | PReady r =>
          tw (acc ++ w) ++ TR r ::
          (if is_final packet (Ret r) then [] else
             match user_writes (hd [] wsched) s' ws' with
             | Some (toks, s'', ws'') => toks ++ aconv f Top s'' rs' ws'' cancels (tl wsched) []
             | None => []
             end)
      end
    end.

  (* ---- the design before the repair (the reply and its packet lived in the future): kept only to
          document why the state must be in the connection ---- *)
  Inductive lpc := LTop | LInRead | LInPong (p : packet) (remaining : bytes).
  Definition legacy_after_keepalive (p : packet) (rest : bytes) (ws : list wev) : (pout * lpc) * bytes * list wev * bytes :=
    match flush pong ws with
    | (FDone, _, ws', w2) => ((PReady (RPacket p), LTop), rest, ws', w2)
    | (FPend, pw, ws', w2) => ((PPending Top, LInPong p pw), rest, ws', w2)
    | (FFail e, _, ws', w2) => ((PReady (RIo e), LTop), rest, ws', w2)
    end.
  (* resuming the suspended reply write: the packet is returned only by THIS future *)
  Definition legacy_resume_pong (p : packet) (pw : bytes) (ws : list wev) : option (rres packet) * lpc * list wev * bytes :=
    match flush pw ws with
    | (FDone, _, ws', w) => (Some (RPacket p), LTop, ws', w)
    | (FPend, pw', ws', w) => (None, LInPong p pw', ws', w)
    | (FFail e, _, ws', w) => (Some (RIo e), LTop, ws', w)
    end.
End Async.

Arguments PPending {packet}. Arguments PReady {packet}.
Arguments TW {packet}. Arguments TR {packet}. Arguments TU {packet}.
Arguments mkF {packet}. Arguments fbuf {packet}. Arguments pend_w {packet}. Arguments pend_p {packet}.
