"""insim/src/{insim,relay,identifiers}/*.rs + packet.rs -> Gen/Packets.v (one layout per packet struct,
the Packet magic table, enum / flag tables) + harness/src/gen/layouts.rs (the same layouts as Rust data,
used for structured case generation). Fail-closed: any attribute / type outside the grammar raises."""
import re, glob, os
from rustparse import *

PRIM = {'u8': 1, 'u16': 2, 'u32': 4, 'i8': 1, 'i16': 2, 'i32': 4, 'f32': 4}
CUSTOM_TYPES = {'Vehicle': ('CVehicle', 4), 'Track': ('CTrack', 6), 'RaceLaps': ('CRaceLaps', 1), 'Fuel': ('CFuel', 1),
                'Fuel200': ('CFuel', 1), 'SmallType': ('CSmallType', 5), 'CimMode': ('CCimMode', 3)}
# ConInfo has hand-written BinRead/BinWrite (nibble packing); its layout is transcribed by hand and tied
# to the code by correspondence only.
HAND_STRUCTS = {
    'ConInfo': [('plid', ('num', 1, None)), ('info', ('flagsof', 'CompCarInfo')), ('', ('pad', 1)), ('steer', ('num', 1, None)),
                ('thrbrk', ('custom', 'CNibHiLo', 1)), ('cluhan', ('custom', 'CNibHiLo', 1)), ('gearsp', ('custom', 'CNibHi', 1)),
                ('speed', ('num', 1, None)), ('direction', ('num', 1, None)), ('heading', ('num', 1, None)),
                ('accelf', ('num', 1, None)), ('accelr', ('num', 1, None)), ('x', ('num', 2, None)), ('y', ('num', 2, None))],
}
HAND_PACKETS = {'Mso'}  # whole-packet hand model (Wire/Mso.v)

BOOL_BR = '|x: u8| x != 0'; BOOL_BW = '|&x| x as u8'
CHAR_BR = '|x: u8| x as char'; CHAR_BW = '|&x| x as u8'

class Src:
    def __init__(self, repo):
        self.files = {}
        pats = ['/insim/src/insim/*.rs', '/insim/src/relay/*.rs', '/insim/src/identifiers/*.rs']
        for p in pats:
            for f in sorted(glob.glob(repo + p)): self.files[f] = load(f)
        for f in ['/insim_core/src/license.rs', '/insim_core/src/wind.rs', '/insim_core/src/point.rs']:
            self.files[repo + f] = load(repo + f)
        self.structs = {}; self.enums = {}; self.flags = {}; self.newtypes = {}; self.consts = {}
        for f, s in self.files.items():
            self.scan(f, s)

    def scan(self, f, s):
        for m in re.finditer(r'const (\w+): usize = (\d+);', s): self.consts[m.group(1)] = int(m.group(2))
        # bitflags
        for m in re.finditer(r'bitflags(?:::bitflags)?!\s*\{', s):
            j = match_brace(s, m.end() - 1); body = s[m.end():j]
            sm = re.search(r'pub struct (\w+): (u\d+)\s*\{', body)
            if not sm: raise TranslateError('bitflags shape in ' + f)
            name, ty = sm.groups()
            cb = body[sm.end():match_brace(body, sm.end() - 1)]
            consts = {}
            for cm in re.finditer(r'const (\w+) = ([^;]+);', cb):
                expr = cm.group(2)
                expr = re.sub(r'Self::(\w+)\.bits\(\)', lambda mm: str(consts[mm.group(1)]), expr)
                if not re.fullmatch(r'[\d\s()<|]+', expr): raise TranslateError('flag expr %s::%s = %s' % (name, cm.group(1), cm.group(2)))
                consts[cm.group(1)] = eval(expr)
            head = body[:sm.start()]
            binrw = '#[binrw]' in head
            if binrw:
                if 'br(map = Self::from_bits_truncate)' not in head or not re.search(r'bw\(map = \|&x: &(Self|%s)\| x\.bits\(\)\)' % name, head):
                    raise TranslateError('bitflags maps of ' + name)
            self.flags[name] = {'w': PRIM[ty], 'consts': consts, 'binrw': binrw}
        # items with attributes
        i = 0; lines = s.split('\n'); attrs = []
        pos = 0
        for m in re.finditer(r'((?:#\[[^\]]*\]\s*)*)pub (struct|enum) (\w+)(<[^>{]*>)?\s*(where[^{]*)?([({;])', s):
            at = re.findall(r'#\[((?:[^\[\]]|\[[^\]]*\])*)\]', m.group(1))
            kind, name = m.group(2), m.group(3)
            if name in self.flags: continue
            if m.group(6) == '(':
                j = match_brace(s, m.end() - 1, '(', ')')
                inner = s[m.end():j].strip()
                mm = re.fullmatch(r'pub (u8|u16|u32)', inner)
                if kind == 'struct' and mm and 'binrw' in at: self.newtypes[name] = PRIM[mm.group(1)]
                continue
            if m.group(6) == ';': continue
            j = match_brace(s, m.end() - 1); body = s[m.end():j]
            if kind == 'enum':
                if any(re.fullmatch(r'brw\(repr\(u8\)\)', norm_ws(a)) for a in at) and 'binrw' in at:
                    vals = []
                    for part in body.split(','):
                        p = re.sub(r'#\[[^\]]*\]', '', part).strip()
                        if not p: continue
                        vm = re.fullmatch(r'(\w+) = (\d+)', p)
                        if not vm: raise TranslateError('enum %s variant %s' % (name, p))
                        vals.append((vm.group(1), int(vm.group(2))))
                    self.enums[name] = vals
            else:
                self.structs[name] = {'attrs': [norm_ws(a) for a in at], 'body': body, 'file': f, 'generic': m.group(4)}

    def fields(self, name):
        st = self.structs[name]; body = st['body']
        out = []; i = 0; n = len(body); attrs = []
        while i < n:
            if body[i].isspace() or body[i] == ',': i += 1; continue
            if body.startswith('#[', i):
                j = match_brace(body, i + 1, '[', ']'); attrs.append(norm_ws(body[i + 2:j])); i = j + 1; continue
            m = re.match(r'(pub(?:\(crate\))? )?(\w+): ', body[i:])
            if not m: raise TranslateError('field syntax in %s near %r' % (name, body[i:i + 40]))
            k = i + m.end(); depth = 0
            while k < n and not (body[k] == ',' and depth == 0):
                if body[k] in '<[(': depth += 1
                elif body[k] in '>])': depth -= 1
                k += 1
            out.append((m.group(2), norm_ws(body[i + m.end():k]), attrs)); attrs = []; i = k + 1
        return out

def attr_args(attrs, prefix):
    """all `key = value` / bare items of attributes br(...)/bw(...)/brw(...) -> list of (which, item)"""
    out = []
    for a in attrs:
        m = re.fullmatch(r'(brw|br|bw)\((.*)\)', a)
        if not m:
            if a in ('binrw',) or a.startswith('cfg_attr') or a.startswith('derive') or a.startswith('serde') or a.startswith('cfg(') or a.startswith('allow') or a.startswith('doc') or a.startswith('default') or a.startswith('repr') or a.startswith('non_exhaustive') or a.startswith('deprecated'):
                continue
            raise TranslateError('unknown attribute #[%s]' % a)
        which, inner = m.groups()
        depth = 0; cur = ''
        for ch in inner:
            if ch in '([{<' : depth += 1
            elif ch in ')]}>' : depth -= 1
            if ch == ',' and depth == 0: out.append((which, cur.strip())); cur = ''
            else: cur += ch
        if cur.strip(): out.append((which, cur.strip()))
    return out

class Gen:
    def __init__(self, src): self.src = src

    def flags_atom(self, ty):
        fl = self.src.flags[ty]
        if not fl['binrw']: raise TranslateError('bitflags %s used as a field but not #[binrw]' % ty)
        mask = 0
        for v in fl['consts'].values(): mask |= v
        return ('flags', fl['w'], mask, ty)

    def type_atoms(self, fname, ty, items, where):
        """atoms for a field of plain type `ty` (no custom parse/write attributes)"""
        s = self.src
        if ty in PRIM: return [(fname, ('num', PRIM[ty], None))]
        if ty in s.newtypes: return [(fname, ('num', s.newtypes[ty], None))]
        if ty in s.flags: return [(fname, self.flags_atom(ty))]
        if ty in s.enums: return [(fname, ('enum', [v for _, v in s.enums[ty]], ty))]
        if ty in CUSTOM_TYPES: return [(fname, ('custom',) + CUSTOM_TYPES[ty])]
        m = re.fullmatch(r'\[(\w+); (\d+)\]', ty)
        if m:
            out = []
            for j in range(int(m.group(2))): out += self.type_atoms('%s[%d]' % (fname, j), m.group(1), [], where)
            return out
        m = re.fullmatch(r'Point<(\w+)>', ty)
        if m:
            fs = [f for f, _, _ in s.fields('Point')]
            if fs != ['x', 'y', 'z']: raise TranslateError('Point fields ' + str(fs))
            return [('%s.%s' % (fname, c), ('num', PRIM[m.group(1)], None)) for c in 'xyz']
        if ty in HAND_STRUCTS:
            out = []
            for n, a in HAND_STRUCTS[ty]:
                if a[0] == 'flagsof': a = self.flags_atom(a[1])
                out.append(('%s.%s' % (fname, n) if n else '', a))
            return out
        if ty in s.structs:
            sub, tail = self.struct_layout(ty)
            if tail[0] != 'none': raise TranslateError('nested struct %s has a variable tail' % ty)
            return [('%s.%s' % (fname, n) if n else '', a) for n, a in sub]
        raise TranslateError('%s: unresolved type %s of %s' % (where, ty, fname))

    def struct_layout(self, name):
        s = self.src; st = s.structs[name]
        if 'binrw' not in st['attrs']: raise TranslateError('struct %s is not #[binrw]' % name)
        # struct-level asserts
        maxes = {}; caps = {}
        for which, item in attr_args(st['attrs'], None):
            m = re.fullmatch(r'assert\(\*(\w+) <= (\d+)(, "[^"]*")?\)', item)
            if m and which == 'bw': maxes[m.group(1)] = int(m.group(2)); continue
            m = re.fullmatch(r'assert\((\w+)\.len\(\) <= (\w+)\)', item)
            if m and which == 'bw':
                c = m.group(2)
                caps[m.group(1)] = int(c) if c.isdigit() else s.consts[c]; continue
            raise TranslateError('struct %s attribute %s(%s)' % (name, which, item))
        out = []; tail = ('none',)
        fields = s.fields(name)
        for fi, (fname, ty, attrs) in enumerate(fields):
            if tail[0] != 'none': raise TranslateError('%s: field %s after the variable tail' % (name, fname))
            items = attr_args(attrs, None)
            pad_before = pad_after = 0
            br = {}; bw = {}
            for which, item in items:
                m = re.fullmatch(r'pad_after = \((\w+) % (\d+)\) \* (\d+)', item)
                if m and which == 'br': br['pad_rule'] = (m.group(1), int(m.group(2)), int(m.group(3))); continue
                m = re.fullmatch(r'pad_after = \((\w+)\.len\(\) % (\d+)\) \* (\d+)', item)
                if m and which == 'bw': bw['pad_rule'] = (m.group(1), int(m.group(2)), int(m.group(3))); continue
                m = re.fullmatch(r'pad_(before|after) = (\d+)', item)
                if m and which == 'brw':
                    if m.group(1) == 'before': pad_before = int(m.group(2))
                    else: pad_after = int(m.group(2))
                    continue
                m = re.fullmatch(r'(\w+)(?: = (.*))?', item, re.S) or re.fullmatch(r'(args)(\(.*\))', item)
                m2 = re.fullmatch(r'args\((.*)\)', item)
                if m2: key, val = 'args', m2.group(1)
                elif m: key, val = m.group(1), (m.group(2) or '')
                else: raise TranslateError('%s.%s attribute item %s' % (name, fname, item))
                if which in ('br', 'brw'): br[key] = norm_ws(val)
                if which in ('bw', 'brw'): bw[key] = norm_ws(val)
            if pad_before: out.append(('', ('pad', pad_before)))
            where = '%s.%s' % (name, fname)
            known = lambda d, ks: set(d) <= set(ks)
            if 'calc' in bw:
                m = re.fullmatch(r'(\w+)\.len\(\) as (u8|u16|u32)', bw['calc'])
                if not m or not known(bw, ['calc']) or br: raise TranslateError(where + ' calc shape')
                if ty != m.group(2): raise TranslateError(where + ' calc type')
                out.append((fname, ('count', PRIM[m.group(2)], caps.get(m.group(1)), m.group(1))))
            elif 'count' in br:
                m = re.fullmatch(r'Vec<(\w+)>', ty)
                if not m or not known(br, ['count', 'pad_rule']) or not known(bw, ['pad_rule']): raise TranslateError(where + ' count shape')
                rule = (1, 0)
                if 'pad_rule' in br or 'pad_rule' in bw:
                    rb, wb = br.get('pad_rule'), bw.get('pad_rule')
                    if not rb or not wb or rb[0] != br['count'] or wb[0] != fname or rb[1:] != wb[1:] or rb[1] < 1:
                        raise TranslateError(where + ' tail padding rules differ between reader and writer')
                    rule = rb[1:]
                elt, et = self.struct_layout(m.group(1))
                if et[0] != 'none': raise TranslateError(where + ' nested tail')
                tail = ('vec', elt, fname, br['count'], m.group(1), rule)
            elif 'parse_with' in br or 'write_with' in bw:
                p = br.get('parse_with', ''); w = bw.get('write_with', '')
                md = re.fullmatch(r'binrw_parse_duration::<(\w+), (\d+), _>', p); mw = re.fullmatch(r'binrw_write_duration::<(\w+), (\d+), _>', w)
                mt = re.fullmatch(r'binrw_parse_codepage_string::<(\d+), _>', p); mtw = re.fullmatch(r'binrw_write_codepage_string::<(\d+), _>', w)
                mtz = re.fullmatch(r'binrw_write_codepage_string_nul_terminated::<(\d+), _>', w)
                zterm = False
                if mtz and not mtw:
                    # the NUL-terminated writer: args are (align,) only; normalise to the plain writer's argument shape
                    mtw = mtz; zterm = True
                    wa0 = bw.get('args')
                    if wa0 is None: pass
                    elif re.fullmatch(r'\d+', wa0): bw = dict(bw); bw['args'] = 'false, ' + wa0
                    else: raise TranslateError(where + ' terminated text args %r' % wa0)
                if md or mw:
                    if not (md and mw) or md.groups() != mw.groups() or ty != 'Duration' or not known(br, ['parse_with']) or not known(bw, ['write_with']):
                        raise TranslateError(where + ' duration attributes differ between reader and writer')
                    out.append((fname, ('dur', PRIM[md.group(1)], int(md.group(2)))))
                elif mt:
                    if not mtw or mt.group(1) != mtw.group(1) or ty != 'String': raise TranslateError(where + ' text widths differ')
                    ra = br.get('args'); wa = bw.get('args')
                    raw = False
                    if ra is None and wa is None: pass
                    elif ra == 'true' and wa == 'true, 0': raw = True
                    else: raise TranslateError(where + ' text args %r %r' % (ra, wa))
                    if zterm and raw: raise TranslateError(where + ' terminated raw text')
                    out.append((fname, ('text', int(mt.group(1)), raw, zterm)))
                elif p == 'binrw_parse_codepage_string_until_eof':
                    ma = re.fullmatch(r'false, (\d+)', bw.get('args', ''))
                    if not mtw or not ma or ty != 'String' or 'args' in br: raise TranslateError(where + ' until_eof text shape')
                    tail = ('texteof', int(mtw.group(1)), int(ma.group(1)), fname, zterm)
                elif p == 'binrw_parse_spclose_strip_reserved_bits':
                    if w or ty != 'u16': raise TranslateError(where + ' spclose shape')
                    fb = norm_ws(find_block(s.files[[f for f in s.files if f.endswith('obh.rs')][0]], r'fn binrw_parse_spclose_strip_reserved_bits\(\) -> BinResult<u16>\s*\{'))
                    if fb != 'let res = u16::read_options(reader, endian, ())?; Ok(res & !61440)': raise TranslateError('spclose helper changed: ' + fb)
                    out.append((fname, ('flags', 2, 0xFFFF & ~61440, 'spclose')))
                elif p == 'parse_game_version' and w == 'write_game_version':
                    out.append((fname, ('custom', 'CGameVersion', 8)))
                elif p in ('binrw_parse_mal_allowed_mods', 'binrw_parse_ipb_bans') and w == p.replace('parse', 'write'):
                    if not re.fullmatch(r'\w+', br.get('args', '')): raise TranslateError(where + ' words args')
                    # the helper pair reads / writes plain little-endian 32-bit words, one per element, nothing else
                    src = s.files[st['file']]
                    rb = norm_ws(find_block(src, r'fn %s\(count: u8\) -> BinResult<IndexSet<\w+>>\s*\{' % p))
                    wb = norm_ws(find_block(src, r'fn %s\(input: &IndexSet<\w+>\) -> BinResult<\(\)>\s*\{' % w))
                    WORD_READERS = {
                        'let mut data = IndexSet::new(); for _i in 0..count { let _ = data.insert(Vehicle::Mod(u32::read_options(reader, endian, ())?)); } Ok(data)',
                        'let mut data = IndexSet::new(); for _i in 0..count { let ip = Ipv4Addr::from(u32::read_options(reader, endian, ())?); let _ = data.insert(ip); } Ok(data)'}
                    WORD_WRITERS = {
                        'for i in input.iter() { match i { Vehicle::Mod(val) => val.write_options(writer, endian, ())?, _ => { unreachable!( "Non-Mod vehicle managed to get into the HashSet. Should not be possible." ) }, } } Ok(())',
                        'for i in input.iter() { u32::from(*i).write_options(writer, endian, ())?; } Ok(())'}
                    if rb not in WORD_READERS: raise TranslateError(where + ' word-list reader changed: ' + rb[:200])
                    if wb not in WORD_WRITERS: raise TranslateError(where + ' word-list writer changed: ' + wb[:200])
                    if p == 'binrw_parse_mal_allowed_mods':
                        # the writer aborts (unreachable!) on a vehicle that is not a mod: what keeps one out of the set is the private field
                        # plus the guard in Mal::insert - both are part of what the model's "every entry is a 32-bit word" rests on
                        if re.search(r'pub(\([^)]*\))?\s+%s\s*:' % fname, src): raise TranslateError(where + ' the allowed-mods set became a visible field')
                        ib = norm_ws(find_block(src, r'pub fn insert\(&mut self, vehicle: Vehicle\) -> Result<bool, Error>\s*\{'))
                        if ib != 'match vehicle { Vehicle::Mod(_) => Ok(self.allowed_mods.insert(vehicle)), _ => Err(Error::VehicleNotAMod), }':
                            raise TranslateError(where + ' the guard of Mal::insert (mods only) changed: ' + ib[:200])
                    tail = ('words', fname, br['args'])
                else:
                    raise TranslateError('%s: parse_with=%r write_with=%r' % (where, p, w))
            elif 'map' in br or 'map' in bw:
                rb, wb = br.get('map', ''), bw.get('map', '')
                if ty == 'bool' and rb == BOOL_BR and wb == BOOL_BW: out.append((fname, ('bool',)))
                elif ty == 'char' and rb == CHAR_BR and wb == CHAR_BW: out.append((fname, ('char8',)))
                elif ty == 'Ipv4Addr' and rb == '|x: u32| Ipv4Addr::from(x)' and wb == '|&x: &Ipv4Addr| u32::from(x)': out.append((fname, ('num', 4, None)))
                elif ty == 'PlcAllowedCarsSet' and rb == 'PlcAllowedCarsSet::from_bits_truncate' and wb == '|x: &PlcAllowedCarsSet| x.bits()':
                    out.append((fname, ('flags', 4, self.plc_mask(), 'PlcAllowedCarsSet')))
                else: raise TranslateError('%s: map %r / %r on %s' % (where, rb, wb, ty))
            else:
                if br or bw: raise TranslateError('%s: attributes %r %r' % (where, br, bw))
                atoms = self.type_atoms(fname, ty, items, where)
                if fname in maxes:
                    if len(atoms) != 1 or atoms[0][1][0] != 'num': raise TranslateError(where + ' assert on non-numeric')
                    atoms = [(fname, ('num', atoms[0][1][1], maxes.pop(fname)))]
                out += atoms
            if pad_after:
                if tail[0] != 'none': raise TranslateError(where + ' pad after tail')
                out.append(('', ('pad', pad_after)))
        if maxes: raise TranslateError('%s: assert on unknown fields %s' % (name, maxes))
        # the count slot must refer to the tail
        cnts = [a for _, a in out if a[0] == 'count']
        if tail[0] in ('vec', 'words'):
            if len(cnts) != 1: raise TranslateError('%s: %d count slots for one tail' % (name, len(cnts)))
            cname = [n for n, a in out if a[0] == 'count'][0]
            target = cnts[0][3]
            tname = tail[2] if tail[0] == 'vec' else tail[1]
            tcnt = tail[3] if tail[0] == 'vec' else tail[2]
            if target != tname or tcnt != cname: raise TranslateError('%s: count slot %s/%s does not match tail %s/%s' % (name, cname, target, tname, tcnt))
        elif cnts: raise TranslateError('%s: count slot without tail' % name)
        return out, tail

    def plc_mask(self):
        return sum(v for _, v in self.plc_tables()[0])

    def plc_tables(self):
        f = [f for f in self.src.files if f.endswith('plc.rs')][0]; s = self.src.files[f]
        imp = find_block(s, r'impl PlcAllowedCarsSet\s*\{')
        consts = [(m.group(1), eval(m.group(2))) for m in re.finditer(r'const (\w+): u32 = (\([\d\s<]+\));', imp)]
        cd = dict(consts)
        fb = find_block(imp, r'pub fn from_bits_truncate\(value: u32\) -> Self\s*\{')
        frm = re.findall(r'if \(value & Self::(\w+)\) == Self::(\w+) \{\s*data\.insert\(Vehicle::(\w+)\);\s*\}', fb)
        rest = re.sub(r'if \(value & Self::(\w+)\) == Self::(\w+) \{\s*data\.insert\(Vehicle::(\w+)\);\s*\}', '', fb)
        if norm_ws(rest) != 'let mut data = IndexSet::default(); Self { inner: data }' or any(a != b for a, b, _ in frm):
            raise TranslateError('PlcAllowedCarsSet::from_bits_truncate shape: ' + norm_ws(rest)[:200])
        bb = find_block(imp, r'pub fn bits\(&self\) -> u32\s*\{')
        mb = find_block(bb, r'data \|= match i\s*\{')
        bits = re.findall(r'Vehicle::(\w+) => Self::(\w+)', mb)
        if norm_ws(re.sub(r'Vehicle::(\w+) => Self::(\w+),', '', mb)) != '_ => 0,': raise TranslateError('PlcAllowedCarsSet::bits arms')
        return consts, [(cd[c], v) for c, _, v in frm], [(v, cd[c]) for v, c in bits]

def coq_atom(a):
    k = a[0]
    opt = lambda x: 'None' if x is None else '(Some %d)' % x
    if k == 'num': return 'ANum %d %s' % (a[1], opt(a[2]))
    if k == 'pad': return 'APad %d' % a[1]
    if k == 'enum': return 'AEnum %s' % coq_list(a[1])
    if k == 'flags': return 'AFlags %d %d' % (a[1], a[2])
    if k == 'bool': return 'ABool'
    if k == 'char8': return 'AChar8'
    if k == 'count': return 'ACount %d %s' % (a[1], opt(a[2]))
    if k == 'text': return 'AText %d %s' % (a[1], 'true' if a[3] else 'false')
    if k == 'dur': return 'ADur %d %d' % (a[1], a[2])
    if k == 'custom': return 'ACustom %s' % a[1]
    raise TranslateError('atom ' + str(a))

def coq_fields(fs):
    return '[' + ';\n      '.join('("%s"%%string, %s)' % (n, coq_atom(a)) for n, a in fs) + ']'

def rust_atom(a):
    k = a[0]
    if k == 'num': return 'Atom::Num { w: %d, max: %s }' % (a[1], 'None' if a[2] is None else 'Some(%d)' % a[2])
    if k == 'pad': return 'Atom::Pad(%d)' % a[1]
    if k == 'enum': return 'Atom::Enum(&[%s])' % ', '.join(str(v) for v in a[1])
    if k == 'flags': return 'Atom::Flags { w: %d, mask: %d }' % (a[1], a[2])
    if k == 'bool': return 'Atom::Bool'
    if k == 'char8': return 'Atom::Char8'
    if k == 'count': return 'Atom::Count { w: %d, cap: %s }' % (a[1], 'None' if a[2] is None else 'Some(%d)' % a[2])
    if k == 'text': return 'Atom::Text { n: %d, raw: %s, z: %s }' % (a[1], 'true' if a[2] else 'false', 'true' if a[3] else 'false')
    if k == 'dur': return 'Atom::Dur { w: %d, scale: %d }' % (a[1], a[2])
    if k == 'custom': return 'Atom::Custom(Custom::%s, %d)' % (a[1][1:], a[2])
    raise TranslateError('atom ' + str(a))

def rust_fields(fs):
    return '&[' + ', '.join('("%s", %s)' % (n, rust_atom(a)) for n, a in fs) + ']'

# ---- the text-field helpers of insim_core/src/string/mod.rs: Wire/Layout.v (write_text, write_aligned_z, read_text) is their
#      transcription by hand; the translator accepts exactly the source text that was transcribed
STRING_HELPERS = {
 'strip_trailing_nul': (r'pub fn strip_trailing_nul\(input: &\[u8\]\) -> &\[u8\]\s*\{',
   "if let Some(pos) = input.iter().position(|x| *x == 0) { &input[..pos] } else { input }"),
 'binrw_write_codepage_string': (r'pub fn binrw_write_codepage_string<const SIZE: usize>\([^)]*\)\s*->\s*binrw::BinResult<\(\)>\s*\{',
   "let mut res: Vec<u8> = if raw { input.as_bytes().to_vec() } else { codepages::to_lossy_bytes(input).to_vec() }; if align_to > 1 { let align_to = (align_to as usize) - 1; let round_to = (res.len() + align_to) & !align_to; if round_to != res.len() { res.put_bytes(0, round_to - res.len()); } res.truncate(SIZE); } else { res.truncate(SIZE); let remaining = SIZE - res.len(); if remaining > 0 { res.put_bytes(0, remaining); } } res.write_options(writer, endian, ())?; Ok(())"),
 'binrw_write_codepage_string_nul_terminated': (r'pub fn binrw_write_codepage_string_nul_terminated<const SIZE: usize>\([^)]*\)\s*->\s*binrw::BinResult<\(\)>\s*\{',
   "let mut res = codepages::to_lossy_bytes(input).to_vec(); res.truncate(SIZE - 1); res.push(0); let len = if align_to > 1 { let align_to = (align_to as usize) - 1; ((res.len() + align_to) & !align_to).min(SIZE) } else { SIZE }; res.resize(len, 0); res.write_options(writer, endian, ())?; Ok(())"),
 'binrw_parse_codepage_string': (r'pub fn binrw_parse_codepage_string<const SIZE: usize>\(raw: bool\) -> binrw::BinResult<String>\s*\{',
   "<[u8; SIZE]>::read_options(reader, endian, ()).map(|bytes| { let bytes = strip_trailing_nul(&bytes); if raw { Ok(String::from_utf8_lossy(bytes).to_string()) } else { Ok(codepages::to_lossy_string(bytes).to_string()) } })?"),
 'binrw_parse_codepage_string_until_eof': (r'pub fn binrw_parse_codepage_string_until_eof\(raw: bool\) -> binrw::BinResult<String>\s*\{',
   "until_eof(reader, endian, ()).map(|bytes: Vec<u8>| { let bytes = strip_trailing_nul(&bytes); if raw { Ok(String::from_utf8_lossy(bytes).to_string()) } else { Ok(codepages::to_lossy_string(bytes).to_string()) } })?"),
}
def check_string_helpers(repo):
    src = load(repo + '/insim_core/src/string/mod.rs')
    for name, (hdr, want) in STRING_HELPERS.items():
        got = norm_ws(find_block(src, hdr))
        if got != want: raise TranslateError('text helper %s is no longer the source Wire/Layout.v transcribes: %s' % (name, got[:300]))

# the two helpers behind every scaled time field (Wire/Layout.v ADur: write = whole milliseconds / SCALE, refused when the quotient does not
# fit the field's integer type; read = wire value * SCALE milliseconds, computed in 64 bits)
DURATION_HELPERS = {
 'binrw_write_duration': (r'pub fn binrw_write_duration<[^{]*?>\(\s*input: &Duration,?\s*\)\s*->\s*binrw::BinResult<\(\)>\s*\{',
   'let pos = writer.stream_position()?; match T::try_from(input.as_millis() / SCALE) { Ok(v) => v.write_options(writer, endian, ()), Err(_) => Err(BinError::AssertFail { pos, message: "Could not convert to duration without loss".into(), }), }'),
 'binrw_parse_duration': (r'pub fn binrw_parse_duration<T: TryInto<u64> \+ for<\'a> BinRead<Args<\'a> = \(\)>, const SCALE: u64>\(\s*\)\s*->\s*binrw::BinResult<Duration>\s*\{',
   'let pos = reader.stream_position()?; let res = T::read_options(reader, endian, ())?; match TryInto::<u64>::try_into(res) { Ok(v) => Ok(Duration::from_millis(v * SCALE)), Err(_) => Err(BinError::AssertFail { pos, message: "Could not convert to duration without loss".into(), }), }'),
}
def check_duration_helpers(repo):
    src = strip_comments(load(repo + '/insim_core/src/duration.rs'))
    for name, (hdr, want) in DURATION_HELPERS.items():
        got = norm_ws(find_block(src, hdr))
        if got != want: raise TranslateError('duration helper %s is no longer the source Wire/Layout.v transcribes: %s' % (name, got[:300]))

def generate(repo):
    check_string_helpers(repo)
    check_duration_helpers(repo)
    src = Src(repo); g = Gen(src)
    pk = load(repo + '/insim/src/packet.rs')
    body = find_block(pk, r'pub enum Packet\s*\{')
    variants = re.findall(r'#\[brw\(magic = (\d+)u8\)\]\s*(\w+)\((\w+)\)', body)
    coq = ['(* GENERATED by tools/translate.py from insim/src/{insim,relay,identifiers}/*.rs and packet.rs — do not edit *)',
           'Require Import Coq.Strings.String.', 'Require Import Base.Bytes Wire.Layout.', 'Local Open Scope N_scope.', '']
    rust = ['// GENERATED by tools/translate.py — do not edit', 'use crate::layout::*;', '']
    table = []; rtable = []; info = {}
    for magic, var, st in variants:
        if st in HAND_PACKETS:
            table.append('(%s, "%s"%%string, KMso)' % (magic, var))
            rtable.append('Kind { magic: %s, name: "%s", fixed: &[], tail: Tail::Hand }' % (magic, var))
            continue
        fs, tail = g.struct_layout(st)
        if tail[0] == 'none': ct = 'TNone'; rt = 'Tail::None'
        elif tail[0] == 'vec':
            ct = 'TVec %s %d %d' % (coq_fields(tail[1]), tail[5][0], tail[5][1]); rt = 'Tail::Vec { elt: %s, padm: %d, padk: %d }' % (rust_fields(tail[1]), tail[5][0], tail[5][1])
        elif tail[0] == 'words': ct = 'TWords'; rt = 'Tail::Words'
        elif tail[0] == 'texteof': ct = 'TTextEof %d %d %s' % (tail[1], tail[2], 'true' if tail[4] else 'false'); rt = 'Tail::TextEof { max: %d, align: %d, z: %s }' % (tail[1], tail[2], 'true' if tail[4] else 'false')
        coq.append('Definition lay_%s : layout := {| fixed := %s;\n    ltail := %s |}.' % (st, coq_fields(fs), ct))
        table.append('(%s, "%s"%%string, KLayout lay_%s)' % (magic, var, st))
        rtable.append('Kind { magic: %s, name: "%s", fixed: %s, tail: %s }' % (magic, var, rust_fields(fs), rt))
        info[var] = len(fs)
    coq.append('')
    # (kind, [(field path, Rust type name of the enum / bitflags it uses)]) incl. the element fields of a counted tail ("tail." prefix)
    ftypes = []
    for magic, var, st in variants:
        if st in HAND_PACKETS: continue
        fs, tail = g.struct_layout(st)
        ent = [(n, a[2]) for n, a in fs if a[0] == 'enum'] + [(n, a[3]) for n, a in fs if a[0] == 'flags']
        if tail[0] == 'vec':
            ent += [('tail.' + n, a[2]) for n, a in tail[1] if a[0] == 'enum'] + [('tail.' + n, a[3]) for n, a in tail[1] if a[0] == 'flags']
        ftypes.append('("%s"%%string, [%s])' % (var, '; '.join('("%s"%%string, "%s"%%string)' % e for e in ent)))
    coq.append('Definition field_types : list (string * list (string * string)) := [\n  ' + ';\n  '.join(ftypes) + '].')
    coq.append('Inductive pkind := KLayout (l : layout) | KMso.')
    coq.append('Definition packet_table : list (N * string * pkind) := [\n  ' + ';\n  '.join(table) + '].')
    # enum / flag tables (for C02 and the customs)
    coq.append('Definition enum_tables : list (string * list (string * N)) := [\n  ' +
               ';\n  '.join('("%s"%%string, [%s])' % (n, '; '.join('("%s"%%string, %d)' % (v, x) for v, x in vs)) for n, vs in sorted(src.enums.items())) + '].')
    coq.append('Definition flag_tables : list (string * (N * list (string * N))) := [\n  ' +
               ';\n  '.join('("%s"%%string, (%d, [%s]))' % (n, f['w'], '; '.join('("%s"%%string, %d)' % (c, v) for c, v in f['consts'].items())) for n, f in sorted(src.flags.items())) + '].')
    for fname in ('LcsFlags', 'LclFlags'):
        mk = 0
        for v in src.flags[fname]['consts'].values(): mk |= v
        if src.flags[fname]['w'] != 4: raise TranslateError(fname + ' width')
        coq.append('Definition gen_mask_%s : N := %d.' % (fname, mk))
    coq.append('Definition gen_mask_Plc : N := %d.' % g.plc_mask())
    consts, frm, bits = g.plc_tables()
    vidx = {v: i for i, v in enumerate(['Xfg', 'Xrg', 'Fbm', 'Xrt', 'Rb4', 'Fxo', 'Lx4', 'Lx6', 'Mrt', 'Uf1', 'Rac', 'Fz5', 'Fox', 'Xfr', 'Ufr', 'Fo8', 'Fxr', 'Xrr', 'Fzr', 'Bf1'])}
    coq.append('Definition plc_consts : list (string * N) := [%s].' % '; '.join('("%s"%%string, %d)' % (c, v) for c, v in consts))
    coq.append('(* from_bits_truncate: (bit constant, vehicle index) ; bits(): (vehicle index, bit constant) *)')
    coq.append('Definition plc_from_bits : list (N * N) := [%s].' % '; '.join('(%d, %d)' % (c, vidx[v]) for c, v in frm))
    coq.append('Definition plc_to_bits : list (N * N) := [%s].' % '; '.join('(%d, %d)' % (vidx[v], c) for v, c in bits))
    coq.append('')
    # typed glue: resize the counted vector, set the k-th top-level String field
    glue = ['// GENERATED by tools/translate.py — do not edit', '#![allow(unused_variables, unreachable_patterns)]', 'use insim::Packet;', '',
            'fn resize<T: Clone + Default>(v: &mut Vec<T>, k: usize) { while v.len() < k { let e = v.last().cloned().unwrap_or_default(); v.push(e); } v.truncate(k); }', '']
    vec_arms = []; text_arms = []; ntext = []; dur_arms = []; ndur = []
    def awidth(a):
        k = a[0]
        if k in ('num', 'pad', 'flags', 'count', 'text', 'dur'): return a[1]
        if k in ('enum', 'bool', 'char8'): return 1
        if k == 'custom': return a[2]
        raise TranslateError('width of ' + str(a))
    for magic, var, st in variants:
        if st in HAND_PACKETS:
            text_arms.append('        Packet::%s(x) => match idx { 0 => { x.msg = s.to_string(); true }, _ => false },' % var); ntext.append('        Packet::%s(_) => 1,' % var); continue
        fields = src.fields(st)
        for fname, ty, attrs in fields:
            if re.fullmatch(r'Vec<\w+>', ty) and any('count' in a for a in attrs):
                vec_arms.append('        Packet::%s(x) => { resize(&mut x.%s, k); true },' % (var, fname))
        durs = [fname for fname, ty, attrs in fields if ty == 'Duration']
        if durs:
            lay, _ = g.struct_layout(st); arms = []
            for i, dn in enumerate(durs):
                off = 2; hit = None
                for an, a in lay:
                    if an == dn and a[0] == 'dur': hit = (off, a[1], a[2]); break
                    off += awidth(a)
                if hit is None: raise TranslateError('%s.%s: Duration field without a duration atom' % (st, dn))
                arms.append('%d => { x.%s = d; Some((%d, %d, %d, "%s")) },' % (i, dn, hit[0], hit[1], hit[2], dn))
            dur_arms.append('        Packet::%s(x) => match idx { %s _ => None },' % (var, ' '.join(arms)))
            ndur.append('        Packet::%s(_) => %d,' % (var, len(durs)))
        strs = [fname for fname, ty, attrs in fields if ty == 'String']
        if strs:
            text_arms.append('        Packet::%s(x) => match idx { %s _ => false },' % (var, ' '.join('%d => { x.%s = s.to_string(); true },' % (i, f) for i, f in enumerate(strs))))
            ntext.append('        Packet::%s(_) => %d,' % (var, len(strs)))
    glue += ['pub fn vec_resize(p: &mut Packet, k: usize) -> bool {', '    match p {'] + vec_arms + ['        _ => false,', '    }', '}', '']
    glue += ['pub fn set_text(p: &mut Packet, idx: usize, s: &str) -> bool {', '    match p {'] + text_arms + ['        _ => false,', '    }', '}', '']
    glue += ['/// set the idx-th top-level Duration field; returns (byte offset in the frame, width, resolution in ms, field name)',
             'pub fn set_dur(p: &mut Packet, idx: usize, d: std::time::Duration) -> Option<(usize, usize, u64, &\'static str)> {', '    match p {'] + dur_arms + ['        _ => None,', '    }', '}', '']
    glue += ['pub fn dur_fields(p: &Packet) -> usize {', '    match p {'] + ndur + ['        _ => 0,', '    }', '}', '']
    glue += ['pub fn text_fields(p: &Packet) -> usize {', '    match p {'] + ntext + ['        _ => 0,', '    }', '}', '']
    rust.append('pub static KINDS: &[Kind] = &[\n    ' + ',\n    '.join(rtable) + ',\n];')
    rust.append('')
    return {'Packets.v': '\n'.join(coq)}, {'kinds': len(variants), 'fields': info, '_harness': {'layouts.rs': '\n'.join(rust), 'glue.rs': '\n'.join(glue)}}
