(* wire group: packet layouts, customs, whole-frame codec *)
let mode_of s = if s = "C" then Compressed else Uncompressed
let show_code (c, b) = match int_of_n c with 0 -> "ok:" ^ hex_of_bytes b | 1 -> "dec:E" | 2 -> "dec:P" | 3 -> "enc:E" | _ -> "enc:P"
let handle (toks : Stdlib.String.t list) : Stdlib.String.t =
  match toks with
  | ["rt"; m; h] ->
      let (c, b) = x_rt (mode_of m) (bytes_of_hex h) in
      (match int_of_n c with 0 -> "ok:" ^ hex_of_bytes b | 1 -> "dec:E" | 2 -> "dec:P" | 3 -> "enc:E" | _ -> "enc:P")
  | ["cls"; m; h] ->
      let (c, n) = x_cls (mode_of m) (bytes_of_hex h) in
      (match int_of_n c with 0 -> "need 0" | 1 -> Printf.sprintf "got %d" (int_of_nat n) | 2 -> Printf.sprintf "bad %d" (int_of_nat n) | 3 -> "frameerr 0" | _ -> "panic 0")
  | ["vecrep"; m; h; k] -> show_code (x_vecrep (mode_of m) (bytes_of_hex h) (nat_of_int (int_of_string k)))
  | ["settext"; m; h; i; t] -> show_code (x_settext (mode_of m) (bytes_of_hex h) (nat_of_int (int_of_string i)) (bytes_of_hex t))
  | ["tread"; h] -> (match x_tread (bytes_of_hex h) with Some c -> Printf.sprintf "T %s %d" (hex_of_bytes c) (int_of_n (x_tflags (bytes_of_hex h))) | None -> "E")
  | ["rldec"; b] -> let (t, n) = x_rldec (n_of_int (int_of_string b)) in Printf.sprintf "%d %d" (int_of_n t) (int_of_n n)
  | ["rlenc"; t; n] -> string_of_int (int_of_n (x_rlenc (n_of_int (int_of_string t)) (n_of_int (int_of_string n))))
  | "builder" :: ops ->
      let opt f s = if s = "none" then None else Some (f s) in
      let num s = n_of_int (int_of_string s) in
      let parse_op s = match Stdlib.String.split_on_char ':' s with
        | ["tcp"] -> OTcp | ["relay"] -> ORelay
        | ["udp"; p] -> OUdp (opt num p)
        | ["mode"; m] -> OMode (mode_of m)
        | ["verify"; v] -> OVerify (v = "1")
        | ["admin"; a] -> OAdmin (opt bytes_of_hex a)
        | ["reqi"; r] -> OReqi (num r)
        | ["flags"; f] -> OFlags (num f)
        | ["flag"; i; e] -> OFlag (nat_of_int (int_of_string i), e = "1")
        | ["prefix"; p] -> OPrefix (opt num p)
        | ["iname"; a] -> OIname (opt bytes_of_hex a)
        | ["interval"; d] -> OInterval (opt num d)
        | ["other"; _] -> OOther
        | _ -> failwith ("op " ^ s) in
      let (m, code) = x_handshake (Stdlib.List.map parse_op ops) in
      (match m with Compressed -> "C " | Uncompressed -> "U ") ^ show_code code
  | _ -> "?bad-op"
let () = main handle
