(* Net/FramedProofs.v — the session theorem (C05), with the write trace (C07) and the
   version gate (C09) carried by the same induction; write_all completeness (C06).
   Unbounded in the number of frames, their sizes, the segmentation of the byte stream and the
   placement of transient errors. Axiom-free. *)
Require Import Base.Bytes Net.Frame Net.FrameProofs Net.Framed.
Local Open Scope N_scope.

(* ================= C06: write_all ================= *)
Lemma write_all_step w ws buf : buf <> [] ->
  write_all (w :: ws) buf =
  match w with
  | WAccept k => let n := Nat.min (S k) (length buf) in
                 let '(d, r, ws2) := write_all ws (skipn n buf) in (firstn n buf ++ d, r, ws2)
  | WPending => write_all ws buf
  | WFail e => ([], WErr e, ws)
  end.
Proof. destruct buf; [congruence|reflexivity]. Qed.

Lemma write_all_prefix ws : forall buf d r ws',
  write_all ws buf = (d, r, ws') -> exists rest, buf = d ++ rest /\ (r = WOk -> rest = []).
Proof.
  induction ws as [|w ws IH]; intros buf d r ws'.
  - destruct buf; cbn [write_all]; intros [= <- <- <-].
    + exists []. auto.
    + eexists. split; [reflexivity|discriminate].
  - destruct buf as [|b buf']; [cbn [write_all]; intros [= <- <- <-]; exists []; auto|].
    remember (b :: buf') as buf eqn:Hbuf. rewrite write_all_step by (subst buf; discriminate).
    destruct w as [k| |e]; cbv zeta.
    + destruct (write_all ws (skipn (Nat.min (S k) (length buf)) buf)) as [[d1 r1] ws1] eqn:E.
      intros [= <- <- <-]. destruct (IH _ _ _ _ E) as [rest [H1 H2]].
      exists rest. split; [|exact H2].
      rewrite <- app_assoc, <- H1. symmetry. apply firstn_skipn.
    + intros H. apply (IH _ _ _ _ H).
    + intros [= <- <- <-]. exists buf. split; [reflexivity|discriminate].
Qed.

(* whatever the acceptance pattern, what reaches the transport is a prefix of the frame, and a
   successful return means the whole frame, exactly, arrived *)
Theorem write_all_complete ws buf d ws' :
  write_all ws buf = (d, WOk, ws') -> d = buf.
Proof.
  intros H. destruct (write_all_prefix _ _ _ _ _ H) as [rest [H1 H2]].
  rewrite (H2 eq_refl), app_nil_r in H1. congruence.
Qed.

(* a write_all that ends in an error has not written everything *)
Lemma write_all_err_short ws : forall buf d e ws',
  write_all ws buf = (d, WErr e, ws') -> (length d < length buf)%nat.
Proof.
  induction ws as [|w ws IH]; intros buf d e ws' H.
  - destruct buf; cbn [write_all] in H; discriminate.
  - destruct buf as [|b buf']; [cbn [write_all] in H; discriminate|].
    remember (b :: buf') as buf eqn:Hbuf. rewrite write_all_step in H by (subst buf; discriminate).
    destruct w as [k| |e0]; cbv zeta in H.
    + destruct (write_all ws (skipn (Nat.min (S k) (length buf)) buf)) as [[d1 r1] ws1] eqn:E.
      injection H as <- -> <-. apply IH in E. rewrite skipn_length in E.
      rewrite app_length, firstn_length.
      pose proof (Nat.le_min_r (S k) (length buf)) as Hm.
      destruct (length buf) as [|m'] eqn:El; [cbn in E; lia|]. cbn [Nat.min Init.Nat.min] in E |- *.
      pose proof (Nat.le_min_r k m'). pose proof (Nat.le_min_l k m'). rewrite (Nat.min_l (Nat.min k m') m') by lia. lia.
    + exact (IH _ _ _ _ H).
    + injection H as <- _ _. subst buf. cbn. lia.
Qed.

(* C06 / C07, blocking connection, write half failing inside the keep-alive reply: the keep-alive is handed over (WOk) only when
   the WHOLE reply has reached the transport; after a failure what reached it is a STRICT prefix of the reply, and the failure
   is what the caller gets instead of the packet *)
Theorem reply_whole_or_error pong ws d r ws' : reply_then_return pong ws = (d, r, ws') ->
  (r = WOk -> d = pong) /\ (forall e, r = WErr e -> exists rest, pong = d ++ rest /\ rest <> []).
Proof.
  unfold reply_then_return. intros H. split.
  - intros ->. exact (write_all_complete _ _ _ _ H).
  - intros e ->. destruct (write_all_prefix _ _ _ _ _ H) as [rest [H1 _]]. exists rest. split; [exact H1|].
    intros ->. rewrite app_nil_r in H1. apply write_all_err_short in H. subst d. lia.
Qed.

Definition accepts (w : wev) : bool := match w with WAccept _ => true | _ => false end.
Definition no_fail (w : wev) : bool := match w with WFail _ => false | _ => true end.

(* fairness: a script without failures that is ready at least |frame| times completes the write *)
Theorem write_all_fair ws : forall buf,
  forallb no_fail ws = true -> (length buf <= length (filter accepts ws))%nat ->
  exists ws', write_all ws buf = (buf, WOk, ws').
Proof.
  induction ws as [|w ws IH]; intros buf Hnf Hlen.
  - destruct buf; [eexists; reflexivity|cbn in Hlen; lia].
  - destruct buf as [|b buf']; [eexists; reflexivity|].
    remember (b :: buf') as buf eqn:Hbuf. rewrite write_all_step by (subst buf; discriminate).
    assert (1 <= length buf)%nat as Hb1 by (subst buf; cbn [length]; lia).
    cbn [forallb] in Hnf. apply andb_prop in Hnf as [Hw Hnf].
    destruct w as [k| |e]; [| |discriminate]; cbv zeta.
    + cbn [filter accepts length] in Hlen.
      set (n := Nat.min (S k) (length buf)).
      assert (1 <= n)%nat as Hn1 by (subst n; lia).
      destruct (IH (skipn n buf) Hnf) as [ws' Hw'].
      { rewrite skipn_length. lia. }
      rewrite Hw'. eexists. rewrite firstn_skipn. reflexivity.
    + cbn [filter accepts] in Hlen. apply IH; assumption.
Qed.

(* a sequence of writes: bytes on the transport = concatenation of the frames, in call order *)
Fixpoint write_seq (ws : list wev) (frames : list bytes) : bytes * bool :=
  match frames with
  | [] => ([], true)
  | f :: fs =>
      let '(d, r, ws') := write_all ws f in
      match r with
      | WOk => let '(d', ok) := write_seq ws' fs in (d ++ d', ok)
      | _ => (d, false)
      end
  end.

Theorem write_seq_contiguous frames : forall ws d,
  write_seq ws frames = (d, true) -> d = concat frames.
Proof.
  induction frames as [|f fs IH]; intros ws d; cbn [write_seq concat].
  - intros [= <-]. reflexivity.
  - destruct (write_all ws f) as [[d1 r1] ws1] eqn:E. destruct r1; try discriminate.
    destruct (write_seq ws1 fs) as [d2 ok] eqn:E2. intros [= <- ->].
    rewrite (write_all_complete _ _ _ _ E), (IH _ _ E2). reflexivity.
Qed.

(* ================= C05 / C07 / C09: the read loop ================= *)
Section FramedProofs.
  Variable packet : Type.
  Variable parse : bytes -> res packet.
  Variable ver_of : packet -> option N.
  Variable is_keepalive : packet -> bool.
  Variable version : N.
  Variable m : mode.
  Variable verify : bool.
  Variable pong : bytes.
  Hypothesis parse_total : forall b, parse b <> Panic.

  Notation out := (out packet).
  Notation read := (read packet parse ver_of is_keepalive version m verify pong).
  Notation session := (session packet parse ver_of is_keepalive version m verify pong).
  Notation try_decode := (try_decode packet parse ver_of is_keepalive version m verify pong).
  Notation expected_frame := (expected_frame packet parse ver_of is_keepalive version verify pong).
  Notation deliver := (deliver packet ver_of is_keepalive version verify pong).
  Notation wf := (wf_frame m).

  Lemma read_unfold buf tr :
    read buf tr =
    match try_decode buf with
    | Some (o, b) => (o, b, tr)
    | None =>
      match tr with
      | [] => ([Ret RBlocked], buf, [])
      | Data [] :: tr' => ([Ret RDisconnected], buf, tr')
      | Data bs :: tr' => read (buf ++ bs) tr'
      | RdErr e :: tr' => ([Ret (RIo e)], buf, tr')
      | Elapsed :: tr' => ([Ret RTimeout], buf, tr')
      | Eof :: tr' => ([Ret RDisconnected], buf, tr')
      end
    end.
  Proof. destruct tr; reflexivity. Qed.

  Lemma wf_nonempty f : wf f -> f <> [].
  Proof. intros [H _]. destruct f; [cbn in H; unfold min_len in H; lia|discriminate]. Qed.

  Lemma try_decode_complete f rest : wf f -> try_decode (f ++ rest) = Some (expected_frame f, rest).
  Proof.
    intros Hwf. unfold Framed.try_decode.
    destruct (f ++ rest) eqn:E.
    { apply app_eq_nil in E as [E _]. exfalso. exact (wf_nonempty _ Hwf E). }
    rewrite <- E, decode_complete by exact Hwf. unfold Framed.expected_frame.
    destruct (parse (tl f)) eqn:Ep; try reflexivity. exfalso. exact (parse_total _ Ep).
  Qed.

  Lemma try_decode_prefix f k : wf f -> (k < length f)%nat -> try_decode (firstn k f) = None.
  Proof.
    intros Hwf Hk. unfold Framed.try_decode. destruct (firstn k f) eqn:E; [reflexivity|].
    rewrite <- E, decode_prefix by assumption. reflexivity.
  Qed.

  Definition ev_ok (e : rev) : Prop :=
    match e with Data (_ :: _) => True | RdErr _ => True | Elapsed => True | _ => False end.
  Definition is_data (e : rev) : Prop := match e with Data _ => True | _ => False end.
  Definition is_err (e : rev) : Prop := match e with RdErr _ | Elapsed => True | _ => False end.

  Lemma app_split_le {A} (a b c d : list A) : a ++ b = c ++ d -> (length c <= length a)%nat ->
    exists r, a = c ++ r /\ d = r ++ b.
  Proof.
    revert c. induction a as [|x a IH]; intros c H Hl.
    - destruct c; cbn in *; [|lia]. exists []. auto.
    - destruct c as [|y c]; cbn in *.
      + exists (x :: a). auto.
      + injection H as -> H. destruct (IH c H ltac:(lia)) as [r [-> ->]]. exists r. auto.
  Qed.

  Lemma app_split_lt {A} (a b c d : list A) : a ++ b = c ++ d -> (length a < length c)%nat ->
    a = firstn (length a) c.
  Proof.
    revert c. induction a as [|x a IH]; intros c H Hl; [reflexivity|].
    destruct c as [|y c]; cbn in *; [lia|]. injection H as -> H. f_equal. apply IH; [assumption|lia].
  Qed.

  (* one read(), under the invariant "buffer ++ undelivered data = remaining frames" *)
  Lemma read_step tr : Forall ev_ok tr -> forall buf fs,
    Forall wf fs -> buf ++ data_of tr = concat fs ->
    (exists f fs' buf' tr' pre, fs = f :: fs' /\ tr = pre ++ tr' /\ Forall is_data pre /\
        read buf (tr ++ [Eof]) = (expected_frame f, buf', tr' ++ [Eof]) /\
        buf' ++ data_of tr' = concat fs')
    \/ (exists e buf' tr' pre, tr = pre ++ e :: tr' /\ Forall is_data pre /\ is_err e /\
        read buf (tr ++ [Eof]) = (transient_of packet e, buf', tr' ++ [Eof]) /\
        buf' ++ data_of tr' = concat fs)
    \/ (fs = [] /\ tr = [] /\ buf = [] /\ read buf (tr ++ [Eof]) = ([Ret RDisconnected], [], [])).
  Proof.
    induction 1 as [|e tr He Htr IH]; intros buf fs Hwf Heq.
    - (* script exhausted: everything is in the buffer *)
      cbn [data_of] in Heq. rewrite app_nil_r in Heq. subst buf.
      destruct fs as [|f fs'].
      + right. right. cbn [concat app]. repeat split; reflexivity.
      + left. inversion Hwf as [|? ? Hf Hfs]; subst.
        exists f, fs', (concat fs'), [], []. cbn [concat app data_of].
        rewrite read_unfold, try_decode_complete by exact Hf.
        repeat split; auto. apply app_nil_r.
    - destruct fs as [|f fs'].
      + (* no frame left: buffer empty, no data events: the head must be an error event *)
        cbn [concat] in Heq. apply app_eq_nil in Heq as [-> Hd].
        destruct e as [bs|c| |]; try contradiction.
        * destruct bs; [contradiction|cbn in Hd; discriminate].
        * right. left. exists (RdErr c), [], tr, []. cbn [app data_of concat] in *.
          repeat split; auto.
        * right. left. exists Elapsed, [], tr, []. cbn [app data_of concat] in *.
          repeat split; auto.
      + inversion Hwf as [|? ? Hf Hfs]; subst. cbn [concat] in Heq.
        destruct (le_lt_dec (length f) (length buf)) as [Hle|Hlt].
        * (* the buffer already holds the whole next frame *)
          destruct (app_split_le _ _ _ _ Heq Hle) as [r [-> Hr]].
          left. exists f, fs', r, (e :: tr), []. cbn [app].
          rewrite read_unfold, try_decode_complete by exact Hf. repeat split; auto.
        * pose proof (app_split_lt _ _ _ _ Heq Hlt) as Hpre.
          assert (try_decode buf = None) as Hnone.
          { rewrite Hpre. apply try_decode_prefix; assumption. }
          destruct e as [bs|c| |]; try contradiction.
          -- destruct bs as [|b bs]; [contradiction|].
             cbn [data_of] in Heq. rewrite app_assoc in Heq.
             assert (read buf ((Data (b :: bs) :: tr) ++ [Eof]) = read (buf ++ b :: bs) (tr ++ [Eof])) as Hrd.
             { rewrite read_unfold, Hnone. reflexivity. }
             rewrite Hrd.
             destruct (IH (buf ++ b :: bs) (f :: fs') Hwf Heq) as
               [[f0 [fs0 [buf' [tr' [pre [Hfs0 [Htr' [Hpre' [Hread Hinv]]]]]]]]]
               |[[e0 [buf' [tr' [pre [Htr' [Hpre' [He0 [Hread Hinv]]]]]]]]
                |[Hnil _]]]; [| |discriminate].
             ++ left. exists f0, fs0, buf', tr', (Data (b :: bs) :: pre).
                split; [exact Hfs0|]. split; [cbn [app]; congruence|].
                split; [constructor; [exact I|exact Hpre']|]. split; assumption.
             ++ right. left. exists e0, buf', tr', (Data (b :: bs) :: pre).
                split; [cbn [app]; congruence|].
                split; [constructor; [exact I|exact Hpre']|]. split; [exact He0|]. split; assumption.
          -- right. left. exists (RdErr c), buf, tr, []. cbn [app data_of] in *.
             rewrite read_unfold, Hnone. repeat split; auto.
          -- right. left. exists Elapsed, buf, tr, []. cbn [app data_of] in *.
             rewrite read_unfold, Hnone. repeat split; auto.
  Qed.

  Definition keep (o : out) : bool := negb (is_transient packet o).

  Lemma deliver_shape p :
    existsb (is_final packet) (deliver p) = false /\ filter keep (deliver p) = deliver p /\
    filter (is_transient packet) (deliver p) = [].
  Proof.
    unfold Framed.deliver.
    destruct (if verify then ver_of p else None) as [v|];
      [destruct (v =? version)|]; destruct (is_keepalive p); cbn; auto.
  Qed.

  Lemma expected_shape f :
    existsb (is_final packet) (expected_frame f) = false /\
    filter keep (expected_frame f) = expected_frame f /\
    filter (is_transient packet) (expected_frame f) = [].
  Proof.
    unfold Framed.expected_frame. destruct (parse (tl f)) eqn:E.
    - apply deliver_shape.
    - cbn. auto.
    - exfalso. exact (parse_total _ E).
  Qed.

  Lemma transient_shape e : is_err e ->
    existsb (is_final packet) (transient_of packet e) = false /\
    filter keep (transient_of packet e) = [] /\
    filter (is_transient packet) (transient_of packet e) = transient_of packet e.
  Proof. destruct e; cbn; try contradiction; auto. Qed.

  Lemma transients_data pre : Forall is_data pre -> concat (map (transient_of packet) pre) = [].
  Proof. induction 1 as [|e pre He _ IH]; [reflexivity|]. destruct e; try contradiction. exact IH. Qed.

  (* C05 + C07 + C09 in one statement: the successful results and keep-alive writes are exactly
     the per-frame expectations in order, followed by Disconnected; the transient results are
     exactly the transport's transient events, in order *)
  Theorem session_frames : forall fuel fs tr buf,
    Forall wf fs -> Forall ev_ok tr -> buf ++ data_of tr = concat fs ->
    (length fs + length tr < fuel)%nat ->
    filter keep (session fuel buf (tr ++ [Eof]))
      = concat (map expected_frame fs) ++ [Ret RDisconnected]
    /\ filter (is_transient packet) (session fuel buf (tr ++ [Eof]))
      = concat (map (transient_of packet) tr).
  Proof.
    induction fuel as [|fuel IH]; intros fs tr buf Hwf Htr Heq Hfuel; [lia|].
    cbn [Framed.session].
    destruct (read_step tr Htr buf fs Hwf Heq) as
      [[f [fs' [buf' [tr' [pre [-> [-> [Hpre [Hread Hinv]]]]]]]]]
      |[[e [buf' [tr' [pre [-> [Hpre [He [Hread Hinv]]]]]]]]
       |[-> [-> [-> Hread]]]]].
    - rewrite Hread. destruct (expected_shape f) as [Hf [Hk Ht]]. rewrite Hf.
      inversion Hwf as [|? ? Hwf1 Hwf2]; subst.
      apply Forall_app in Htr as [_ Htr'].
      destruct (IH fs' tr' buf' Hwf2 Htr' Hinv) as [IH1 IH2].
      { rewrite app_length in Hfuel. cbn [length] in Hfuel. lia. }
      rewrite !filter_app, Hk, Ht, IH1, IH2. cbn [map concat app].
      rewrite map_app, concat_app, (transients_data _ Hpre). cbn [app].
      rewrite <- app_assoc. auto.
    - rewrite Hread. destruct (transient_shape e He) as [Hf [Hk Ht]]. rewrite Hf.
      apply Forall_app in Htr as [_ Htr']. inversion Htr' as [|? ? _ Htr'']; subst.
      destruct (IH fs tr' buf' Hwf Htr'' Hinv) as [IH1 IH2].
      { rewrite app_length in Hfuel. cbn [length] in Hfuel. lia. }
      rewrite !filter_app, Hk, Ht, IH1, IH2. cbn [app].
      rewrite map_app, concat_app, (transients_data _ Hpre). cbn [map concat app]. auto.
    - rewrite Hread. cbn. auto.
  Qed.

  (* ---- a stream that ends INSIDE a frame (the peer went away in mid-frame): everything complete is delivered as above,
     the unfinished frame is never delivered, and the end of the stream is reported as Disconnected ---- *)
  Lemma prefix_of_prefix (a b : bytes) k (g : bytes) : a ++ b = firstn k g -> a = firstn (length a) g.
  Proof.
    intros H. assert (length a <= k)%nat as Hk.
    { assert (length (a ++ b) <= k)%nat by (rewrite H; apply firstn_le_length). rewrite app_length in *. lia. }
    assert (firstn (length a) (a ++ b) = a) as E by (rewrite firstn_app, Nat.sub_diag, firstn_all; cbn; apply app_nil_r).
    rewrite H, firstn_firstn in E. rewrite Nat.min_l in E by exact Hk. congruence.
  Qed.

  Lemma read_step_tail g k tr : wf g -> (k < length g)%nat -> Forall ev_ok tr -> forall buf fs,
    Forall wf fs -> buf ++ data_of tr = concat fs ++ firstn k g ->
    (exists f fs' buf' tr' pre, fs = f :: fs' /\ tr = pre ++ tr' /\ Forall is_data pre /\
        read buf (tr ++ [Eof]) = (expected_frame f, buf', tr' ++ [Eof]) /\
        buf' ++ data_of tr' = concat fs' ++ firstn k g)
    \/ (exists e buf' tr' pre, tr = pre ++ e :: tr' /\ Forall is_data pre /\ is_err e /\
        read buf (tr ++ [Eof]) = (transient_of packet e, buf', tr' ++ [Eof]) /\
        buf' ++ data_of tr' = concat fs ++ firstn k g)
    \/ (fs = [] /\ Forall is_data tr /\ exists buf', read buf (tr ++ [Eof]) = ([Ret RDisconnected], buf', [])).
  Proof.
    intros Hg Hk. induction 1 as [|e tr He Htr IH]; intros buf fs Hwf Heq.
    - cbn [data_of] in Heq. rewrite app_nil_r in Heq. subst buf.
      destruct fs as [|f fs'].
      + right. right. cbn [concat app]. split; [reflexivity|]. split; [constructor|].
        exists (firstn k g). rewrite read_unfold, try_decode_prefix by assumption. reflexivity.
      + left. inversion Hwf as [|? ? Hf Hfs]; subst.
        exists f, fs', (concat fs' ++ firstn k g), [], []. cbn [concat app data_of].
        rewrite <- app_assoc, read_unfold, try_decode_complete by exact Hf.
        repeat split; auto. apply app_nil_r.
    - destruct fs as [|f fs'].
      + (* only the unfinished frame is left *)
        cbn [concat app] in Heq.
        assert (try_decode buf = None) as Hnone.
        { rewrite (prefix_of_prefix _ _ _ _ Heq). apply try_decode_prefix; [exact Hg|].
          assert (length (buf ++ data_of (e :: tr)) <= k)%nat by (rewrite Heq; apply firstn_le_length).
          rewrite app_length in *. lia. }
        destruct e as [bs|c| |]; try contradiction.
        * destruct bs as [|b bs]; [contradiction|].
          cbn [data_of] in Heq. rewrite app_assoc in Heq.
          assert (read buf ((Data (b :: bs) :: tr) ++ [Eof]) = read (buf ++ b :: bs) (tr ++ [Eof])) as Hrd.
          { rewrite read_unfold, Hnone. reflexivity. }
          rewrite Hrd.
          destruct (IH (buf ++ b :: bs) [] Hwf Heq) as
            [[f0 [fs0 [buf' [tr' [pre [Hfs0 _]]]]]]
            |[[e0 [buf' [tr' [pre [Htr' [Hpre' [He0 [Hread Hinv]]]]]]]]
             |[_ [Hdat [buf' Hread]]]]]; [discriminate| |].
          -- right. left. exists e0, buf', tr', (Data (b :: bs) :: pre).
             split; [cbn [app]; congruence|].
             split; [constructor; [exact I|exact Hpre']|]. split; [exact He0|]. split; assumption.
          -- right. right. split; [reflexivity|]. split; [constructor; [exact I|exact Hdat]|].
             exists buf'. exact Hread.
        * right. left. exists (RdErr c), buf, tr, []. cbn [app data_of concat] in *.
          rewrite read_unfold, Hnone. repeat split; auto.
        * right. left. exists Elapsed, buf, tr, []. cbn [app data_of concat] in *.
          rewrite read_unfold, Hnone. repeat split; auto.
      + inversion Hwf as [|? ? Hf Hfs]; subst. cbn [concat] in Heq. rewrite <- app_assoc in Heq.
        destruct (le_lt_dec (length f) (length buf)) as [Hle|Hlt].
        * destruct (app_split_le _ _ _ _ Heq Hle) as [r [-> Hr]].
          left. exists f, fs', r, (e :: tr), []. cbn [app].
          rewrite read_unfold, try_decode_complete by exact Hf. repeat split; auto.
        * pose proof (app_split_lt _ _ _ _ Heq Hlt) as Hpre.
          assert (try_decode buf = None) as Hnone.
          { rewrite Hpre. apply try_decode_prefix; assumption. }
          destruct e as [bs|c| |]; try contradiction.
          -- destruct bs as [|b bs]; [contradiction|].
             cbn [data_of] in Heq. rewrite app_assoc in Heq.
             assert (read buf ((Data (b :: bs) :: tr) ++ [Eof]) = read (buf ++ b :: bs) (tr ++ [Eof])) as Hrd.
             { rewrite read_unfold, Hnone. reflexivity. }
             rewrite Hrd.
             assert (buf ++ b :: bs ++ data_of tr = concat (f :: fs') ++ firstn k g) as Heq'.
             { cbn [concat]. rewrite <- app_assoc. rewrite <- Heq, <- app_assoc. reflexivity. }
             destruct (IH (buf ++ b :: bs) (f :: fs') Hwf ltac:(rewrite <- app_assoc; exact Heq')) as
               [[f0 [fs0 [buf' [tr' [pre [Hfs0 [Htr' [Hpre' [Hread Hinv]]]]]]]]]
               |[[e0 [buf' [tr' [pre [Htr' [Hpre' [He0 [Hread Hinv]]]]]]]]
                |[Hnil _]]]; [| |discriminate].
             ++ left. exists f0, fs0, buf', tr', (Data (b :: bs) :: pre).
                split; [exact Hfs0|]. split; [cbn [app]; congruence|].
                split; [constructor; [exact I|exact Hpre']|]. split; assumption.
             ++ right. left. exists e0, buf', tr', (Data (b :: bs) :: pre).
                split; [cbn [app]; congruence|].
                split; [constructor; [exact I|exact Hpre']|]. split; [exact He0|]. split; assumption.
          -- right. left. exists (RdErr c), buf, tr, []. cbn [app data_of concat] in *.
             rewrite read_unfold, Hnone. rewrite <- app_assoc. repeat split; auto.
          -- right. left. exists Elapsed, buf, tr, []. cbn [app data_of concat] in *.
             rewrite read_unfold, Hnone. rewrite <- app_assoc. repeat split; auto.
  Qed.

  Theorem session_frames_then_partial g k : wf g -> (k < length g)%nat -> forall fuel fs tr buf,
    Forall wf fs -> Forall ev_ok tr -> buf ++ data_of tr = concat fs ++ firstn k g ->
    (length fs + length tr < fuel)%nat ->
    filter keep (session fuel buf (tr ++ [Eof]))
      = concat (map expected_frame fs) ++ [Ret RDisconnected]
    /\ filter (is_transient packet) (session fuel buf (tr ++ [Eof]))
      = concat (map (transient_of packet) tr).
  Proof.
    intros Hg Hk. induction fuel as [|fuel IH]; intros fs tr buf Hwf Htr Heq Hfuel; [lia|].
    cbn [Framed.session].
    destruct (read_step_tail g k tr Hg Hk Htr buf fs Hwf Heq) as
      [[f [fs' [buf' [tr' [pre [-> [-> [Hpre [Hread Hinv]]]]]]]]]
      |[[e [buf' [tr' [pre [-> [Hpre [He [Hread Hinv]]]]]]]]
       |[-> [Hdat [buf' Hread]]]]].
    - rewrite Hread. destruct (expected_shape f) as [Hf [Hk' Ht]]. rewrite Hf.
      inversion Hwf as [|? ? Hwf1 Hwf2]; subst.
      apply Forall_app in Htr as [_ Htr'].
      destruct (IH fs' tr' buf' Hwf2 Htr' Hinv) as [IH1 IH2].
      { rewrite app_length in Hfuel. cbn [length] in Hfuel. lia. }
      rewrite !filter_app, Hk', Ht, IH1, IH2. cbn [map concat app].
      rewrite map_app, concat_app, (transients_data _ Hpre). cbn [app].
      rewrite <- app_assoc. auto.
    - rewrite Hread. destruct (transient_shape e He) as [Hf [Hk' Ht]]. rewrite Hf.
      apply Forall_app in Htr as [_ Htr']. inversion Htr' as [|? ? _ Htr'']; subst.
      destruct (IH fs tr' buf' Hwf Htr'' Hinv) as [IH1 IH2].
      { rewrite app_length in Hfuel. cbn [length] in Hfuel. lia. }
      rewrite !filter_app, Hk', Ht, IH1, IH2. cbn [app].
      rewrite map_app, concat_app, (transients_data _ Hpre). cbn [map concat app]. auto.
    - rewrite Hread. cbn. rewrite (transients_data _ Hdat). auto.
  Qed.

  (* ---- C07: keep-alives are answered exactly once, before delivery, and only they are ---- *)
  Theorem deliver_pong_iff p :
    In (Wrote pong) (deliver p) <->
    is_keepalive p = true /\ (verify = false \/ ver_of p = None \/ ver_of p = Some version).
  Proof.
    unfold Framed.deliver. destruct verify.
    - destruct (ver_of p) as [v|] eqn:Ev.
      + destruct (N.eqb_spec v version) as [->|Hne].
        * destruct (is_keepalive p); cbn; split; try tauto; intros H; try (destruct H as [H|[]]; discriminate).
          all: destruct H as [H _]; discriminate.
        * cbn. split; [intros [H|[]]; discriminate|].
          intros [_ [H|[H|H]]]; try discriminate. congruence.
      + destruct (is_keepalive p); cbn; split; try tauto; intros H; try (destruct H as [H|[]]; discriminate).
        all: destruct H as [H _]; discriminate.
    - destruct (is_keepalive p); cbn; split; try tauto; intros H; try (destruct H as [H|[]]; discriminate).
      all: destruct H as [H _]; discriminate.
  Qed.

  Theorem deliver_writes_at_most_one_pong_first p :
    deliver p = [Wrote pong; Ret (RPacket p)] \/ deliver p = [Ret (RPacket p)] \/
    exists v, deliver p = [Ret (RBadVersion v)].
  Proof.
    unfold Framed.deliver.
    destruct (if verify then ver_of p else None) as [v|];
      [destruct (v =? version)|]; destruct (is_keepalive p); cbn; eauto.
  Qed.

  (* ---- C09: the gate ---- *)
  Theorem gate_rejects_iff p v :
    deliver p = [Ret (RBadVersion v)] <-> verify = true /\ ver_of p = Some v /\ v <> version.
  Proof.
    unfold Framed.deliver. destruct verify.
    - destruct (ver_of p) as [w|].
      + destruct (N.eqb_spec w version) as [->|Hne].
        * destruct (is_keepalive p); cbn; split; try discriminate; intros [_ [[= ->] H]]; congruence.
        * split; [intros [= ->]; auto|]. intros [_ [[= ->] _]]. reflexivity.
      + destruct (is_keepalive p); cbn; split; try discriminate; intros [_ [H _]]; discriminate.
    - destruct (is_keepalive p); cbn; split; try discriminate; intros [H _]; discriminate.
  Qed.

  Theorem gate_delivers_otherwise p :
    (verify = false \/ ver_of p = None \/ ver_of p = Some version) -> In (Ret (RPacket p)) (deliver p).
  Proof.
    unfold Framed.deliver. intros [->|[H|H]].
    - destruct (is_keepalive p); cbn; auto.
    - rewrite H. destruct verify; destruct (is_keepalive p); cbn; auto.
    - rewrite H. destruct verify; [rewrite N.eqb_refl|]; destruct (is_keepalive p); cbn; auto.
  Qed.
End FramedProofs.
