#!/bin/sh
# run every thorough tier in a vp-run snapshot against a snapshot of /repo (so that mutation experiments in /repo do not interfere)
set -x
if [ -n "$VP_RUN_REPO" ]; then
  sed -i "s#/repo/#$VP_RUN_REPO/#g" harness/Cargo.toml
  export VERIF_REPO=$VP_RUN_REPO
fi
./setup.sh
for p in C01 C02 C03 C04 C05 C06 C07 C08 C09 C10 C11 C12 C13 C14 C15 C16 C17 C18 C19 C20; do
  /usr/bin/time -f "$p %e s" ./check $p --tier thorough 2>&1 | tail -4 | cut -c1-400
done
