(* Net/Frame.v — executable model of insim::net::{Mode, Codec} framing (mode.rs, codec.rs),
   parametric in the packet layer.  No proofs here. *)
Require Import Base.Bytes.
Local Open Scope N_scope.

Inductive mode := Uncompressed | Compressed.

(* Mode::max_length, valid_raw_buffer_min_len, the x4 of compressed mode *)
Definition max_length (m : mode) : nat := match m with Uncompressed => 255 | Compressed => 1020 end.
Definition min_len : nat := 4.
Definition mul (m : mode) : nat := match m with Uncompressed => 1 | Compressed => 4 end.

(* Mode::decode_length : Ok(None) | Err(InvalidData) | Ok(Some n) *)
Inductive dl := DLNone | DLErr | DLSome (n : nat).
Definition announced (m : mode) (buf : bytes) : nat :=
  match buf with [] => 0 | b :: _ => N.to_nat b * mul m end.
Definition decode_length (m : mode) (buf : bytes) : dl :=
  if Nat.ltb (length buf) min_len then DLNone
  else let n := announced m buf in
       if Nat.ltb n min_len then DLErr
       else if Nat.ltb (max_length m) n then DLErr
       else if Nat.ltb (length buf) n then DLNone
       else DLSome n.

(* Mode::encode_length (len includes the size byte): the three panics are explicit *)
Definition encode_length (m : mode) (len : nat) : res N :=
  if Nat.ltb len min_len then Panic
  else match m with
       | Uncompressed => if Nat.ltb (max_length m) len then Panic else Ok (N.of_nat len)
       | Compressed =>
           if negb (Nat.eqb (Nat.modulo len 4) 0) then Panic
           else if Nat.ltb (max_length m) len then Panic
           else Ok (N.of_nat (Nat.div len 4))
       end.

Section Codec.
  Variable packet : Type.
  (* Packet::read on the frame body (everything after the size byte); Packet::write *)
  Variable parse : bytes -> res packet.
  Variable unparse : packet -> res bytes.

  (* Codec::decode *)
  Inductive dec_out :=
  | NeedMore                          (* Ok(None): buffer untouched *)
  | Got (p : packet) (rest : bytes)   (* Ok(Some p): announced frame removed *)
  | Bad (rest : bytes)                (* Err(BinRw): announced frame removed *)
  | FrameErr                          (* Err(IO InvalidData): impossible announced length, buffer untouched *)
  | DPanic.

  Definition decode (m : mode) (buf : bytes) : dec_out :=
    match buf with
    | [] => NeedMore
    | _ =>
      match decode_length m buf with
      | DLNone => NeedMore
      | DLErr => FrameErr
      | DLSome n =>
          match firstn n buf with
          | [] => DPanic                      (* data.advance(1) on an empty split *)
          | _ :: body =>
              match parse body with
              | Ok p => Got p (skipn n buf)
              | Err => Bad (skipn n buf)
              | Panic => DPanic
              end
          end
      end
    end.

  (* Codec::encode : placeholder size byte, packet, then patch the size *)
  Definition encode (m : mode) (p : packet) : res bytes :=
    match unparse p with
    | Ok body =>
        match encode_length m (S (length body)) with
        | Ok n => Ok (n :: body)
        | Err => Err
        | Panic => Panic
        end
    | Err => Err
    | Panic => Panic
    end.

  (* a complete frame for mode m: what the peer (LFS) sends *)
  Definition wf_frame (m : mode) (f : bytes) : Prop :=
    (min_len <= length f)%nat /\ (length f <= max_length m)%nat /\ announced m f = length f.
  Definition wf_frameb (m : mode) (f : bytes) : bool :=
    Nat.leb min_len (length f) && Nat.leb (length f) (max_length m) && Nat.eqb (announced m f) (length f).
End Codec.

Arguments NeedMore {packet}. Arguments Got {packet}. Arguments Bad {packet}.
Arguments FrameErr {packet}. Arguments DPanic {packet}.
