Require Import Base.Bytes Net.Frame Net.FrameProofs Net.Framed Net.FramedProofs Net.Concrete Net.ConvProofs Net.Async Net.AsyncProofs Net.AsyncConvProofs.
Require Import Props.C07.
Local Open Scope N_scope.
Check c07_at_most_one_reply_written_first :
  forall packet ver_of is_keepalive version verify pong (p : packet),
  deliver packet ver_of is_keepalive version verify pong p = [Wrote pong; Ret (RPacket p)] \/
  deliver packet ver_of is_keepalive version verify pong p = [Ret (RPacket p)] \/
  exists v, deliver packet ver_of is_keepalive version verify pong p = [Ret (RBadVersion v)].
Check c07_reply_iff_keepalive :
  forall packet ver_of is_keepalive version verify pong (p : packet),
  In (Wrote pong) (deliver packet ver_of is_keepalive version verify pong p) <->
  is_keepalive p = true /\ (verify = false \/ ver_of p = None \/ ver_of p = Some version).
Check c07_history_trace :
  forall (packet : Type) (parse : bytes -> res packet) (ver_of : packet -> option N)
         (is_keepalive : packet -> bool) (version : N) (m : mode) (verify : bool) (pong : bytes),
  (forall b, parse b <> Panic) ->
  forall fuel fs tr buf,
    Forall (wf_frame m) fs -> Forall ev_ok tr -> buf ++ data_of tr = concat fs ->
    (length fs + length tr < fuel)%nat ->
    filter (keep packet) (session packet parse ver_of is_keepalive version m verify pong fuel buf (tr ++ [Eof]))
      = concat (map (expected_frame packet parse ver_of is_keepalive version verify pong) fs) ++ [Ret RDisconnected].
Check c07_pong_frames : pong_frame Compressed = [1; 3; 0; 0] /\ pong_frame Uncompressed = [4; 3; 0; 0].
Check c07_caller_writes_do_not_matter :
  forall (packet : Type) (parse : bytes -> res packet) (ver_of : packet -> option N)
         (is_keepalive : packet -> bool) (version : N) (m : mode) (verify : bool) (pong : bytes),
  forall ops buf tr,
    map snd (filter (from_read packet) (conv packet parse ver_of is_keepalive version m verify pong ops buf tr))
    = session packet parse ver_of is_keepalive version m verify pong (reads ops) buf tr.
Check c07_replies_whole_under_cancellation_and_writes :
  forall (packet : Type) (parse : bytes -> res packet) (ver_of : packet -> option N)
         (is_keepalive : packet -> bool) (version : N) (m : mode) (verify : bool) (pong : bytes),
  forall fuel c s rs ws cancels wsched acc done,
    forallb no_fail ws = true ->
    Inv packet parse ver_of is_keepalive version m verify pong c s ->
    WInv packet is_keepalive pong s (done ++ acc) ->
    conv_ok packet is_keepalive pong done (aconv packet parse ver_of is_keepalive version m verify pong fuel c s rs ws cancels wsched acc).
Check c07_model_state_is_the_struct : state_tied = true.
Check c07_reply_whole_or_the_error_is_returned : forall pong ws d r ws',
  reply_then_return pong ws = (d, r, ws') ->
  (r = WOk -> d = pong) /\ (forall e, r = WErr e -> exists rest, pong = d ++ rest /\ rest <> []).
Check c07_parked_reply_is_conserved : forall ws pw r pw' ws' w,
  flush pw ws = (r, pw', ws', w) -> pw = w ++ pw' /\ (r = FDone -> pw' = []).
Print Assumptions c07_at_most_one_reply_written_first.
Print Assumptions c07_reply_iff_keepalive.
Print Assumptions c07_history_trace.
Print Assumptions c07_pong_frames.
Print Assumptions c07_caller_writes_do_not_matter.
Print Assumptions c07_replies_whole_under_cancellation_and_writes.
Print Assumptions c07_model_state_is_the_struct.
Print Assumptions c07_reply_whole_or_the_error_is_returned.
Print Assumptions c07_parked_reply_is_conserved.
