(* Net/FrameProofs.v — framing lemmas: the decoder as a total function of the header,
   complete frames decode, strict prefixes ask for more. Axiom-free. *)
Require Import Base.Bytes Net.Frame.
Local Open Scope N_scope.

Section CodecProofs.
  Variable packet : Type.
  Variable parse : bytes -> res packet.
  Notation decode := (decode packet parse).

  (* the decoder is this function of (length, first byte): nothing else of the buffer matters *)
  Lemma decode_spec m buf :
    decode m buf =
    if Nat.ltb (length buf) min_len then NeedMore
    else let n := announced m buf in
         if Nat.ltb n min_len then FrameErr
         else if Nat.ltb (max_length m) n then FrameErr
         else if Nat.ltb (length buf) n then NeedMore
         else match parse (tl (firstn n buf)) with
              | Ok p => Got p (skipn n buf)
              | Err => Bad (skipn n buf)
              | Panic => DPanic
              end.
  Proof.
    unfold Frame.decode, decode_length.
    destruct buf as [|b buf']; [reflexivity|].
    set (buf := b :: buf').
    destruct (Nat.ltb (length buf) min_len); [reflexivity|].
    cbv zeta.
    destruct (Nat.ltb_spec (announced m buf) min_len) as [|Hn]; [reflexivity|].
    destruct (Nat.ltb (max_length m) (announced m buf)); [reflexivity|].
    destruct (Nat.ltb_spec (length buf) (announced m buf)) as [|Hl]; [reflexivity|].
    destruct (announced m buf) as [|n'] eqn:E; [unfold min_len in Hn; lia|].
    subst buf. cbn [firstn tl]. reflexivity.
  Qed.

  Lemma announced_app m f rest : f <> [] -> announced m (f ++ rest) = announced m f.
  Proof. destruct f; [congruence|reflexivity]. Qed.

  Lemma decode_complete m f rest : wf_frame m f ->
    decode m (f ++ rest) = match parse (tl f) with
                           | Ok p => Got p rest | Err => Bad rest | Panic => DPanic end.
  Proof.
    intros [H4 [Hmax Ha]]. rewrite decode_spec. cbv zeta.
    assert (f <> []) as Hne by (destruct f; [cbn in H4; unfold min_len in H4; lia|discriminate]).
    rewrite announced_app by exact Hne. rewrite Ha, app_length.
    destruct (Nat.ltb_spec (length f + length rest) min_len); [lia|].
    destruct (Nat.ltb_spec (length f) min_len); [lia|].
    destruct (Nat.ltb_spec (max_length m) (length f)); [lia|].
    destruct (Nat.ltb_spec (length f + length rest) (length f)); [lia|].
    rewrite firstn_app, Nat.sub_diag, firstn_all, skipn_app, Nat.sub_diag, skipn_all.
    cbn [firstn skipn app]. rewrite app_nil_r. reflexivity.
  Qed.

  Lemma decode_prefix m f k : wf_frame m f -> (k < length f)%nat -> decode m (firstn k f) = NeedMore.
  Proof.
    intros [H4 [Hmax Ha]] Hk. rewrite decode_spec. cbv zeta.
    rewrite firstn_length, Nat.min_l by lia.
    destruct (Nat.ltb_spec k min_len) as [|Hk4]; [reflexivity|].
    assert (announced m (firstn k f) = length f) as Han.
    { destruct f as [|b f']; [cbn in H4; unfold min_len in H4; lia|].
      destruct k; [unfold min_len in Hk4; lia|]. cbn [firstn announced]. exact Ha. }
    rewrite Han.
    destruct (Nat.ltb_spec (length f) min_len); [lia|].
    destruct (Nat.ltb_spec (max_length m) (length f)); [lia|].
    destruct (Nat.ltb_spec k (length f)); [reflexivity|lia].
  Qed.

  (* ---- C04 at the framing level ---- *)
  (* every outcome, classified; [rest] is always the buffer minus exactly the announced frame,
     the announced frame is between 4 and the mode's limit and within the buffer *)
  Theorem decode_outcomes m buf :
    match decode m buf with
    | NeedMore => (length buf < min_len)%nat \/ (length buf < announced m buf)%nat
    | FrameErr => (min_len <= length buf)%nat /\
                  ((announced m buf < min_len)%nat \/ (max_length m < announced m buf)%nat)
    | Got _ rest | Bad rest =>
        let n := announced m buf in
        (min_len <= n)%nat /\ (n <= max_length m)%nat /\ (n <= length buf)%nat /\ rest = skipn n buf
    | DPanic => parse (tl (firstn (announced m buf) buf)) = Panic
    end.
  Proof.
    rewrite decode_spec. cbv zeta.
    destruct (Nat.ltb_spec (length buf) min_len); [left; assumption|].
    destruct (Nat.ltb_spec (announced m buf) min_len); [split; [assumption|left; assumption]|].
    destruct (Nat.ltb_spec (max_length m) (announced m buf)); [split; [assumption|right; assumption]|].
    destruct (Nat.ltb_spec (length buf) (announced m buf)); [right; assumption|].
    destruct (parse (tl (firstn (announced m buf) buf))) eqn:E; cbv zeta; auto.
  Qed.

  Theorem decode_never_panics m buf : (forall b, parse b <> Panic) -> decode m buf <> DPanic.
  Proof.
    intros Ht H. pose proof (decode_outcomes m buf) as Ho. rewrite H in Ho. exact (Ht _ Ho).
  Qed.

  (* bytes beyond the announced frame are neither read nor consumed: replacing them changes
     nothing but the remainder handed back *)
  Theorem decode_ignores_tail m f tail1 tail2 : wf_frame m f ->
    match decode m (f ++ tail1), decode m (f ++ tail2) with
    | Got p1 r1, Got p2 r2 => p1 = p2 /\ r1 = tail1 /\ r2 = tail2
    | Bad r1, Bad r2 => r1 = tail1 /\ r2 = tail2
    | DPanic, DPanic => True
    | _, _ => False
    end.
  Proof.
    intros Hwf. rewrite !decode_complete by exact Hwf. destruct (parse (tl f)); auto.
  Qed.

  (* whenever a frame is removed, its prefix of the buffer is a well-formed frame *)
  Theorem decode_removes_wf_frame m buf :
    match decode m buf with
    | Got _ _ | Bad _ => wf_frame m (firstn (announced m buf) buf)
    | _ => True
    end.
  Proof.
    pose proof (decode_outcomes m buf) as H.
    destruct (decode m buf); auto; cbv zeta in H; destruct H as [H1 [H2 [H3 _]]].
    all: unfold wf_frame; rewrite firstn_length, Nat.min_l by lia; repeat split; try lia.
    all: destruct buf as [|b buf']; [cbn in *; unfold min_len in *; lia|].
    all: destruct (announced m (b :: buf')) eqn:E; [unfold min_len in *; lia|]; cbn [firstn announced] in *; exact E.
  Qed.
End CodecProofs.

(* ---- encode_length facts (C03 size byte) ---- *)
Lemma encode_length_ok m len n : encode_length m len = Ok n ->
  (min_len <= len)%nat /\ (len <= max_length m)%nat /\ (Nat.modulo len (mul m) = 0)%nat /\
  (N.to_nat n * mul m = len)%nat /\ n < 256.
Proof.
  unfold encode_length. destruct (Nat.ltb_spec len min_len) as [|H4]; [discriminate|].
  destruct m; unfold mul, max_length.
  - destruct (Nat.ltb_spec 255 len) as [|H255]; [discriminate|]. intros Hn.
    assert (n = N.of_nat len) as -> by congruence.
    rewrite Nat2N.id. split; [exact H4|]. split; [exact H255|]. split; [apply Nat.mod_1_r|]. split; lia.
  - destruct (Nat.eqb_spec (Nat.modulo len 4) 0) as [Hm|]; unfold negb; [|discriminate].
    destruct (Nat.ltb_spec 1020 len) as [|Hmax]; [discriminate|]. intros Hn.
    assert (n = N.of_nat (Nat.div len 4)) as -> by congruence.
    rewrite Nat2N.id. pose proof (Nat.div_mod len 4 ltac:(lia)) as Hd. rewrite Hm in Hd.
    assert (Nat.div len 4 <= 255)%nat by (apply Nat.div_le_upper_bound; lia).
    split; [exact H4|]. split; [exact Hmax|]. split; [exact Hm|]. split; lia.
Qed.

Lemma encode_length_never_err m len : encode_length m len <> Err.
Proof.
  unfold encode_length. destruct (Nat.ltb len min_len); [discriminate|].
  destruct m; repeat match goal with |- context [if ?c then _ else _] => destruct c end; discriminate.
Qed.

(* whatever the encoder emits is a complete frame for its mode whose size byte is exact *)
Lemma encode_wf packet unparse m (p : packet) fr :
  encode packet unparse m p = Ok fr -> wf_frame m fr /\ (Nat.modulo (length fr) (mul m) = 0)%nat.
Proof.
  unfold encode. destruct (unparse p) as [body| |]; try discriminate.
  destruct (encode_length m (S (length body))) as [n| |] eqn:E; try discriminate.
  intros [= <-]. destruct (encode_length_ok _ _ _ E) as [H1 [H2 [H3 [H4 H5]]]].
  unfold wf_frame. cbn [length announced]. repeat split; auto.
Qed.
