Require Import Coq.Strings.String.
Require Import Props.C10.
Require Import Base.Bytes Gen.TextTab Text.Escape Text.EscapeProofs Text.Codepage Text.CodepageProofs Text.CodepageRoundtrip.
Local Open Scope N_scope.
Check c10_roundtrip : forall enc dec,
  (forall l c w, enc l c = Some w -> exists b1, 128 <= b1 /\ (w = [b1] \/ exists b2, w = [b1; b2])) ->
  (forall l, dec l [] = []) ->
  (forall l b r, is_ascii b = true -> dec l (b :: r) = b :: dec l r) ->
  (forall l c w r, enc l c = Some w -> dec l (w ++ r) = c :: dec l r) ->
  (forall l c b1 b2, enc l c = Some [b1; b2] -> lead l b1 = true) ->
  (forall l c b1, enc l c = Some [b1] -> lead l b1 = false) ->
  (forall bs, dec gen_propagate_letter bs = dec gen_default_codepage bs) ->
  forall s, safe enc gen_default_codepage false s = true ->
  to_lossy_string dec (to_lossy_bytes enc s) = s.
Check c10_caret_free_text_is_safe : forall enc s cur,
  Forall (fun c => is_caret c = false /\ encodable enc c) s -> safe enc cur false s = true.
Check c10_ascii_passthrough_bytes : forall enc s, forallb is_ascii s = true -> to_lossy_bytes enc s = s.
Check c10_ascii_passthrough_string : forall dec,
  (forall l bs, forallb is_ascii bs = true -> dec l bs = bs) ->
  forall bs, forallb is_ascii bs = true -> no_marker bs = true -> to_lossy_string dec bs = bs.
Check c10_unrepresentable_is_qmark : forall enc cur after a c b, unrepresentable enc c ->
  enc_from enc cur after (a ++ c :: b) =
    enc_from enc cur after a ++ qmark :: enc_from enc (fst (state_after enc cur after a)) false b /\
  (snd (state_after enc cur after a) = false ->
   enc_from enc cur after (a ++ b) = enc_from enc cur after a ++ enc_from enc (fst (state_after enc cur after a)) false b).
Check c10_table_assignment : assignment_ok = true.
Check c10_fast_path_unobservable : forall enc s, to_lossy_bytes enc s = enc_from enc gen_default_codepage false s.
Print Assumptions c10_roundtrip.
Print Assumptions c10_caret_free_text_is_safe.
Print Assumptions c10_ascii_passthrough_bytes.
Print Assumptions c10_ascii_passthrough_string.
Print Assumptions c10_unrepresentable_is_qmark.
Print Assumptions c10_table_assignment.
Print Assumptions c10_fast_path_unobservable.
