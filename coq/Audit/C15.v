Require Import Coq.Strings.String.
Require Import Props.C15.
Require Import Base.Bytes Wire.Layout Wire.Customs Wire.LayoutProofs Wire.CustomProofs Wire.Packet Gen.Packets Core.TimeProofs Core.ExprDefs Gen.RaceLapsTab Core.RaceLapsGen Core.RaceLapsGenProofs.
Local Open Scope N_scope.
Check c15_time_wire_roundtrip : forall w scale x, 0 < scale -> x < pow256 w ->
  dec_atom cdec (ADur w scale) (le_enc w x) = Ok (VN (x * scale), None) /\
  enc_atom cenc 0 (ADur w scale) (VN (x * scale)) = Ok (le_enc w x).
Check c15_time_encode_floor_or_refuse : forall w scale ms,
  enc_atom cenc 0 (ADur w scale) (VN ms) = if ms / scale <? pow256 w then Ok (le_enc w (ms / scale)) else Err.
Check c15_time_encode_exact_value : forall w scale ms b,
  enc_atom cenc 0 (ADur w scale) (VN ms) = Ok b -> le_dec b = ms / scale /\ ms / scale < pow256 w.
Check c15_all_time_fields_known :
  forallb (fun e => match snd e with KLayout l => layout_durs_ok l | KMso => true end) packet_table = true.
Check c15_racelaps_wire_roundtrip : forall b, b <= 238 ->
  let '(tag, n) := racelaps_of_u8 b in racelaps_to_u8 tag n = b.
Check c15_racelaps_reserved_bytes : forall b, 239 <= b -> racelaps_of_u8 b = (0, 0).
Check c15_racelaps_model_is_the_source :
  (forall b, rl_dec b = racelaps_of_u8 b) /\ (forall tag n, rl_enc tag n = racelaps_to_u8 tag n).
Check c15_racelaps_encode_never_wrong : forall tag n,
  let b := racelaps_to_u8 tag n in
  b = 0 \/ racelaps_of_u8 b = (tag, n) \/
  (tag = 1 /\ 100 <= n <= 1000 /\ racelaps_of_u8 b = (1, n - n mod 10)).
Check c15_small_durations_exact : forall d u, is_cs d = true \/ d = 7 -> u < u32max ->
  exists x, small_dec d u = Ok (d, x) /\ small_enc d x = Ok (d, u).
Check c15_small_durations_refused_beyond_range : forall d x,
  is_cs d = true -> u32max <= x / 10 -> small_enc d x = Err.
Print Assumptions c15_time_wire_roundtrip.
Print Assumptions c15_time_encode_floor_or_refuse.
Print Assumptions c15_time_encode_exact_value.
Print Assumptions c15_all_time_fields_known.
Print Assumptions c15_racelaps_wire_roundtrip.
Print Assumptions c15_racelaps_reserved_bytes.
Print Assumptions c15_racelaps_model_is_the_source.
Print Assumptions c15_racelaps_encode_never_wrong.
Print Assumptions c15_small_durations_exact.
Print Assumptions c15_small_durations_refused_beyond_range.
