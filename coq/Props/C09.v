(* Props/C09.v — the InSim version gate accepts version 9 only, and only when enabled. *)
Require Import Base.Bytes Net.Frame Net.FrameProofs Net.Framed Net.FramedProofs Net.Concrete Gen.NetConsts Net.ConvProofs.
Local Open Scope N_scope.

(* a decoded packet is rejected iff verification is on, it is a version packet, and its
   InSim version differs from VERSION; the error carries that value *)
Theorem c09_rejects_iff :
  forall packet ver_of is_keepalive version verify pong (p : packet) v,
  deliver packet ver_of is_keepalive version verify pong p = [Ret (RBadVersion v)] <->
  verify = true /\ ver_of p = Some v /\ v <> version.
Proof. exact gate_rejects_iff. Qed.

(* otherwise (verification off, or not a version packet, or version = VERSION) it is delivered *)
Theorem c09_delivers_otherwise :
  forall packet ver_of is_keepalive version verify pong (p : packet),
  (verify = false \/ ver_of p = None \/ ver_of p = Some version) ->
  In (Ret (RPacket p)) (deliver packet ver_of is_keepalive version verify pong p).
Proof. exact gate_delivers_otherwise. Qed.

(* VERSION, regenerated from lib.rs, is 9 *)
Theorem c09_version_is_9 : gen_version = 9.
Proof. vm_compute. reflexivity. Qed.

(* position in a history does not matter: the gate is applied per decoded frame inside the
   session theorem (C05), whose per-frame expectation is [deliver] *)
Theorem c09_expected_frame_is_gate :
  forall packet parse ver_of is_keepalive version verify pong f (p : packet),
  parse (tl f) = Ok p ->
  expected_frame packet parse ver_of is_keepalive version verify pong f
  = deliver packet ver_of is_keepalive version verify pong p.
Proof. intros. unfold expected_frame. rewrite H. reflexivity. Qed.

(* conversations: the caller's write() calls (handshake() included: it is a write of the ISI) between its
   read() calls do not change the version gate (in particular the version an ISI written by the caller asks for plays no role): what the reads of a conversation do is
   the session of that many reads on the same transport — the connection has no state a write touches *)
Theorem c09_caller_writes_do_not_matter :
  forall (packet : Type) (parse : bytes -> res packet) (ver_of : packet -> option N)
         (is_keepalive : packet -> bool) (version : N) (m : mode) (verify : bool) (pong : bytes),
  forall ops buf tr,
    map snd (filter (from_read packet) (conv packet parse ver_of is_keepalive version m verify pong ops buf tr))
    = session packet parse ver_of is_keepalive version m verify pong (reads ops) buf tr.
Proof. exact conv_reads. Qed.

(* the connection structs of the source have exactly the fields the models carry as state (regenerated field
   names): receive buffer + verification flag; the tokio one also the outstanding reply and its packet *)
Theorem c09_model_state_is_the_struct : state_tied = true.
Proof. vm_compute. reflexivity. Qed.


Example c09_example :
  run_session Uncompressed true [([2;0;0;8], (0, CVer 8)); ([2;0;0;9], (1, CVer 9))]
    [Data [5;2;0;0;8;5;2;0;0;9]; Eof]
  = [Ret (RBadVersion 8); Ret (RPacket (1, CVer 9)); Ret RDisconnected].
Proof. vm_compute. reflexivity. Qed.
