//! C18 — Builder: the ISI for every option sequence, and what connect_* actually sends first.
use std::{io::Read, net::{SocketAddr, TcpListener, UdpSocket}, time::Duration};

use insim::{identifiers::RequestId, insim::IsiFlags, Builder, Packet};

use crate::{common::*, net::mode_tag, wire::{encode_p, Enc}};

#[derive(Clone, Debug)]
enum Op { Tcp, Udp(Option<u16>), Relay, Mode(bool), Admin(Option<String>), Reqi(u8), Flags(u16), Flag(usize, bool), Prefix(Option<char>), Iname(Option<String>), Interval(Option<u64>),
    /// a setter of an option the TCP / UDP handshake does not read: 0 relay_select_host, 1 relay_spectator_password, 2 relay_admin_password, 3 connect_timeout, 4 tcp_nodelay, 5 relay_select_host(None)
    Other(u8) }

fn tok(o: &Op) -> String {
    match o {
        Op::Tcp => "tcp".into(), Op::Relay => "relay".into(), Op::Udp(p) => format!("udp:{}", p.map(|x| x.to_string()).unwrap_or("none".into())),
        Op::Mode(c) => format!("mode:{}", mode_tag(*c)), Op::Admin(a) => format!("admin:{}", a.as_ref().map(|s| hex(s.as_bytes())).unwrap_or("none".into())),
        Op::Reqi(r) => format!("reqi:{r}"), Op::Flags(f) => format!("flags:{f}"), Op::Flag(i, e) => format!("flag:{i}:{}", *e as u8),
        Op::Prefix(p) => format!("prefix:{}", p.map(|c| (c as u32).to_string()).unwrap_or("none".into())),
        Op::Iname(a) => format!("iname:{}", a.as_ref().map(|s| hex(s.as_bytes())).unwrap_or("none".into())),
        Op::Other(k) => format!("other:{k}"),
        // u64::MAX stands for Duration::MAX; the model line carries 2^62 - 1 (any value >= 65536 is refused alike; the driver parses native ints)
        Op::Interval(d) => format!("interval:{}", d.map(|x| if x == u64::MAX { "4611686018427387903".to_string() } else { x.to_string() }).unwrap_or("none".into())),
    }
}
fn parse_tok(t: &str) -> Op {
    let p: Vec<&str> = t.split(':').collect();
    let opt = |s: &str| if s == "none" { None } else { Some(s.to_string()) };
    match p[0] {
        "tcp" => Op::Tcp, "relay" => Op::Relay, "udp" => Op::Udp(opt(p[1]).map(|x| x.parse().unwrap())), "mode" => Op::Mode(p[1] == "C"),
        "admin" => Op::Admin(opt(p[1]).map(|h| String::from_utf8(unhex(&h)).unwrap())), "reqi" => Op::Reqi(p[1].parse().unwrap()), "flags" => Op::Flags(p[1].parse().unwrap()),
        "flag" => Op::Flag(p[1].parse().unwrap(), p[2] == "1"), "prefix" => Op::Prefix(opt(p[1]).map(|x| char::from_u32(x.parse().unwrap()).unwrap())),
        "iname" => Op::Iname(opt(p[1]).map(|h| String::from_utf8(unhex(&h)).unwrap())), "other" => Op::Other(p[1].parse().unwrap()), _ => Op::Interval(opt(p[1]).map(|x| if x == "4611686018427387903" { u64::MAX } else { x.parse().unwrap() })),
    }
}
const REMOTE: &str = "127.0.0.1:29999";
fn apply(b: Builder, o: &Op) -> Builder {
    let remote: SocketAddr = REMOTE.parse().unwrap();
    match o {
        Op::Tcp => b.tcp(remote), Op::Relay => b.relay(),
        Op::Udp(p) => b.udp(remote, p.map(|p| SocketAddr::from(([127, 0, 0, 1], p)))),
        Op::Mode(c) => if *c { b.compressed() } else { b.uncompressed() },
        Op::Admin(a) => b.isi_admin_password(a.clone()), Op::Reqi(r) => b.isi_reqi(RequestId(*r)), Op::Flags(f) => b.isi_flags(IsiFlags::from_bits_retain(*f)),
        Op::Flag(i, e) => match i { 0 => b.isi_flag_mci(*e), 1 => b.isi_flag_local(*e), 2 => b.isi_flag_mso_cols(*e), 3 => b.isi_flag_nlp(*e), 4 => b.isi_flag_con(*e), 5 => b.isi_flag_obh(*e), 6 => b.isi_flag_hlv(*e), 7 => b.isi_flag_axm_load(*e), 8 => b.isi_flag_axm_edit(*e), _ => b.isi_flag_req_join(*e) },
        Op::Other(k) => match k { 0 => b.relay_select_host(Some("Some Host".to_string())), 1 => b.relay_spectator_password(Some("spec".to_string())), 2 => b.relay_admin_password(Some("adm".to_string())), 3 => b.connect_timeout(Duration::from_secs(3)), 4 => b.tcp_nodelay(true), _ => b.relay_select_host(None::<String>) },
        Op::Prefix(p) => b.isi_prefix(*p), Op::Iname(n) => b.isi_iname(n.clone()), Op::Interval(d) => b.isi_interval(d.map(|x| if x == u64::MAX { Duration::MAX } else { Duration::from_millis(x) })),
    }
}
/// spec: last value set or default, computed independently of the builder
#[derive(Default, Debug, PartialEq)]
struct Want { reqi: u8, udpport: u16, flags: u16, prefix: u32, interval: u64, admin: String, iname: String, compressed: bool }
const FLAG_BITS: [u16; 10] = [32, 4, 8, 16, 64, 128, 256, 512, 1024, 2048]; // ISF_MCI LOCAL MSO_COLS NLP CON OBH HLV AXM_LOAD AXM_EDIT REQ_JOIN
fn want(ops: &[Op]) -> Want {
    let mut w = Want { iname: "insim.rs".into(), compressed: true, ..Default::default() };
    let mut udp = false; let mut local: Option<u16> = None;
    for o in ops { match o {
        Op::Tcp | Op::Relay => udp = false, Op::Udp(p) => { udp = true; local = *p; }, Op::Mode(c) => w.compressed = *c,
        Op::Admin(a) => w.admin = a.clone().unwrap_or_default(), Op::Reqi(r) => w.reqi = *r, Op::Flags(f) => w.flags = *f,
        Op::Flag(i, e) => if *e { w.flags |= FLAG_BITS[*i] } else { w.flags &= !FLAG_BITS[*i] },
        Op::Prefix(p) => w.prefix = p.map(|c| c as u32).unwrap_or(0), Op::Iname(n) => w.iname = n.clone().unwrap_or("insim.rs".into()), Op::Interval(d) => w.interval = d.unwrap_or(0),
        Op::Other(_) => {},   // not an option of the handshake
    } }
    w.udpport = if udp { local.unwrap_or(0) } else { 0 };
    w
}

fn check(ops: &[Op], st: &mut Stats) -> String {
    let id = ops.iter().map(tok).collect::<Vec<_>>().join(" ");
    let built = guard(|| { let mut b = Builder::new(); for o in ops { b = apply(b, o); } b });
    let Some(b) = built else { st.fail("[C18] a builder setter panics".into(), id); return "panic".into() };
    let Some(isi) = guard(|| b.isi()) else { st.fail("[C18] Builder::isi panics".into(), id); return "panic".into() };
    let w = want(ops);
    let got = Want { reqi: isi.reqi.0, udpport: isi.udpport, flags: isi.flags.bits(), prefix: isi.prefix as u32, interval: isi.interval.as_millis().min(u64::MAX as u128) as u64, admin: isi.admin.clone(), iname: isi.iname.clone(), compressed: w.compressed };
    if got != w { st.fail(format!("[C18] ISI is {:?}, the configured options are {:?}", got, w), id.clone()); }
    if isi.version != 9 { st.fail(format!("[C18] ISI version {}", isi.version), id.clone()); }
    // the frame itself, byte by byte from the configured options (IS_ISI: Size Type ReqI Zero UDPPort Flags InSimVer Prefix Interval Admin[16] IName[16])
    if w.prefix < 256 && w.interval <= 65535 && w.admin.is_ascii() && w.iname.is_ascii() && w.admin.len() <= 16 && w.iname.len() <= 16 {
        let mut f = vec![if w.compressed { 11u8 } else { 44 }, 1, w.reqi, 0]; f.extend(w.udpport.to_le_bytes()); f.extend(w.flags.to_le_bytes()); f.push(9); f.push(w.prefix as u8); f.extend((w.interval as u16).to_le_bytes());
        let mut a = w.admin.as_bytes().to_vec(); a.resize(16, 0); f.extend(a); let mut n = w.iname.as_bytes().to_vec(); n.resize(16, 0); f.extend(n);
        match encode_p(w.compressed, &Packet::Isi(isi.clone())) { Enc::Ok(e) if e == f => {}, Enc::Ok(e) => { let at = e.iter().zip(f.iter()).position(|(x, y)| x != y).unwrap_or(e.len().min(f.len())); st.fail(format!("[C18] the handshake frame differs from the configured options at byte {at}: {} instead of {}", hex(&e), hex(&f)), id.clone()); }, Enc::Err => st.fail(format!("[C18] the handshake of a representable configuration is refused ({:?})", w), id.clone()), Enc::Panic => {} }
    }
    match encode_p(w.compressed, &Packet::Isi(isi)) { Enc::Ok(f) => format!("{} ok:{}", mode_tag(w.compressed), hex(&f)), Enc::Err => format!("{} enc:E", mode_tag(w.compressed)), Enc::Panic => { st.fail("[C18] encoding the ISI of this configuration panics".into(), id.clone()); format!("{} enc:P", mode_tag(w.compressed)) } }
}

fn alphabet() -> Vec<Op> {
    let mut v = vec![Op::Tcp, Op::Udp(None), Op::Udp(Some(40000)), Op::Relay, Op::Mode(true), Op::Mode(false), Op::Admin(Some("secret".into())), Op::Admin(Some("0123456789abcdef".into())), Op::Admin(Some("0123456789abcde\u{e9}xyz".into())), Op::Admin(Some("p\u{e4}ss\u{65e5}".into())), Op::Admin(None), Op::Reqi(7), Op::Flags(0), Op::Flags(0x0ffc), Op::Flags(36),
                     Op::Prefix(Some('!')), Op::Prefix(Some('\u{a7}')), Op::Prefix(None), Op::Iname(Some("verif".into())), Op::Iname(Some("A-16-char-name-x".into())), Op::Iname(None), Op::Interval(Some(500)), Op::Interval(None), Op::Interval(Some(65535)), Op::Interval(Some(65001)), Op::Interval(Some(65536)), Op::Interval(Some(u64::MAX))];
    for i in 0..10 { v.push(Op::Flag(i, true)); } for i in [0usize, 1, 5, 9] { v.push(Op::Flag(i, false)); }
    v.push(Op::Other(0)); v.push(Op::Other(2));
    v
}

/// what connect_* really sends: (first bytes received by a loopback peer within a short wait)
fn connect_case(udp: bool, local: bool, compressed: bool, blocking: bool, ops_extra: &[Op], st: &mut Stats) {
    let id = format!("connect udp={udp} local={local} {} blocking={blocking} {}", mode_tag(compressed), ops_extra.iter().map(tok).collect::<Vec<_>>().join(" "));
    let rt = tokio::runtime::Builder::new_current_thread().enable_all().build().unwrap();
    // the size mode is configured FIRST, then the other options (which may include a detour through relay() / another protocol), then the
    // final tcp()/udp(): the mode configured must be the mode of the frame the peer receives, whatever came in between
    let mut b = Builder::new();
    b = if compressed { b.compressed() } else { b.uncompressed() };
    for o in ops_extra { if !matches!(o, Op::Mode(_)) { b = apply(b, o); } }
    let res: Option<(Vec<u8>, Vec<u8>)> = guard(|| {
        if udp {
            let server = UdpSocket::bind("127.0.0.1:0").ok()?; server.set_read_timeout(Some(Duration::from_millis(1500))).ok()?;
            let lsock = UdpSocket::bind("127.0.0.1:0").ok()?; let laddr = lsock.local_addr().ok()?; drop(lsock);
            let bb = b.udp(server.local_addr().ok()?, if local { Some(laddr) } else { None });
            let isi = bb.isi();
            let want = match encode_p(compressed, &Packet::Isi(isi)) { Enc::Ok(f) => f, _ => return None };
            let conn_ok = if blocking { bb.connect_blocking().is_ok() } else { rt.block_on(async { bb.connect_async().await.is_ok() }) };
            if !conn_ok { return Some((vec![], want)); }
            let mut buf = [0u8; 2048]; let n = server.recv(&mut buf).ok()?;
            let mut got = buf[..n].to_vec();
            server.set_read_timeout(Some(Duration::from_millis(150))).ok()?;
            if let Ok(m) = server.recv(&mut buf) { got.extend_from_slice(b"|second datagram|"); got.extend_from_slice(&buf[..m]); }
            Some((got, want))
        } else {
            let l = TcpListener::bind("127.0.0.1:0").ok()?;
            let bb = b.tcp(l.local_addr().ok()?);
            let want = match encode_p(compressed, &Packet::Isi(bb.isi())) { Enc::Ok(f) => f, _ => return None };
            let h = std::thread::spawn(move || { let (mut s, _) = l.accept().ok()?; s.set_read_timeout(Some(Duration::from_millis(400))).ok()?; let mut got = vec![]; let mut buf = [0u8; 2048]; loop { match s.read(&mut buf) { Ok(0) => break, Ok(n) => got.extend_from_slice(&buf[..n]), Err(_) => break } } Some(got) });
            let conn = if blocking { bb.connect_blocking().ok().map(|_c| { std::thread::sleep(Duration::from_millis(450)); }) } else { rt.block_on(async { let c = bb.connect_async().await.ok(); tokio::time::sleep(Duration::from_millis(450)).await; c.map(|_| ()) }) };
            let got = h.join().ok()??;
            if conn.is_none() { return Some((vec![], want)); }
            Some((got, want))
        }
    }).flatten();
    st.evaluations += 1; st.distinct_nontrivial += 1;
    match res {
        None => st.fail("[C18] connecting panics or the loopback peer could not be set up".into(), id),
        Some((got, want)) => if got != want { st.fail(format!("[C18] the peer received {} but the ISI frame is {}", hex(&got), hex(&want)), id) },
    }
}

pub fn run(a: &Args) {
    if let Some(r) = &a.replay {
        let mut st = Stats::default();
        if r.starts_with("connect") { let t: Vec<&str> = r.split_whitespace().collect(); connect_case(t[1] == "udp=true", t[2] == "local=true", t[3] == "C", t[4] == "blocking=true", &t[5..].iter().map(|x| parse_tok(x)).collect::<Vec<_>>(), &mut st); }
        else { let ops: Vec<Op> = r.split_whitespace().map(parse_tok).collect(); let o = check(&ops, &mut st); println!("{o}"); }
        if st.failures_total > 0 { println!("FAIL {}", st.failures[0].1); std::process::exit(1) } else { println!("PASS"); return }
    }
    let mut rng = Rng::new(a.seed);
    let mut st = Stats::default(); let mut out = Out::new(&a.out);
    let al = alphabet(); let n = al.len();
    // exhaustive short sequences
    let depth = if a.thorough() { 4 } else { 3 };
    for d in 0..=depth { let total = n.pow(d as u32); for code in 0..total {
        if d == 4 && code % 7 != 0 { continue; }
        let mut c = code; let mut ops = vec![]; for _ in 0..d { ops.push(al[c % n].clone()); c /= n; }
        let o = check(&ops, &mut st); st.evaluations += 1; if d >= 2 { st.distinct_nontrivial += 1; }
        if code % (if d >= 3 { 11 } else { 1 }) == 0 { out.case(&format!("builder {}", ops.iter().map(tok).collect::<Vec<_>>().join(" ")), &o); }
    } }
    st.exhaustive.push(format!("all setter sequences of length <= {} over a {}-call alphabet (every flag setter on, several off, wholesale flags, present/absent prefix/interval/name/password/reqi, tcp/udp with and without local address/relay, both modes)", depth.min(3), n));
    // random long sequences with random arguments
    for _ in 0..(if a.thorough() { 50_000 } else { 5_000 }) {
        let len = rng.range(4, 30) as usize;
        let ops: Vec<Op> = (0..len).map(|_| match rng.below(12) { 0 => Op::Flags(rng.next() as u16 & 0x0fff), 1 => Op::Reqi(rng.byte()), 2 => Op::Interval(Some(rng.below(65536))), 3 => Op::Udp(if rng.chance(1, 2) { Some(rng.range(1, 65535) as u16) } else { None }), 4 => Op::Flag(rng.below(10) as usize, rng.chance(1, 2)), 5 => Op::Prefix(Some(if rng.chance(1, 3) { (rng.range(0xa1, 0xff) as u8) as char } else { (rng.range(33, 126) as u8) as char })), 6 => Op::Admin(Some(String::from_utf8({ let l = *rng.pick(&[0usize, 1, 10, 15, 16, 17, 24]); crate::layout::ascii_text(&mut rng, l) }).unwrap())), 7 => Op::Iname(Some(String::from_utf8({ let l = *rng.pick(&[0usize, 1, 14, 15, 16, 17, 24]); crate::layout::ascii_text(&mut rng, l) }).unwrap())), _ => rng.pick(&al).clone() }).collect();
        let o = check(&ops, &mut st); st.evaluations += 1; st.distinct_nontrivial += 1;
        out.case(&format!("builder {}", ops.iter().map(tok).collect::<Vec<_>>().join(" ")), &o);
    }
    // what is actually sent: tcp/udp x local address x mode x blocking/tokio, with a few option sets
    for udp in [false, true] { for local in [false, true] { if !udp && local { continue; } for compressed in [true, false] { for blocking in [true, false] {
        for extra in [vec![], vec![Op::Flag(0, true), Op::Reqi(9), Op::Iname(Some("verif".into())), Op::Admin(Some("pw".into())), Op::Interval(Some(250)), Op::Prefix(Some('!'))],
                      vec![Op::Relay], vec![Op::Relay, Op::Reqi(3), Op::Udp(Some(40001)), Op::Tcp], vec![Op::Udp(None), Op::Relay, Op::Flag(4, true)],
                      // relay options configured, then the connection is made directly: nothing of them reaches the wire
                      vec![Op::Other(0)], vec![Op::Relay, Op::Other(0), Op::Other(1), Op::Other(2)], vec![Op::Other(2), Op::Other(3), Op::Other(4), Op::Reqi(1)]] {
            connect_case(udp, local, compressed, blocking, &extra, &mut st);
        }
    } } } }
    st.rule = "real Builder: every setter sequence of bounded length over a call alphabet + random long sequences, ISI fields compared with an independent last-set-or-default specification, isi() under catch_unwind; real connect_blocking / connect_async against loopback TCP / UDP peers (tcp, udp with and without local address, both modes): the peer must receive exactly the ISI frame and nothing else".into();
    st.sample("builder flag:0:1 udp:none reqi:7 -> C ok:0b0107000000200009...".into());
    { let c1 = crate::conv::sync_conversations("C18", a, &mut rng, "ka", &mut st, &mut out); st.distinct_nontrivial += c1.distinct.len() as u64; }
    out.finish(&st);
}
