"""Small fail-closed helpers for reading Rust declarations (no guessing: raise on anything unknown)."""
import re

class TranslateError(Exception):
    pass

def strip_comments(s):
    """remove // line comments (incl. doc comments) and /* */ blocks, respecting string/char literals"""
    out = []
    i = 0
    n = len(s)
    while i < n:
        c = s[i]
        if c == '"':
            j = i + 1
            while j < n and s[j] != '"':
                if s[j] == '\\':
                    j += 1
                j += 1
            out.append(s[i:j + 1]); i = j + 1; continue
        if c == 'b' and i + 1 < n and s[i + 1] == "'":
            # byte literal b'X' or b'\\'
            j = i + 2
            if s[j] == '\\':
                j += 1
            j += 1
            if j < n and s[j] == "'":
                out.append(s[i:j + 1]); i = j + 1; continue
        if c == "'" :
            # char literal 'x' or '\\' or lifetime 'a
            m = re.match(r"'(\\.|[^\\'])'", s[i:])
            if m:
                out.append(m.group(0)); i += len(m.group(0)); continue
        if s.startswith('//', i):
            j = s.find('\n', i)
            if j < 0: j = n
            i = j; continue
        if s.startswith('/*', i):
            j = s.find('*/', i)
            if j < 0: raise TranslateError('unterminated block comment')
            i = j + 2; continue
        out.append(c); i += 1
    return ''.join(out)

def match_brace(s, i, open_c='{', close_c='}'):
    """s[i] == open_c; return index of the matching close (string/char-literal aware)"""
    assert s[i] == open_c, (s[i-20:i+20])
    d = 0
    n = len(s)
    j = i
    while j < n:
        c = s[j]
        if c == '"':
            j += 1
            while j < n and s[j] != '"':
                if s[j] == '\\': j += 1
                j += 1
        elif c == "'":
            m = re.match(r"'(\\.|[^\\'])'", s[j:])
            if m: j += len(m.group(0)) - 1
        elif c == open_c: d += 1
        elif c == close_c:
            d -= 1
            if d == 0: return j
        j += 1
    raise TranslateError('unbalanced braces')

def strip_test_mods(s):
    """remove every `#[cfg(test)] mod NAME { ... }` (anywhere in the file)"""
    while True:
        m = re.search(r'#\[cfg\(test\)\]\s*mod\s+\w+\s*\{', s)
        if not m: return s
        j = match_brace(s, m.end() - 1)
        s = s[:m.start()] + s[j + 1:]

def load(path):
    return strip_test_mods(strip_comments(open(path, encoding='utf-8').read()))

def find_block(s, header_re):
    """find `header_re ... {` and return the body between the braces"""
    m = re.search(header_re, s)
    if not m: raise TranslateError('not found: ' + header_re)
    i = s.index('{', m.end() - 1) if s[m.end() - 1] != '{' else m.end() - 1
    j = match_brace(s, i)
    return s[i + 1:j]

def norm_ws(s):
    return re.sub(r'\s+', ' ', s).strip()

def byte_lit(tok):
    tok = tok.strip()
    m = re.fullmatch(r"b'(\\?.)'", tok)
    if m:
        ch = m.group(1)
        if ch.startswith('\\'):
            esc = {'\\0': 0, '\\n': 10, '\\\\': 92, "\\'": 39, '\\t': 9, '\\r': 13}
            if ch not in esc: raise TranslateError('byte escape ' + tok)
            return esc[ch]
        return ord(ch)
    m = re.fullmatch(r'(\d+)(_?u8)?', tok)
    if m: return int(m.group(1))
    m = re.fullmatch(r'0x([0-9a-fA-F]+)(_?u8)?', tok)
    if m: return int(m.group(1), 16)
    raise TranslateError('byte literal ' + tok)

def coq_list(xs):
    return '[' + '; '.join(str(x) for x in xs) + ']'

def coq_str_bytes(s):
    return coq_list([ord(c) for c in s])
