Require Import Base.Bytes Net.Frame Net.FrameProofs Net.Framed Net.FramedProofs Net.Async Net.NoHoldBack Net.Adaptor Net.AdaptorSession Net.Concrete Gen.NetConsts.
Require Import Props.C08.
Local Open Scope N_scope.
Check c08_session_intact :
  forall (packet : Type) (parse : bytes -> res packet) (ver_of : packet -> option N)
         (is_keepalive : packet -> bool) (version : N) (m : mode) (verify : bool) (pong : bytes),
  (forall b, parse b <> Panic) ->
  forall scratch (dgs : list (list bytes)) sizes fuel,
    Forall (fun fs => fs <> [] /\ Forall (wf_frame m) fs) dgs ->
    Forall (fun fs => (length (concat fs) <= scratch)%nat) dgs ->
    let items := udp_items scratch (map (@concat N) dgs) in
    (weight items <= length sizes)%nat ->
    let es := fst (fst (serve true sizes [] items)) in
    (length (concat dgs) + length es < fuel)%nat ->
    filter (keep packet) (session packet parse ver_of is_keepalive version m verify pong fuel [] (es ++ [Eof]))
      = concat (map (expected_frame packet parse ver_of is_keepalive version verify pong) (concat dgs)) ++ [Ret RDisconnected].
Check c08_buffered_frame_is_served_without_more_input :
  forall (packet : Type) (parse : bytes -> res packet) (ver_of : packet -> option N)
         (is_keepalive : packet -> bool) (version : N) (m : mode) (verify : bool) (pong : bytes),
  (forall b, parse b <> Panic) ->
  forall f rest tr, wf_frame m f ->
    read packet parse ver_of is_keepalive version m verify pong (f ++ rest) tr
      = (expected_frame packet parse ver_of is_keepalive version verify pong f, rest, tr).
Check c08_buffered_frame_is_served_without_more_input_async :
  forall (packet : Type) (parse : bytes -> res packet) (ver_of : packet -> option N)
         (is_keepalive : packet -> bool) (version : N) (m : mode) (verify : bool) (pong : bytes),
  (forall b, parse b <> Panic) ->
  forall f rest (s : fstate packet) rs ws, wf_frame m f ->
    fbuf s = f ++ rest -> pend_w s = [] -> pend_p s = None ->
    let '(o, s', rs', ws', w) := poll_from packet parse ver_of is_keepalive version m verify pong Top s rs ws in
    rs' = rs /\ o <> PPending InRead.
Check c08_adaptor_loses_nothing : forall eof sizes buf items,
  no_end items = true -> (eof = true -> no_empty items = true) ->
  let '(es, buf', items') := serve eof sizes buf items in
  Forall chunk_ok es /\ buf ++ payload items = data_of es ++ buf' ++ payload items'.
Check c08_adaptor_drains : forall eof sizes buf items,
  no_end items = true -> (eof = true -> no_empty items = true) ->
  (length buf + weight items <= length sizes)%nat ->
  let '(es, buf', items') := serve eof sizes buf items in buf' = [] /\ payload items' = [].
Check c08_scratch_holds_max_datagram : udp_scratch_ok = true.
Check c08_direct_receive_refuted : exists d c, direct_recv d c <> d.
Check c08_direct_receive_intact_only_if_fits : forall d c, (length d <= S c)%nat -> direct_recv d c = d.
Check c08_write_is_one_datagram : forall frame, frame <> [] ->
  fst (awrite frame) = [IBytes frame] /\
  write_all [WAccept (pred (snd (awrite frame)))] frame = (frame, WOk, []).
Check c08_model_state_is_the_struct : state_tied = true.
Print Assumptions c08_session_intact.
Print Assumptions c08_buffered_frame_is_served_without_more_input.
Print Assumptions c08_buffered_frame_is_served_without_more_input_async.
Print Assumptions c08_adaptor_loses_nothing.
Print Assumptions c08_adaptor_drains.
Print Assumptions c08_scratch_holds_max_datagram.
Print Assumptions c08_direct_receive_refuted.
Print Assumptions c08_direct_receive_intact_only_if_fits.
Print Assumptions c08_write_is_one_datagram.
Print Assumptions c08_model_state_is_the_struct.
