(* Text/CodepageRoundtrip.v — C10 round trip (and the heart of the C12 wire composition):
   to_lossy_string (to_lossy_bytes s) = s for every string the encoder handles, for all lengths, all
   orders of codepage switches, WITH carets: escaped carets, colour codes (incl. ^8, which resets the
   codepage and is kept in the text) and any other caret that does not itself spell a codepage marker.
   Since the marker scan of the decoder reads left to right (68d499a) neither a double-byte character
   whose second byte is 0x5E nor an escaped caret before a letter is taken for a marker, so the two
   former known classes are inside the theorem.
   The code tables are an oracle constrained by named hypotheses (validated exhaustively on encoding_rs
   by the harness and the model driver). *)
Require Import Coq.Strings.String.
Require Import Base.Bytes Gen.TextTab Text.Escape Text.EscapeProofs Text.Codepage Text.CodepageProofs.
Require Import Lia.
Local Open Scope N_scope.

(* table facts about the generated letter set *)
Definition letters_ok : bool :=
  forallb is_ascii gen_codepage_letters && negb (is_letter caret) && negb (is_letter qmark) &&
  forallb is_letter gen_search_order && negb (existsb (N.eqb gen_propagate_letter) gen_search_order) && is_ascii caret &&
  (* lead bytes are never ASCII, and ^8 has the default codepage's lead bytes *)
  forallb (fun e => forallb (fun r => 128 <=? fst r) (snd e)) gen_lead_ranges &&
  match nassoc gen_propagate_letter gen_codepage_tab, nassoc gen_default_codepage gen_codepage_tab with
  | Some a, Some b => String.eqb a b | _, _ => false end.
Lemma letters_hold : letters_ok = true. Proof. vm_compute. reflexivity. Qed.

Lemma letter_is_ascii b : is_letter b = true -> is_ascii b = true.
Proof.
  intros H. pose proof letters_hold as T. unfold letters_ok in T.
  do 7 (apply andb_prop in T as [T _]). rewrite forallb_forall in T.
  unfold is_letter in H. apply existsb_exists in H as [x [Hin Hx]]. apply N.eqb_eq in Hx. subst x. exact (T _ Hin).
Qed.
Lemma caret_not_letter : is_letter caret = false.
Proof. pose proof letters_hold as T. unfold letters_ok in T. do 6 (apply andb_prop in T as [T _]).
       apply andb_prop in T as [_ T]. apply negb_true_iff in T. exact T. Qed.
Lemma qmark_not_letter : is_letter qmark = false.
Proof. pose proof letters_hold as T. unfold letters_ok in T. do 5 (apply andb_prop in T as [T _]).
       apply andb_prop in T as [_ T]. apply negb_true_iff in T. exact T. Qed.
Lemma caret_ascii : is_ascii caret = true.
Proof. pose proof letters_hold as T. unfold letters_ok in T. do 2 (apply andb_prop in T as [T _]).
       apply andb_prop in T as [_ T]. exact T. Qed.
Lemma search_order_letters : forallb is_letter gen_search_order = true.
Proof. pose proof letters_hold as T. unfold letters_ok in T. do 4 (apply andb_prop in T as [T _]).
       apply andb_prop in T as [_ T]. exact T. Qed.
Lemma prop_not_searched : existsb (N.eqb gen_propagate_letter) gen_search_order = false.
Proof. pose proof letters_hold as T. unfold letters_ok in T. do 3 (apply andb_prop in T as [T _]).
       apply andb_prop in T as [_ T]. apply negb_true_iff in T. exact T. Qed.
Lemma high_not_letter b : 128 <= b -> is_letter b = false.
Proof.
  intros H. destruct (is_letter b) eqn:E; [|reflexivity]. apply letter_is_ascii in E.
  unfold is_ascii in E. apply N.ltb_lt in E. lia.
Qed.
Lemma high_not_caret b : 128 <= b -> is_caret b = false.
Proof. intros H. unfold is_caret. apply N.eqb_neq. intros ->. vm_compute in H. apply H. reflexivity. Qed.

Lemma lead_ascii l b : is_ascii b = true -> lead l b = false.
Proof.
  intros Hb. unfold is_ascii in Hb. apply N.ltb_lt in Hb.
  pose proof letters_hold as T. unfold letters_ok in T. apply andb_prop in T as [T _]. apply andb_prop in T as [_ T].
  rewrite forallb_forall in T. unfold lead.
  destruct (nassoc l gen_codepage_tab) as [nm|]; [|reflexivity].
  destruct (sassoc nm gen_lead_ranges) as [rs|] eqn:E; [|reflexivity].
  assert (Hin : In (nm, rs) gen_lead_ranges).
  { clear -E. induction gen_lead_ranges as [|[k x] r IH]; cbn [sassoc] in E; [discriminate|].
    destruct (String.eqb nm k) eqn:Ek; [apply String.eqb_eq in Ek; inversion E; subst; left; reflexivity|right; apply IH; exact E]. }
  specialize (T _ Hin). cbn [snd] in T. rewrite forallb_forall in T.
  apply Bool.not_true_iff_false. intros H. apply existsb_exists in H as [r [Hr Hb2]].
  specialize (T _ Hr). apply N.leb_le in T. apply andb_prop in Hb2 as [H1 _]. apply N.leb_le in H1. lia.
Qed.
Lemma lead_prop b : lead gen_propagate_letter b = lead gen_default_codepage b.
Proof.
  pose proof letters_hold as T. unfold letters_ok in T. apply andb_prop in T as [_ T]. unfold lead.
  destruct (nassoc gen_propagate_letter gen_codepage_tab) as [a|]; [|discriminate].
  destruct (nassoc gen_default_codepage gen_codepage_tab) as [b'|]; [|discriminate].
  apply String.eqb_eq in T. subst. reflexivity.
Qed.


Section RT.
  Variable enc : N -> N -> option (list N).
  Variable dec : N -> list N -> list N.
  Notation enc_from := (enc_from enc).
  Notation dls := (dls dec).

  (* table oracle hypotheses *)
  Hypothesis enc_shape : forall l c w, enc l c = Some w ->
    exists b1, 128 <= b1 /\ (w = [b1] \/ exists b2, w = [b1; b2]).
  Hypothesis dec_nil : forall l, dec l [] = [].
  Hypothesis dec_ascii_cons : forall l b r, is_ascii b = true -> dec l (b :: r) = b :: dec l r.
  Hypothesis dec_enc_app : forall l c w r, enc l c = Some w -> dec l (w ++ r) = c :: dec l r.
  (* the lead-byte classification of the scanner agrees with the tables *)
  Hypothesis enc_two_lead : forall l c b1 b2, enc l c = Some [b1; b2] -> lead l b1 = true.
  Hypothesis enc_one_nolead : forall l c b1, enc l c = Some [b1] -> lead l b1 = false.
  (* ^8 selects the default codepage's table *)
  Hypothesis dec_prop : forall bs, dec gen_propagate_letter bs = dec gen_default_codepage bs.

  Lemma search_letter cands cur c k w : forallb is_letter cands = true ->
    search enc cands cur c = Some (k, w) -> is_letter k = true /\ enc k c = Some w /\ In k cands.
  Proof.
    induction cands as [|x t IH]; cbn [search forallb]; [discriminate|].
    intros H. apply andb_prop in H as [Hx Ht].
    destruct (x =? cur).
    - intros Hs. destruct (IH Ht Hs) as [A [B C]]. repeat split; auto. right. exact C.
    - destruct (enc x c) as [w'|] eqn:E.
      + intros [= -> ->]. repeat split; auto. left. reflexivity.
      + intros Hs. destruct (IH Ht Hs) as [A [B C]]. repeat split; auto. right. exact C.
  Qed.

  (* ---- decoder's codepage d vs encoder's codepage e: equal, or ^8 vs the default ---- *)
  Definition R (d e : N) : Prop := d = e \/ (d = gen_propagate_letter /\ e = gen_default_codepage).
  Lemma dec_R d e bs : R d e -> dec d bs = dec e bs.
  Proof. intros [->|[-> ->]]; [reflexivity|apply dec_prop]. Qed.
  Lemma lead_R d e b : R d e -> lead d b = lead e b.
  Proof. intros [->|[-> ->]]; [reflexivity|apply lead_prop]. Qed.

  (* ---- how the decoder consumes what the encoder emits ---- *)
  Lemma dls_push_plain cur acc b t : is_caret b = false -> lead cur b = false ->
    dls cur acc (b :: t) = dls cur (b :: acc) t.
  Proof. intros Hc Hl. destruct t as [|l t']; cbn [Codepage.dls]; [reflexivity|]. rewrite Hc, Hl. reflexivity. Qed.

  Lemma dls_unit d e acc c w rest : R d e -> enc e c = Some w ->
    dls d acc (w ++ rest) = dls d (rev w ++ acc) rest.
  Proof.
    intros HR E. destruct (enc_shape _ _ _ E) as [b1 [Hb [->|[b2 ->]]]]; cbn [app rev].
    - apply dls_push_plain; [apply high_not_caret; exact Hb|]. rewrite (lead_R _ _ _ HR). eapply enc_one_nolead. exact E.
    - cbn [Codepage.dls]. rewrite (high_not_caret _ Hb), (lead_R _ _ _ HR), (enc_two_lead _ _ _ _ E). reflexivity.
  Qed.

  (* invariant: [pre] are pending bytes of codepage cur that decode, followed by anything, to [p] *)
  Definition pending (cur : N) (pre p : list N) : Prop := forall X, dec cur (pre ++ X) = p ++ dec cur X.
  Lemma pending_nil cur : pending cur [] [].
  Proof. intros X. reflexivity. Qed.
  Lemma pending_ascii cur pre p b : pending cur pre p -> is_ascii b = true -> pending cur (pre ++ [b]) (p ++ [b]).
  Proof. intros H Hb X. rewrite <- !app_assoc. cbn [app]. rewrite H, dec_ascii_cons by exact Hb. reflexivity. Qed.
  Lemma pending_unit d e pre p c w : R d e -> pending d pre p -> enc e c = Some w -> pending d (pre ++ w) (p ++ [c]).
  Proof.
    intros HR H E X. rewrite <- !app_assoc. cbn [app]. rewrite H. f_equal.
    rewrite !(dec_R _ _ _ HR). apply dec_enc_app. exact E.
  Qed.
  Lemma pending_done cur pre p : pending cur pre p -> dec cur pre = p.
  Proof. intros H. specialize (H []). rewrite !app_nil_r, dec_nil, app_nil_r in H. exact H. Qed.

  (* ---- the strings the encoder handles: every non-ASCII character is found in some codepage, a caret
          that is not the second half of an escaped caret is not followed by a codepage letter other than
          the one kept in the text (^8), nor by a character that needs a codepage switch ---- *)
  Fixpoint safe (cur : N) (after : bool) (s : list N) : bool :=
    match s with
    | [] => true
    | c :: t =>
        if is_ascii c then
          (if after && is_letter c then c =? gen_propagate_letter else true) &&
          safe (if after && is_letter c then follow c else cur) (negb after && is_caret c) t
        else match enc cur c with
             | Some _ => safe cur false t
             | None => match search enc gen_search_order cur c with
                       | Some (k, _) => negb after && safe k false t
                       | None => false
                       end
             end
    end.

  Lemma enc_from_nonascii_after cur c t : is_ascii c = false ->
    enc_from cur true (c :: t) = enc_from cur false (c :: t).
  Proof. intros H. cbn [Codepage.enc_from]. rewrite H. reflexivity. Qed.

  Theorem dls_enc_from : forall n s e d pre p, (length s <= n)%nat ->
    R d e -> safe e false s = true -> pending d pre p ->
    dls d (rev pre) (enc_from e false s) = p ++ s.
  Proof.
    induction n as [|n IH]; intros s e d pre p Hlen HR Hs Hp.
    { destruct s; [|cbn in Hlen; lia]. cbn [Codepage.enc_from Codepage.dls]. rewrite rev_involutive, app_nil_r.
      apply pending_done. exact Hp. }
    destruct s as [|c t].
    { cbn [Codepage.enc_from Codepage.dls]. rewrite rev_involutive, app_nil_r. apply pending_done. exact Hp. }
    cbn [length] in Hlen. cbn [safe] in Hs. cbn [Codepage.enc_from].
    destruct (is_ascii c) eqn:Ha.
    - (* ASCII *)
      cbn [andb negb] in Hs |- *. destruct (is_caret c) eqn:Hc.
      + (* a caret: look at what follows in the source *)
        apply N.eqb_eq in Hc. subst c.
        destruct t as [|dch t'].
        * (* last character *)
          cbn [Codepage.enc_from Codepage.dls]. cbn [rev]. rewrite rev_involutive.
          rewrite (pending_done _ _ _ (pending_ascii _ _ _ _ Hp caret_ascii)). reflexivity.
        * cbn [safe] in Hs. cbn [Codepage.enc_from].
          destruct (is_ascii dch) eqn:Had.
          -- cbn [andb] in Hs |- *. destruct (is_letter dch) eqn:Hld.
             ++ (* ^ + codepage letter: only ^8, which both sides treat as a marker that stays in the text *)
                apply andb_prop in Hs as [Hp8 Hs]. apply N.eqb_eq in Hp8. subst dch.
                assert (Hnc : is_caret gen_propagate_letter = false).
                { destruct (is_caret gen_propagate_letter) eqn:E; [|reflexivity]. apply N.eqb_eq in E.
                  rewrite E in Hld. rewrite caret_not_letter in Hld. discriminate. }
                rewrite Hnc in Hs |- *. cbn [negb andb] in Hs |- *.
                rewrite (dls_cons2 dec). replace (is_caret caret) with true by (symmetry; apply N.eqb_refl).
                rewrite Hld, N.eqb_refl. rewrite rev_involutive, (pending_done _ _ _ Hp).
                unfold follow in Hs |- *. rewrite N.eqb_refl in Hs |- *.
                assert (Hi : dls gen_propagate_letter (rev []) (enc_from gen_default_codepage false t') = [] ++ t').
                { apply (IH t' gen_default_codepage gen_propagate_letter [] []); [cbn [length] in Hlen; lia|right; split; reflexivity|exact Hs|apply pending_nil]. }
                cbn [rev app] in Hi. rewrite Hi. reflexivity.
             ++ destruct (is_caret dch) eqn:Hcd.
                ** (* escaped caret ^^: a pair for both *)
                   apply N.eqb_eq in Hcd. subst dch. cbn [negb andb] in Hs |- *.
                   rewrite (dls_cons2 dec). replace (is_caret caret) with true by (symmetry; apply N.eqb_refl).
                   rewrite caret_not_letter.
                   replace (caret :: caret :: rev pre) with (rev ((pre ++ [caret]) ++ [caret])) by (rewrite !rev_app_distr; reflexivity).
                   rewrite (IH t' e d ((pre ++ [caret]) ++ [caret]) ((p ++ [caret]) ++ [caret])); [|cbn [length] in Hlen; lia|exact HR|exact Hs|].
                   { rewrite <- !app_assoc. reflexivity. }
                   apply pending_ascii; [apply pending_ascii; [exact Hp|apply caret_ascii]|apply caret_ascii].
                ** (* ^ + another ASCII character: the caret is pushed, the character is handled next *)
                   cbn [negb andb] in Hs |- *.
                   rewrite (dls_cons2 dec). replace (is_caret caret) with true by (symmetry; apply N.eqb_refl).
                   rewrite Hld, Hcd.
                   replace (caret :: rev pre) with (rev (pre ++ [caret])) by (rewrite rev_app_distr; reflexivity).
                   assert (E1 : dch :: enc_from e false t' = enc_from e false (dch :: t')).
                   { cbn [Codepage.enc_from]. rewrite Had, Hcd. reflexivity. }
                   rewrite E1.
                   rewrite (IH (dch :: t') e d (pre ++ [caret]) (p ++ [caret])); [|cbn [length] in Hlen |- *; lia|exact HR| |apply pending_ascii; [exact Hp|apply caret_ascii]].
                   { rewrite <- app_assoc. reflexivity. }
                   cbn [safe]. rewrite Had, Hcd. cbn [andb negb]. exact Hs.
          -- (* ^ + a non-ASCII character: it must be encodable without a switch *)
             destruct (enc e dch) as [w|] eqn:Ee.
             ++ destruct (enc_shape _ _ _ Ee) as [b1 [Hb Hw]].
                assert (Hfirst : exists r, w ++ enc_from e false t' = b1 :: r).
                { destruct Hw as [->|[b2 ->]]; eexists; reflexivity. }
                destruct Hfirst as [r Hr]. rewrite Hr. rewrite (dls_cons2 dec).
                replace (is_caret caret) with true by (symmetry; apply N.eqb_refl).
                rewrite (high_not_letter _ Hb), (high_not_caret _ Hb). rewrite <- Hr.
                replace (caret :: rev pre) with (rev (pre ++ [caret])) by (rewrite rev_app_distr; reflexivity).
                assert (E1 : w ++ enc_from e false t' = enc_from e false (dch :: t')).
                { cbn [Codepage.enc_from]. rewrite Had, Ee. reflexivity. }
                rewrite E1.
                rewrite (IH (dch :: t') e d (pre ++ [caret]) (p ++ [caret])); [|cbn [length] in Hlen |- *; lia|exact HR| |apply pending_ascii; [exact Hp|apply caret_ascii]].
                { rewrite <- app_assoc. reflexivity. }
                cbn [safe]. rewrite Had, Ee. exact Hs.
             ++ destruct (search enc gen_search_order e dch) as [[k w]|]; [|discriminate]. cbn [negb andb] in Hs. discriminate.
      + (* plain ASCII *)
        cbn [negb andb] in Hs |- *.
        rewrite dls_push_plain by (try exact Hc; apply lead_ascii; exact Ha).
        replace (c :: rev pre) with (rev (pre ++ [c])) by (rewrite rev_app_distr; reflexivity).
        rewrite (IH t e d (pre ++ [c]) (p ++ [c])); [|lia|exact HR|exact Hs|apply pending_ascii; assumption].
        rewrite <- app_assoc. reflexivity.
    - (* non-ASCII *)
      destruct (enc e c) as [w|] eqn:E.
      + rewrite (dls_unit d e (rev pre) c w _ HR E).
        replace (rev w ++ rev pre) with (rev (pre ++ w)) by (rewrite rev_app_distr; reflexivity).
        rewrite (IH t e d (pre ++ w) (p ++ [c])); [|lia|exact HR|exact Hs|eapply pending_unit; eassumption].
        rewrite <- app_assoc. reflexivity.
      + destruct (search enc gen_search_order e c) as [[k w]|] eqn:Es; [|discriminate].
        cbn [negb andb] in Hs.
        destruct (search_letter _ _ _ _ _ search_order_letters Es) as [Hk [Ek Hin]].
        (* the encoder's own marker *)
        rewrite (dls_cons2 dec).
        replace (is_caret caret) with true by (symmetry; apply N.eqb_refl). rewrite Hk.
        assert (k =? gen_propagate_letter = false) as Hnp.
        { apply N.eqb_neq. intros ->. pose proof prop_not_searched as Tp.
          assert (existsb (N.eqb gen_propagate_letter) gen_search_order = true) by
            (apply existsb_exists; exists gen_propagate_letter; split; [exact Hin|apply N.eqb_refl]).
          congruence. }
        rewrite Hnp. cbn [app]. rewrite rev_involutive, (pending_done _ _ _ Hp).
        rewrite (dls_unit k k [] c w _ (or_introl eq_refl) Ek). rewrite app_nil_r.
        replace (rev w) with (rev ([] ++ w)) by reflexivity.
        rewrite (IH t k k ([] ++ w) ([] ++ [c])); [|lia|left; reflexivity|exact Hs|eapply pending_unit; [left; reflexivity|apply pending_nil|exact Ek]].
        reflexivity.
  Qed.

  (* C10 *)
  Theorem roundtrip s : safe gen_default_codepage false s = true ->
    to_lossy_string dec (to_lossy_bytes enc s) = s.
  Proof.
    intros Hs. rewrite to_lossy_bytes_is_enc_from. unfold to_lossy_string.
    pose proof (dls_enc_from (length s) s gen_default_codepage gen_default_codepage [] [] (le_n _) (or_introl eq_refl) Hs (pending_nil _)) as H.
    cbn [rev app] in H.
    destruct (enc_from gen_default_codepage false s) eqn:E; [|exact H].
    cbn [Codepage.dls rev] in H. rewrite dec_nil in H. exact H.
  Qed.

  (* a simple sufficient condition: no caret at all, every non-ASCII character encodable somewhere
     (no condition on trail bytes any more) *)
  Definition encodable (c : N) : Prop := is_ascii c = true \/ forall cur, enc cur c <> None \/ search enc gen_search_order cur c <> None.

  Theorem safe_caret_free s : forall cur,
    Forall (fun c => is_caret c = false /\ encodable c) s -> safe cur false s = true.
  Proof.
    induction s as [|c t IH]; intros cur Hall; [reflexivity|].
    inversion Hall as [|? ? [Hnc Henc] Ht]; subst. cbn [safe].
    destruct (is_ascii c) eqn:Ha; [rewrite Hnc; cbn [negb andb]; apply IH; exact Ht|].
    destruct Henc as [Habs|Henc]; [congruence|].
    destruct (enc cur c) as [w|] eqn:E; [apply IH; exact Ht|].
    destruct (Henc cur) as [H|H]; [congruence|].
    destruct (search enc gen_search_order cur c) as [[k w]|] eqn:Es; [|congruence].
    cbn [negb andb]. apply IH. exact Ht.
  Qed.
End RT.
