(* Files/Parser.v — a tiny parser-combinator model of binrw readers that only ever `take`
   fixed-width chunks whose number may depend on counts read earlier (PTH, SMX), with the
   properties every such parser has by construction: totality, locality (reads only what it
   consumes) and prefix rejection (every strict prefix of what it consumed is an error). *)
Require Import Base.Bytes.
Local Open Scope N_scope.

Definition parser (A : Type) := list N -> res (A * list N).

Definition p_ret {A} (a : A) : parser A := fun bs => Ok (a, bs).
Definition p_fail {A} : parser A := fun _ => Err.
Definition p_take (w : nat) : parser (list N) :=
  fun bs => match take w bs with Some (h, t) => Ok (h, t) | None => Err end.
Definition p_bind {A B} (p : parser A) (f : A -> parser B) : parser B :=
  fun bs => match p bs with Ok (a, r) => f a r | Err => Err | Panic => Panic end.
Fixpoint p_repeat {A} (n : nat) (p : parser A) : parser (list A) :=
  match n with
  | O => p_ret []
  | S k => p_bind p (fun a => p_bind (p_repeat k p) (fun l => p_ret (a :: l)))
  end.

(* a parser is "good" when: it never panics; whenever it succeeds it consumed a prefix c of the
   input, would succeed identically on c followed by anything else (locality), and fails on every
   strict prefix of c followed by nothing (prefix rejection) *)
Definition good {A} (p : parser A) : Prop :=
  (forall bs, p bs <> Panic) /\
  (forall bs a r, p bs = Ok (a, r) ->
     exists c, bs = c ++ r /\ (forall t, p (c ++ t) = Ok (a, t)) /\
               (forall k, (k < length c)%nat -> p (firstn k c) = Err)).

Lemma good_ret {A} (a : A) : good (p_ret a).
Proof.
  split; [intros bs; discriminate|]. intros bs a' r [= <- <-]. exists []. split; [reflexivity|].
  split; [intros t; reflexivity|]. intros k Hk. cbn in Hk. lia.
Qed.

Lemma good_fail {A} : good (@p_fail A).
Proof. split; [intros bs; discriminate|]. intros bs a r H. discriminate. Qed.

Lemma good_take w : good (p_take w).
Proof.
  split.
  - intros bs. unfold p_take. destruct (take w bs) as [[h t]|]; discriminate.
  - intros bs a r. unfold p_take. destruct (take w bs) as [[h t]|] eqn:E; [|discriminate].
    intros [= <- <-]. destruct (take_some _ _ _ _ E) as [Hb Hl]. exists h. split; [exact Hb|]. split.
    + intros t'. rewrite take_app by exact Hl. reflexivity.
    + intros k Hk. assert (take w (firstn k h) = None) as ->; [|reflexivity].
      apply take_none. rewrite firstn_length. lia.
Qed.

Lemma firstn_app_le {A} k (a b : list A) : (k <= length a)%nat -> firstn k (a ++ b) = firstn k a.
Proof. intros H. rewrite firstn_app. replace (k - length a)%nat with 0%nat by lia. cbn. apply app_nil_r. Qed.

Lemma good_bind {A B} (p : parser A) (f : A -> parser B) :
  good p -> (forall a, good (f a)) -> good (p_bind p f).
Proof.
  intros [Hp1 Hp2] Hf. split.
  - intros bs. unfold p_bind. destruct (p bs) as [[a r]| |] eqn:E; [destruct (Hf a) as [H1 _]; apply H1|discriminate|intros _; exact (Hp1 bs E)].
  - intros bs b r. unfold p_bind. destruct (p bs) as [[a r1]| |] eqn:E; try discriminate.
    intros Hfa. destruct (Hp2 _ _ _ E) as [c1 [Hb1 [Hl1 Hpre1]]].
    destruct (Hf a) as [_ Hf2]. destruct (Hf2 _ _ _ Hfa) as [c2 [Hb2 [Hl2 Hpre2]]].
    exists (c1 ++ c2). split; [rewrite Hb1, Hb2, app_assoc; reflexivity|]. split.
    + intros t. rewrite <- app_assoc, Hl1. apply Hl2.
    + intros k Hk. rewrite app_length in Hk.
      destruct (le_lt_dec (length c1) k) as [Hge|Hlt].
      * (* the first parser still sees all of c1 *)
        rewrite firstn_app. rewrite firstn_all2 by lia. rewrite Hl1. apply Hpre2. lia.
      * rewrite firstn_app_le by lia. rewrite (Hpre1 k Hlt). reflexivity.
Qed.

Lemma good_repeat {A} n (p : parser A) : good p -> good (p_repeat n p).
Proof.
  intros Hp. induction n as [|n IH]; cbn [p_repeat]; [apply good_ret|].
  apply good_bind; [exact Hp|]. intros a. apply good_bind; [exact IH|]. intros l. apply good_ret.
Qed.

(* work bound: a repeat of a parser that consumes at least w >= 1 bytes per element cannot deliver
   more elements than the input can pay for *)
Lemma repeat_bound {A} (p : parser A) (w : nat) :
  (forall bs a r, p bs = Ok (a, r) -> (length r + w <= length bs)%nat) ->
  forall n bs l r, p_repeat n p bs = Ok (l, r) -> (length l = n /\ length r + n * w <= length bs)%nat.
Proof.
  intros Hw. induction n as [|n IH]; intros bs l r; cbn [p_repeat].
  - intros [= <- <-]. cbn. lia.
  - unfold p_bind at 1. destruct (p bs) as [[a r1]| |] eqn:E; try discriminate.
    unfold p_bind. destruct (p_repeat n p r1) as [[l1 r2]| |] eqn:E2; try discriminate.
    intros [= <- <-]. destruct (IH _ _ _ E2) as [H1 H2]. pose proof (Hw _ _ _ E). cbn [length]. lia.
Qed.
