(* Builder/Builder.v — model of insim::builder::Builder as far as the handshake is concerned:
   a record, one function per setter, and isi(). Flag setters and defaults come from
   Gen/BuilderTab.v (regenerated from builder.rs / isi.rs).  No proofs here. *)
Require Import Coq.Strings.String.
Require Import Base.Bytes Gen.BuilderTab Gen.NetConsts Net.Frame.
Local Open Scope N_scope.

Inductive proto := Tcp | Udp | Relay.
Record builder := {
  b_proto : proto; b_mode : mode; b_verify : bool; b_udp_local : option N (* port *);
  b_admin : option (list N); b_flags : N; b_prefix : option N; b_interval : option N (* ms *);
  b_iname : option (list N); b_reqi : N }.

Definition default_builder : builder :=
  {| b_proto := Tcp; b_mode := Compressed; b_verify := true; b_udp_local := None;
     b_admin := None; b_flags := 0; b_prefix := None; b_interval := None; b_iname := None; b_reqi := 0 |}.

Inductive op :=
| OTcp | OUdp (local : option N) | ORelay | OMode (m : mode) | OVerify (v : bool)
| OAdmin (a : option (list N)) | OReqi (r : N) | OFlags (f : N) | OFlag (i : nat) (enabled : bool)
| OPrefix (p : option N) | OIname (n : option (list N)) | OInterval (d : option N)
(* any of the setters whose footprint (regenerated, [footprints_tied] below) is disjoint from everything the TCP / UDP handshake
   reads: relay_select_host, relay_spectator_password, relay_admin_password, relay_websocket, connect_timeout, tcp_nodelay *)
| OOther.

Definition setter_bit (i : nat) : N := match nth_error gen_flag_setters i with Some (_, b) => b | None => 0 end.
(* bitflags `set(flag, enabled)`: insert or remove *)
Definition set_flag (flags bit : N) (enabled : bool) : N :=
  if enabled then N.lor flags bit else N.ldiff flags bit.

Definition apply (b : builder) (o : op) : builder :=
  match o with
  | OTcp => {| b_proto := Tcp; b_mode := b_mode b; b_verify := b_verify b; b_udp_local := b_udp_local b; b_admin := b_admin b; b_flags := b_flags b; b_prefix := b_prefix b; b_interval := b_interval b; b_iname := b_iname b; b_reqi := b_reqi b |}
  | OUdp l => {| b_proto := Udp; b_mode := b_mode b; b_verify := b_verify b; b_udp_local := l; b_admin := b_admin b; b_flags := b_flags b; b_prefix := b_prefix b; b_interval := b_interval b; b_iname := b_iname b; b_reqi := b_reqi b |}
  | ORelay => {| b_proto := Relay; b_mode := b_mode b; b_verify := b_verify b; b_udp_local := b_udp_local b; b_admin := b_admin b; b_flags := b_flags b; b_prefix := b_prefix b; b_interval := b_interval b; b_iname := b_iname b; b_reqi := b_reqi b |}
  | OMode m => {| b_proto := b_proto b; b_mode := m; b_verify := b_verify b; b_udp_local := b_udp_local b; b_admin := b_admin b; b_flags := b_flags b; b_prefix := b_prefix b; b_interval := b_interval b; b_iname := b_iname b; b_reqi := b_reqi b |}
  | OVerify v => {| b_proto := b_proto b; b_mode := b_mode b; b_verify := v; b_udp_local := b_udp_local b; b_admin := b_admin b; b_flags := b_flags b; b_prefix := b_prefix b; b_interval := b_interval b; b_iname := b_iname b; b_reqi := b_reqi b |}
  | OAdmin a => {| b_proto := b_proto b; b_mode := b_mode b; b_verify := b_verify b; b_udp_local := b_udp_local b; b_admin := a; b_flags := b_flags b; b_prefix := b_prefix b; b_interval := b_interval b; b_iname := b_iname b; b_reqi := b_reqi b |}
  | OReqi r => {| b_proto := b_proto b; b_mode := b_mode b; b_verify := b_verify b; b_udp_local := b_udp_local b; b_admin := b_admin b; b_flags := b_flags b; b_prefix := b_prefix b; b_interval := b_interval b; b_iname := b_iname b; b_reqi := r |}
  | OFlags f => {| b_proto := b_proto b; b_mode := b_mode b; b_verify := b_verify b; b_udp_local := b_udp_local b; b_admin := b_admin b; b_flags := f; b_prefix := b_prefix b; b_interval := b_interval b; b_iname := b_iname b; b_reqi := b_reqi b |}
  | OFlag i e => {| b_proto := b_proto b; b_mode := b_mode b; b_verify := b_verify b; b_udp_local := b_udp_local b; b_admin := b_admin b; b_flags := set_flag (b_flags b) (setter_bit i) e; b_prefix := b_prefix b; b_interval := b_interval b; b_iname := b_iname b; b_reqi := b_reqi b |}
  | OPrefix p => {| b_proto := b_proto b; b_mode := b_mode b; b_verify := b_verify b; b_udp_local := b_udp_local b; b_admin := b_admin b; b_flags := b_flags b; b_prefix := p; b_interval := b_interval b; b_iname := b_iname b; b_reqi := b_reqi b |}
  | OIname n => {| b_proto := b_proto b; b_mode := b_mode b; b_verify := b_verify b; b_udp_local := b_udp_local b; b_admin := b_admin b; b_flags := b_flags b; b_prefix := b_prefix b; b_interval := b_interval b; b_iname := n; b_reqi := b_reqi b |}
  | OInterval d => {| b_proto := b_proto b; b_mode := b_mode b; b_verify := b_verify b; b_udp_local := b_udp_local b; b_admin := b_admin b; b_flags := b_flags b; b_prefix := b_prefix b; b_interval := d; b_iname := b_iname b; b_reqi := b_reqi b |}
  | OOther => b
  end.

Definition build (ops : list op) : builder := fold_left apply ops default_builder.

(* Builder::isi(): total (the fixed code no longer unwraps the local address) *)
Record isi := { i_reqi : N; i_udpport : N; i_flags : N; i_version : N; i_prefix : N; i_interval : N;
                i_admin : list N; i_iname : list N }.
Definition isi_of (b : builder) : isi :=
  {| i_reqi := b_reqi b;
     i_udpport := match b_proto b with Udp => match b_udp_local b with Some p => p | None => 0 end | _ => 0 end;
     i_flags := b_flags b; i_version := gen_version;
     i_prefix := match b_prefix b with Some p => p | None => 0 end;
     i_interval := match b_interval b with Some d => d | None => 0 end;
     i_admin := match b_admin b with Some a => a | None => [] end;
     i_iname := match b_iname b with Some n => n | None => gen_default_iname end |}.

(* ---- which fields each setter of the source assigns (regenerated: Gen/BuilderTab.v gen_setter_footprints) against what
        the model's [apply] changes: tcp -> proto (+ the address, not modelled); udp -> proto, local address; relay -> proto ONLY;
        mode -> mode (compressed / uncompressed delegate to it); every isi_* setter -> its own option; the remaining setters
        write connection options the handshake does not depend on.  A setter that starts writing a second field (e.g. the
        size mode from relay()) is behaviour the model lacks. ---- *)
Definition model_footprints : list (string * list string) := [
  ("tcp", ["proto"; "remote"]); ("udp", ["proto"; "remote"; "udp_local_address"]); ("relay", ["proto"]);
  ("relay_websocket", ["relay_websocket"]); ("connect_timeout", ["connect_timeout"]);
  ("mode", ["mode"]); ("compressed", ["->mode"]); ("uncompressed", ["->mode"]);
  ("verify_version", ["verify_version"]); ("tcp_nodelay", ["tcp_nodelay"]);
  ("relay_select_host", ["relay_select_host"]); ("relay_spectator_password", ["relay_spectator_password"]);
  ("relay_admin_password", ["relay_admin_password"]);
  ("isi_admin_password", ["isi_admin_password"]); ("isi_reqi", ["isi_reqi"]); ("isi_flags", ["isi_flags"]);
  ("isi_flag_mci", ["isi_flags"]); ("isi_flag_local", ["isi_flags"]); ("isi_flag_mso_cols", ["isi_flags"]);
  ("isi_flag_nlp", ["isi_flags"]); ("isi_flag_con", ["isi_flags"]); ("isi_flag_obh", ["isi_flags"]);
  ("isi_flag_hlv", ["isi_flags"]); ("isi_flag_axm_load", ["isi_flags"]); ("isi_flag_axm_edit", ["isi_flags"]);
  ("isi_flag_req_join", ["isi_flags"]);
  ("isi_prefix", ["isi_prefix"]); ("isi_iname", ["isi_iname"]); ("isi_interval", ["isi_interval"])
]%string.
Fixpoint strs_eqb (a b : list string) : bool :=
  match a, b with [], [] => true | x :: a', y :: b' => String.eqb x y && strs_eqb a' b' | _, _ => false end.
Fixpoint fp_eqb (a b : list (string * list string)) : bool :=
  match a, b with
  | [], [] => true
  | (n, ws) :: a', (n', ws') :: b' => String.eqb n n' && strs_eqb ws ws' && fp_eqb a' b'
  | _, _ => false
  end.
Definition footprints_tied : bool := fp_eqb gen_setter_footprints model_footprints.
