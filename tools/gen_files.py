"""insim_pth/src/lib.rs + insim_smx/src/lib.rs -> Gen/FilesTab.v : the flat field lists of every record of the
two file formats (widths, pads, text), magic numbers, and a pin of the nesting structure (which count drives
which vector, in which order)."""
import re
from rustparse import *
import gen_packets as gp

PRIM = gp.PRIM

class FSrc(gp.Src):
    def __init__(self, repo):
        self.files = {}
        for f in ['/insim_pth/src/lib.rs', '/insim_smx/src/lib.rs', '/insim_core/src/point.rs']:
            self.files[repo + f] = load(repo + f)
        self.structs = {}; self.enums = {}; self.flags = {}; self.newtypes = {}; self.consts = {}
        for f, s in self.files.items(): self.scan(f, s)

def flat(src, name):
    """[(fname, kind, width)] with nested structs inlined; vectors / counts reported separately"""
    out = []; counts = []; vecs = []
    for fname, ty, attrs in src.fields(name):
        items = gp.attr_args(attrs, None)
        pad_after = 0; br = {}; bw = {}
        for which, item in items:
            m = re.fullmatch(r'pad_after = (\d+)', item)
            if m and which == 'brw': pad_after = int(m.group(1)); continue
            m2 = re.fullmatch(r'(\w+)(?: = (.*))?', item, re.S)
            if not m2: raise TranslateError('%s.%s attribute %s' % (name, fname, item))
            if which in ('br', 'brw'): br[m2.group(1)] = norm_ws(m2.group(2) or '')
            if which in ('bw', 'brw'): bw[m2.group(1)] = norm_ws(m2.group(2) or '')
        if 'calc' in bw:
            m = re.fullmatch(r'(\w+)\.len\(\) as i32', bw['calc'])
            if not m or ty != 'i32': raise TranslateError('%s.%s calc' % (name, fname))
            out.append((fname, 'count', 4)); counts.append((fname, m.group(1)))
        elif 'count' in br:
            m = re.fullmatch(r'Vec<(\w+)>', ty)
            if not m: raise TranslateError('%s.%s count type' % (name, fname))
            vecs.append((fname, br['count'], m.group(1)))
        elif 'parse_with' in br:
            mt = re.fullmatch(r'binrw_parse_codepage_string::<(\d+), _>', br['parse_with']); mw = re.fullmatch(r'binrw_write_codepage_string::<(\d+), _>', bw.get('write_with', ''))
            if not mt or not mw or mt.group(1) != mw.group(1): raise TranslateError('%s.%s text' % (name, fname))
            out.append((fname, 'text', int(mt.group(1))))
        elif ty in PRIM: out.append((fname, 'num', PRIM[ty]))
        elif re.fullmatch(r'Point<(\w+)>', ty):
            w = PRIM[re.fullmatch(r'Point<(\w+)>', ty).group(1)]
            out += [('%s.%s' % (fname, c), 'num', w) for c in 'xyz']
        elif ty in src.structs:
            sub, c2, v2 = flat(src, ty)
            if c2 or v2: raise TranslateError('nested vec in inlined struct ' + ty)
            out += [('%s.%s' % (fname, n), k, w) for n, k, w in sub]
        else: raise TranslateError('%s.%s: type %s' % (name, fname, ty))
        if vecs and (pad_after or False) and vecs[-1][0] == fname: raise TranslateError('pad after vec')
        if pad_after: out.append(('', 'pad', pad_after))
    return out, counts, vecs

def coq_flat(fs):
    k = {'num': 'KNum', 'pad': 'KPad', 'text': 'KText', 'count': 'KCount'}
    return '[' + '; '.join('(%s, %d%%nat)' % (k[kind], w) for _, kind, w in fs) + ']'

def generate(repo):
    src = FSrc(repo)
    def magic(name):
        a = ' '.join(src.structs[name]['attrs'])
        m = re.search(r'magic = b"(\w+)"', a)
        if not m or 'little' not in a: raise TranslateError(name + ' magic/endianness')
        return m.group(1)
    pth, pc, pv = flat(src, 'Pth'); node, nc, nv = flat(src, 'Node')
    if pc != [('num_nodes', 'nodes')] or pv != [('nodes', 'num_nodes', 'Node')] or nc or nv: raise TranslateError('Pth structure %r %r' % (pc, pv))
    # the count must be followed by exactly one more field (finish_line_node) before the vector
    if [k for _, k, _ in pth] != ['num', 'num', 'count', 'num']: raise TranslateError('Pth header order ' + str(pth))
    smx, sc, sv = flat(src, 'Smx'); obj, oc, ov = flat(src, 'Object')
    pt, c1, v1 = flat(src, 'ObjectPoint'); tri, c2, v2 = flat(src, 'Triangle')
    if c1 or v1 or c2 or v2: raise TranslateError('SMX leaf structure')
    if sc != [('num_objects', 'objects'), ('num_checkpoints', 'checkpoint_object_index')] or sv != [('objects', 'num_objects', 'Object'), ('checkpoint_object_index', 'num_checkpoints', 'i32')]:
        raise TranslateError('Smx structure %r %r' % (sc, sv))
    if oc != [('num_object_points', 'points'), ('num_triangles', 'triangles')] or ov != [('points', 'num_object_points', 'ObjectPoint'), ('triangles', 'num_triangles', 'Triangle')]:
        raise TranslateError('Object structure %r %r' % (oc, ov))
    # field order pins: Smx = head..., count(objects), [objects], count(checkpoints), [checkpoints]; Object = head, count, count, [points], [triangles]
    names = [f for f, _, _ in src.fields('Smx')]
    if names[-4:] != ['num_objects', 'objects', 'num_checkpoints', 'checkpoint_object_index']: raise TranslateError('Smx field order ' + str(names))
    names = [f for f, _, _ in src.fields('Object')]
    if names[-4:] != ['num_object_points', 'num_triangles', 'points', 'triangles']: raise TranslateError('Object field order ' + str(names))
    smx_head = [x for x in smx if x[0] not in ('num_objects', 'num_checkpoints')]
    obj_head = [x for x in obj if x[0] not in ('num_object_points', 'num_triangles')]
    out = ['(* GENERATED by tools/translate.py from insim_pth/src/lib.rs and insim_smx/src/lib.rs — do not edit *)',
           'Require Import Base.Bytes.', 'Local Open Scope N_scope.', 'Inductive fkind := KNum | KPad | KText | KCount.',
           'Definition gen_pth_magic : list N := %s.' % coq_str_bytes(magic('Pth')),
           'Definition gen_smx_magic : list N := %s.' % coq_str_bytes(magic('Smx')),
           '(* Pth: version, revision, [count], finish_line_node, then the nodes *)',
           'Definition gen_pth_head : list (fkind * nat) := %s.' % coq_flat(pth),
           'Definition gen_pth_node : list (fkind * nat) := %s.' % coq_flat(node),
           '(* Smx: head, [count] objects, [count] checkpoints; Object: head, [count] [count], points, triangles *)',
           'Definition gen_smx_head : list (fkind * nat) := %s.' % coq_flat(smx_head),
           'Definition gen_smx_object_head : list (fkind * nat) := %s.' % coq_flat(obj_head),
           'Definition gen_smx_point : list (fkind * nat) := %s.' % coq_flat(pt),
           'Definition gen_smx_triangle : list (fkind * nat) := %s.' % coq_flat(tri),
           'Definition gen_smx_checkpoint : list (fkind * nat) := [(KNum, 4%nat)].', '']
    return {'FilesTab.v': '\n'.join(out)}, {'pth_node_bytes': sum(w for _, _, w in node), 'smx_point_bytes': sum(w for _, _, w in pt)}
